"""C07 — encoded arrays behave like NumPy arrays of characters.

A case is a *program*: an initial list of strings (or one string) over an encoding, then a sequence of
NumPy-style operations.  Every step is run on the real objects (bnp.as_encoded_array(...) and whatever the
previous steps returned — views of views, flattened views, copies) and its result is observed through the public
API (tolist()/to_string()/raw()/encoding, boolean masks as lists).  Coq evaluates the same program twice: with the
Spec (lists of characters, no encoding arithmetic) and with the Model (raw codes + the wrappers' encode/decode,
flat data + offsets for strops/ragged_slice) — see Corr/C07.v.
"""
import random

from harness.lib import hx, zl, cz, cbool, clist, copt

ID = 'C07'
RULE = ('(plus: every index in every spelling the API accepts — Python list / tuple / ndarray of each integer dtype / NumPy scalars / bool mask as ndarray, list of bool, list of np.bool_ — on flat, ragged, ragged-row, ravel()ed and 2-d arrays; split with separator lists in every order; '
        'also: a coverage grid of every listed operation x ragged/flat x every encoding with negative indices and empty '
        'selections; copy() of never-observed views; (non-letter member)+32 operand characters) '
        'programs of 1..6 NumPy-style steps (row/column integer, slice, mask, fancy indexing, reversal, ==/!= with '
        'character / string / list / array, item assignment through every index form, concatenate/append/insert/where, '
        'copy, ravel, str/tolist/string_array, ragged_slice, strops.split/join/str_equal) applied to '
        'bnp.as_encoded_array(list of 0..N strings | one string) over each encoding; every step is valid for the '
        'value the previous steps produced (so indexing is applied to views of views); empty rows, all-empty, single '
        'row, zero rows, negative indices, empty selections are boundary classes.  Non-trivial = at least two steps '
        'of which one indexes a value that is itself the result of an indexing step, or an assignment / comparison '
        'under a non-base encoding')
EXHAUSTIVE = {'quick': False, 'thorough': False}
TIE = 'translator+correspondence'
TIE_DETAIL = ('translator: translate/gen_c07.py regenerates the index / length arithmetic and statement shapes of strops.join, '
              'split, str_equal, _str_equal_two_encoded_ragged_arrays, util/ragged_slice.py and string_array.py into Gen/C07.v; '
              'Bridge/C07.v + C07_source_tie equate them with the helpers Model/C07.v is built from.  correspondence: the op '
              'program is evaluated in Coq by Model.C07.m_step_v on raw codes (variant [current] in Corr/C07.v) and by the Spec '
              'instance of g_step on characters; every step of the implementation is compared with both, and the Spec with '
              "Python's own list/str indexing")
ASSUMPTIONS = ['A-NPS: npstructures.RaggedArray (external library) is modelled by its list-of-rows meaning; the model is '
               'validated against it on every generated program, not verified',
               'characters are ASCII; for alphabet encodings the "corresponding Python string" is the upper-cased text '
               '(encodings are case-insensitive by design, C06)',
               'bnp.ragged_slice / a[starts:ends] mean segments of the FLATTENED text (tests/test_ragged_slice.py pins this; '
               'the docstring of bnp.ragged_slice says column-wise)',
               'assignment targets never repeat a position (NumPy leaves the order of such writes unspecified)']
PARTIAL = ['history only: C07_lookup_pinned_partial / C07_program_pinned_partial / C07_lookup_pinned_refuted are about the lookup '
           'table before the C06 repair (restricted to operand characters outside (non-letter member)+32, refuted at '
           'DigitEncoding "P"); C07_lookup / C07_program are unrestricted for the table of /repo HEAD, which the model uses',
           'history only: C07_step_pinned_partial / _refuted describe the code before fix 5b17763 (one character stored at ONE '
           'integer position raised); C07_step_repaired says the code at HEAD is the step function the theorems are about',
           'string_array(...) (op SArr) is inside the simulation theorems under the explicit hypothesis that the decoded text has '
           'no NUL (C07_step_simulation: per state; C07_program: every alphabet without NUL, C07_alphabet_nul_free); for the '
           'base encoding inside programs it is correspondence only (trailing NULs vanish in the fixed-width view)',
           'npstructures views: C07_view_* prove that the (buffer, starts, lengths, step) view model denotes the list semantics '
           'for row selection, positive-step column slices, reversal, ravel and any program of those; a general negative-step '
           'column slice is modelled as transcribed (validated by correspondence) and refuted as a Python slice '
           '(C07_view_negative_step_refuted = finding C07-nps-negstep-empty-row); the view model is itself validated against '
           'the implementation on every program (Corr.view_ok), npstructures\' code is not verified',
           'C07_model_ok_implies_spec(_ok): for linkable cases (writeable buffers, no negative-step column slice with explicit '
           'start, string_array only over NUL-free alphabets)',
           'listed in the property and generated: integer / slice / mask / fancy indexing on rows and columns, reversal, '
           'comparison with character / string / list / array, item assignment, concatenation, copy, ravel, str / tolist / '
           'to_string / string_array — on ragged and flat arrays for every encoding (coverage grid); NOT in the property list '
           'and not generated: 2-D EncodedArray, T, reshape, lexsort / argsort / bincount, zeros_like, change_encoding',
           'unsupported forms, not generated: np.full_like(encoded, ch) (TypeError always), r[rows] = ch and r[rows, a:b] = ch '
           '(a single character is not broadcast over a multi-row selection: AttributeError), r[[], []] with untyped empty lists']
PER_FILE = 40

ENCS = {
    'Base': None, 'DNA': 'ACGT', 'ACGTn': 'ACGTN', 'ACTG': 'ACTG', 'RNA': 'ACUG',
    'Amino': 'ACDEFGHIKLMNPQRSTVWY*', 'Bam': '=ACMGRSVTWYHKDBN', 'CigarOp': 'MIDNSHP=X', 'Strand': '+-.',
    'Digit': '0123456789',
}
ENC_IDS = list(ENCS)
BASE_CHARS = 'ACGTacgtNn,;\t 0>'


def _enc_obj(name):
    import bionumpy as bnp
    from bionumpy.encodings import alphabet_encoding as ae
    return {'Base': bnp.encodings.BaseEncoding, 'DNA': ae.DNAEncoding, 'ACGTn': ae.ACGTnEncoding, 'ACTG': ae.ACTGEncoding,
            'RNA': ae.ACUGEncoding, 'Amino': ae.AminoAcidEncoding, 'Bam': ae.BamEncoding, 'CigarOp': ae.CigarOpEncoding,
            'Strand': ae.StrandEncoding, 'Digit': ae.DigitEncoding}[name]


def _enc_name(e):
    for n in ENC_IDS:
        if _enc_obj(n) is e:
            return n
    for n in ENC_IDS:
        try:
            if _enc_obj(n) == e:
                return n
        except Exception:
            pass
    return 'other:' + repr(e)[:40]


# ------------------------------------------------------------------------------------------------ reference
# (used by the generator to emit only steps that are valid for the current value, and by finding()/nontrivial();
#  the verdicts are computed in Coq, not here)
def canon(enc, s):
    """the text an encoding round-trips to (alphabet encodings are case-insensitive and decode to upper case)"""
    return s if ENCS[enc] is None else s.upper()


def member(enc, ch):
    return ENCS[enc] is None or ch.upper() in ENCS[enc]


def shadow(enc, ch):
    """(non-letter member)+32: the characters the lookup table wrongly accepted before the C06 repair (c99b89e);
    at /repo HEAD they are foreign like any other character and every comparison / assignment with them must raise"""
    a = ENCS[enc]
    if a is None:
        return False
    return (not ('a' <= ch <= 'z')) and ord(ch) >= 32 and chr(ord(ch) - 32) in a


def _sl(t):
    return slice(t[0], t[1], t[2])


def _sel_list(sel, l):
    k, v = sel
    if k == 'i':
        return l[v]
    if k == 's':
        return l[_sl(v)]
    if k == 'f':
        return [l[i] for i in v]
    if k == 'm':
        return [x for x, b in zip(l, v) if b]
    raise ValueError(k)


def _set_list(sel, l, vals):
    """positions selected by sel receive vals (list of the same length, or a single broadcast value)"""
    idx = list(range(len(l)))
    pos = _sel_list(sel, idx)
    if isinstance(pos, int):
        pos = [pos]
    if len(vals) == 1 and len(pos) != 1:
        vals = vals * len(pos)
    assert len(vals) == len(pos)
    l = list(l)
    for p, v in zip(pos, vals):
        l[p] = v
    return l


def ref_step(st, op):
    """st = ('R', enc, [str]) | ('F', enc, str) | ('C', enc, ch).  Returns (new_state, expected observation).
    Raises ValueError/IndexError/AssertionError when the step is not valid for the state."""
    k, enc, v = st
    name = op[0]
    if k == 'R':
        rows = v
        if name == 'row_int':
            return ('F', enc, rows[op[1]]), None
        if name == 'row_slice':
            return ('R', enc, rows[_sl(op[1])]), None
        if name == 'row_fancy':
            return ('R', enc, [rows[i] for i in op[1]]), None
        if name == 'row_mask':
            assert len(op[1]) == len(rows)
            return ('R', enc, [r for r, b in zip(rows, op[1]) if b]), None
        if name == 'col_slice':
            return ('R', enc, [r[_sl(op[1])] for r in rows]), None
        if name == 'rc':
            sub = _sel_list(op[1], rows)
            if op[1][0] == 'i':
                return ('F', enc, sub[_sl(op[2])]), None
            return ('R', enc, [r[_sl(op[2])] for r in sub]), None
        if name == 'rows_col':
            sub = _sel_list(op[1], rows)
            j = op[2]
            assert all(-len(r) <= j < len(r) for r in sub)
            return ('F', enc, ''.join(r[j] for r in sub)), None
        if name == 'elem':
            r = rows[op[1]]
            assert -len(r) <= op[2] < len(r)
            return ('C', enc, r[op[2]]), None
        if name == 'elems':
            assert len(op[1]) == len(op[2])
            out = ''
            for i, j in zip(op[1], op[2]):
                assert 0 <= i < len(rows) and -len(rows[i]) <= j < len(rows[i])
                out += rows[i][j]
            return ('F', enc, out), None
        if name == 'eq':
            o = op[1]
            if o[0] == 'c':
                if not member(enc, o[1]):
                    return st, ('E', 'EncodingError')
                c = canon(enc, o[1])
                m = [[(x == c) != op[2] for x in r] for r in rows]
            else:
                other = rows if o[0] == 'self' else o[1]
                assert [len(r) for r in other] == [len(r) for r in rows]
                if not all(member(enc, ch) for r in other for ch in r):
                    return st, ('E', 'EncodingError')
                m = [[(x == canon(enc, y)) != op[2] for x, y in zip(r, q)] for r, q in zip(rows, other)]
            return st, ('MR', m)
        if name == 'mask_eq':
            if not member(enc, op[1]):
                return st, ('E', 'EncodingError')
            c = canon(enc, op[1])
            return ('F', enc, ''.join(x for r in rows for x in r if (x == c) != op[2])), None
        if name == 'set':
            tgt, val = op[1], op[2]
            if val[0] in ('c', 's'):
                vtxt = [val[1]]
            else:
                vtxt = val[1]
            if not all(member(enc, ch) for s in vtxt for ch in s):
                return st, ('E', 'EncodingError')
            vtxt = [canon(enc, s) for s in vtxt]
            rows2 = [list(r) for r in rows]
            cells = [[(i, j) for j in range(len(r))] for i, r in enumerate(rows)]
            if tgt[0] == 'row':
                sel = [cells[tgt[1]]]
            elif tgt[0] == 'elem':
                sel = [[cells[tgt[1]][tgt[2]]]]
            elif tgt[0] == 'rows':
                sel = _sel_list(tgt[1], cells)
            elif tgt[0] == 'rc':
                sub = _sel_list(tgt[1], cells)
                if tgt[1][0] == 'i':
                    sub = [sub]
                if isinstance(tgt[2], int):
                    assert all(-len(r) <= tgt[2] < len(r) for r in sub)
                    sel = [[r[tgt[2]]] for r in sub]
                else:
                    sel = [r[_sl(tgt[2])] for r in sub]
            elif tgt[0] == 'mask_eq':
                assert member(enc, tgt[1])
                c = canon(enc, tgt[1])
                sel = [[(i, j) for i, r in enumerate(rows) for j, x in enumerate(r) if x == c]]
            else:
                raise ValueError(tgt)
            flat = [p for r in sel for p in r]
            assert len(set(flat)) == len(flat)       # repeated targets: NumPy's order of writes is unspecified
            if val[0] == 'c':
                vals = [vtxt[0]] * len(flat)
            elif val[0] == 's':
                assert len(sel) == 1 and len(vtxt[0]) == len(flat) and tgt[0] in ('row', 'rc')
                vals = list(vtxt[0])
            else:
                assert [len(s) for s in vtxt] == [len(r) for r in sel]
                vals = [ch for s in vtxt for ch in s]
            for (i, j), ch in zip(flat, vals):
                rows2[i][j] = ch
            return ('R', enc, [''.join(r) for r in rows2]), None
        if name == 'concat':
            out = []
            for o in op[1]:
                if o[0] == 'self':
                    out += rows
                elif o[0] == 'selfslice':
                    out += rows[_sl(o[1])]
                else:
                    assert all(member(enc, ch) for s in o[1] for ch in s)
                    out += [canon(enc, s) for s in o[1]]
            return ('R', enc, out), None
        if name == 'copy':
            return st, None
        if name == 'ravel':
            return ('F', enc, ''.join(rows)), None
        if name == 'str':
            return st, ('S1', '\n'.join(rows[:20]))
        if name == 'sarr':
            return st, ('S', list(rows))
        if name == 'rslice':
            # bnp.ragged_slice hands the *flattened* text to npstructures: starts/ends are offsets into ravel()
            # (tests/test_ragged_slice.py pins this meaning; the docstring's "column-wise" does not)
            starts, ends = op[1], op[2]
            flat = ''.join(rows)
            assert ends is None or len(ends) == len(starts)
            assert all(0 <= s <= len(flat) for s in starts)
            out = []
            for i, s0 in enumerate(starts):
                e = len(flat) if ends is None else ends[i]
                e = len(flat) + e if e < 0 else min(e, len(flat))
                out.append(flat[s0:max(e, s0)])
            return ('R', enc, out), None
        if name == 'join':
            assert member(enc, op[1])
            sep = canon(enc, op[1])
            s = ''.join(r + sep for r in rows)
            return ('F', enc, s if op[2] else s[:-1]), None
        if name == 'streq':
            if not all(member(enc, ch) for ch in op[1]):
                return st, ('E', 'EncodingError')
            return st, ('MF', [r == canon(enc, op[1]) for r in rows])
        if name == 'streq2':
            assert len(op[1]) == len(rows) and all(member(enc, ch) for s in op[1] for ch in s)
            return st, ('MF', [r == canon(enc, s) for r, s in zip(rows, op[1])])
        raise ValueError(name)
    if k == 'F':
        s = v
        if name == 'idx':
            r = _sel_list(op[1], list(s))
            if op[1][0] == 'i':
                return ('C', enc, r), None
            return ('F', enc, ''.join(r)), None
        if name == 'eq':
            o = op[1]
            if o[0] == 'c':
                if not member(enc, o[1]):
                    return st, ('E', 'EncodingError')
                c = canon(enc, o[1])
                return st, ('MF', [(x == c) != op[2] for x in s])
            other = s if o[0] == 'self' else o[1]
            assert len(other) == len(s) and len(s) != 1
            if not all(member(enc, ch) for ch in other):
                return st, ('E', 'EncodingError')
            return st, ('MF', [(x == canon(enc, y)) != op[2] for x, y in zip(s, other)])
        if name == 'mask_eq':
            if not member(enc, op[1]):
                return st, ('E', 'EncodingError')
            c = canon(enc, op[1])
            return ('F', enc, ''.join(x for x in s if (x == c) != op[2])), None
        if name == 'set':
            tgt, val = op[1], op[2]
            if not all(member(enc, ch) for ch in val[1]):
                return st, ('E', 'EncodingError')
            vt = canon(enc, val[1])
            if tgt[0] == 'mask_eq':
                assert member(enc, tgt[1])
                c = canon(enc, tgt[1])
                sel = ('m', [x == c for x in s])
            else:
                sel = tgt[1]
            pos = _sel_list(sel, list(range(len(s))))
            pos = [pos] if isinstance(pos, int) else pos
            assert len(set(pos)) == len(pos)
            if val[0] == 'c':
                assert len(vt) == 1
            else:
                assert len(vt) == len(pos) and len(vt) != 1
            return ('F', enc, ''.join(_set_list(sel, list(s), list(vt)))), None
        if name == 'concat':
            out = ''
            for o in op[1]:
                if o[0] == 'self':
                    out += s
                elif o[0] == 'selfslice':
                    out += s[_sl(o[1])]
                else:
                    assert all(member(enc, ch) for ch in o[1])
                    out += canon(enc, o[1])
            return ('F', enc, out), None
        if name == 'append':
            assert all(member(enc, ch) for ch in op[1])
            return ('F', enc, s + canon(enc, op[1])), None
        if name == 'insert':
            assert all(member(enc, ch) for ch in op[2]) and 0 <= op[1] <= len(s)
            return ('F', enc, s[:op[1]] + canon(enc, op[2]) + s[op[1]:]), None
        if name == 'where':
            assert len(op[1]) == len(s) == len(op[2]) and all(member(enc, ch) for ch in op[2])
            o = canon(enc, op[2])
            return ('F', enc, ''.join(a if b else c for a, b, c in zip(s, op[1], o))), None
        if name == 'copy':
            return st, None
        if name == 'ravel':
            return st, None
        if name == 'str':
            return st, ('S1', s)
        if name == 'full_like':
            assert member(enc, op[1])
            return ('F', enc, canon(enc, op[1]) * len(s)), None
        if name == 'split':
            if isinstance(op[1], list):          # a list of separator characters: any of them separates
                assert len(op[1]) > 0
                if not all(member(enc, ch) for ch in op[1]):
                    return st, ('E', 'EncodingError')
                seps = set(canon(enc, ch) for ch in op[1])
                out, cur = [], ''
                for ch in s:
                    if ch in seps:
                        out.append(cur)
                        cur = ''
                    else:
                        cur += ch
                return ('R', enc, out + [cur]), None
            assert member(enc, op[1])
            return ('R', enc, s.split(canon(enc, op[1]))), None
        if name in ('rows2d', 'setrows2d'):
            k2 = op[1]
            assert k2 >= 1 and len(s) % k2 == 0
            rows2 = [s[j:j + k2] for j in range(0, len(s), k2)]
            if name == 'rows2d':
                r = _sel_list(op[2], rows2)
                return ('F', enc, r if op[2][0] == 'i' else ''.join(r)), None
            if not member(enc, op[3]):
                return st, ('E', 'EncodingError')
            pos = _sel_list(op[2], list(range(len(rows2))))
            pos = [pos] if isinstance(pos, int) else pos
            assert len(set(p % max(len(rows2), 1) for p in pos)) == len(pos)
            for p in pos:
                rows2[p] = canon(enc, op[3]) * k2
            return ('F', enc, ''.join(rows2)), None
        if name == 'stack':
            out = []
            for o in op[1]:
                out.append(s if o[0] == 'self' else s[_sl(o[1])])
            assert len(out) > 0
            return ('R', enc, out), None
        if name == 'iter':
            return st, ('S', list(s))
        if name == 'fslices':          # a[starts:ends] with array bounds: segments of the text (npstructures ragged_slice)
            starts, ends = op[1], op[2]
            assert len(starts) == len(ends) and all(0 <= a <= len(s) for a in starts)
            out = []
            for a, b in zip(starts, ends):
                b = len(s) + b if b < 0 else min(b, len(s))
                out.append(s[a:max(a, b)])
            return ('R', enc, out), None
        raise ValueError(name)
    if k == 'C':
        if name == 'eq':
            o = op[1]
            if not member(enc, o[1]):
                return st, ('E', 'EncodingError')
            return st, ('MF', [(v == canon(enc, o[1])) != op[2]])   # a character operand is a 1-element array: NumPy broadcasts 0-d with (1,)
        if name == 'str':
            return st, ('S1', v)
        raise ValueError(name)
    raise ValueError(k)


def expected(case):
    """reference observations of a whole case (list, one per step; same shape as observe())"""
    i = case['init']
    st = ('R', case['enc'], [canon(case['enc'], s) for s in i['rows']]) if i['kind'] == 'R' else ('F', case['enc'], canon(case['enc'], i['s']))
    out = [_st_obs(st)]
    saved = None
    for op in case['ops']:
        st2, ob = ref_step(st, op)
        if op[0] == 'copy':
            saved = st
        if ob is not None and ob[0] == 'E':
            o = dict(k='E', err=ob[1])
        elif ob is not None:
            o = dict(k=ob[0], v=ob[1])
        else:
            o = _st_obs(st2)
        if saved is not None and op[0] != 'copy':
            o['orig'] = saved[2]
            if case.get('root'):
                o['root'] = out[0]['v']
        out.append(o)
        st = st2
    return out


def _st_obs(st):
    return dict(k=st[0], enc=st[1], v=st[2])


# ------------------------------------------------------------------------------------------------ implementation
N_SPELL = 8
SPELL_NAMES = {'i': ['int', 'np.int64', 'np.int32', 'np.uint8|int16', '0-d array', 'np.intp', 'int', 'np.int8'],
               's': ['python bounds', 'np.int64 bounds'] * 4,
               'f': ['list of int', 'int64 array', 'int32 array', 'int8 array', 'uint8|int16 array', 'list of np.int64', 'tuple-wrapped list', 'intp array'],
               'm': ['bool array', 'list of bool', 'list of np.bool_', 'tuple-wrapped array', 'list of bool', 'bool array', 'list of np.bool_', 'list of bool']}


def _np_int(v, sp, zero_d=True):
    """zero_d=False: positions where npstructures takes a 0-d array for a slice/array (r[rows, j], r[i, a:b]) use np.intp instead"""
    import numpy as np
    sp %= N_SPELL
    if sp == 4 and not zero_d:
        sp = 5
    if sp in (0, 6):
        return int(v)
    if sp == 1:
        return np.int64(v)
    if sp == 2:
        return np.int32(v)
    if sp == 3:
        return np.uint8(v) if 0 <= v < 256 else np.int16(v)
    if sp == 4:
        return np.array(v)
    if sp == 5:
        return np.intp(v)
    return np.int8(v)


def _np_sel(sel, sp=0, wrap=False, zero_d=True):
    """the index in one of the spellings the API accepts (sp selects; wrap allows the 1-tuple form x[(idx,)])"""
    import numpy as np
    k, v = sel
    sp %= N_SPELL
    if k == 'i':
        return _np_int(v, sp, zero_d)
    if k == 's':
        if sp % 2:
            return slice(*[None if b is None else np.int64(b) for b in v])
        return _sl(v)
    if k == 'f':
        if sp == 0:
            return list(v)
        if sp == 1:
            return np.array(v, dtype=np.int64)
        if sp == 2:
            return np.array(v, dtype=np.int32)
        if sp == 3:
            return np.array(v, dtype=np.int8)
        if sp == 4:
            return np.array(v, dtype=np.uint8 if all(i >= 0 for i in v) else np.int16)
        if sp == 5:
            return [np.int64(i) for i in v]
        if sp == 6:
            return (list(v),) if wrap else list(v)
        return np.array(v, dtype=np.intp)
    if k == 'm':
        if sp in (0, 5):
            return np.array(v, dtype=bool)
        if sp in (1, 4, 7):
            return [bool(b) for b in v]
        if sp in (2, 6):
            return [np.bool_(b) for b in v]
        return (np.array(v, dtype=bool),) if wrap else np.array(v, dtype=bool)
    raise ValueError(k)


def _observe_value(x):
    import numpy as np
    from bionumpy.encoded_array import EncodedArray, EncodedRaggedArray
    if isinstance(x, EncodedRaggedArray):
        raw = [[int(c) for c in row] for row in x.raw()]
        return dict(k='R', enc=_enc_name(x.encoding), v=x.tolist(), raw=raw, lens=[int(n) for n in x.lengths])
    if isinstance(x, EncodedArray):
        if x.ndim == 0:
            return dict(k='C', enc=_enc_name(x.encoding), v=x.to_string(), raw=[int(x.raw())])
        if x.ndim == 1:
            return dict(k='F', enc=_enc_name(x.encoding), v=x.to_string(), raw=[int(c) for c in x.raw()], tl=x.tolist())
        return dict(k='X', what='EncodedArray ndim %d' % x.ndim)
    return dict(k='X', what=type(x).__name__)


def _mask_obs(m):
    import numpy as np
    from npstructures import RaggedArray
    if isinstance(m, RaggedArray):
        if m.dtype != bool:
            return dict(k='X', what='ragged mask dtype %s' % m.dtype)
        return dict(k='MR', v=[[bool(b) for b in r] for r in m.tolist()])
    if isinstance(m, np.ndarray) and m.dtype == bool and m.ndim == 1:
        return dict(k='MF', v=[bool(b) for b in m])
    if isinstance(m, (bool, np.bool_)):
        return dict(k='B', v=bool(m))
    return dict(k='X', what='mask %s %r' % (type(m).__name__, m))


def _mk_other(o, x, enc):
    """operand of a comparison / source of an assignment"""
    import bionumpy as bnp
    if o[0] in ('c', 's'):
        return o[1]
    if o[0] == 'l':
        return list(o[1])
    if o[0] == 'a':          # array encoded with the operand's encoding
        return bnp.as_encoded_array(list(o[1]) if isinstance(o[1], list) else o[1], _enc_obj(enc))
    if o[0] == 'b':          # base-encoded array (the wrapper must encode it first)
        return bnp.as_encoded_array(list(o[1]) if isinstance(o[1], list) else o[1])
    if o[0] == 'self':
        return x
    raise ValueError(o)


def _sp(case, n):
    sp = case.get('spell') or []
    return sp[n] if n < len(sp) else 0


def impl_step(x, op, enc, sp=0):
    """returns (new current value, observation or None)"""
    import numpy as np
    import bionumpy as bnp
    from bionumpy.encoded_array import EncodedArray, EncodedRaggedArray
    name = op[0]
    ragged = isinstance(x, EncodedRaggedArray)
    if name == 'row_int':
        return x[_np_int(op[1], sp)], None
    if name == 'row_slice':
        return x[_sl(op[1])], None
    if name == 'row_fancy':
        return x[_np_sel(('f', op[1]), sp, True)], None
    if name == 'row_mask':
        return x[_np_sel(('m', op[1]), sp, True)], None
    if name == 'col_slice':
        return (x[..., _sl(op[1])] if (len(op) > 2 and op[2]) else x[:, _sl(op[1])]), None
    if name == 'rc':
        return x[_np_sel(op[1], sp, zero_d=False), _np_sel(('s', op[2]), sp // N_SPELL)], None
    if name == 'rows_col':
        return x[_np_sel(op[1], sp), _np_int(op[2], sp // N_SPELL, False)], None
    if name == 'elem':
        return x[_np_int(op[1], sp), _np_int(op[2], sp // N_SPELL)], None
    if name == 'elems':
        if not op[1]:
            return x[np.array(op[1], dtype=int), np.array(op[2], dtype=int)], None
        return x[_np_sel(('f', op[1]), 1 + sp % 5), _np_sel(('f', op[2]), 1 + (sp // N_SPELL) % 5)], None
    if name == 'idx':
        return x[_np_sel(op[1], sp, True)], None
    if name == 'eq':
        o = _mk_other(op[1], x, enc)
        m = (x != o) if op[2] else (x == o)
        return x, _mask_obs(m)
    if name == 'mask_eq':
        m = (x != op[1]) if op[2] else (x == op[1])
        return x[m], None
    if name == 'set':
        tgt, val = op[1], op[2]
        value = _mk_other(val, x, enc)
        if tgt[0] == 'row':
            x[_np_int(tgt[1], sp)] = value
        elif tgt[0] == 'elem':
            x[_np_int(tgt[1], sp), _np_int(tgt[2], sp // N_SPELL)] = value
        elif tgt[0] == 'rows':
            x[_np_sel(tgt[1], sp, True)] = value
        elif tgt[0] == 'rc':
            x[_np_sel(tgt[1], sp, zero_d=False), (_np_int(tgt[2], sp // N_SPELL, False) if isinstance(tgt[2], int) else _np_sel(('s', tgt[2]), sp // N_SPELL))] = value
        elif tgt[0] == 'mask_eq':
            x[x == tgt[1]] = value
        elif tgt[0] == 'idx':
            x[_np_sel(tgt[1], sp, True)] = value
        else:
            raise ValueError(tgt)
        return x, None
    if name == 'concat':
        parts = []
        for o in op[1]:
            if o[0] == 'self':
                parts.append(x)
            elif o[0] == 'selfslice':
                parts.append(x[_sl(o[1])])
            else:
                parts.append(bnp.as_encoded_array(list(o[1]) if ragged else o[1], _enc_obj(enc)))
        return np.concatenate(parts), None
    if name == 'append':
        return np.append(x, bnp.as_encoded_array(op[1], _enc_obj(enc))), None
    if name == 'insert':
        return np.insert(x, op[1], bnp.as_encoded_array(op[2], _enc_obj(enc))), None
    if name == 'where':
        return np.where(np.array(op[1], dtype=bool), x, bnp.as_encoded_array(op[2], _enc_obj(enc))), None
    if name == 'copy':
        return x.copy(), None
    if name == 'ravel':
        return x.ravel(), None
    if name == 'str':
        return x, dict(k='S1', v=str(x))
    if name == 'sarr':
        from bionumpy.string_array import string_array
        return x, dict(k='S', v=list(string_array(x).tolist()))
    if name == 'iter':
        return x, dict(k='S', v=[c.to_string() for c in x])
    if name == 'rslice':
        ends = None if op[2] is None else np.array(op[2], dtype=int)
        return bnp.ragged_slice(x, np.array(op[1], dtype=int), ends), None
    if name == 'join':
        from bionumpy.io.strops import join
        return join(x, op[1], keep_last=bool(op[2])), None
    if name == 'split':
        from bionumpy.io.strops import split
        return split(x, op[1]), None
    if name == 'streq':
        from bionumpy.io.strops import str_equal
        return x, _mask_obs(str_equal(x, op[1]))
    if name == 'streq2':
        from bionumpy.io.strops import str_equal
        return x, _mask_obs(str_equal(x, bnp.as_encoded_array(list(op[1]), _enc_obj(enc))))
    if name == 'full_like':
        return np.full_like(x, op[1]), None
    if name == 'fslices':
        return x[np.array(op[1], dtype=int):np.array(op[2], dtype=int)], None
    if name == 'rows2d':
        return x.reshape(-1, op[1])[_np_sel(op[2], sp, True)].ravel(), None
    if name == 'setrows2d':
        y = x.reshape(-1, op[1]).copy()
        y[_np_sel(op[2], sp, True)] = op[3]
        return y.ravel(), None
    if name == 'stack':
        parts = [x if o[0] == 'self' else x[_sl(o[1])] for o in op[1]]
        return bnp.as_encoded_array(parts), None
    raise ValueError(name)


ERRS = {'EncodingError': 'EncodingError', 'EncodingException': 'EncodingError'}


def observe(case):
    import numpy as np
    import bionumpy as bnp
    enc = case['enc']
    i = case['init']
    x = bnp.as_encoded_array(list(i['rows']) if i['kind'] == 'R' else i['s'], _enc_obj(enc))
    quiet = set(case.get('quiet', ()))          # steps whose result is deliberately not looked at (lazy views stay lazy)
    root = x
    out = [dict(k='Q')] if case.get('quiet_init') else [_observe_value(x)]
    saved = None
    for n, op in enumerate(case['ops']):
        if n in quiet:
            try:
                x2, ob = impl_step(x, op, enc, _sp(case, n))
                if op[0] == 'copy':
                    if len(op) > 1 and op[1] == 'src':      # keep working on the source, remember the copy
                        saved = x2
                    else:
                        saved, x = x, x2
                else:
                    x = x2
                out.append(dict(k='Q'))
            except Exception as e:
                nm = type(e).__name__
                out.append(dict(k='E', err=ERRS.get(nm, nm), msg=str(e)[:120]))
            continue
        w = True
        try:
            from bionumpy.encoded_array import EncodedArray as _EA
            if isinstance(x, _EA):
                w = bool(x.raw().flags.writeable)
        except Exception:
            pass
        try:
            prev = x
            x2, ob = impl_step(x, op, enc, _sp(case, n))
            if op[0] == 'copy':
                if len(op) > 1 and op[1] == 'src':
                    saved, x2 = x2, prev
                else:
                    saved = prev
            o = ob if ob is not None else _observe_value(x2)
            x = x2
        except Exception as e:
            nm = type(e).__name__
            o = dict(k='E', err=ERRS.get(nm, nm), msg=str(e)[:120])
        o['w'] = w
        if saved is not None and op[0] != 'copy':
            try:
                o['orig'] = saved.tolist()
            except Exception as e:
                o['orig'] = 'error:' + type(e).__name__
            if case.get('root'):
                try:
                    o['root'] = root.tolist()
                except Exception as e:
                    o['root'] = 'error:' + type(e).__name__
        out.append(o)
    return out


# ------------------------------------------------------------------------------------------------ generator
def _alpha_chars(enc):
    return BASE_CHARS if ENCS[enc] is None else ENCS[enc]


def _shifted(enc):
    """the (non-letter member)+32 characters of an encoding that are not members themselves
    ('P'..'Y' for digits, 'K','M','N' for strand, 'J' for amino acids, ']' for BAM / CIGAR op)"""
    a = ENCS[enc]
    if a is None:
        return ''
    return ''.join(chr(ord(c) + 32) for c in a if not c.isalpha() and not member(enc, chr(ord(c) + 32)))


def _foreign(enc, rng):
    """a character outside the alphabet; one time in three a (non-letter member)+32 character when there is one"""
    sh = _shifted(enc)
    if sh and rng.random() < 0.34:
        return rng.choice(sh)
    for _ in range(50):
        ch = rng.choice('XZ#@!xz~')
        if not member(enc, ch):
            return ch
    return None


def _rchar(rng, enc, p_foreign=0.0, lower=True):
    if ENCS[enc] is not None and rng.random() < p_foreign:
        f = _foreign(enc, rng)
        if f:
            return f
    ch = rng.choice(_alpha_chars(enc))
    if lower and ENCS[enc] is not None and ch.isalpha() and rng.random() < 0.25:
        ch = ch.lower()
    return ch


def _rstr(rng, enc, n, **kw):
    return ''.join(_rchar(rng, enc, **kw) for _ in range(n))


def _rslice(rng, n, allow_step=True, neg_step=True):
    """a slice triple with boundary-heavy endpoints for a sequence of length n"""
    def pt():
        r = rng.random()
        if r < 0.3:
            return None
        return rng.randint(-n - 1, n + 1)
    step = None
    if allow_step:
        r = rng.random()
        if r < 0.2 and neg_step:
            step = -1
        elif r < 0.3:
            step = 2
        elif r < 0.35 and neg_step:
            step = -2
        elif r < 0.4:
            step = 1
    return [pt(), pt(), step]


def _rsel(rng, n, kinds='sfm'):
    k = rng.choice(kinds)
    if k == 'i':
        return ['i', rng.randint(-n, n - 1)]
    if k == 's':
        return ['s', _rslice(rng, n)]
    if k == 'f':
        m = rng.choice([0, 1, 2, 3, n]) if n else 0
        return ['f', [rng.randint(-n, n - 1) for _ in range(m)] if n else []]
    return ['m', [rng.random() < 0.5 for _ in range(n)]]


def _distinct_sel(rng, n, kinds='sfm'):
    """selector without repeated positions (assignment targets)"""
    for _ in range(20):
        sel = _rsel(rng, n, kinds)
        pos = _sel_list(sel, list(range(n)))
        pos = [pos] if isinstance(pos, int) else pos
        if len(set(p % n for p in pos)) == len(pos):
            return sel
    return ['s', [None, None, None]]


R_OPS = ['row_int', 'row_slice', 'row_slice', 'row_fancy', 'row_mask', 'col_slice', 'col_slice', 'col_rev', 'rc', 'rc', 'rows_col', 'elem',
         'elems', 'eq', 'eq', 'mask_eq', 'set', 'set', 'set', 'concat', 'copy', 'ravel', 'str', 'sarr', 'rslice', 'join',
         'streq', 'streq2']
F_OPS = ['idx', 'idx', 'idx', 'rev', 'fslices', 'rows2d', 'setrows2d', 'eq', 'eq', 'mask_eq', 'set', 'set', 'concat', 'append', 'insert', 'where', 'copy', 'ravel',
         'str', 'split', 'stack', 'iter']
C_OPS = ['eq', 'str']


def _cand(rng, st, pf, force=None):
    k, enc, v = st
    if k == 'R':
        rows = v
        n = len(rows)
        name = force or rng.choice(R_OPS)
        maxl = max([len(r) for r in rows] + [0])
        if name == 'row_int':
            return ['row_int', rng.randint(-n, n - 1)]
        if name == 'row_slice':
            return ['row_slice', _rslice(rng, n)]
        if name == 'row_fancy':
            return ['row_fancy', _rsel(rng, n, 'f')[1]]
        if name == 'row_mask':
            return ['row_mask', [rng.random() < 0.5 for _ in range(n)]]
        if name == 'col_slice':
            return ['col_slice', _rslice(rng, maxl), rng.random() < 0.3]
        if name == 'col_rev':
            return ['col_slice', [None, None, -1], rng.random() < 0.5]
        if name == 'rc':
            return ['rc', _rsel(rng, n, 'sfmi'), _rslice(rng, maxl)]
        if name == 'rows_col':
            sel = _rsel(rng, n, 'sfm')
            sub = _sel_list(sel, rows)
            if not sub:
                return ['rows_col', sel, 0]
            ml = min(len(r) for r in sub)
            return ['rows_col', sel, rng.randint(-ml, ml - 1)]
        if name == 'elem':
            i = rng.randint(-n, n - 1)
            L = len(rows[i])
            return ['elem', i, rng.randint(-L, L - 1)]
        if name == 'elems':
            m = rng.randint(0, 3)
            ii = [rng.randint(0, n - 1) for _ in range(m)]
            return ['elems', ii, [rng.randint(-len(rows[i]), len(rows[i]) - 1) for i in ii]]
        if name == 'eq':
            r = rng.random()
            neg = rng.random() < 0.3
            if r < 0.4:
                return ['eq', ['c', _rchar(rng, enc, pf)], neg]
            if r < 0.5:
                return ['eq', ['self'], neg]
            other = [''.join(ch if rng.random() < 0.6 else _rchar(rng, enc, pf / 4) for ch in row) for row in rows]
            return ['eq', [rng.choice('lab'), other], neg]
        if name == 'mask_eq':
            return ['mask_eq', _rchar(rng, enc, pf), rng.random() < 0.3]
        if name == 'set':
            t = rng.choice(['row', 'elem', 'rows', 'rc', 'rc', 'rccol', 'mask_eq'])
            if t == 'row':
                i = rng.randint(-n, n - 1)
                L = len(rows[i])
                if rng.random() < 0.3:
                    return ['set', ['row', i], ['c', _rchar(rng, enc, pf)]]
                return ['set', ['row', i], [rng.choice('sab') if L != 1 else 'c', _rstr(rng, enc, L, p_foreign=pf / 3)]]
            if t == 'elem':
                i = rng.randint(-n, n - 1)
                L = len(rows[i])
                return ['set', ['elem', i, rng.randint(-L, L - 1)], ['c', _rchar(rng, enc, pf)]]
            if t == 'mask_eq':
                return ['set', ['mask_eq', _rchar(rng, enc)], ['c', _rchar(rng, enc, pf)]]
            if t == 'rows':
                sel = _distinct_sel(rng, n)
                sub = _sel_list(sel, rows)
                return ['set', ['rows', sel], [rng.choice('ab'), [_rstr(rng, enc, len(r), p_foreign=pf / 4) for r in sub]]]
            if t == 'rccol':
                sel = _distinct_sel(rng, n, 'sfm')
                sub = _sel_list(sel, rows)
                ml = min([len(r) for r in sub] + [maxl])
                return ['set', ['rc', sel, rng.randint(-ml, ml - 1)], ['c', _rchar(rng, enc, pf)]]
            sel = _distinct_sel(rng, n, 'sfmi')
            cs = _rslice(rng, maxl)
            sub = _sel_list(sel, rows)
            if sel[0] == 'i':
                sub = [sub]
            if sel[0] == 'i' and rng.random() < 0.3:
                return ['set', ['rc', sel, cs], ['c', _rchar(rng, enc, pf)]]
            if sel[0] == 'i':
                L = len(sub[0][_sl(cs)])
                return ['set', ['rc', sel, cs], ['s' if L != 1 else 'c', _rstr(rng, enc, L, p_foreign=pf / 3)]]
            return ['set', ['rc', sel, cs], [rng.choice('ab'), [_rstr(rng, enc, len(r[_sl(cs)]), p_foreign=pf / 4) for r in sub]]]
        if name == 'concat':
            parts = []
            for _ in range(rng.randint(1, 3)):
                r = rng.random()
                if r < 0.35:
                    parts.append(['self'])
                elif r < 0.6:
                    parts.append(['selfslice', _rslice(rng, n)])
                else:
                    parts.append(['l', [_rstr(rng, enc, rng.randint(0, 3)) for _ in range(rng.randint(0, 3))]])
            return ['concat', parts]
        if name in ('copy', 'ravel', 'str', 'sarr'):
            return [name]
        if name == 'rslice':
            T = sum(len(r) for r in rows)
            k = rng.choice([0, 1, 2, n, n + 1])
            starts = [rng.randint(0, T) for _ in range(k)]
            if rng.random() < 0.3:
                return ['rslice', starts, None]
            return ['rslice', starts, [rng.randint(-T, T + 2) for _ in range(k)]]
        if name == 'join':
            return ['join', _rchar(rng, enc, lower=False), rng.random() < 0.5]
        if name == 'streq':
            s = rng.choice(rows) if rows and rng.random() < 0.7 else _rstr(rng, enc, rng.randint(0, 3), p_foreign=pf / 2)
            if rng.random() < 0.3 and ENCS[enc] is not None:
                s = s.lower()
            return ['streq', s]
        if name == 'streq2':
            return ['streq2', [r if rng.random() < 0.6 else _rstr(rng, enc, rng.choice([len(r), len(r), rng.randint(0, 3)])) for r in rows]]
    if k == 'F':
        s = v
        n = len(s)
        name = force or rng.choice(F_OPS)
        if name == 'idx':
            return ['idx', _rsel(rng, n, 'isfm')]
        if name == 'rev':
            return ['idx', ['s', [None, None, -1]]]
        if name == 'fslices':
            k2 = rng.randint(0, 3)
            return ['fslices', [rng.randint(0, n) for _ in range(k2)], [rng.randint(-n, n + 2) for _ in range(k2)]]
        if name == 'eq':
            neg = rng.random() < 0.3
            r = rng.random()
            if r < 0.5:
                return ['eq', ['c', _rchar(rng, enc, pf)], neg]
            if r < 0.6:
                return ['eq', ['self'], neg]
            other = ''.join(ch if rng.random() < 0.6 else _rchar(rng, enc, pf / 4) for ch in s)
            return ['eq', [rng.choice('sab'), other], neg]
        if name == 'mask_eq':
            return ['mask_eq', _rchar(rng, enc, pf), rng.random() < 0.3]
        if name == 'set':
            if rng.random() < 0.25:
                return ['set', ['mask_eq', _rchar(rng, enc)], ['c', _rchar(rng, enc, pf)]]
            sel = _distinct_sel(rng, n, 'isfm')
            pos = _sel_list(sel, list(range(n)))
            L = 1 if isinstance(pos, int) else len(pos)
            if L == 1 or rng.random() < 0.3:
                return ['set', ['idx', sel], ['c', _rchar(rng, enc, pf)]]
            return ['set', ['idx', sel], [rng.choice('sab'), _rstr(rng, enc, L, p_foreign=pf / 3)]]
        if name == 'concat':
            parts = []
            for _ in range(rng.randint(1, 3)):
                r = rng.random()
                if r < 0.35:
                    parts.append(['self'])
                elif r < 0.6:
                    parts.append(['selfslice', _rslice(rng, n)])
                else:
                    parts.append(['l', _rstr(rng, enc, rng.randint(0, 3))])
            return ['concat', parts]
        if name == 'append':
            return ['append', _rstr(rng, enc, rng.randint(0, 3))]
        if name == 'insert':
            return ['insert', rng.randint(0, n), _rstr(rng, enc, 1)]
        if name == 'where':
            return ['where', [rng.random() < 0.5 for _ in range(n)], _rstr(rng, enc, n)]
        if name in ('copy', 'ravel', 'str', 'iter'):
            return [name]
        if name == 'full_like':
            return ['full_like', _rchar(rng, enc)]
        if name == 'split':
            if rng.random() < 0.5:
                pool = list(dict.fromkeys(list(s) + [_rchar(rng, enc, lower=False) for _ in range(2)]))
                seps = [rng.choice(pool) for _ in range(rng.randint(1, 4))]      # any order, repeats, absent ones
                if ENCS[enc] is not None and rng.random() < pf:
                    f = _foreign(enc, rng)
                    if f:
                        seps.insert(rng.randint(0, len(seps)), f)
                return ['split', seps]
            return ['split', rng.choice(s) if s and rng.random() < 0.8 else _rchar(rng, enc, lower=False)]
        if name in ('rows2d', 'setrows2d'):
            divs = [d for d in range(1, n + 1) if n % d == 0] or [1]
            k2 = rng.choice(divs)
            m2 = n // k2
            if name == 'rows2d':
                return ['rows2d', k2, _rsel(rng, m2, 'isfm')]
            return ['setrows2d', k2, _distinct_sel(rng, m2, 'isfm'), _rchar(rng, enc, pf)]
        if name == 'stack':
            return ['stack', [['self'] if rng.random() < 0.4 else ['slice', _rslice(rng, n)] for _ in range(rng.randint(1, 3))]]
    if k == 'C':
        name = rng.choice(C_OPS)
        if name == 'eq':
            return ['eq', ['c', _rchar(rng, enc, pf)], rng.random() < 0.3]
        return ['str']
    return None


def _program(rng, enc, init, nsteps, pf=0.12, forced=()):
    st = ('R', enc, [canon(enc, s) for s in init['rows']]) if init['kind'] == 'R' else ('F', enc, canon(enc, init['s']))
    ops = []
    plan = [None] * nsteps + list(forced)
    for want in plan:
        for _try in range(30):
            try:
                op = ['copy'] if want == 'copy' else _cand(rng, st, 0.0 if want else pf, force=want)
                if op is None:
                    continue
                st2, ob = ref_step(st, op)
            except (AssertionError, IndexError, ValueError, ZeroDivisionError, TypeError):
                continue
            ops.append(op)
            st = st2
            break
    return dict(enc=enc, init=init, ops=ops)


def _rrows(rng, enc, N, M):
    shape = rng.random()
    n = rng.randint(0, N)
    if shape < 0.12:
        return ['' for _ in range(n)]                       # all rows empty
    if shape < 0.24:
        return [_rstr(rng, enc, rng.randint(0, M))]          # single row
    if shape < 0.34:
        L = rng.randint(1, M)
        return [_rstr(rng, enc, L) for _ in range(max(n, 1))]   # rectangular
    return [_rstr(rng, enc, rng.choice([0, 0, 1, 1, 2, 3, M, rng.randint(0, M)])) for _ in range(n)]


def generate(tier, seed):
    rng = random.Random(seed * 1000003 + 7)
    cases = []
    n_prog = 700 if tier == 'quick' else 7000
    N, M = (4, 4) if tier == 'quick' else (6, 6)
    # 1. single-step programs over a small grid of shapes: every op kind on every boundary shape
    shapes = [[], [''], ['', ''], ['A'], ['AC'], ['', 'A'], ['A', ''], ['AC', '', 'G'], ['ACG', 'T', 'GA'], ['', 'CA', ''], ['AC', 'GT']]
    for enc in (['Base', 'DNA'] if tier == 'quick' else ['Base', 'DNA', 'ACTG', 'Amino']):
        for rows in shapes:
            for rep in range(3 if tier == 'quick' else 8):
                cases.append(_program(rng, enc, dict(kind='R', rows=list(rows)), rng.randint(1, 2)))
        for s in ['', 'A', 'AC', 'ACGT', 'A,C,,G', ',', 'AA']:
            if enc != 'Base':
                s = s.replace(',', 'T')
            for rep in range(2 if tier == 'quick' else 6):
                cases.append(_program(rng, enc, dict(kind='F', s=s), rng.randint(1, 2)))
    # 2. random programs
    for i in range(n_prog):
        enc = ENC_IDS[i % len(ENC_IDS)] if rng.random() < 0.6 else rng.choice(['Base', 'DNA'])
        if rng.random() < 0.7:
            init = dict(kind='R', rows=_rrows(rng, enc, N, M))
        else:
            init = dict(kind='F', s=_rstr(rng, enc, rng.choice([0, 1, 2, 3, 5, 8])))
        cases.append(_program(rng, enc, init, rng.randint(1, 6)))
    # 3. copy() then assignment: the object the copy was taken from must not change
    for i in range(60 if tier == 'quick' else 400):
        enc = ['DNA', 'Base', 'ACGTn', 'Amino'][i % 4]
        if i % 3:
            init = dict(kind='R', rows=[_rstr(rng, enc, rng.randint(1, 4)) for _ in range(rng.randint(1, 4))])
        else:
            init = dict(kind='F', s=_rstr(rng, 'DNA' if enc == 'Base' else enc, rng.randint(2, 6)))
            enc = 'DNA' if enc == 'Base' else enc       # base-encoded text from a str is read-only at HEAD (finding)
        cases.append(_program(rng, enc, init, rng.randint(0, 2), forced=('copy', 'set', 'set')))
    # 6. coverage grid: every operation the property LISTS, on ragged AND flat arrays, for EVERY encoding, with a
    #    boundary-shaped operand (negative indices, empty selection, empty rows) and a random one
    listed_r = ['row_int', 'row_slice', 'row_fancy', 'row_mask', 'col_slice', 'col_rev', 'rc', 'rows_col', 'elem', 'elems',
                'eq', 'mask_eq', 'set', 'concat', 'copy', 'ravel', 'str', 'sarr', 'streq', 'join']
    listed_f = ['idx', 'rev', 'eq', 'mask_eq', 'set', 'concat', 'copy', 'ravel', 'str', 'iter', 'split', 'fslices']
    reps = 1 if tier == 'quick' else 4
    for enc in ENC_IDS:
        a = _alpha_chars(enc)
        r_inits = [[a[0] + a[1 % len(a)] + a[-1], '', a[-1]], [_rstr(rng, enc, rng.randint(0, 3)) for _ in range(rng.randint(1, 4))]]
        f_inits = [a[0] + a[-1] + a[0], _rstr(rng, enc, rng.randint(1, 5))]
        for name in listed_r:
            for rows in r_inits:
                for _ in range(reps):
                    cases.append(_program(rng, enc, dict(kind='R', rows=list(rows)), 0, forced=(name,)))
        for name in listed_f:
            for s0 in f_inits:
                for _ in range(reps):
                    cases.append(_program(rng, enc, dict(kind='F', s=s0), 0, forced=(name,)))
        # explicit boundary operands: negative indices and empty selections on rows and on columns, both kinds
        rows = r_inits[0]
        for ops in ([['row_int', -1]], [['row_int', -3]], [['row_slice', [-2, None, None]]], [['row_slice', [2, 1, None]]],
                    [['row_fancy', []]], [['row_fancy', [-1, -3, 0]]], [['row_mask', [False, False, False]]],
                    [['col_slice', [-1, None, None], False]], [['col_slice', [5, None, None], True]], [['col_slice', [None, None, -1], False]],
                    [['rc', ['f', [-1, 0]], [None, -1, None]]], [['rc', ['m', [True, False, True]], [-2, None, None]]], [['rc', ['i', -3], [None, None, -1]]],
                    [['rows_col', ['f', [0, -1]], -1]], [['rows_col', ['f', []], 0]], [['elem', -3, -2]], [['elems', [0, 2], [-1, -1]]],
                    [['mask_eq', a[1 % len(a)], False]], [['concat', [['selfslice', [1, 1, None]], ['l', []]]]],
                    [['set', ['rows', ['f', []]], ['a', []]]], [['set', ['row', -3], ['s', a[-1] * 3]]], [['set', ['elem', -1, -1], ['c', a[0]]]],
                    [['set', ['rc', ['s', [None, None, None]], [5, None, None]], ['a', ['', '', '']]]]):
            cases.append(dict(enc=enc, init=dict(kind='R', rows=list(rows)), ops=ops))
        s0 = f_inits[0]
        for ops in ([['idx', ['i', -1]]], [['idx', ['i', -3]]], [['idx', ['s', [-2, None, None]]]], [['idx', ['s', [3, None, None]]]],
                    [['idx', ['f', []]]], [['idx', ['f', [-1, -3]]]], [['idx', ['m', [False, False, False]]]], [['idx', ['s', [None, None, -1]]]],
                    [['set', ['idx', ['i', -1]], ['c', a[0]]]], [['set', ['idx', ['s', [1, 1, None]]], ['a', '']]], [['set', ['idx', ['f', [-1, 0]]], ['s', a[-1] + a[-1]]]],
                    [['concat', [['selfslice', [2, 1, None]], ['l', '']]]], [['eq', ['s', s0], False]], [['eq', ['a', s0[::-1]], True]]):
            cases.append(dict(enc=enc, init=dict(kind='F', s=s0), ops=ops))
    # 7. spelling grid: every index form in every spelling the API accepts (N_SPELL per index kind: Python list / tuple-wrapped /
    #    ndarray of each integer dtype / list of NumPy scalars; bool mask as ndarray, list of Python bools, list of np.bool_;
    #    Python int vs NumPy integers vs 0-d array; slice bounds as NumPy integers) on flat arrays, ragged arrays, a row of a
    #    ragged array, ravel()ed ragged arrays and 2-d arrays, for reads and for assignments
    def forms(enc):
        a = _alpha_chars(enc)
        c0, c1, c2 = a[0], a[1 % len(a)], a[-1]
        flat = c0 + c1 + c2 + c0 + c2 + c1
        rows = [c0 + c1 + c2, '', c2, c1 + c1 + c0 + c2]
        Fi, Ri = dict(kind='F', s=flat), dict(kind='R', rows=rows)
        m6, m4 = [True, False, True, False, True, False], [True, False, True, True]
        return [
            (Fi, [['idx', ['m', m6]]]), (Fi, [['idx', ['m', [False] * 6]]]), (Fi, [['idx', ['f', [3, 0, -1]]]]), (Fi, [['idx', ['f', []]]]),
            (Fi, [['idx', ['i', -2]]]), (Fi, [['idx', ['s', [1, -1, 2]]]]),
            (Fi, [['set', ['idx', ['m', m6]], ['c', c2]]]), (Fi, [['set', ['idx', ['f', [0, -1]]], ['s', c1 + c1]]]), (Fi, [['set', ['idx', ['i', 2]], ['c', c0]]]),
            (Fi, [['set', ['idx', ['s', [1, 4, None]]], ['c', c2]]]),
            (Ri, [['row_mask', m4]]), (Ri, [['row_mask', [False] * 4]]), (Ri, [['row_fancy', [3, 0, 0]]]), (Ri, [['row_fancy', []]]), (Ri, [['row_int', -1]]),
            (Ri, [['row_slice', [1, 3, None]]]), (Ri, [['rc', ['f', [3, 0]], [1, None, None]]]), (Ri, [['rc', ['m', m4], [None, -1, None]]]),
            (Ri, [['rows_col', ['f', [0, 3, 2]], -1]]), (Ri, [['rows_col', ['m', [True, False, False, True]], 1]]), (Ri, [['elem', 3, -2]]), (Ri, [['elems', [0, 3], [2, 0]]]),
            (Ri, [['set', ['rows', ['m', m4]], ['a', [c2 * 3, c2, c2 * 4]]]]), (Ri, [['set', ['rows', ['f', [3, 0]]], ['b', [c0 * 4, c0 * 3]]]]),
            (Ri, [['set', ['rc', ['f', [0, 3]], 0], ['c', c2]]]), (Ri, [['set', ['rc', ['m', m4], [0, 1, None]], ['a', [c1, c1, c1]]]]), (Ri, [['set', ['elem', -1, 0], ['c', c0]]]),
            (Ri, [['set', ['row', 0], ['s', c2 * 3]]]),
            (Ri, [['row_int', 3], ['idx', ['m', [False, True, True, False]]]]), (Ri, [['row_int', 0], ['idx', ['f', [2, 0]]]]),
            (Ri, [['ravel'], ['idx', ['m', [True, False] * 4]]]), (Ri, [['ravel'], ['idx', ['f', [7, 0, -1]]]]), (Ri, [['ravel'], ['set', ['idx', ['m', [False, True] * 4]], ['c', c0]]]),
            (Fi, [['rows2d', 2, ['m', [True, False, True]]]]), (Fi, [['rows2d', 3, ['f', [1, 0, 1]]]]), (Fi, [['rows2d', 2, ['i', -1]]]), (Fi, [['rows2d', 1, ['s', [None, None, -1]]]]),
            (Fi, [['rows2d', 6, ['m', [False]]]]), (Fi, [['setrows2d', 2, ['m', [False, True, True]], c0]]), (Fi, [['setrows2d', 3, ['f', [-1]], c1]]), (Fi, [['setrows2d', 2, ['i', 0], c2]]),
        ]
    nforms = len(forms('DNA'))
    for fi in range(nforms):
        for sp in range(N_SPELL):
            for enc in (ENC_IDS if tier != 'quick' else [ENC_IDS[(fi + 3 * sp) % len(ENC_IDS)]]):
                init, ops = forms(enc)[fi]
                cases.append(dict(enc=enc, init=dict(init), ops=[list(o) for o in ops], spell=[sp + N_SPELL * ((sp + 3) % N_SPELL)] * len(ops)))
    # 8. strops.split with the separators as a str and as a list in every order, with repeats and absent separators
    import itertools
    for enc in ENC_IDS:
        a = _alpha_chars(enc)
        seps3 = [a[0], a[-1], a[1 % len(a)]]
        texts = [a[0] + a[-1] + a[1 % len(a)] + a[-1] + a[-1] + a[0], '', a[-1], a[1 % len(a)] * 2]
        if len(a) > 3:
            texts.append(a[2] + a[0] + a[2] + a[-1] + a[2])
        for t in (texts if tier != 'quick' else texts[:3]):
            for k in (1, 2, 3):
                for perm in itertools.permutations(seps3[:k] if k < 3 else seps3):
                    cases.append(dict(enc=enc, init=dict(kind='F', s=t), ops=[['split', list(perm)]]))
            cases.append(dict(enc=enc, init=dict(kind='F', s=t), ops=[['split', [seps3[1], seps3[0], seps3[1]]], ['join', seps3[0], False], ['split', seps3[0]]]))
            if len(a) > 3:
                cases.append(dict(enc=enc, init=dict(kind='F', s=t), ops=[['split', [a[3], a[2]]]]))         # possibly absent from the text
    # 5. copy() of a view that nothing has materialised yet: the selection step and the copy step are NOT observed;
    #    after the assignment the copy, the selection it was taken from and (when only the copy is assigned) the
    #    initial array are read: list semantics says the copy is an independent value
    views = ['row_slice', 'col_rev', 'row_mask', 'row_fancy', 'col_slice', 'rc', 'row_slice', 'col_slice']
    for i in range(160 if tier == 'quick' else 1000):
        enc = ENC_IDS[i % len(ENC_IDS)]
        for _try in range(40):
            rows = [_rstr(rng, enc, rng.randint(1, 4)) for _ in range(rng.randint(2, 4))]
            c = _program(rng, enc, dict(kind='R', rows=rows), 0, forced=(views[(i // len(ENC_IDS)) % len(views)], 'copy', 'set', 'set'))
            ops = c['ops']
            if len(ops) < 3 or ops[1] != ['copy'] or ops[2][0] != 'set':
                continue
            st1, _ = ref_step(('R', enc, [canon(enc, r) for r in rows]), ops[0])
            if st1[0] != 'R' or sum(len(r) for r in st1[2]) < 2:
                continue
            st2, _ = ref_step(st1, ops[2])
            if st2 == st1:                      # the assignment must change something
                continue
            if i % 3 == 1:
                ops[1] = ['copy', 'src']        # assign on the selection, watch the copy
            else:
                c['root'] = True                # assign on the copy, watch the selection and the initial array
            c['quiet'] = [0, 1]
            cases.append(c)
            break
    # 4. (non-letter member)+32 characters against every encoding that has them: every use must raise EncodingError
    for enc in ENC_IDS:
        for ch in _shifted(enc):
            a = ENCS[enc]
            rows = [a[:2], '', a[-1] + a[0]]
            cases.append(dict(enc=enc, init=dict(kind='R', rows=rows), ops=[
                ['eq', ['c', ch], False], ['mask_eq', ch, False], ['streq', a[0] + ch],
                ['eq', ['b', [a[0] + ch, '', a[-1] + a[0]]], True], ['set', ['row', 0], ['c', ch]],
                ['set', ['rc', ['s', [None, None, None]], [0, 1, None]], ['b', [ch, '', a[0]]]],
                ['str']]))
            cases.append(dict(enc=enc, init=dict(kind='F', s=a[:3]), ops=[
                ['eq', ['c', ch], True], ['eq', ['b', (a[0] + ch + a[1])[:len(a[:3])]], False], ['mask_eq', ch, True],
                ['set', ['idx', ['s', [0, 1, None]]], ['c', ch]], ['set', ['mask_eq', a[0]], ['c', ch]], ['str']]))
    cases = [c for c in cases if c['ops']]
    for c in cases:
        if 'spell' not in c:
            c['spell'] = [rng.randrange(N_SPELL * N_SPELL) for _ in c['ops']]
    cases.sort(key=lambda c: len(c['ops']) * 100 + len(str(c['init'])))
    return cases


# ------------------------------------------------------------------------------------------------ Coq terms
def _b(s):
    return hx(s.encode('latin1'))


def _oz(x):
    return copt(x, cz)


def _sel_term(sel):
    k, v = sel
    if k == 'i':
        return '(SInt %s)' % cz(v)
    if k == 's':
        return '(SSlice %s %s %s)' % (_oz(v[0]), _oz(v[1]), _oz(v[2]))
    if k == 'f':
        return '(SFancy %s)' % zl(v)
    return '(SMask %s)' % clist([cbool(b) for b in v], 'bool')


def _rows_term(l):
    return clist([_b(s) for s in l], 'list Z')


def _operand(o):
    if o[0] == 'c':
        return '(PChar %s)' % cz(ord(o[1]))
    if o[0] == 'self':
        return 'PSelf'
    if isinstance(o[1], list):
        return '(PRows %s)' % _rows_term(o[1])
    return '(PStr %s)' % _b(o[1])


def _part(o):
    if o[0] == 'self':
        return 'PtSelf'
    if o[0] in ('selfslice', 'slice'):
        return '(PtSlice %s %s %s)' % (_oz(o[1][0]), _oz(o[1][1]), _oz(o[1][2]))
    if isinstance(o[1], list):
        return '(PtRows %s)' % _rows_term(o[1])
    return '(PtStr %s)' % _b(o[1])


def _op_term(op):
    n = op[0]
    sl3 = lambda t: '%s %s %s' % (_oz(t[0]), _oz(t[1]), _oz(t[2]))
    if n == 'row_int':
        return '(RowInt %s)' % cz(op[1])
    if n == 'row_slice':
        return '(RowSel %s)' % _sel_term(['s', op[1]])
    if n == 'row_fancy':
        return '(RowSel %s)' % _sel_term(['f', op[1]])
    if n == 'row_mask':
        return '(RowSel %s)' % _sel_term(['m', op[1]])
    if n == 'col_slice':
        return '(ColSlice %s)' % sl3(op[1])
    if n == 'rc':
        return '(RC %s %s)' % (_sel_term(op[1]), sl3(op[2]))
    if n == 'rows_col':
        return '(RowsCol %s %s)' % (_sel_term(op[1]), cz(op[2]))
    if n == 'elem':
        return '(Elem %s %s)' % (cz(op[1]), cz(op[2]))
    if n == 'elems':
        return '(Elems %s %s)' % (zl(op[1]), zl(op[2]))
    if n == 'eq':
        return '(Eq %s %s)' % (_operand(op[1]), cbool(op[2]))
    if n == 'mask_eq':
        return '(MaskEq %s %s)' % (cz(ord(op[1])), cbool(op[2]))
    if n == 'set':
        tgt, val = op[1], op[2]
        if tgt[0] == 'row':
            return '(SetRow %s %s)' % (cz(tgt[1]), _operand(val))
        if tgt[0] == 'elem':
            return '(SetElem %s %s %s)' % (cz(tgt[1]), cz(tgt[2]), cz(ord(val[1])))
        if tgt[0] == 'rows':
            return '(SetRows %s %s)' % (_sel_term(tgt[1]), _rows_term(val[1]))
        if tgt[0] == 'rc':
            if isinstance(tgt[2], int):
                return '(SetRCol %s %s %s)' % (_sel_term(tgt[1]), cz(tgt[2]), cz(ord(val[1])))
            return '(SetRC %s %s %s)' % (_sel_term(tgt[1]), sl3(tgt[2]), _operand(val))
        if tgt[0] == 'mask_eq':
            return '(SetMaskEq %s %s)' % (cz(ord(tgt[1])), cz(ord(val[1])))
        if tgt[0] == 'idx':
            return '(SetIdx %s %s)' % (_sel_term(tgt[1]), _operand(val))
    if n == 'concat':
        return '(Concat %s)' % clist([_part(o) for o in op[1]], 'part')
    if n == 'stack':
        return '(Stack %s)' % clist([_part(o) for o in op[1]], 'part')
    if n in ('copy', 'ravel', 'str', 'iter'):
        return n.capitalize()
    if n == 'sarr':
        return 'SArr'
    if n == 'fslices':
        return '(RSlice %s (Some %s))' % (zl(op[1]), zl(op[2]))
    if n == 'rslice':
        return '(RSlice %s %s)' % (zl(op[1]), '(@None (list Z))' if op[2] is None else '(Some %s)' % zl(op[2]))
    if n == 'join':
        return '(Join %s %s)' % (cz(ord(op[1])), cbool(op[2]))
    if n == 'streq':
        return '(StrEq %s)' % _b(op[1])
    if n == 'streq2':
        return '(StrEq2 %s)' % _rows_term(op[1])
    if n == 'idx':
        return '(Idx %s)' % _sel_term(op[1])
    if n == 'append':
        return '(Append %s)' % _b(op[1])
    if n == 'insert':
        return '(Insert %s %s)' % (cz(op[1]), _b(op[2]))
    if n == 'where':
        return '(Where %s %s)' % (clist([cbool(b) for b in op[1]], 'bool'), _b(op[2]))
    if n == 'split':
        if isinstance(op[1], list):
            return '(SplitL %s)' % zl([ord(ch) for ch in op[1]])
        return '(Split %s)' % cz(ord(op[1]))
    if n == 'rows2d':
        return '(Rows2D %s %s)' % (cz(op[1]), _sel_term(op[2]))
    if n == 'setrows2d':
        return '(SetRows2D %s %s %s)' % (cz(op[1]), _sel_term(op[2]), cz(ord(op[3])))
    raise ValueError(op)


def _encid(name):
    return ENC_IDS.index(name) if name in ENC_IDS else -1


def _iobs(o):
    k = o.get('k')
    if k == 'Q':
        return 'IQ'
    try:
        if k == 'R':
            if 'lens' in o and o['lens'] != [len(r) for r in o['v']]:
                return 'IX'
            raw = o.get('raw', [])
            return '(IV 0 %s %s %s)' % (cz(_encid(o['enc'])), _rows_term(o['v']), clist([zl(r) for r in raw], 'list Z'))
        if k == 'F':
            if 'tl' in o and o['tl'] != o['v']:
                return 'IX'
            return '(IV 1 %s [%s] [%s])' % (cz(_encid(o['enc'])), _b(o['v']), zl(o.get('raw', [])))
        if k == 'C':
            return '(IV 2 %s [%s] [%s])' % (cz(_encid(o['enc'])), _b(o['v']), zl(o.get('raw', [])))
        if k == 'MR':
            return '(IM 0 %s)' % clist([clist([cbool(b) for b in r], 'bool') for r in o['v']], 'list bool')
        if k == 'MF':
            return '(IM 1 [%s])' % clist([cbool(b) for b in o['v']], 'bool')
        if k == 'S':
            return '(IS 0 %s)' % _rows_term(o['v'])
        if k == 'S1':
            return '(IS 1 [%s])' % _b(o['v'])
        if k == 'E':
            return '(IErr %d)' % (0 if o['err'] == 'EncodingError' else 1)
    except (UnicodeEncodeError, TypeError, KeyError):
        return 'IX'
    return 'IX'


def to_coq(case, obs):
    exp = expected(case)
    enc = case['enc']
    al = ENCS[enc]
    init = case['init']
    rows = init['rows'] if init['kind'] == 'R' else [init['s']]
    steps = []
    for n, op in enumerate(case['ops']):
        o = obs[n + 1]
        orig = o.get('orig')
        if orig is None:
            origt = '(@None (list (list Z)))'
        elif isinstance(orig, list):
            origt = '(Some %s)' % _rows_term(orig)
        elif isinstance(orig, str) and not orig.startswith('error:'):
            origt = '(Some [%s])' % _b(orig)
        else:
            origt = '(Some [[(-1)%Z]])'
        rt = o.get('root')
        if rt is None:
            roott = '(@None (list (list Z)))'
        elif isinstance(rt, list):
            roott = '(Some %s)' % _rows_term(rt)
        elif isinstance(rt, str) and not rt.startswith('error:'):
            roott = '(Some [%s])' % _b(rt)
        else:
            roott = '(Some [[(-1)%Z]])'
        steps.append('{| i_op := %s; i_writable := %s; i_obs := %s; i_orig := %s; i_root := %s; i_exp := %s |}' % (
            _op_term(op), cbool(o.get('w', True)), _iobs(o), origt, roott, _iobs(exp[n + 1])))
    return '{| k_encid := %s; k_alpha := %s; k_ragged := %s; k_init := %s; k_init_obs := %s; k_steps := %s |}' % (
        cz(_encid(enc)), '(@None (list Z))' if al is None else '(Some %s)' % _b(al), cbool(init['kind'] == 'R'),
        _rows_term(rows), _iobs(obs[0]), clist(steps, 'istep'))


# ------------------------------------------------------------------------------------------------ triage helpers
def _same(e, o):
    if o.get('k') == 'Q':
        return True
    if 'root' in e and e['root'] != o.get('root'):
        return False
    if e['k'] != o.get('k'):
        return False
    if e['k'] == 'E':
        return e['err'] == o.get('err')
    if e.get('enc') != o.get('enc') or e['v'] != o.get('v'):
        return False
    return ('orig' not in e) or e['orig'] == o.get('orig')


def _first_deviation(case, obs):
    """(step number >= 1 or 0 for the initial value, reference state before that step) of the first step whose
    observation differs from Python's own semantics, else None"""
    exp = expected(case)
    i = case['init']
    enc = case['enc']
    st = ('R', enc, [canon(enc, s) for s in i['rows']]) if i['kind'] == 'R' else ('F', enc, canon(enc, i['s']))
    if not _same(exp[0], obs[0]):
        return 0, st
    for n, op in enumerate(case['ops']):
        if not _same(exp[n + 1], obs[n + 1]):
            return n + 1, st
        st, _ = ref_step(st, op)
    return None


def _negstep_empty(st, op):
    if st[0] != 'R':
        return False
    rows = st[2]
    if op[0] == 'col_slice':
        t, sub = op[1], rows
    elif op[0] == 'rc':
        t, sub = op[2], _sel_list(op[1], rows)
        sub = [sub] if op[1][0] == 'i' else sub
    elif op[0] == 'set' and op[1][0] == 'rc' and not isinstance(op[1][2], int):
        t, sub = op[1][2], _sel_list(op[1][1], rows)
        sub = [sub] if op[1][1][0] == 'i' else sub
    else:
        return False
    return t[2] is not None and t[2] < 0 and t[0] is not None and t[0] >= 0 and any(len(r) == 0 for r in sub)


def finding(case, obs):
    d = _first_deviation(case, obs)
    if d is None or d[0] == 0:
        return None
    n, st = d
    op, o = case['ops'][n - 1], obs[n]
    msg = o.get('msg', '') if o.get('k') == 'E' else ''
    if op[0] == 'set' and o.get('err') == 'ValueError':
        scalar = (st[0] == 'R' and op[1][0] == 'elem') or (st[0] == 'F' and op[1][0] == 'idx' and op[1][1][0] == 'i')
        if 'read-only' in msg and st[0] == 'F' and st[1] == 'Base':
            return 'C07-base-str-readonly'
        if scalar and 'setting an array element with a sequence' in msg:
            return 'C07-setitem-scalar-position'
    if op[0] == 'sarr' and o.get('err') == 'ValueError' and st[0] == 'R' and st[2] and all(r == '' for r in st[2]):
        return 'C07-string-array-all-empty'
    if _negstep_empty(st, op) and _negstep_shape(st, op, o):
        return 'C07-nps-negstep-empty-row'
    return None


def _negstep_shape(st, op, o):
    """exactly the listed failure: every selected NON-empty row is Python's slice, every selected EMPTY row comes back with at
    most one character (getitem), or IndexError (read past the buffer) / the shape assertion or broadcast error of the
    assignment whose target was computed with those lengths"""
    rows = st[2]
    if op[0] == 'set':
        return o.get('k') == 'E' and o.get('err') in ('AssertionError', 'ValueError', 'IndexError')
    if o.get('k') == 'E':
        return o.get('err') == 'IndexError'
    if op[0] == 'col_slice':
        t, sub, flat = op[1], rows, False
    else:
        t, sub, flat = op[2], _sel_list(op[1], rows), op[1][0] == 'i'
        sub = [sub] if flat else sub
    got = o.get('v')
    if flat:
        if o.get('k') != 'F':
            return False
        got = [got]
    elif o.get('k') != 'R':
        return False
    if not isinstance(got, list) or len(got) != len(sub):
        return False
    for r, g in zip(sub, got):
        if len(r) == 0:
            if len(g) > 1:
                return False
        elif g != r[_sl(t)]:
            return False
    return True


def signature(case, obs):
    d = _first_deviation(case, obs)
    if d is None:
        return 'none'
    if d[0] == 0:
        return 'init'
    op, o = case['ops'][d[0] - 1], obs[d[0]]
    return '%s/%s/%s/%s' % (d[1][0], op[0], op[1][0] if op[0] == 'set' else '', o.get('err', o.get('k')))


INDEXING = {'rows2d', 'fslices', 'row_int', 'row_slice', 'row_fancy', 'row_mask', 'col_slice', 'rc', 'rows_col', 'elem', 'elems', 'idx', 'mask_eq',
            'rslice', 'split', 'stack'}


def nontrivial(case, obs):
    ops = [o[0] for o in case['ops']]
    if len(ops) < 2:
        return False
    seen = False
    for o in ops:
        if o in INDEXING or o == 'set':
            if seen:
                return True
            if o in INDEXING:
                seen = True
    return case['enc'] != 'Base' and any(o in ('set', 'eq', 'streq', 'streq2') for o in ops)


def describe(case, obs):
    return dict(enc=case['enc'], init=case['init'], ops=case['ops'],
                observed=[{k: v for k, v in o.items() if k in ('k', 'enc', 'v', 'err')} for o in obs][:8])


def distribution(cases, obs):
    d = dict(ops={}, encodings={}, program_length={}, init={'ragged': 0, 'flat': 0}, zero_rows=0, all_empty_rows=0, single_row=0,
             has_empty_row=0, errors={})
    cov = {}
    for c, ob in zip(cases, obs):
        for o in c['ops'][:1]:
            key = '%s/%s' % (c['init']['kind'], o[0])
            cov.setdefault(key, set()).add(c['enc'])
        d['encodings'][c['enc']] = d['encodings'].get(c['enc'], 0) + 1
        k = str(len(c['ops']))
        d['program_length'][k] = d['program_length'].get(k, 0) + 1
        if c['init']['kind'] == 'R':
            r = c['init']['rows']
            d['init']['ragged'] += 1
            d['zero_rows'] += len(r) == 0
            d['single_row'] += len(r) == 1
            d['all_empty_rows'] += len(r) > 0 and all(x == '' for x in r)
            d['has_empty_row'] += any(x == '' for x in r)
        else:
            d['init']['flat'] += 1
        for o in c['ops']:
            d['ops'][o[0]] = d['ops'].get(o[0], 0) + 1
        for o in ob if isinstance(ob, list) else []:
            if o.get('k') == 'E':
                d['errors'][o['err']] = d['errors'].get(o['err'], 0) + 1
    spd = {}
    for c in cases:
        for o, sp in zip(c['ops'], c.get('spell') or []):
            sels = [x for x in ([o[1]] if o[0] in ('idx', 'rc', 'rows_col') else [o[2]] if o[0] in ('rows2d', 'setrows2d') else
                                [['f', 0]] if o[0] == 'row_fancy' else [['m', 0]] if o[0] == 'row_mask' else [['i', 0]] if o[0] in ('row_int', 'elem') else
                                [o[1][1]] if o[0] == 'set' and o[1][0] in ('idx', 'rows', 'rc') else []) if isinstance(x, list) and x and x[0] in SPELL_NAMES]
            for sl in sels:
                key = '%s: %s' % (sl[0], SPELL_NAMES[sl[0]][sp % N_SPELL])
                spd[key] = spd.get(key, 0) + 1
    d['index_spellings'] = dict(sorted(spd.items()))
    d['split_with_separator_list'] = sum(1 for c in cases for o in c['ops'] if o[0] == 'split' and isinstance(o[1], list))
    d['first_op_by_kind_covered_encodings'] = {k: len(v) for k, v in sorted(cov.items())}
    return d


def search(tier, seed, disagreeing):
    return generate('quick', seed + 101)[:600]

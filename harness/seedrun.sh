#!/bin/bash
# usage: seedrun.sh <ID> [tier]  — apply every seeded change of a property to the tree under test (default /repo,
# or $SEEDREPO = a scratch worktree of /repo HEAD), run the check against it, undo; records the outcome in seeded/<id>-x/result.txt
ID=$1; TIER=${2:-quick}; SEL=${3:-*}
R=${SEEDREPO:-/repo}
cd /verif
for d in seeded/$ID-$SEL; do
  [ -f $d/patch.diff ] || continue
  P=$PWD/$d/patch.diff; if ! git -C $R apply --check $P 2>/dev/null && [ -f $PWD/$d/patch.head.diff ]; then P=$PWD/$d/patch.head.diff; fi
  if ! git -C $R apply --check $P 2>/dev/null; then echo "$d: patch does not apply to current HEAD"; echo "patch does not apply to /repo HEAD any more (the site was changed by a fix: commit)" > $d/result.txt; continue; fi
  git -C $R apply $P
  DM=demo.py; case $P in *patch.head.diff) [ -f $d/demo.head.py ] && DM=demo.head.py;; esac
  DEMO=$(cd $d && PYTHONPATH=$R PYTHONHASHSEED=0 timeout 900 /venv/bin/python -W ignore $DM >/dev/null 2>&1; echo $?)
  OUT=$(VERIF_REPO=$R ./check $ID --tier $TIER 2>/dev/null | grep -E "^VIOLATION|^$ID " | head -4)
  RC=$(echo "$OUT" | grep -c "^VIOLATION")
  git -C $R checkout -- .
  echo "$d: demo_exit=$DEMO $( [ $RC -gt 0 ] && echo CAUGHT || echo MISSED ) :: $(echo "$OUT" | tail -1)"
  { echo "HEAD $(git -C /repo log --format=%h -1); demonstration exit code with the change applied: $DEMO (0 = the change no longer breaks the property on the repaired tree)"; [ $RC -gt 0 ] && echo "caught by ./check $ID --tier $TIER" || echo "MISSED by ./check $ID --tier $TIER"; echo "$OUT"; } > $d/result.txt
done
VERIF_REPO=/repo ./check $ID --tier $TIER >/dev/null 2>&1   # refresh the evidence file on the unchanged tree

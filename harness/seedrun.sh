#!/bin/bash
# usage: seedrun.sh <ID> [tier]  — apply every seeded change of a property to /repo, run the check, undo; records outcome in seeded/<id>-x/result.txt
ID=$1; TIER=${2:-quick}
cd /verif
for d in seeded/$ID-*; do
  [ -f $d/patch.diff ] || continue
  if ! git -C /repo apply --check $PWD/$d/patch.diff 2>/dev/null; then echo "$d: patch does not apply to current /repo"; echo "does not apply (site changed by a fix: commit)" > $d/result.txt; continue; fi
  git -C /repo apply $PWD/$d/patch.diff
  OUT=$(./check $ID --tier $TIER 2>/dev/null | grep -E "^VIOLATION|^$ID " | head -4)
  RC=$(echo "$OUT" | grep -c "^VIOLATION")
  git -C /repo checkout -- .
  echo "$d: $( [ $RC -gt 0 ] && echo CAUGHT || echo MISSED ) :: $(echo "$OUT" | tail -1)"
  { [ $RC -gt 0 ] && echo "caught by ./check $ID --tier $TIER" || echo "MISSED by ./check $ID --tier $TIER"; echo "$OUT"; } > $d/result.txt
done
./check $ID --tier $TIER >/dev/null 2>&1   # refresh the evidence file on the unchanged tree

"""Runs one shard of cases against the implementation (imported from PYTHONPATH=/repo)."""
import json, sys, warnings
warnings.filterwarnings('ignore')
from harness.lib import _observe_shard
pid, inp, outp = sys.argv[1:4]
res = _observe_shard((pid, json.load(open(inp))))
json.dump(res, open(outp, 'w'))

"""Shared machinery for every property check.

Pipeline of one run (see DESIGN.md section 2.3):
  1. (re)generate coq/theories/Gen/*.v from /repo with the translator, build the Coq
     development (full .vo build, incremental, under flock + timeout), re-check the property's
     Props file and collect `Print Assumptions` for every theorem in it;
  2. replay corpus/<id>/ then generate the tier's cases, run the implementation on them in
     sub-processes (PYTHONPATH=/repo), emit cases_*.v files in which Coq itself decides, per case,
     model_ok (implementation == model) and spec_ok (implementation satisfies the property);
  3. decide, write evidence/<id>.json, print VIOLATION / KNOWN-FINDING lines, exit 0/1.
"""
import concurrent.futures as cf
import hashlib
import importlib
import json
import os
import re
import shutil
import subprocess
import sys
import time

ROOT = os.path.dirname(os.path.dirname(os.path.abspath(__file__)))
COQ = os.path.join(ROOT, 'coq')
WORK = os.path.join(ROOT, 'work')
REPO = os.environ.get('VERIF_REPO', '/repo')
PY = '/venv/bin/python'
NPROC = int(os.environ.get('VERIF_NPROC', '16'))
FORBIDDEN = re.compile(r'\b(Admitted|admit|Axiom|Axioms|Parameter|Parameters|Conjecture|Hypothesis|Variable|Variables)\b|Unset\s+Guard|bypass_check|type-in-type|impredicative-set|Admit\s+Obligations')


def log(*a):
    print(*a, file=sys.stderr, flush=True)


def sh(cmd, timeout=1200, cwd=None, env=None, inp=None):
    e = dict(os.environ)
    if env:
        e.update(env)
    try:
        p = subprocess.run(cmd, shell=isinstance(cmd, str), cwd=cwd, env=e, input=inp,
                           stdout=subprocess.PIPE, stderr=subprocess.STDOUT, timeout=timeout, text=True)
        return p.returncode, p.stdout
    except subprocess.TimeoutExpired as ex:
        out = ex.stdout if isinstance(ex.stdout, str) else (ex.stdout or b'').decode('utf8', 'replace')
        return 124, out + '\n[timeout after %ss]' % timeout


# ----------------------------------------------------------------------------- Coq side
def coq_files():
    """Every .v under coq/theories belongs to the development (_CoqProject is regenerated from the tree)."""
    out = []
    for d, _, fs in os.walk(os.path.join(COQ, 'theories')):
        for f in fs:
            if f.endswith('.v'):
                out.append(os.path.relpath(os.path.join(d, f), COQ))
    return sorted(out)


def write_coqproject():
    txt = '-Q theories BNP\n' + '\n'.join(coq_files()) + '\n'
    p = os.path.join(COQ, '_CoqProject')
    if not os.path.exists(p) or open(p).read() != txt:
        open(p, 'w').write(txt)


def scan_forbidden():
    """Reject any axiom-introducing or check-disabling vernacular in the development."""
    bad = []
    for f in coq_files():
        p = os.path.join(COQ, f)
        if not os.path.exists(p):
            continue
        txt = open(p).read()
        # strip comments (non-nested is enough for our sources; nested handled by loop)
        prev = None
        while prev != txt:
            prev = txt
            txt = re.sub(r'\(\*[^*]*(?:\*(?!\))[^*]*)*\*\)', ' ', txt)
        in_section = 0
        for n, line in enumerate(txt.split('\n'), 1):
            if re.match(r'\s*Section\b', line):
                in_section += 1
            if re.match(r'\s*End\b', line) and in_section:
                in_section -= 1
            m = FORBIDDEN.search(line)
            if m:
                w = m.group(0)
                if w in ('Variable', 'Variables', 'Hypothesis') and in_section:
                    continue
                bad.append('%s:%d: %s' % (f, n, w))
    return bad


PROPS_MARK = '=====PROPS-RECHECK====='


def coq_build(timeout=3000, pid=None):
    """Translator + full .vo build + re-check of Props/<pid>.v, all under ONE lock (so a concurrent run
    against another tree cannot swap the regenerated Gen/*.v in between).
    Returns (ok, log, failed_files); the Props re-check output is kept in coq_build.props_out."""
    os.makedirs(WORK, exist_ok=True)
    write_coqproject()
    tr = os.path.join(ROOT, 'translate', 'run.py')
    parts = []
    if os.path.exists(tr):
        parts.append('PYTHONPATH=%s VERIF_REPO=%s %s -W ignore %s 2>&1 | grep -v -i conda' % (REPO, REPO, PY, tr))
    parts.append('coq_makefile -f _CoqProject -o Makefile >/dev/null 2>&1')
    parts.append("make -k -j%d COQC='timeout 600 coqc' 2>&1" % NPROC)
    if pid and os.path.exists(os.path.join(COQ, 'theories', 'Props', pid + '.v')):
        parts.append('echo %s; timeout 900 coqc -Q theories BNP theories/Props/%s.v 2>&1' % (PROPS_MARK, pid))
    script = os.path.join(WORK, 'build_%d.sh' % os.getpid())
    open(script, 'w').write('cd %s\n' % COQ + '\n'.join(parts) + '\n')
    rc, out = sh('flock %s/.buildlock sh %s' % (WORK, script), timeout=timeout, cwd=COQ)
    try:
        os.remove(script)
    except OSError:
        pass
    coq_build.props_out = None
    if PROPS_MARK in out:
        out, coq_build.props_out = out.split(PROPS_MARK, 1)
    failed = []
    for m in re.finditer(r'\*\*\* \[[^\]]*?:\s*(theories/[\w/]+)\.vo\] Error', out):
        f = m.group(1) + '.v'
        if f not in failed:
            failed.append(f)
        try:        # a stale .vo from an earlier build must not be mistaken for a checked proof
            os.remove(os.path.join(COQ, m.group(1) + '.vo'))
        except OSError:
            pass
    for f in coq_files():
        if not os.path.exists(os.path.join(COQ, f[:-2] + '.vo')) and f not in failed:
            failed.append(f)
    return (not failed), out, failed


def coq_deps(vfile):
    """Transitive project-local dependencies of a .v file (paths relative to coq/)."""
    seen, todo = [], [vfile]
    while todo:
        f = todo.pop()
        if f in seen:
            continue
        seen.append(f)
        p = os.path.join(COQ, f)
        if not os.path.exists(p):
            continue
        for m in re.finditer(r'From\s+BNP\s+Require\s+(?:Import|Export)?\s*([^\n]*?)\.[ \t]*(?:\n|$|\(\*)', open(p).read()):
            for mod in m.group(1).split():
                if re.match(r'^[A-Za-z_][\w.]*$', mod):
                    todo.append('theories/' + mod.replace('.', '/') + '.v')
    return seen


def check_props(pid):
    """Re-run coqc on Props/<pid>.v; return dict(theorems=[{name, assumptions}], ok, log)."""
    f = 'theories/Props/%s.v' % pid
    if not os.path.exists(os.path.join(COQ, f)):
        return dict(ok=False, theorems=[], log='missing ' + f, cmd='')
    cmd = 'coqc -Q theories BNP %s' % f
    if getattr(coq_build, 'props_out', None) is not None:
        out = coq_build.props_out
        rc = 1 if re.search(r'^Error|\nError', out) else 0
    else:
        rc, out = sh('flock %s/.buildlock timeout 900 %s' % (WORK, cmd), timeout=4000, cwd=COQ)
    names = re.findall(r'^\s*Theorem\s+([\w\']+)', open(os.path.join(COQ, f)).read(), re.M)
    # Print Assumptions output: either "Closed under the global context" or "Axioms:\n ..."
    blocks = re.split(r'(?=Closed under the global context|Axioms:)', out)
    assum = []
    for b in blocks[1:]:
        if b.startswith('Closed'):
            assum.append([])
        else:
            ax = re.findall(r'^([\w.\']+)\s*:', b, re.M)
            assum.append(ax)
    th = []
    for i, n in enumerate(names):
        th.append(dict(name=n, assumptions=assum[i] if i < len(assum) else None))
    ok = rc == 0 and len(assum) >= len(names) and len(names) > 0
    return dict(ok=ok, theorems=th, log=out, cmd='cd /verif/coq && ' + cmd)


def zl(xs):
    return '[' + ';'.join(str(int(x)) for x in xs) + ']%Z' if len(xs) else '(@nil Z)'


def hx(b):
    """bytes -> Coq term of type list Z (hex string literal decoded inside Coq; long texts are split)."""
    if isinstance(b, str):
        b = b.encode('latin1')
    b = bytes(b)
    if len(b) == 0:
        return '(@nil Z)'
    if len(b) <= 2000:
        return '(unhex "%s")' % b.hex()
    return '(' + ' ++ '.join('unhex "%s"' % b[i:i + 2000].hex() for i in range(0, len(b), 2000)) + ')%list'


def cbool(b):
    return 'true' if b else 'false'


def clist(items, ty=None):
    if not items:
        return '(@nil (%s))' % ty if ty else '[]'
    return '[' + '; '.join(items) + ']'


def copt(x, f=str, ty='Z'):
    return '(@None %s)' % ty if x is None else '(Some %s)' % f(x)


def cz(x):
    x = int(x)
    return '(%d)%%Z' % x


CASE_HEADER = '''From Coq Require Import ZArith List Bool String.
From BNP Require Import Base.Prims %s.
Import ListNotations.
Open Scope Z_scope.
'''


def coq_eval_cases(pid, corr_module, terms, tag='run', per_file=48, timeout=900, extra_imports=''):
    """terms: list of Coq terms of type <corr_module>.case.  Returns (model_bad, spec_bad, errors):
    lists of indices into terms."""
    # one directory per invocation: concurrent checks of one property (seed runs, builders) must not delete each
    # other's case files; stale directories of dead processes are swept here
    base = os.path.join(WORK, pid)
    os.makedirs(base, exist_ok=True)
    for d in os.listdir(base):
        m = re.match(r'.*-p(\d+)$', d)
        if d == tag or (m and not os.path.exists('/proc/' + m.group(1))):
            shutil.rmtree(os.path.join(base, d), ignore_errors=True)
    wd = os.path.join(base, '%s-p%d' % (tag, os.getpid()))
    shutil.rmtree(wd, ignore_errors=True)
    os.makedirs(wd)
    files = []
    for s in range(0, len(terms), per_file):
        name = 'cases_%s_%05d' % (pid, s // per_file)
        lines = [CASE_HEADER % (corr_module + ' ' + extra_imports)]
        ids = []
        for i, t in enumerate(terms[s:s + per_file]):
            lines.append('Definition c%d : case := %s.' % (i, t))
            ids.append(i)
        lines.append('Definition cs : list (Z * case) := [%s].' % '; '.join('(%d, c%d)' % (s + i, i) for i in ids))
        lines.append('Definition mbad := map fst (filter (fun p => negb (model_ok (snd p))) cs).')
        lines.append('Definition sbad := map fst (filter (fun p => negb (spec_ok (snd p))) cs).')
        lines.append('Eval vm_compute in (mbad, sbad).')
        with open(os.path.join(wd, name + '.v'), 'w') as f:
            f.write('\n'.join(lines) + '\n')
        files.append(name)

    def run(name):
        rc, out = sh('coqc -Q %s/theories BNP -Q . Cases %s.v' % (COQ, name), timeout=timeout, cwd=wd)
        return name, rc, out
    mbad, sbad, errors = [], [], []
    with cf.ThreadPoolExecutor(NPROC) as ex:
        for name, rc, out in ex.map(run, files):
            if rc != 0:
                errors.append((name, out[-2000:]))
                continue
            flat = ' '.join(out.split())
            m = re.search(r'=\s*\((.*?),\s*(\[.*?\]|nil)\s*\)\s*:', flat)
            if not m:
                errors.append((name, out[-2000:]))
                continue
            mbad += [int(x) for x in re.findall(r'-?\d+', m.group(1))]
            sbad += [int(x) for x in re.findall(r'-?\d+', m.group(2))]
    return sorted(mbad), sorted(sbad), errors


# ----------------------------------------------------------------------------- implementation side
def _observe_shard(args):
    pid, cases = args
    mod = importlib.import_module('harness.props.' + pid.lower())
    out = []
    for c in cases:
        try:
            out.append(mod.observe(c))
        except BaseException as e:  # the property module decides which exceptions are observations
            out.append({'__harness_error__': '%s: %s' % (type(e).__name__, str(e)[:300])})
    return out


def observe_all(pid, cases, timeout=3000):
    """Run mod.observe on every case in fresh sub-processes importing bionumpy from REPO."""
    if not cases:
        return []
    wd = os.path.join(WORK, pid)
    os.makedirs(wd, exist_ok=True)
    n = min(NPROC, max(1, len(cases) // 8))
    shards = [cases[i::n] for i in range(n)]
    procs = []
    for i, sh_cases in enumerate(shards):
        inp = os.path.join(wd, 'impl_in_%d_%d.json' % (os.getpid(), i))
        outp = os.path.join(wd, 'impl_out_%d_%d.json' % (os.getpid(), i))
        json.dump(sh_cases, open(inp, 'w'))
        if os.path.exists(outp):
            os.remove(outp)
        env = dict(os.environ, PYTHONPATH=REPO + os.pathsep + ROOT, PYTHONHASHSEED='0', PYTHONWARNINGS='ignore',
                   BIONUMPY_VERIF='1', OMP_NUM_THREADS='1', OPENBLAS_NUM_THREADS='1')
        p = subprocess.Popen([PY, '-m', 'harness.implrun', pid, inp, outp], cwd=ROOT, env=env,
                             stdout=subprocess.DEVNULL, stderr=subprocess.PIPE)
        procs.append((p, outp, len(sh_cases)))
    res = []
    t0 = time.time()
    for p, outp, k in procs:
        try:
            _, err = p.communicate(timeout=max(1, timeout - (time.time() - t0)))
        except subprocess.TimeoutExpired:
            p.kill()
            err = b'timeout'
        if os.path.exists(outp):
            res.append(json.load(open(outp)))
            os.remove(outp)
        else:
            res.append([{'__harness_error__': 'impl subprocess died: ' + err.decode('utf8', 'replace')[-300:]}] * k)
    for i in range(n):
        try:
            os.remove(os.path.join(wd, 'impl_in_%d_%d.json' % (os.getpid(), i)))
        except OSError:
            pass
    out = [None] * len(cases)
    for i in range(n):
        for j, o in enumerate(res[i]):
            out[i + j * n] = o
    return out


# ----------------------------------------------------------------------------- findings
def load_findings():
    p = os.path.join(ROOT, 'known_findings.json')
    if not os.path.exists(p):
        return {}
    d = json.load(open(p))
    out = {f['id']: f for f in d.get('findings', [])}
    extra = os.environ.get('VERIF_EXTRA_FINDINGS')      # builders' not-yet-merged fragments (development only)
    if extra and os.path.exists(extra):
        for f in json.load(open(extra)).get('findings', []):
            out[f['id']] = f
    return out


def case_hash(c):
    return hashlib.sha1(json.dumps(c, sort_keys=True).encode()).hexdigest()


# ----------------------------------------------------------------------------- main driver
def run_check(pid, tier='quick', replay=None):
    t0 = time.time()
    seed = int(os.environ.get('VERIF_SEED', '0'))
    mod = importlib.import_module('harness.props.' + pid.lower())
    os.makedirs(os.path.join(ROOT, 'evidence'), exist_ok=True)
    os.makedirs(os.path.join(ROOT, 'replays'), exist_ok=True)
    findings = load_findings()
    violations = []      # (replay_path, suffix)
    known_hits = {}      # finding id -> count
    notes = []

    # ---- 1. proofs
    bad = scan_forbidden()
    ok, blog, failed = coq_build(pid=pid)
    props = check_props(pid)
    deps = coq_deps('theories/Props/%s.v' % pid) + coq_deps('theories/Corr/%s.v' % getattr(mod, 'COQ_CORR', pid))
    failed_rel = [f for f in failed if f in deps]
    allowed_axioms = set(getattr(mod, 'ALLOWED_AXIOMS', []))
    obligations = len(props['theorems'])
    discharged = 0
    for t in props['theorems']:
        if t['assumptions'] is not None and set(t['assumptions']) <= allowed_axioms:
            discharged += 1
    proof_broken = None
    if bad:
        proof_broken = 'forbidden vernacular in development: ' + '; '.join(bad[:5])
    elif failed_rel:
        errs = re.findall(r'File "[^"]*", line \d+, characters [\d-]+:\nError:[^\n]*(?:\n[^\n]+){0,6}', blog)
        proof_broken = 'Coq files that no longer compile: %s\n%s' % (', '.join(failed_rel), '\n'.join(errs[:3]))
    elif not props['ok'] or discharged < obligations:
        proof_broken = 'Props/%s.v does not check or has unexpected assumptions:\n%s' % (pid, props['log'][-1500:])

    # ---- 2. correspondence
    if replay:
        r = json.load(open(replay))
        cases = r['cases'] if 'cases' in r else [r['case']]
    else:
        cases = []
        cdir = os.path.join(ROOT, 'corpus', pid)
        if os.path.isdir(cdir):
            for fn in sorted(os.listdir(cdir)):
                if fn.endswith('.json'):
                    cases.append(json.load(open(os.path.join(cdir, fn)))['case'])
        n_corpus = len(cases)
        cases += mod.generate(tier, seed)
    corr_ok = not failed_rel or not any(f.startswith('theories/Corr/') or f.startswith('theories/Model/') or f.startswith('theories/Base/') for f in failed_rel)
    obs = observe_all(pid, cases)
    herr = [i for i, o in enumerate(obs) if isinstance(o, dict) and '__harness_error__' in o]
    mbad, sbad, errors = [], [], []
    terms = []
    idxmap = []
    for i, (c, o) in enumerate(zip(cases, obs)):
        if i in herr:
            continue
        terms.append(mod.to_coq(c, o))
        idxmap.append(i)
    if corr_ok and terms:
        mb, sb, errors = coq_eval_cases(pid, 'Corr.' + getattr(mod, 'COQ_CORR', pid), terms,
                                        per_file=getattr(mod, 'PER_FILE', 48))
        mbad = [idxmap[i] for i in mb]
        sbad = [idxmap[i] for i in sb]

    # ---- 3. decide
    def write_replay(kind, i=None, extra=None):
        d = dict(property=pid, kind=kind, seed=seed, tier=tier)
        if i is not None:
            d['case'] = cases[i]
            d['observed'] = obs[i]
            if hasattr(mod, 'explain'):
                try:
                    d['explain'] = mod.explain(cases[i], obs[i])
                except Exception:
                    pass
            d['how_to_replay'] = 'cd /verif && ./check %s --replay <this file>' % pid
        if extra:
            d.update(extra)
        path = os.path.join(ROOT, 'replays', '%s-%d-%s.json' % (pid, seed, hashlib.sha1(json.dumps(d, sort_keys=True, default=str).encode()).hexdigest()[:10]))
        json.dump(d, open(path, 'w'), indent=1, default=str)
        return path

    reported = set()
    for i in sbad:
        fid = mod.finding(cases[i], obs[i]) if hasattr(mod, 'finding') else None
        if fid and fid in findings and findings[fid]['property'] == pid:
            known_hits[fid] = known_hits.get(fid, 0) + 1
            continue
        key = mod.signature(cases[i], obs[i]) if hasattr(mod, 'signature') else 'any'
        if key in reported:
            continue
        reported.add(key)
        violations.append((write_replay('property violated by the implementation on this input', i), ''))
    if herr:
        violations.append((write_replay('harness could not observe the implementation', herr[0]), ' no-failing-input-found'))
    if errors:
        violations.append((write_replay('case files failed to evaluate in Coq', None, dict(coq_errors=errors[:3])), ' no-failing-input-found'))
    mismatch_only = [i for i in mbad if i not in sbad]
    searched = 0
    if (mismatch_only or proof_broken) and not violations:
        # the property is no longer shown: search for a concrete failing input
        extra_cases = []
        if hasattr(mod, 'search') and not replay:
            extra_cases = mod.search(tier, seed, [cases[i] for i in mismatch_only[:20]])
        if extra_cases and corr_ok:
            eobs = observe_all(pid, extra_cases)
            eterms, emap = [], []
            for i, (c, o) in enumerate(zip(extra_cases, eobs)):
                if isinstance(o, dict) and '__harness_error__' in o:
                    continue
                eterms.append(mod.to_coq(c, o))
                emap.append(i)
            _, esb, _ = coq_eval_cases(pid, 'Corr.' + getattr(mod, 'COQ_CORR', pid), eterms, tag='search',
                                       per_file=getattr(mod, 'PER_FILE', 48))
            searched = len(eterms)
            for j in esb:
                i = emap[j]
                fid = mod.finding(extra_cases[i], eobs[i]) if hasattr(mod, 'finding') else None
                if fid and fid in findings:
                    continue
                cases.append(extra_cases[i])
                obs.append(eobs[i])
                violations.append((write_replay('property violated by the implementation on this input (found by search after a broken obligation)', len(cases) - 1), ''))
                break
        if not violations:
            what = proof_broken or ('correspondence Corr.%s.model_ok fails: the implementation disagrees with the Coq model on %d case(s) while no property violation was found' % (pid, len(mismatch_only)))
            violations.append((write_replay('obligation no longer checks', mismatch_only[0] if mismatch_only else None,
                                            dict(broken_obligation=what, disagreeing_cases=[cases[i] for i in mismatch_only[:5]],
                                                 searched_cases=searched)), ' no-failing-input-found'))

    # ---- independent re-check of the compiled proofs (thorough tier): coqchk -o lists the axioms everything relies on
    coqchk = None
    if tier == 'thorough' and not proof_broken:
        rc, out = sh('flock %s/.buildlock timeout 1500 coqchk -o -Q theories BNP BNP.Props.%s' % (WORK, pid), timeout=4000, cwd=COQ)
        m = re.search(r'CONTEXT SUMMARY.*', out, re.S)
        coqchk = dict(ok=(rc == 0 and 'Modules were successfully checked' in out),
                      summary=' '.join((m.group(0) if m else out[-600:]).split())[:900])
        if not coqchk['ok']:
            violations.append((write_replay('coqchk rejected the compiled development', None, dict(coqchk=out[-1500:])), ' no-failing-input-found'))

    # ---- evidence
    seen = set()
    nontriv = 0
    for c, o in zip(cases, obs):
        h = case_hash(c)
        if h in seen:
            continue
        seen.add(h)
        try:
            if mod.nontrivial(c, o):
                nontriv += 1
        except Exception:
            pass
    samples = []
    for c, o in list(zip(cases, obs))[:: max(1, len(cases) // 3)][:3]:
        try:
            samples.append(mod.describe(c, o) if hasattr(mod, 'describe') else dict(case=c, observed=o))
        except Exception:
            samples.append(dict(case=c, observed=o))
    dist = mod.distribution(cases, obs) if hasattr(mod, 'distribution') else {}
    ev = dict(
        property_id=pid, tier=tier, seed=seed, level='proof',
        coverage=dict(
            obligations=obligations + 1, discharged=(discharged + (1 if not mbad and not errors and not herr else 0)),
            checker_cmd=props.get('cmd', '') + '  (after `make` in /verif/coq; case files by coqc + vm_compute)',
            trusted_base=['Coq 8.16.1 kernel incl. vm_compute', 'harness/lib.py + harness/props/%s.py (generator, canonicalisation)' % pid.lower(),
                          'correspondence: model evaluated inside Coq against /repo run under /venv/bin/python'] + list(getattr(mod, 'TRUSTED', [])),
            theorems=props['theorems'],
            obligation_kinds='%d theorems in Props/%s.v (each followed by Print Assumptions) + 1 correspondence obligation (model_ok on every case)' % (obligations, pid),
            evaluations=len(cases), distinct_nontrivial=nontriv, rule=getattr(mod, 'RULE', ''),
            samples=samples, distribution=dist, exhaustive=bool(getattr(mod, 'EXHAUSTIVE', {}).get(tier, False)),
            model_mismatches=len(mbad), spec_violations=len(sbad), known_finding_hits=known_hits,
            partial=list(getattr(mod, 'PARTIAL', [])), tie=getattr(mod, 'TIE', 'correspondence'), coqchk=coqchk,
            notes=notes),
        assumptions=list(getattr(mod, 'ASSUMPTIONS', [])),
        wall_s=round(time.time() - t0, 1), violations=len(violations))
    json.dump(ev, open(os.path.join(ROOT, 'evidence', pid + '.json'), 'w'), indent=1, default=str)

    for fid, n in sorted(known_hits.items()):
        print('KNOWN-FINDING: property=%s %s [%s; %d matching case(s) this run]' % (pid, findings[fid]['what'], fid, n))
    for path, suffix in violations:
        print('VIOLATION property=%s replay=%s%s' % (pid, path, suffix))
    print('%s %s: %d cases, %d non-trivial, %d/%d obligations, %d model mismatches, %d spec violations, %.0fs' % (
        pid, tier, len(cases), nontriv, ev['coverage']['discharged'], ev['coverage']['obligations'], len(mbad), len(sbad), time.time() - t0))
    return 1 if violations else 0

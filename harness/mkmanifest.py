"""Regenerates MANIFEST.json from harness/registry.json (claimed checks) + properties.jsonl.
The theorem count and names in each text are read from coq/theories/Props/<id>.v at generation time."""
import json, os, re
ROOT = os.path.dirname(os.path.dirname(os.path.abspath(__file__)))
reg = json.load(open(os.path.join(ROOT, 'harness', 'registry.json')))
props = [json.loads(l) for l in open(os.path.join(ROOT, 'properties.jsonl'))]
checks, na = [], []
for p in props:
    i = p['id']
    if i in reg['claimed']:
        r = reg['claimed'][i]
        names = re.findall(r'^Theorem (\w+)', open(os.path.join(ROOT, 'coq', 'theories', 'Props', i + '.v')).read(), re.M)
        text = re.sub(r'^\d+ theorems', 'Theorems', r['text'])
        text += (' [Props/%s.v now states %d theorems, each "Closed under the global context": %s. The later phases (depth, '
                 'model_ok => spec_ok links, sessions, size thresholds, argument spellings) are described theorem by theorem in '
                 'notes/%s.md; the generator rule and what is not proved are in evidence/%s.json.]'
                 % (i, len(names), ', '.join(names), i, i))
        r = dict(r, text=text)
        checks.append(dict(
            property_id=i, quick_cmd='./check %s --tier quick' % i, thorough_cmd='./check %s --tier thorough' % i,
            evidence_file='/verif/evidence/%s.json' % i, replay_cmd_template='./check %s --replay {path}' % i,
            engine='coq-proof+correspondence',
            level_claimed=dict(category='proof', text=r['text'], design_ref=r.get('design_ref', 'DESIGN.md section 5, ' + i)),
            level_note=r['note'], technique=r['technique']))
    else:
        na.append(dict(property_id=i, reason=reg['not_claimed'].get(i, 'check not built yet in this round; see DESIGN.md section 9')))
m = dict(version=1,
         setup_cmd='cd /verif && ./setup.sh',
         hooks=dict(guard='BIONUMPY_VERIF', enable='no hooks are compiled into /repo; checks only export BIONUMPY_VERIF=1 for uniformity',
                    baseline_off_cmd='cd /repo && /venv/bin/python -m pytest -ra -q -p no:cacheprovider --timeout=900 --continue-on-collection-errors',
                    source_commits=[], add_only=True),
         engines=[dict(name='coq-proof+correspondence', path='/verif/coq + /verif/harness',
                       serves_properties=sorted(reg['claimed']),
                       kind_free_text='Coq 8.16.1 theorems about hand-written executable Gallina models (coq/theories/Props), tied to /repo on every run by a correspondence check whose comparison is evaluated inside Coq (vm_compute) and, for arithmetic kernels, by a Python-AST translator that regenerates Gallina from /repo and bridge lemmas')],
         checks=checks, not_applicable=na,
         notes='See DESIGN.md. known_findings.json lists recorded defects and fix: commits.')
json.dump(m, open(os.path.join(ROOT, 'MANIFEST.json'), 'w'), indent=1)
print('claimed', len(checks), 'not claimed', len(na))

#!/bin/bash
# usage: run_baseline.sh <worktree>   -> prints stable baseline tests that did NOT pass; exit 0 iff none
WT=$1
OUT=$(mktemp /tmp/junit.XXXXXX.xml)
cd "$WT" && PYTHONPATH="$WT" PYTHONHASHSEED=0 /venv/bin/python -m pytest -q -p no:cacheprovider --timeout=900 --continue-on-collection-errors -n 4 --junitxml="$OUT" >/dev/null 2>&1
/venv/bin/python - "$OUT" <<'PY' 2>/dev/null
import sys,xml.etree.ElementTree as ET
want=set(open('/verif/harness/baseline_pass.txt').read().split('\n'))-{''}
ok=set()
for tc in ET.parse(sys.argv[1]).getroot().iter('testcase'):
    name=tc.get('classname')+'::'+tc.get('name')
    if not any(c.tag in('failure','error','skipped') for c in tc): ok.add(name)
bad=sorted(want-ok)
print('stable baseline tests not passing:',len(bad))
for b in bad: print('  ',b)
sys.exit(1 if bad else 0)
PY
RC=$?
rm -f "$OUT"
exit $RC

#!/bin/bash
# usage: seed_confirm.sh <ID> <x>  — confirm a sub-agent's seeded change in its scratch worktree and keep it under /verif/seeded/<ID>-<x>/
ID=$1; X=$2
SRC=/tmp/seed6/out_$ID/$X; WT=/tmp/seed6/wt_$ID; DST=/verif/seeded/$ID-$X
[ -f $SRC/patch.diff ] || { echo "no patch $SRC"; exit 2; }
git -C $WT checkout -q -- . ; rm -rf $WT/.hypothesis
run_demo() { (cd $SRC && PYTHONPATH=$WT PYTHONHASHSEED=0 timeout 600 /venv/bin/python -W ignore demo.py >/dev/null 2>&1); echo $?; }
D0=$(run_demo)
git -C $WT apply $SRC/patch.diff || { echo "patch does not apply"; exit 2; }
/verif/harness/run_baseline.sh $WT > /tmp/seed6/base_$ID$X.txt 2>&1; B=$?
D1=$(run_demo)
git -C $WT checkout -q -- . ; rm -rf $WT/.hypothesis
git -C $WT clean -fdq 2>/dev/null
echo "$ID-$X demo_without=$D0 baseline_with=$B demo_with=$D1"
if [ "$D0" = 0 ] && [ "$B" = 0 ] && [ "$D1" != 0 ]; then
  mkdir -p $DST && cp $SRC/patch.diff $SRC/demo.py $DST/ 
  /venv/bin/python - "$SRC/meta.json" "$DST/meta.json" "$ID" "$D0" "$B" "$D1" <<'PY' 2>/dev/null
import json,sys
src,dst,pid,d0,b,d1=sys.argv[1:7]
try: m=json.load(open(src))
except Exception: m={}
m['property']=pid
m['confirmed_by_me']={'worktree':'scratch worktree of /repo at the repaired HEAD (round 6)','demo_exit_without_change':int(d0),'baseline_exit_with_change':int(b),'demo_exit_with_change':int(d1),
  'commands':['demo.py with PYTHONPATH=<worktree>','harness/run_baseline.sh <worktree> (pinned pytest suite, 366 stable tests)']}
json.dump(m,open(dst,'w'),indent=1)
PY
  echo "kept $DST"
else
  echo "NOT kept"
fi

"""usage: integrate.py <ID> [--skip finding-id ...] [--fixed 'text' ...]  — merge a builder's findings fragment into known_findings.json"""
import json, sys, os
ROOT = os.path.dirname(os.path.dirname(os.path.abspath(__file__)))
pid = sys.argv[1]
skip, fixed = [], []
a = sys.argv[2:]
while a:
    if a[0] == '--skip': skip.append(a[1]); a = a[2:]
    elif a[0] == '--fixed': fixed.append(a[1]); a = a[2:]
    else: raise SystemExit('bad arg ' + a[0])
kf = json.load(open(os.path.join(ROOT, 'known_findings.json')))
frag = os.path.join(ROOT, 'notes', pid + '.findings.json')
if os.path.exists(frag):
    for f in json.load(open(frag)).get('findings', []):
        if f['id'] in skip or any(x['id'] == f['id'] for x in kf['findings']):
            continue
        kf['findings'].append(f)
for t in fixed:
    if t not in kf['fixed']:
        kf['fixed'].append(t)
json.dump(kf, open(os.path.join(ROOT, 'known_findings.json'), 'w'), indent=1)
print('findings now:', [f['id'] for f in kf['findings']])

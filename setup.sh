#!/bin/bash
# Builds the Coq development from files on disk (offline). Idempotent.
set -e
cd "$(dirname "$0")"
mkdir -p work evidence replays
if [ -f translate/run.py ]; then PYTHONPATH=/repo /venv/bin/python -W ignore translate/run.py 2>/dev/null || true; fi
cd coq
coq_makefile -f _CoqProject -o Makefile >/dev/null
timeout 3000 make -k -j16 2>&1 | grep -v -i conda | tail -5

#!/bin/bash
# Builds the Coq development from files on disk (offline). Idempotent.
cd "$(dirname "$0")"
mkdir -p work evidence replays
/venv/bin/python -W ignore - <<'PY' 2>&1 | grep -v -i conda | tail -8
import sys
sys.path.insert(0, '/verif')
from harness import lib
ok, log, failed = lib.coq_build(timeout=3000)
print('coq build ok' if ok else 'coq build FAILED: %s' % failed)
if not ok:
    print(log[-3000:])
PY
exit 0

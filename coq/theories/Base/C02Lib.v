(* Base/C02Lib.v — list / index lemmas used by the C02 proofs (nothing here is specific to a file format). *)
From Coq Require Import ZArith List Bool Lia Arith.
From BNP Require Import Base.Prims Base.PrimsFacts.
Import ListNotations.
Open Scope Z_scope.

Lemma len_map {A B} (f : A -> B) l : len (map f l) = len l.
Proof. unfold len. rewrite map_length. reflexivity. Qed.
Lemma len_repeat {A} (x : A) n : len (repeat x n) = Z.of_nat n.
Proof. unfold len. rewrite repeat_length. reflexivity. Qed.
Lemma len_single {A} (x : A) : len [x] = 1.
Proof. reflexivity. Qed.
Lemma len_zero_nil {A} (l : list A) : len l = 0 -> l = [].
Proof. destruct l; [reflexivity|]. rewrite len_cons. pose proof (len_nonneg l). lia. Qed.

(* ---------- nthZ ---------- *)
Lemma nthZ_app_r a b i : 0 <= i -> nthZ (a ++ b) (len a + i) = nthZ b i.
Proof. intros H. unfold nthZ, len. rewrite app_nth2 by lia. f_equal. lia. Qed.
Lemma nthZ_app_l a b i : 0 <= i < len a -> nthZ (a ++ b) i = nthZ a i.
Proof. intros H. unfold nthZ, len in *. apply app_nth1. lia. Qed.
Lemma nthZ_cons_0 x l : nthZ (x :: l) 0 = x.
Proof. reflexivity. Qed.
Lemma nthZ_cons_S x l i : 1 <= i -> nthZ (x :: l) i = nthZ l (i - 1).
Proof. intros H. unfold nthZ. replace (Z.to_nat i) with (S (Z.to_nat (i - 1))) by lia. reflexivity. Qed.
Lemma nthZ_In_or_0 l i : In (nthZ l i) l \/ nthZ l i = 0.
Proof. unfold nthZ. destruct (nth_in_or_default (Z.to_nat i) l 0); auto. Qed.
Lemma nthZ_mid pre x post : nthZ (pre ++ x :: post) (len pre) = x.
Proof. replace (len pre) with (len pre + 0) by lia. rewrite nthZ_app_r by lia. reflexivity. Qed.

(* ---------- slice ---------- *)
Lemma slice_mid {A} (pre f post : list A) : slice (len pre) (len pre + len f) (pre ++ f ++ post) = f.
Proof.
  rewrite slice_app_r by lia. replace (len pre - len pre) with 0 by lia.
  replace (len pre + len f - len pre) with (len f) by lia.
  rewrite slice_app_l by (pose proof (len_nonneg f); lia). apply slice_full. lia.
Qed.

(* ---------- flatnonzero ---------- *)
Lemma flatnonzero_from_app o a b :
  flatnonzero_from o (a ++ b) = flatnonzero_from o a ++ flatnonzero_from (o + len a) b.
Proof.
  revert o. induction a as [|x a IH]; intros o; simpl.
  - rewrite len_nil. f_equal. lia.
  - rewrite IH, len_cons, <- app_assoc. do 3 f_equal. lia.
Qed.
Lemma flatnonzero_from_false o l : (forall b, In b l -> b = false) -> flatnonzero_from o l = [].
Proof.
  revert o. induction l as [|x l IH]; intros o H; simpl; [reflexivity|].
  rewrite (H x) by (left; reflexivity). simpl. apply IH. intros b Hb. apply H. right. exact Hb.
Qed.

(* ---------- arange ---------- *)
Lemma arange_from_snoc s n : arange_from s (S n) = arange_from s n ++ [s + Z.of_nat n].
Proof.
  revert s. induction n as [|n IH]; intros s.
  - simpl. f_equal. lia.
  - change (arange_from s (S (S n))) with (s :: arange_from (s + 1) (S n)).
    rewrite IH. replace (s + Z.of_nat (S n)) with (s + 1 + Z.of_nat n) by lia. reflexivity.
Qed.
Lemma arange_from_length s n : length (arange_from s n) = n.
Proof. revert s. induction n; intros; simpl; [reflexivity|]. rewrite IHn. reflexivity. Qed.
Lemma arange_from_app s n m : arange_from s (n + m) = arange_from s n ++ arange_from (s + Z.of_nat n) m.
Proof.
  revert s. induction n as [|n IH]; intros s.
  - simpl. f_equal. lia.
  - change (S n + m)%nat with (S (n + m)). cbn [arange_from app]. rewrite IH.
    replace (s + 1 + Z.of_nat n) with (s + Z.of_nat (S n)) by lia. reflexivity.
Qed.
Lemma map_arange_from_ext {B} (f g : Z -> B) s n :
  (forall j, s <= j < s + Z.of_nat n -> f j = g j) -> map f (arange_from s n) = map g (arange_from s n).
Proof.
  revert s. induction n as [|n IH]; intros s H; simpl; [reflexivity|].
  rewrite H by lia. f_equal. apply IH. intros j Hj. apply H. lia.
Qed.
Lemma map_arange_from_const {B} (c : B) s n : map (fun _ => c) (arange_from s n) = repeat c n.
Proof. revert s. induction n; intros; simpl; [reflexivity|]. rewrite IHn. reflexivity. Qed.
(* reading consecutive positions is slicing *)
Lemma map_nthZ_arange_from data s n :
  0 <= s -> s + Z.of_nat n <= len data ->
  map (nthZ data) (arange_from s n) = firstn n (skipn (Z.to_nat s) data).
Proof.
  revert s. induction n as [|n IH]; intros s Hs Hn; [reflexivity|].
  simpl map. rewrite IH by lia.
  unfold nthZ, len in *.
  assert (Hlt : (Z.to_nat s < length data)%nat) by lia.
  replace (Z.to_nat (s + 1)) with (S (Z.to_nat s)) by lia.
  remember (Z.to_nat s) as k. clear Heqk Hs Hn IH.
  revert k Hlt. induction data as [|x data IHd]; intros k Hlt; [simpl in Hlt; lia|].
  destruct k as [|k]; [reflexivity|]. simpl in Hlt. simpl skipn at 1. simpl nth.
  rewrite IHd by lia. reflexivity.
Qed.

(* ---------- chunks_of on a concatenation of equal-length rows ---------- *)
Lemma chunks_of_concat {A} (n : nat) (xs : list (list A)) :
  (1 <= n)%nat -> (forall x, In x xs -> length x = n) -> chunks_of n (concat xs) = xs.
Proof.
  intros Hn. induction xs as [|x xs IH]; intros H; [reflexivity|].
  simpl concat. rewrite chunks_of_app_exact; [|assumption|apply H; left; reflexivity].
  f_equal. apply IH. intros y Hy. apply H. right. exact Hy.
Qed.
Lemma length_concat_const {A} (n : nat) (xs : list (list A)) :
  (forall x, In x xs -> length x = n) -> length (concat xs) = (n * length xs)%nat.
Proof.
  induction xs as [|x xs IH]; intros H; simpl; [lia|].
  rewrite app_length, IH, (H x) by (try (left; reflexivity); intros y Hy; apply H; right; exact Hy). lia.
Qed.

(* ---------- last / removelast ---------- *)
Lemma last_app_single {A} (l : list A) x d : last (l ++ [x]) d = x.
Proof. induction l as [|y l IH]; [reflexivity|]. simpl. destruct (l ++ [x]) eqn:E; [destruct l; discriminate|]. exact IH. Qed.
Lemma removelast_app_single {A} (l : list A) x : removelast (l ++ [x]) = l.
Proof. rewrite removelast_app by discriminate. simpl. apply app_nil_r. Qed.
Lemma nthZ_last l : l <> [] -> nthZ l (len l - 1) = last l 0.
Proof.
  intros H. destruct (exists_last H) as [l' [x E]]. subst l.
  rewrite last_app_single, len_app. unfold len at 2. simpl length.
  replace (len l' + Z.of_nat 1 - 1) with (len l' + 0) by lia. rewrite nthZ_app_r by lia. reflexivity.
Qed.
Lemma removelast_last {A} (l : list A) d : l <> [] -> removelast l ++ [last l d] = l.
Proof. intros H. symmetry. apply app_removelast_last. exact H. Qed.
Lemma combine_app' {A B} (a1 a2 : list A) (b1 b2 : list B) :
  length a1 = length b1 -> combine (a1 ++ a2) (b1 ++ b2) = combine a1 b1 ++ combine a2 b2.
Proof.
  revert b1. induction a1 as [|x a1 IH]; intros b1 H; destruct b1 as [|y b1]; try discriminate; [reflexivity|].
  simpl. f_equal. apply IH. simpl in H. lia.
Qed.
Lemma last_In {A} (l : list A) d : l <> [] -> In (last l d) l.
Proof.
  induction l as [|x l IH]; intros H; [congruence|]. destruct l as [|y l]; [left; reflexivity|].
  right. apply IH. discriminate.
Qed.
Lemma removelast_In {A} (l : list A) x : In x (removelast l) -> In x l.
Proof.
  induction l as [|y l IH]; intros H; [contradiction|]. destruct l as [|z l]; [contradiction|].
  destruct H as [E|H]; [left; exact E|right; apply IH; exact H].
Qed.
Lemma nth_map_combine {A B C} (f : A * B -> C) (a : list A) (b : list B) j da db dc :
  (j < length a)%nat -> (j < length b)%nat -> nth j (map f (combine a b)) dc = f (nth j a da, nth j b db).
Proof.
  revert a b. induction j as [|j IH]; intros a b Ha Hb; destruct a as [|x a]; destruct b as [|y b]; simpl in *; try lia; [reflexivity|].
  apply IH; lia.
Qed.
Lemma combine_map_both {A B C D} (f : A -> C) (g : B -> D) a b :
  combine (map f a) (map g b) = map (fun p => (f (fst p), g (snd p))) (combine a b).
Proof.
  revert b. induction a as [|x a IH]; intros b; [reflexivity|]. destruct b as [|y b]; [reflexivity|].
  simpl. f_equal. apply IH.
Qed.

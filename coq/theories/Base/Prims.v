(* Base/Prims.v — NumPy-style primitives as total list functions.  No proofs here. *)
From Coq Require Import ZArith List Bool Ascii.
From Coq Require String.
Import ListNotations.
Open Scope Z_scope.

(* ---------- byte literals: hex strings -> list Z ---------- *)
Definition hexval (c : ascii) : Z :=
  let n := Z.of_nat (nat_of_ascii c) in
  if (48 <=? n) && (n <=? 57) then n - 48
  else if (97 <=? n) && (n <=? 102) then n - 87
  else if (65 <=? n) && (n <=? 70) then n - 55 else 0.
Fixpoint unhex (s : String.string) : list Z :=
  match s with
  | String.String a (String.String b r) => (16 * hexval a + hexval b) :: unhex r
  | _ => []
  end.

Definition upper (c : Z) : Z := if (97 <=? c) && (c <=? 122) then c - 32 else c.
Definition lower (c : Z) : Z := if (65 <=? c) && (c <=? 90) then c + 32 else c.
(* ---------- basic list helpers ---------- *)
Definition len {A} (l : list A) : Z := Z.of_nat (length l).
Definition nthZ (l : list Z) (i : Z) : Z := nth (Z.to_nat i) l 0.
Definition nthd {A} (d : A) (l : list A) (i : Z) : A := nth (Z.to_nat i) l d.
(* Python-style slice l[a:b] for 0 <= a; clamps like Python for b > len *)
Definition slice {A} (a b : Z) (l : list A) : list A :=
  firstn (Z.to_nat (b - a)) (skipn (Z.to_nat a) l).
Definition sumZ (l : list Z) : Z := fold_right Z.add 0 l.
Fixpoint cumsum_from (acc : Z) (l : list Z) : list Z :=
  match l with [] => [] | x :: r => (acc + x) :: cumsum_from (acc + x) r end.
Definition cumsum := cumsum_from 0.
Definition insert0 (v : Z) (l : list Z) : list Z := v :: l.
Fixpoint diff (l : list Z) : list Z :=
  match l with a :: ((b :: _) as r) => (b - a) :: diff r | _ => [] end.
Fixpoint flatnonzero_from (i : Z) (l : list bool) : list Z :=
  match l with [] => [] | b :: r => (if b then [i] else []) ++ flatnonzero_from (i + 1) r end.
Definition flatnonzero := flatnonzero_from 0.
Definition positions (v : Z) (l : list Z) : list Z := flatnonzero (map (Z.eqb v) l).
Definition take (l : list Z) (idx : list Z) : list Z := map (nthZ l) idx.
Fixpoint mask_select {A} (m : list bool) (l : list A) : list A :=
  match m, l with b :: m', x :: l' => (if b then [x] else []) ++ mask_select m' l' | _, _ => [] end.
Fixpoint arange_from (s : Z) (n : nat) : list Z :=
  match n with O => [] | S k => s :: arange_from (s + 1) k end.
Definition arange (n : Z) : list Z := arange_from 0 (Z.to_nat n).
Fixpoint repeat_each {A} (l : list A) (ns : list Z) : list A :=
  match l, ns with x :: l', n :: ns' => repeat x (Z.to_nat n) ++ repeat_each l' ns' | _, _ => [] end.
Fixpoint max_accumulate_from (m : Z) (l : list Z) : list Z :=
  match l with [] => [] | x :: r => Z.max m x :: max_accumulate_from (Z.max m x) r end.
Definition max_accumulate (l : list Z) : list Z :=
  match l with [] => [] | x :: r => x :: max_accumulate_from x r end.
Fixpoint list_eqb {A} (eqb : A -> A -> bool) (a b : list A) : bool :=
  match a, b with
  | [], [] => true
  | x :: a', y :: b' => eqb x y && list_eqb eqb a' b'
  | _, _ => false
  end.
Definition zlist_eqb := list_eqb Z.eqb.
Definition zll_eqb := list_eqb zlist_eqb.
Fixpoint all_true (l : list bool) : bool := match l with [] => true | b :: r => b && all_true r end.
(* delete the positions listed in [idx] (any order, duplicates allowed) — np.delete *)
Fixpoint delete_from (i : Z) (idx : list Z) (l : list Z) : list Z :=
  match l with
  | [] => []
  | x :: r => (if existsb (Z.eqb i) idx then [] else [x]) ++ delete_from (i + 1) idx r
  end.
Definition np_delete (l : list Z) (idx : list Z) : list Z := delete_from 0 idx l.
(* split on a separator byte: "a,b," -> ["a";"b";""] *)
Fixpoint split_on (sep : Z) (l : list Z) : list (list Z) :=
  match l with
  | [] => [[]]
  | x :: r => let rest := split_on sep r in
              if x =? sep then [] :: rest
              else match rest with h :: t => (x :: h) :: t | [] => [[x]] end
  end.
(* lines of a newline-terminated text: "a\nb\n" -> ["a";"b"] ; an unterminated tail is a line too *)
Definition lines (l : list Z) : list (list Z) :=
  let parts := split_on 10 l in
  match rev parts with [] :: r => rev r | _ => parts end.
Fixpoint intercalate (sep : list Z) (ls : list (list Z)) : list Z :=
  match ls with [] => [] | [x] => x | x :: r => x ++ sep ++ intercalate sep r end.
(* reshape into rows of width w (w>0); a ragged tail is dropped into a last short row *)
Fixpoint chunks_of_fuel {A} (fuel : nat) (w : nat) (l : list A) : list (list A) :=
  match fuel with
  | O => []
  | S f => match l with [] => [] | _ => firstn w l :: chunks_of_fuel f w (skipn w l) end
  end.
Definition chunks_of {A} (w : nat) (l : list A) : list (list A) := chunks_of_fuel (length l) w l.

(* Base/PrimsFacts.v — characterising lemmas for the primitives of Prims.v *)
From Coq Require Import ZArith List Bool Lia Arith.
From BNP Require Import Base.Prims.
Import ListNotations.
Open Scope Z_scope.

Lemma len_app {A} (a b : list A) : len (a ++ b) = len a + len b.
Proof. unfold len. rewrite app_length. lia. Qed.
Lemma len_nonneg {A} (a : list A) : 0 <= len a.
Proof. unfold len. lia. Qed.
Lemma len_nil {A} : len (@nil A) = 0. Proof. reflexivity. Qed.
Lemma len_cons {A} (x : A) l : len (x :: l) = 1 + len l.
Proof. unfold len. simpl length. lia. Qed.
Lemma len_firstn {A} (n : nat) (l : list A) : len (firstn n l) = Z.min (Z.of_nat n) (len l).
Proof. unfold len. rewrite firstn_length. lia. Qed.
Lemma len_skipn {A} (n : nat) (l : list A) : len (skipn n l) = Z.max 0 (len l - Z.of_nat n).
Proof. unfold len. rewrite skipn_length. lia. Qed.

Lemma skipn_skipn' {A} (n m : nat) (l : list A) : skipn n (skipn m l) = skipn (n + m) l.
Proof.
  revert l. induction m as [|m IH]; intros l.
  - rewrite Nat.add_0_r. reflexivity.
  - destruct l as [|x l]; [rewrite !skipn_nil; reflexivity|].
    rewrite Nat.add_succ_r. simpl. apply IH.
Qed.
(* ---------- slice ---------- *)
Lemma slice_nil {A} a b : slice a b (@nil A) = [].
Proof. unfold slice. rewrite skipn_nil, firstn_nil. reflexivity. Qed.
Lemma slice_empty {A} a b (l : list A) : b <= a -> slice a b l = [].
Proof. intros H. unfold slice. replace (Z.to_nat (b - a)) with O by lia. reflexivity. Qed.
Lemma slice_full {A} (l : list A) b : len l <= b -> slice 0 b l = l.
Proof. intros H. unfold slice, len in *. simpl. apply firstn_all2. lia. Qed.
Lemma slice_app_l {A} a b (l1 l2 : list A) : 0 <= a -> b <= len l1 -> slice a b (l1 ++ l2) = slice a b l1.
Proof.
  intros Ha Hb. unfold slice, len in *.
  destruct (Z_le_gt_dec b a) as [Hle|Hgt].
  - replace (Z.to_nat (b - a)) with O by lia. reflexivity.
  - rewrite skipn_app. rewrite firstn_app.
    replace (Z.to_nat (b - a) - length (skipn (Z.to_nat a) l1))%nat with O by (rewrite skipn_length; lia).
    simpl. rewrite app_nil_r. reflexivity.
Qed.
Lemma slice_app_r {A} a b (l1 l2 : list A) : len l1 <= a -> slice a b (l1 ++ l2) = slice (a - len l1) (b - len l1) l2.
Proof.
  intros Ha. unfold slice, len in *.
  rewrite skipn_app. rewrite skipn_all2 by lia. simpl.
  replace (Z.to_nat a - length l1)%nat with (Z.to_nat (a - Z.of_nat (length l1))) by lia.
  f_equal. lia.
Qed.
Lemma slice_app_split {A} a b (l1 l2 : list A) :
  0 <= a <= len l1 -> len l1 <= b -> slice a b (l1 ++ l2) = skipn (Z.to_nat a) l1 ++ slice 0 (b - len l1) l2.
Proof.
  intros Ha Hb. unfold slice, len in *.
  rewrite skipn_app. rewrite firstn_app. rewrite skipn_length.
  rewrite firstn_all2 by (rewrite skipn_length; lia).
  f_equal. replace (Z.to_nat a - length l1)%nat with O by lia. simpl. f_equal. lia.
Qed.
Lemma slice_skipn {A} a b (n : nat) (l : list A) : 0 <= a ->
  slice a b (skipn n l) = slice (a + Z.of_nat n) (b + Z.of_nat n) l.
Proof.
  intros Ha. unfold slice. rewrite skipn_skipn'.
  replace (Z.to_nat a + n)%nat with (Z.to_nat (a + Z.of_nat n)) by lia.
  f_equal. lia.
Qed.
Lemma slice_0_firstn {A} b (l : list A) : slice 0 b l = firstn (Z.to_nat b) l.
Proof. unfold slice. simpl. f_equal. lia. Qed.

(* ---------- np_delete ---------- *)
Lemma delete_from_app i idx l1 l2 :
  delete_from i idx (l1 ++ l2) = delete_from i idx l1 ++ delete_from (i + len l1) idx l2.
Proof.
  revert i. induction l1 as [|x l1 IH]; intros i; simpl.
  - rewrite len_nil. f_equal. lia.
  - rewrite IH. rewrite len_cons. rewrite <- app_assoc. do 3 f_equal. lia.
Qed.
Lemma delete_from_none i idx l :
  (forall j, In j idx -> j < i \/ i + len l <= j) -> delete_from i idx l = l.
Proof.
  revert i. induction l as [|x l IH]; intros i H; simpl; [reflexivity|].
  destruct (existsb (Z.eqb i) idx) eqn:E.
  - apply existsb_exists in E. destruct E as [j [Hj Hij]]. apply Z.eqb_eq in Hij. subst j.
    specialize (H i Hj). rewrite len_cons in H. pose proof (len_nonneg l). lia.
  - simpl. f_equal. apply IH. intros j Hj. specialize (H j Hj). rewrite len_cons in H. lia.
Qed.
Lemma delete_from_hit i idx x : In i idx -> delete_from i idx [x] = [].
Proof.
  intros H. simpl. replace (existsb (Z.eqb i) idx) with true; [reflexivity|].
  symmetry. apply existsb_exists. exists i. split; [assumption|apply Z.eqb_refl].
Qed.
(* only the indices inside the window matter *)
Lemma delete_from_ext i idx idx' l :
  (forall j, i <= j < i + len l -> (In j idx <-> In j idx')) -> delete_from i idx l = delete_from i idx' l.
Proof.
  revert i. induction l as [|x l IH]; intros i H; simpl; [reflexivity|].
  rewrite len_cons in H. pose proof (len_nonneg l).
  assert (E : existsb (Z.eqb i) idx = existsb (Z.eqb i) idx').
  { destruct (existsb (Z.eqb i) idx) eqn:E1; destruct (existsb (Z.eqb i) idx') eqn:E2; try reflexivity.
    - apply existsb_exists in E1. destruct E1 as [j [Hj Hij]]. apply Z.eqb_eq in Hij. subst j.
      apply H in Hj; [|lia]. assert (existsb (Z.eqb i) idx' = true) by (apply existsb_exists; exists i; split; [assumption|apply Z.eqb_refl]). congruence.
    - apply existsb_exists in E2. destruct E2 as [j [Hj Hij]]. apply Z.eqb_eq in Hij. subst j.
      apply H in Hj; [|lia]. assert (existsb (Z.eqb i) idx = true) by (apply existsb_exists; exists i; split; [assumption|apply Z.eqb_refl]). congruence. }
  rewrite E. f_equal. apply IH. intros j Hj. apply H. lia.
Qed.
Lemma existsb_shift i k idx :
  existsb (Z.eqb (i + k)) idx = existsb (Z.eqb i) (map (fun j => j - k) idx).
Proof.
  induction idx as [|y idx IHi]; simpl; [reflexivity|]. rewrite IHi. f_equal.
  destruct (Z.eqb_spec (i + k) y); destruct (Z.eqb_spec i (y - k)); try reflexivity; lia.
Qed.
Lemma delete_from_shift i k idx l :
  delete_from (i + k) idx l = delete_from i (map (fun j => j - k) idx) l.
Proof.
  revert i. induction l as [|x l IH]; intros i; simpl; [reflexivity|].
  rewrite existsb_shift. f_equal. replace (i + k + 1) with (i + 1 + k) by lia. apply IH.
Qed.

(* ---------- arange ---------- *)
Lemma In_arange_from s n j : In j (arange_from s n) <-> s <= j < s + Z.of_nat n.
Proof.
  revert s. induction n as [|n IH]; intros s; simpl.
  - split; [tauto|lia].
  - rewrite IH. lia.
Qed.
Lemma In_arange n j : In j (arange n) <-> 0 <= j < n.
Proof. unfold arange. rewrite In_arange_from. lia. Qed.
Lemma slice_cons0 {A} n (x : A) l : 0 <= n -> slice 0 (1 + n) (x :: l) = x :: slice 0 n l.
Proof.
  intros H. unfold slice. simpl skipn. replace (Z.to_nat (1 + n - 0)) with (S (Z.to_nat (n - 0))) by lia.
  reflexivity.
Qed.

(* ---------- chunks_of (reshape into rows) ---------- *)
Lemma chunks_of_fuel_irrel {A} (n : nat) (f1 : nat) : (1 <= n)%nat -> forall f2 (l : list A),
  (length l <= f1)%nat -> (length l <= f2)%nat -> chunks_of_fuel f1 n l = chunks_of_fuel f2 n l.
Proof.
  intros Hn. induction f1 as [|f1 IH]; intros f2 l H1 H2.
  - destruct l; [|simpl in H1; lia]. destruct f2; reflexivity.
  - destruct l as [|x l]; [destruct f2; reflexivity|].
    destruct f2 as [|f2]; [simpl in H2; lia|].
    cbn [chunks_of_fuel]. f_equal.
    apply IH; rewrite skipn_length; simpl length in *; lia.
Qed.
Lemma chunks_of_cons {A} (n : nat) (l : list A) : (1 <= n)%nat -> l <> [] ->
  chunks_of n l = firstn n l :: chunks_of n (skipn n l).
Proof.
  intros Hn Hl. unfold chunks_of. destruct l as [|x l]; [congruence|].
  cbn [length chunks_of_fuel]. f_equal.
  apply chunks_of_fuel_irrel; try assumption; rewrite skipn_length; simpl length; lia.
Qed.
Lemma chunks_of_nil {A} (n : nat) : chunks_of n (@nil A) = [].
Proof. reflexivity. Qed.
Lemma chunks_of_app_exact {A} (n : nat) (l1 l2 : list A) : (1 <= n)%nat -> length l1 = n ->
  chunks_of n (l1 ++ l2) = l1 :: chunks_of n l2.
Proof.
  intros Hn Hl. rewrite chunks_of_cons; try assumption.
  - subst n. rewrite firstn_app, skipn_app. rewrite Nat.sub_diag. simpl.
    rewrite firstn_all, app_nil_r. rewrite skipn_all. reflexivity.
  - destruct l1; [simpl in Hl; lia|discriminate].
Qed.
Lemma chunks_of_single {A} (n : nat) (l : list A) : l <> [] -> (length l <= n)%nat -> chunks_of n l = [l].
Proof.
  intros Hl Hn. assert (1 <= n)%nat by (destruct l; [congruence|simpl in Hn; lia]).
  rewrite chunks_of_cons by assumption.
  rewrite firstn_all2 by assumption. rewrite skipn_all2 by assumption. reflexivity.
Qed.

(* ---------- flatnonzero / positions ---------- *)
Lemma flatnonzero_from_app i (a b : list bool) :
  flatnonzero_from i (a ++ b) = flatnonzero_from i a ++ flatnonzero_from (i + len a) b.
Proof.
  revert i. induction a as [|x a IH]; intros i; simpl.
  - rewrite len_nil. f_equal. lia.
  - rewrite IH, len_cons, <- app_assoc. do 3 f_equal. lia.
Qed.
Lemma In_flatnonzero_from i (l : list bool) p :
  In p (flatnonzero_from i l) <-> i <= p < i + len l /\ nth (Z.to_nat (p - i)) l false = true.
Proof.
  revert i. induction l as [|b l IH]; intros i; simpl.
  - rewrite len_nil. split; [tauto|lia].
  - rewrite in_app_iff, IH, len_cons. pose proof (len_nonneg l). split.
    + intros [Hb|Hr].
      * destruct b; [|destruct Hb]. destruct Hb as [<-|[]]. rewrite Z.sub_diag. split; [lia|reflexivity].
      * destruct Hr as [H1 H2]. split; [lia|].
        replace (Z.to_nat (p - i)) with (S (Z.to_nat (p - (i + 1)))) by lia. exact H2.
    + intros [H1 H2]. destruct (Z.eq_dec p i) as [->|Hne].
      * left. rewrite Z.sub_diag in H2. simpl in H2. subst b. left. reflexivity.
      * right. split; [lia|].
        replace (Z.to_nat (p - i)) with (S (Z.to_nat (p - (i + 1)))) in H2 by lia. exact H2.
Qed.
Lemma In_positions v (l : list Z) p : In p (positions v l) <-> 0 <= p < len l /\ nthZ l p = v.
Proof.
  unfold positions, flatnonzero. rewrite In_flatnonzero_from.
  unfold len. rewrite map_length. rewrite Z.sub_0_r. unfold nthZ.
  split; intros [H1 H2]; (split; [lia|]).
  - rewrite (nth_indep _ false (v =? 0)) in H2 by (rewrite map_length; lia).
    rewrite map_nth in H2. apply Z.eqb_eq in H2. symmetry. exact H2.
  - rewrite (nth_indep _ false (v =? 0)) by (rewrite map_length; lia).
    rewrite map_nth. apply Z.eqb_eq. symmetry. exact H2.
Qed.
Lemma positions_snoc_hit v (l : list Z) : positions v (l ++ [v]) = positions v l ++ [len l].
Proof.
  unfold positions, flatnonzero. rewrite map_app, flatnonzero_from_app. simpl.
  rewrite Z.eqb_refl. simpl. f_equal. unfold len. rewrite map_length. reflexivity.
Qed.
Lemma last_nth_firstn (l : list Z) (p : nat) d : (p < length l)%nat -> last (firstn (S p) l) d = nth p l d.
Proof.
  revert l. induction p as [|p IH]; intros l Hp; destruct l as [|x l]; simpl in Hp; try lia.
  - reflexivity.
  - change (firstn (S (S p)) (x :: l)) with (x :: firstn (S p) l).
    assert (firstn (S p) l <> []) by (destruct l; [simpl in Hp; lia|discriminate]).
    destruct (firstn (S p) l) eqn:E; [congruence|]. rewrite <- E. simpl nth. rewrite <- IH by lia.
    rewrite E. reflexivity.
Qed.
Lemma last_app_nonempty {A} (a b : list A) d : b <> [] -> last (a ++ b) d = last b d.
Proof.
  intros Hb. induction a as [|x a IH]; [reflexivity|].
  simpl. destruct (a ++ b) eqn:E; [destruct a; [simpl in E; congruence|discriminate]|exact IH].
Qed.

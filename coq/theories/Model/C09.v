(* Model/C09.v — genomic arrays as run-length arrays over the concatenated genome.
   Mirrors bionumpy/arithmetics/intervals.py (GenomicRunLengthArray.to_array / from_intervals /
   from_bedgraph, get_boolean_mask, get_pileup), bionumpy/genomic_data/global_offset.py (offsets) and
   bionumpy/genomic_data/genomic_track.py (to_dict, get_data, ufunc forwarding, sum, histogram).
   The npstructures part (RunLengthArray ufuncs, slicing, RunLength2dArray pileup) is external and is
   modelled by its meaning on run lists (common refinement of the two event lists, join of equal
   neighbours, clipping of runs).
   Executable definitions only; proofs live in Proofs/C09.v. *)
From Coq Require Import ZArith List Bool.
From Coq Require String.
Import String.StringSyntax.
Delimit Scope string_scope with string.
From BNP Require Import Base.Prims.
Import ListNotations.
Open Scope Z_scope.

(* ====================================================================================== *)
(* Values.  Every finite bool / int64 / float64 value is a dyadic rational m / 2^e, kept   *)
(* normalised (e = 0 or m odd) so that numeric equality is structural equality.            *)
(* ====================================================================================== *)
Notation val := (Z * Z)%type (only parsing).
Definition vzero : val := (0, 0).
Definition vone : val := (1, 0).
Fixpoint vnorm_fuel (fuel : nat) (m e : Z) : val :=
  match fuel with
  | O => (m, e)
  | S k => if (0 <? e) && Z.even m then vnorm_fuel k (m / 2) (e - 1) else (m, e)
  end.
Definition vnorm (v : val) : val := vnorm_fuel (Z.to_nat (snd v)) (fst v) (snd v).
Definition valign (a b : val) : Z * Z :=
  let e := Z.max (snd a) (snd b) in (fst a * 2 ^ (e - snd a), fst b * 2 ^ (e - snd b)).
Definition veqb (a b : val) : bool := (fst a =? fst b) && (snd a =? snd b).   (* structural *)
Definition vnum_eqb (a b : val) : bool := let '(x, y) := valign a b in x =? y. (* numeric *)
Definition vltb (a b : val) : bool := let '(x, y) := valign a b in x <? y.
Definition vleb (a b : val) : bool := let '(x, y) := valign a b in x <=? y.
Definition vadd (a b : val) : val := let '(x, y) := valign a b in vnorm (x + y, Z.max (snd a) (snd b)).
Definition vsub (a b : val) : val := let '(x, y) := valign a b in vnorm (x - y, Z.max (snd a) (snd b)).
Definition vmul (a b : val) : val := vnorm (fst a * fst b, snd a + snd b).
Definition vscale (n : Z) (a : val) : val := vnorm (n * fst a, snd a).
Definition vbool (b : bool) : val := if b then vone else vzero.
Definition vtruth (a : val) : bool := negb (fst a =? 0).
Definition vsum (l : list val) : val := fold_right vadd vzero l.
Definition vlist_eqb := list_eqb veqb.
Definition vll_eqb := list_eqb vlist_eqb.

(* dtype kinds: bool < int64 < float64 (NumPy promotion between the three) *)
Inductive kind := KB | KI | KF.
Definition kind_eqb (a b : kind) : bool :=
  match a, b with KB, KB | KI, KI | KF, KF => true | _, _ => false end.
Definition kmax (a b : kind) : kind :=
  match a, b with KF, _ | _, KF => KF | KI, _ | _, KI => KI | _, _ => KB end.

(* ---------- the operations of the property, with NumPy's meaning per dtype kind ---------- *)
Inductive binop := Add | Sub | Mul | Lt | Gt | Eq | And | Or.
Definition both_bool (ka kb : kind) : bool := kind_eqb ka KB && kind_eqb kb KB.
(* None = NumPy raises TypeError for this dtype combination (never generated) *)
Definition bin_kind (op : binop) (ka kb : kind) : option kind :=
  match op with
  | Add | Mul => Some (kmax ka kb)
  | Sub => if both_bool ka kb then None else Some (kmax ka kb)
  | Lt | Gt | Eq => Some KB
  | And | Or => match kmax ka kb with KF => None | k => Some k end
  end.
Definition bin_val (op : binop) (ka kb : kind) (a b : val) : val :=
  match op with
  | Add => if both_bool ka kb then vbool (vtruth a || vtruth b) else vadd a b
  | Mul => if both_bool ka kb then vbool (vtruth a && vtruth b) else vmul a b
  | Sub => vsub a b
  | Lt => vbool (vltb a b)
  | Gt => vbool (vltb b a)
  | Eq => vbool (vnum_eqb a b)
  | And => (Z.land (fst a) (fst b), 0)
  | Or => (Z.lor (fst a) (fst b), 0)
  end.
(* ~ : logical not on bool, bitwise not on int64, TypeError on float *)
Definition not_kind (k : kind) : option kind := match k with KF => None | k => Some k end.
Definition not_val (k : kind) (a : val) : val :=
  match k with KB => vbool (negb (vtruth a)) | _ => (- fst a - 1, 0) end.

Inductive expr :=
| Leaf (i : Z)
| BinAA (op : binop) (l r : expr)                 (* array op array *)
| BinAS (op : binop) (l : expr) (k : kind) (s : val)   (* array op Python scalar *)
| BinSA (op : binop) (k : kind) (s : val) (r : expr)   (* Python scalar op array *)
| Not (e : expr).

(* one evaluator for dense arrays (specification) and run-length arrays (model) *)
Section Eval.
  Context {A : Type}.
  Variable amap : (val -> val) -> A -> A.
  Variable azip : (val -> val -> val) -> A -> A -> option A.
  Variable leaves : list (kind * A).
  Fixpoint eval (e : expr) : option (kind * A) :=
    match e with
    | Leaf i => nth_error leaves (Z.to_nat i)
    | BinAA op l r =>
        match eval l, eval r with
        | Some (ka, a), Some (kb, b) =>
            match bin_kind op ka kb, azip (bin_val op ka kb) a b with
            | Some k, Some c => Some (k, c)
            | _, _ => None
            end
        | _, _ => None
        end
    | BinAS op l ks s =>
        match eval l with
        | Some (ka, a) =>
            match bin_kind op ka ks with
            | Some k => Some (k, amap (fun x => bin_val op ka ks x s) a)
            | None => None
            end
        | None => None
        end
    | BinSA op ks s r =>
        match eval r with
        | Some (kb, b) =>
            match bin_kind op ks kb with
            | Some k => Some (k, amap (fun x => bin_val op ks kb s x) b)
            | None => None
            end
        | None => None
        end
    | Not e1 =>
        match eval e1 with
        | Some (ka, a) =>
            match not_kind ka with
            | Some k => Some (k, amap (not_val ka) a)
            | None => None
            end
        | None => None
        end
    end.
End Eval.

(* ====================================================================================== *)
(* SPEC: dense per-base arrays                                                              *)
(* ====================================================================================== *)
Definition tabulate {A} (f : Z -> A) (s : Z) (n : Z) : list A := map f (arange_from s (Z.to_nat n)).

(* a record on one coordinate axis: [start, stop) carries value *)
Notation rec1 := (Z * Z * (Z * Z))%type (only parsing).
Definition covers (p : Z) (r : rec1) : bool := let '(s, e, _) := r in (s <=? p) && (p <? e).
(* the value the records describe at base p: that of the record covering p, else the fill value *)
Definition cover_at (fill : val) (recs : list rec1) (p : Z) : val :=
  match find (covers p) recs with Some (_, _, v) => v | None => fill end.
Definition dense_of (fill : val) (recs : list rec1) (size : Z) : list val :=
  tabulate (cover_at fill recs) 0 size.
Definition any_at (recs : list rec1) (p : Z) : val := vbool (existsb (covers p) recs).
(* number of intervals covering base p; the value field of an interval record is its multiplicity (how many identical rows
   the interval set contains: 1 for ordinary cases, large for the size-threshold cases) *)
Definition count_at (recs : list rec1) (p : Z) : val := (sumZ (map (fun r : rec1 => fst (snd r)) (filter (covers p) recs)), 0).

(* records with a chromosome number *)
Notation grec := (Z * Z * Z * (Z * Z))%type (only parsing).        (* chromosome index, start, stop, value *)
Definition on_chrom (c : Z) (recs : list grec) : list rec1 :=
  map (fun '(_, s, e, v) => (s, e, v)) (filter (fun '(c', _, _, _) => c' =? c) recs).
(* per chromosome dense arrays, genome order *)
Definition per_chrom {A} (f : Z -> Z -> A) (sizes : list Z) : list A :=
  map (fun '(c, n) => f c n) (combine (arange (len sizes)) sizes).
Definition spec_track (fill : val) (sizes : list Z) (recs : list grec) : list (list val) :=
  per_chrom (fun c n => dense_of fill (on_chrom c recs) n) sizes.
Definition spec_mask (sizes : list Z) (recs : list grec) : list (list val) :=
  per_chrom (fun c n => tabulate (any_at (on_chrom c recs)) 0 n) sizes.
Definition spec_pileup (sizes : list Z) (recs : list grec) : list (list val) :=
  per_chrom (fun c n => tabulate (count_at (on_chrom c recs)) 0 n) sizes.

(* dense array operations *)
Fixpoint map2 {A B C} (f : A -> B -> C) (a : list A) (b : list B) : list C :=
  match a, b with x :: a', y :: b' => f x y :: map2 f a' b' | _, _ => [] end.
Definition dense_zip (f : val -> val -> val) (a b : list val) : option (list val) :=
  if len a =? len b then Some (map2 f a b) else None.
Definition spec_eval (leaves : list (kind * list val)) (e : expr) : option (kind * list val) :=
  eval (@map val val) dense_zip leaves e.
(* np.histogram with explicit edges: bins [e_i, e_i+1), the last one closed *)
Fixpoint hist_bins (edges : list val) : list (val * val * bool) :=
  match edges with
  | a :: ((b :: r) as t) => (a, b, match r with [] => true | _ => false end) :: hist_bins t
  | _ => []
  end.
Definition in_bin (v : val) (bn : val * val * bool) : bool :=
  let '(a, b, closed) := bn in vleb a v && (if closed then vleb v b else vltb v b).
Definition spec_hist (edges : list val) (d : list val) : list Z :=
  map (fun bn => len (filter (fun v => in_bin v bn) d)) (hist_bins edges).

(* back-conversion: what makes a record list a lossless description of a dense array *)
Fixpoint sorted_disjoint (lo : Z) (recs : list rec1) : bool :=
  match recs with
  | [] => true
  | (s, e, _) :: r => (lo <=? s) && (s <? e) && sorted_disjoint e r
  end.
Fixpoint all_le (hi : Z) (recs : list rec1) : bool :=
  match recs with [] => true | (_, e, _) :: r => (e <=? hi) && all_le hi r end.
Fixpoint chroms_sorted (recs : list grec) : bool :=
  match recs with
  | (c1, _, _, _) :: (((c2, _, _, _) :: _) as r) => (c1 <=? c2) && chroms_sorted r
  | _ => true
  end.
(* records (genome order, non-overlapping, inside their chromosome) whose expansion is [dense] *)
Definition records_describe (fill : val) (sizes : list Z) (recs : list grec) (dense : list (list val)) : bool :=
  chroms_sorted recs
  && all_true (map (fun '(c, _, _, _) => (0 <=? c) && (c <? len sizes)) recs)
  && all_true (per_chrom (fun c n => sorted_disjoint 0 (on_chrom c recs) && all_le n (on_chrom c recs)) sizes)
  && vll_eqb (spec_track fill sizes recs) dense.

(* ====================================================================================== *)
(* MODEL                                                                                   *)
(* ====================================================================================== *)
(* run-length array: events e0 < e1 < ... < ek (e0 = 0), one value per run *)
Notation rle := (list Z * list (Z * Z))%type (only parsing).
Fixpoint expand_from (prev : Z) (ev : list Z) (vs : list val) : list val :=
  match ev, vs with
  | e :: ev', v :: vs' => repeat v (Z.to_nat (e - prev)) ++ expand_from e ev' vs'
  | _, _ => []
  end.
Definition expand (r : rle) : list val :=
  match fst r with [] => [] | e0 :: rest => expand_from e0 rest (snd r) end.
Fixpoint increasing_from (prev : Z) (l : list Z) : bool :=
  match l with [] => true | x :: r => (prev <? x) && increasing_from x r end.
(* RunLengthArray.__init__ assertions *)
Definition wf_rle (r : rle) : bool :=
  match fst r with
  | [] => false
  | e0 :: rest => (e0 =? 0) && increasing_from e0 rest && (len rest =? len (snd r))
  end.
Definition mk_rle (ev : list Z) (vs : list val) : option rle :=
  if wf_rle (ev, vs) then Some (ev, vs) else None.
Definition rle_len (r : rle) : Z := last (fst r) 0.

(* ====================================================================================== *)
(* Named formulas of the anchored code.  translate/gen_c09.py regenerates each of them from   *)
(* /repo on every run (Gen/C09.v) and Bridge/C09.v proves gen_x = m_x; the model below is     *)
(* written in terms of these names.                                                           *)
(* ====================================================================================== *)
Definition vint (z : Z) : val := (z, 0).
(* GenomicRunLengthArray.from_bedgraph *)
Definition m_bg_empty_events (size : Z) : list Z := [0; size].
Definition m_bg_empty_values : list Z := [0].
Definition m_bg_is_gap (next_start prev_stop : Z) : bool := negb (next_start =? prev_stop).
Definition m_bg_gap_pos (missing_idx : Z) : Z := missing_idx + 1.      (* the gap run goes right after record missing_idx *)
Definition m_bg_gap_value : Z := 0.
Definition m_bg_gap_shape : list String.string :=
  ["bedgraph.start"; "bedgraph.stop[missing_idx]"; "bedgraph.value"; "bedgraph.start"; "bedgraph.value"]%string.
Definition m_bg_fits (last_stop size : Z) : bool := last_stop <=? size.
Definition m_bg_ends_at_size (size last_stop : Z) : bool := size =? last_stop.
Definition m_bg_tail_at (size last_stop : Z) : list Z := [last_stop].
Definition m_bg_tail_before (size last_stop : Z) : list Z := [last_stop; size].
Definition m_bg_tail_values_before : list Z := [0].
Definition m_bg_tail_shape : list String.string := ["start"; "value"; "start"; "value"]%string.
Definition m_bg_needs_prefix (e0 : Z) : bool := negb (e0 =? 0).
Definition m_bg_prefix_pos : Z := 0.
Definition m_bg_prefix_event : Z := 0.
Definition m_bg_prefix_value : Z := 0.
Definition m_bg_prefix_shape : list String.string := ["events"; "values"; "cls(events, values)"]%string.
(* GenomicRunLengthArray.from_intervals *)
Definition m_iv_assert_nonempty (stop start : Z) : bool := stop >? start.
Definition m_iv_assert_ordered (next_start prev_stop : Z) : bool := next_start >=? prev_stop.
Definition m_iv_has_prefix (n_starts first_start : Z) : bool := (n_starts =? 0) || negb (first_start =? 0).
Definition m_iv_prefix (size : Z) : list Z := [0].
Definition m_iv_has_postfix (n_ends last_stop size : Z) : bool := (n_ends =? 0) || negb (last_stop =? size).
Definition m_iv_postfix (size : Z) : list Z := [size].
Definition m_iv_n_events (n_prefix n_postfix n_starts n_ends : Z) : Z := n_prefix + n_postfix + n_starts + n_ends.
Definition m_iv_start_slot (n_prefix i : Z) : Z := n_prefix + 2 * i.
Definition m_iv_end_slot (n_prefix i : Z) : Z := n_prefix + 1 + 2 * i.
Definition m_iv_edge_shape : list String.string := ["events[0] = prefix[0]"; "events[-1] = postfix[0]"]%string.
Definition m_iv_n_pairs (n_events : Z) : Z := n_events / 2 + 1.        (* values has 2 * n_pairs entries *)
Definition m_iv_default_slot (i : Z) : Z := 2 * i.
Definition m_iv_value_slot (i : Z) : Z := 1 + 2 * i.
Definition m_iv_array_trailing_default (last_stop size : Z) : bool := negb (last_stop =? size).
Definition m_iv_array_shape : list String.string := ["values.shape"; "default_value"; "values"; "values"; "default_value"]%string.
Definition m_iv_drop_first (n_starts first_start : Z) : bool := (n_starts >? 0) && (first_start =? 0).
Definition m_iv_drop_count : Z := 1.
Definition m_iv_keep (n_events : Z) : Z := n_events - 1.
Definition m_iv_return_shape : list String.string := ["cls(*cls.remove_empty_intervals(events, values))"]%string.
(* GenomicRunLengthArray.to_array *)
Definition m_xor (prev next : Z) : Z := Z.lxor prev next.
Definition m_ta_shape : list String.string :=
  ["np.zeros_like(values, shape=len(self))"; "self._starts[1:] <- diffs"; "self._starts[0] <- values[0]";
   "op.accumulate(array, out=array)"; "array.view(self._values.dtype)"]%string.
(* genomic_track.py: slice of one chromosome out of the genome-wide array (to_dict, extract_chromsome, get_data) *)
Definition m_slice_lo (offset size : Z) : Z := offset.
Definition m_slice_hi (offset size : Z) : Z := offset + size.
Definition m_td_shape : list String.string :=
  ["zip(names, offsets, sizes) -> (name, offset, size)"; "go.get_offset(names)"; "go.get_size(names)"]%string.
Definition m_ec_shape : list String.string := ["self._genome_context.global_offset.get_offset([chromosome])[0]"]%string.
(* GenomicArrayGlobal.__array_function__: every positional and keyword argument after the array is forwarded unchanged to
   np.histogram on the run-length array; np.sum forwards the arguments after the array to .sum() *)
Definition m_af_shape : list String.string :=
  ["[i._global_track if isinstance(i, GenomicArrayGlobal) else i for i in args]";
   "func == np.histogram -> np.histogram(*args, **kwargs)";
   "func == np.sum -> self.sum(*args[1:], **kwargs)";
   "-> NotImplemented"]%string.
Definition m_gd_shape : list String.string := ["go.get_offset(names)"; "zip(names, starts, stops) -> (name, start, stop)"]%string.
(* global_offset.py: start_ends_from_intervals *)
Definition m_go_start_bad (start size : Z) : bool := start >=? size.
Definition m_go_start_negative (start : Z) : bool := start <? 0.
Definition m_go_stop_ok (stop size : Z) : bool := stop <=? size.
Definition m_go_shift (x offset : Z) : Z := x + offset.
Definition m_go_shape : list String.string :=
  ["self.get_offset(chromosome)"; "self.get_size(chromosome)"; "(start_offsets, stop_offsets)"]%string.

(* ---------- GlobalOffset ---------- *)
Definition offsets (sizes : list Z) : list Z := insert0 0 (cumsum sizes).
Definition total_size (sizes : list Z) : Z := sumZ sizes.
(* from_local_interval: None where the library raises (start >= size, start < 0, stop > size) *)
Definition to_global (sizes : list Z) (recs : list grec) : option (list rec1) :=
  if all_true (map (fun '(c, s, e, _) => (0 <=? c) && (c <? len sizes)
                      && negb (m_go_start_bad s (nthZ sizes c)) && negb (m_go_start_negative s)
                      && m_go_stop_ok e (nthZ sizes c)) recs)
  then Some (map (fun '(c, s, e, v) => (m_go_shift s (nthZ (offsets sizes) c), m_go_shift e (nthZ (offsets sizes) c), v)) recs)
  else None.

(* ---------- GenomicRunLengthArray.to_array: scatter the xor-differences, xor-accumulate ----------
   The library xors the machine bit patterns (bool; int64; float64 viewed as uint64); the model
   xors the two components of the dyadic representation — the same algorithm on another injective
   encoding. *)
Definition vxor (a b : val) : val := (m_xor (fst a) (fst b), m_xor (snd a) (snd b)).
Definition xdiffs (vs : list val) : list val := map2 vxor (removelast vs) (tl vs).
(* array[idx] = vals on a zero array of the given length, idx strictly increasing: walk the positions *)
Fixpoint scatter_from (p : Z) (n : nat) (idx : list Z) (vs : list val) : list val :=
  match n with
  | O => []
  | S k =>
      match idx, vs with
      | i :: idx', v :: vs' =>
          if i =? p then v :: scatter_from (p + 1) k idx' vs' else vzero :: scatter_from (p + 1) k idx vs
      | _, _ => vzero :: scatter_from (p + 1) k idx vs
      end
  end.
Fixpoint xor_accumulate (acc : val) (l : list val) : list val :=
  match l with [] => [] | x :: r => vxor acc x :: xor_accumulate (vxor acc x) r end.
Definition to_array (r : rle) : list val :=
  let n := rle_len r in
  if n =? 0 then []
  else
    let starts := removelast (fst r) in
    match snd r with
    | [] => []
    | v0 :: _ =>
        (* array[starts[1:]] = diffs ; array[starts[0]] = values[0] *)
        xor_accumulate vzero (scatter_from 0 (Z.to_nat n) starts (v0 :: xdiffs (snd r)))
    end.

(* ---------- GenomicRunLengthArray.from_bedgraph ---------- *)
(* missing_idx / np.insert: after record i insert (stop_i, 0) when the next record does not start at stop_i *)
Fixpoint fill_gaps (recs : list rec1) : list Z * list val :=
  match recs with
  | [] => ([], [])
  | (s, e, v) :: rest =>
      let '(ss, vs) := fill_gaps rest in
      match rest with
      | (s2, _, _) :: _ => if m_bg_is_gap s2 e then (s :: e :: ss, v :: vint m_bg_gap_value :: vs) else (s :: ss, v :: vs)
      | [] => (s :: ss, v :: vs)
      end
  end.
Definition last_stop (recs : list rec1) : Z := match last recs (0, 0, vzero) with (_, e, _) => e end.
(* dtype bookkeeping: np.insert keeps the dtype of the value column; np.append(value, 0) promotes a
   Boolean column to int64 (pinned code).  [append_kind_fixed] is the repaired variant. *)
Definition append_kind_pinned (k : kind) : kind := match k with KB => KI | k => k end.
Definition append_kind_fixed (k : kind) : kind := k.
Definition from_bedgraph_gen (append_kind : kind -> kind) (k : kind) (recs : list rec1) (size : Z) : option (kind * rle) :=
  match recs with
  | [] => match mk_rle (m_bg_empty_events size) (map vint m_bg_empty_values) with Some r => Some (KI, r) | None => None end
  | _ =>
      let '(start, value) := fill_gaps recs in
      let stop := last_stop recs in
      if negb (m_bg_fits stop size) then None     (* assert bedgraph.stop[-1] <= size *)
      else
        let '(events, values, k1) :=
          if m_bg_ends_at_size size stop then (start ++ m_bg_tail_at size stop, value, k)
          else (start ++ m_bg_tail_before size stop, value ++ map vint m_bg_tail_values_before, append_kind k) in
        let '(events, values) :=
          match events with
          | e0 :: _ => if m_bg_needs_prefix e0 then (m_bg_prefix_event :: events, vint m_bg_prefix_value :: values)
                       else (events, values)
          | [] => (events, values)
          end in
        match mk_rle events values with Some r => Some (k1, r) | None => None end
  end.
Definition from_bedgraph_pinned := from_bedgraph_gen append_kind_pinned. (* the code at /repo HEAD *)
Definition from_bedgraph_fixed := from_bedgraph_gen append_kind_fixed.   (* with notes/C09.fix-1.diff *)
(* ---- the variant in force (one-line switch): from_bedgraph_pinned now; from_bedgraph_fixed once fix-1 is in /repo ---- *)
Definition from_bedgraph := from_bedgraph_fixed.

(* ---------- GenomicRunLengthArray.from_intervals ---------- *)
Fixpoint interleave2 {A} (a b : list A) : list A :=
  match a, b with x :: a', y :: b' => x :: y :: interleave2 a' b' | _, _ => [] end.
Fixpoint alternate {A} (n : nat) (x y : A) : list A :=   (* x y x y ... , 2n entries *)
  match n with O => [] | S k => x :: y :: alternate k x y end.
Definition cast_to (k : kind) (v : val) : val :=
  match k with
  | KB => vbool (vtruth v)
  | KI => (Z.quot (fst v) (2 ^ snd v), 0)
  | KF => v
  end.
Definition iv_has_prefix (starts : list Z) : bool := match starts with s0 :: _ => negb (s0 =? 0) | [] => true end.
Definition iv_has_postfix (ends : list Z) (size : Z) : bool := match ends with [] => true | _ => negb (last ends 0 =? size) end.
Definition from_intervals_events (starts ends : list Z) (size : Z) : list Z * bool * bool :=
  let has_prefix := iv_has_prefix starts in
  let has_postfix := iv_has_postfix ends size in
  ((if has_prefix then m_iv_prefix size else []) ++ interleave2 starts ends ++ (if has_postfix then m_iv_postfix size else []),
   has_prefix, has_postfix).
(* RunLengthArray.__init__(events, values, do_clean=True) ignores do_clean (pinned): touching intervals
   leave an empty run and the constructor's assertion fails.  The repaired variant removes empty runs
   first (RunLengthArray.remove_empty_intervals: drop events[i], values[i] where events[i] = events[i+1]). *)
Fixpoint remove_empty (ev : list Z) (vs : list (Z * Z)) : list Z * list (Z * Z) :=
  match ev with
  | e1 :: ((e2 :: _) as ev') =>
      match vs with
      | v :: vs' => let '(ev2, vs2) := remove_empty ev' vs' in
                    if e1 =? e2 then (ev2, vs2) else (e1 :: ev2, v :: vs2)
      | [] => (ev, vs)
      end
  | _ => (ev, vs)
  end.
Definition clean_pinned (ev : list Z) (vs : list (Z * Z)) : list Z * list (Z * Z) := (ev, vs).
Definition clean_fixed := remove_empty.
(* scalar value (isinstance(values, Number)) *)
Definition from_intervals_scalar_gen (clean : list Z -> list (Z * Z) -> list Z * list (Z * Z))
  (starts ends : list Z) (size : Z) (k : kind) (value default : val) : option (kind * rle) :=
  (* assert np.all(ends > starts); assert np.all(starts[1:] >= ends[:-1]) *)
  if negb (all_true (map2 Z.ltb starts ends) && all_true (map2 Z.leb (removelast ends) (tl starts))) then None
  else
    let '(events, has_prefix, _) := from_intervals_events starts ends size in
    let values := alternate (Z.to_nat (m_iv_n_pairs (len events))) (cast_to k default) value in
    let values := if has_prefix then values else tl values in
    let values := firstn (Z.to_nat (m_iv_keep (len events))) values in
    let '(events, values) := clean events values in
    match mk_rle events values with Some r => Some (k, r) | None => None end.
(* array of per-interval values.  Pinned code: interleave(np.broadcast(...), values) raises
   AttributeError for every input; the repaired variant interleaves default and values. *)
Definition from_intervals_array_pinned (starts ends : list Z) (size : Z) (k : kind) (values : list val) (default : val)
  : option (kind * rle) := None.
Definition from_intervals_array_fixed (clean : list Z -> list (Z * Z) -> list Z * list (Z * Z))
  (starts ends : list Z) (size : Z) (k : kind) (values : list val) (default : val)
  : option (kind * rle) :=
  if negb (all_true (map2 Z.ltb starts ends) && all_true (map2 Z.leb (removelast ends) (tl starts))) then None
  else
    let '(events, has_prefix, has_postfix) := from_intervals_events starts ends size in
    let vs := interleave2 (map (fun _ => cast_to k default) values) values in
    let vs := if has_postfix then vs ++ [cast_to k default] else vs in
    let vs := if has_prefix then vs else tl vs in
    let vs := firstn (Z.to_nat (m_iv_keep (len events))) vs in
    let '(events, vs) := clean events vs in
    match mk_rle events vs with Some r => Some (k, r) | None => None end.
(* ---- the variant in force (one-line switches): the code at /repo HEAD.  Once notes/C09.fix-2.diff is in /repo use
        [from_intervals_array_fixed clean_in_force]; once notes/C09.fix-3.diff is in /repo set clean_in_force := clean_fixed. ---- *)
Definition clean_in_force := clean_fixed.
Definition from_intervals_scalar := from_intervals_scalar_gen clean_in_force.
Definition from_intervals_array := from_intervals_array_fixed clean_in_force.

(* ---------- get_boolean_mask: argsort on start, merge_intervals(distance 0), drop empty, from_intervals ---------- *)
Fixpoint insert_sorted (r : rec1) (l : list rec1) : list rec1 :=
  match l with
  | [] => [r]
  | x :: t => if fst (fst x) <=? fst (fst r) then x :: insert_sorted r t else r :: l
  end.
Definition sort_by_start (l : list rec1) : list rec1 := fold_right insert_sorted [] (rev l).
(* stops = maximum.accumulate(stop); a new interval begins where start > previous accumulated stop *)
Fixpoint merge_from (cs ce : Z) (l : list rec1) : list (Z * Z) :=
  match l with
  | [] => [(cs, ce)]
  | (s, e, _) :: r => if ce <? s then (cs, ce) :: merge_from s (Z.max ce e) r else merge_from cs (Z.max ce e) r
  end.
Definition merge_sorted (l : list rec1) : list (Z * Z) :=
  match l with [] => [] | (s, e, _) :: r => merge_from s e r end.
Definition boolean_mask (recs : list rec1) (size : Z) : option (kind * rle) :=
  if negb (all_true (map (fun '(_, e, _) => e <=? size) recs)) then None
  else
    let m := filter (fun '(s, e) => negb (s =? e)) (merge_sorted (sort_by_start recs)) in
    from_intervals_scalar (map fst m) (map snd m) size KB vone vzero.

(* ---------- get_pileup (npstructures RunLength2dArray.from_intervals(...).sum(axis=0), external):
   events = the distinct interval end points together with 0 and size, value = coverage count ---------- *)
Fixpoint insert_z (x : Z) (l : list Z) : list Z :=
  match l with [] => [x] | y :: t => if x <? y then x :: l else if x =? y then l else y :: insert_z x t end.
Definition sort_uniq (l : list Z) : list Z := fold_right insert_z [] l.
Definition pileup (recs : list rec1) (size : Z) : option (kind * rle) :=
  let ev := sort_uniq (0 :: size :: map (fun '(s, _, _) => s) recs ++ map (fun '(_, e, _) => e) recs) in
  match mk_rle ev (map (count_at recs) (removelast ev)) with Some r => Some (KI, r) | None => None end.

(* ---------- run lists (end, value), start implied by the previous end ---------- *)
Notation run := (Z * (Z * Z))%type (only parsing).
Definition runs_of (r : rle) : list run := combine (tl (fst r)) (snd r).
Definition of_runs (rs : list run) : rle := (0 :: map fst rs, map snd rs).
Fixpoint expand_runs (pos : Z) (rs : list run) : list val :=
  match rs with [] => [] | (e, v) :: r => repeat v (Z.to_nat (e - pos)) ++ expand_runs e r end.

(* RunLengthArray._apply_binary_func: common refinement of the two event lists ... *)
Fixpoint zip_runs (fuel : nat) (f : val -> val -> val) (a b : list run) : list run :=
  match fuel with
  | O => []
  | S k =>
      match a, b with
      | (ea, va) :: a', (eb, vb) :: b' =>
          if ea <? eb then (ea, f va vb) :: zip_runs k f a' b
          else if eb <? ea then (eb, f va vb) :: zip_runs k f a b'
          else (ea, f va vb) :: zip_runs k f a' b'
      | _, _ => []
      end
  end.
(* ... followed by join_runs: neighbours with equal values become one run, keeping the first value *)
Definition join_cons (x : run) (acc : list run) : list run :=
  match acc with
  | (e2, v2) :: acc' => if veqb (snd x) v2 then (e2, snd x) :: acc' else x :: acc
  | [] => [x]
  end.
Definition join_runs (rs : list run) : list run := fold_right join_cons [] rs.
Definition rle_zip (f : val -> val -> val) (a b : rle) : option rle :=
  if rle_len a =? rle_len b      (* assert len(first) == len(other) *)
  then Some (of_runs (join_runs (zip_runs (length (snd a) + length (snd b)) f (runs_of a) (runs_of b))))
  else None.
(* unary ufunc / scalar operand: same events, ufunc on the values *)
Definition rle_map (f : val -> val) (a : rle) : rle := (fst a, map f (snd a)).
Definition model_eval (leaves : list (kind * rle)) (e : expr) : option (kind * rle) :=
  eval rle_map rle_zip leaves e.

(* slicing track[a:b] (RunLengthArray._get_slice/_start_to_end): clip the runs to [a, b), shift by a *)
Fixpoint drop_runs (a : Z) (rs : list run) : list run :=
  match rs with [] => [] | (e, v) :: r => if e <=? a then drop_runs a r else rs end.
Fixpoint take_runs (b : Z) (rs : list run) : list run :=
  match rs with [] => [] | (e, v) :: r => if e <? b then (e, v) :: take_runs b r else [(b, v)] end.
Definition shift_runs (a : Z) (rs : list run) : list run := map (fun '(e, v) => (e - a, v)) rs.
Definition slice_runs (a b : Z) (rs : list run) : list run :=
  if a <? b then shift_runs a (take_runs b (drop_runs a rs)) else [].
Definition slice_rle (a b : Z) (r : rle) : rle := of_runs (slice_runs a b (runs_of r)).

(* GenomicArrayGlobal.to_dict: {name: track[offset:offset+size].to_array()} *)
Definition chrom_slices (sizes : list Z) (r : rle) : list rle :=
  per_chrom (fun c n => slice_rle (m_slice_lo (nthZ (offsets sizes) c) n) (m_slice_hi (nthZ (offsets sizes) c) n) r) sizes.
Definition model_to_dict (sizes : list Z) (r : rle) : list (list val) := map to_array (chrom_slices sizes r).

(* get_data / _get_intervals_from_data: Boolean -> the runs that are True; otherwise every run with its value *)
Fixpoint runs_records (c : Z) (pos : Z) (rs : list run) : list grec :=
  match rs with [] => [] | (e, v) :: r => (c, pos, e, v) :: runs_records c e r end.
Definition model_get_data (sizes : list Z) (k : kind) (r : rle) : list grec :=
  concat (map (fun '(c, s) =>
                 let recs := runs_records c 0 (runs_of s) in
                 match k with KB => filter (fun '(_, _, _, v) => vtruth v) recs | _ => recs end)
              (combine (arange (len sizes)) (chrom_slices sizes r))).

(* RunLengthArray.sum = sum(diff(events) * values) ; histogram = np.histogram(values, weights = run lengths) *)
Fixpoint runs_sum (pos : Z) (rs : list run) : val :=
  match rs with [] => vzero | (e, v) :: r => vadd (vscale (e - pos) v) (runs_sum e r) end.
Definition model_sum (r : rle) : val := runs_sum 0 (runs_of r).
Fixpoint runs_weight (pos : Z) (bn : val * val * bool) (rs : list run) : Z :=
  match rs with [] => 0 | (e, v) :: r => (if in_bin v bn then e - pos else 0) + runs_weight e bn r end.
Definition model_hist (edges : list val) (r : rle) : list Z :=
  map (fun bn => runs_weight 0 bn (runs_of r)) (hist_bins edges).

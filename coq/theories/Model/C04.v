(* Model/C04.v — lazy pass-through writing: TextThroughputExtractor offset algebra, the lazy table's
   get_buffer, and the per-format construction of the extractor from the raw bytes.
   Mirrors bionumpy/io/file_buffers.py:400-457 (TextThroughputExtractor), io/delimited_buffers.py
   (from_raw_buffer, _get_buffer_extractor, _modify_for_carriage_return), io/buffers/sam.py,
   io/one_line_buffer.py + io/fastq_buffer.py, io/vcf_buffers.py:220-223, io/bam.py:44-62,295-312 and
   bnpdataclass/lazybnpdataclass.py:143-214.
   Part (a) Spec: what the written bytes must be, from the generator's records only.
   Part (b) Model: the code's algorithm.  Executable definitions only; proofs live in Proofs/C04.v. *)
From Coq Require Import ZArith List Bool.
From BNP Require Import Base.Prims.
Import ListNotations.
Open Scope Z_scope.

(* ------------------------------------------------------------------ formats *)
Inductive fmt :=
| FDelim (nf : Z)   (* BedBuffer 3 / Bed6Buffer 6 / NarrowPeakBuffer 10: entry type has nf fields; the file may have more columns *)
| FVcf (nf : Z)     (* 8 = VCFBuffer (VCFEntry); 9 = VCFBuffer2 (9th field = rest of line from column 8) *)
| FSam              (* 11 common columns + 12th field "extra" = rest of line *)
| FFastq | FFasta   (* OneLineBuffer family *)
| FBam              (* binary records, pass-through only *)
| FGtf.             (* read eagerly (npdataclassreader._should_be_lazy) -> parsed and re-printed *)

Definition TAB := 9.  Definition LF := 10.  Definition CR := 13.

(* generic helpers (total) *)
Definition takeA {A} (d : A) (l : list A) (idx : list Z) : list A := map (fun i => nth (Z.to_nat i) l d) idx.
Definition hd0 (l : list Z) : Z := hd 0 l.
Definition last0 (l : list Z) : Z := last l 0.
Definition col (j : Z) (m : list (list Z)) : list Z := map (fun r => nthZ r j) m.
Fixpoint zip_with {A B C} (f : A -> B -> C) (a : list A) (b : list B) : list C :=
  match a, b with x :: a', y :: b' => f x y :: zip_with f a' b' | _, _ => [] end.
Definition vsub := zip_with Z.sub.
Definition vadd := zip_with Z.add.
Definition set_nth {A} (j : Z) (v : A) (l : list A) : list A :=
  firstn (Z.to_nat j) l ++ match skipn (Z.to_nat j) l with [] => [] | _ :: r => v :: r end.

(* ================================================================== (a) SPEC *)
(* A record as the generator made it: its columns (delimited formats: every column of the line;
   FASTQ: name, sequence, text after '+', quality; FASTA: name, sequence; BAM: the raw record) and
   its line terminator ([10] or [13;10]; [] for BAM). *)
Record grec := { g_cols : list (list Z); g_eol : list Z }.

Definition raw_of (f : fmt) (cols : list (list Z)) (plus : list Z) (eol : list Z) : list Z :=
  match f with
  | FFastq => [64] ++ nth 0 cols [] ++ eol ++ nth 1 cols [] ++ eol ++ [43] ++ plus ++ eol ++ nth 3 cols [] ++ eol
  | FFasta => [62] ++ nth 0 cols [] ++ eol ++ nth 1 cols [] ++ eol
  | FBam => nth 0 cols []
  | _ => intercalate [TAB] cols ++ eol
  end.
Definition plus_of (f : fmt) (cols : list (list Z)) : list Z := match f with FFastq => nth 2 cols [] | _ => [] end.
Definition g_raw (f : fmt) (r : grec) : list Z := raw_of f (g_cols r) (plus_of f (g_cols r)) (g_eol r).
Definition layout (f : fmt) (rs : list grec) : list Z := concat (map (g_raw f) rs).

(* which column of the line an entry-type field is *)
Definition col_of_field (f : fmt) (j : Z) : Z := match f with FFastq => if j =? 2 then 3 else j | _ => j end.

(* programs: what the user does with the table that was read *)
Inductive prog :=
| PSrc                                            (* the table as read *)
| PIdx (sel : list Z) (p : prog)                  (* p[idx]; sel = np.arange(len p)[idx] (resolved by NumPy) *)
| PCat (ps : list prog)                           (* np.concatenate([...]) *)
| PRepl (j : Z) (txt : list (list Z)) (p : prog)  (* bnp.replace(p, field_j = values); txt = their canonical text *)
| PTouch (p : prog).                              (* p is written to a scratch file, then used further *)

(* a row at specification level: current columns, original raw bytes, terminator *)
Record srow := { s_cols : list (list Z); s_raw : list Z; s_eol : list Z }.
Definition srow_of (f : fmt) (r : grec) : srow := {| s_cols := g_cols r; s_raw := g_raw f r; s_eol := g_eol r |}.
Definition subst_row (f : fmt) (j : Z) (r : srow) (t : list Z) : srow :=
  {| s_cols := set_nth (col_of_field f j) t (s_cols r); s_raw := s_raw r; s_eol := s_eol r |}.
Definition dummy_srow := {| s_cols := []; s_raw := []; s_eol := [] |}.

(* (rows, pure): pure = only selections so far *)
Fixpoint spec_eval (f : fmt) (src : list srow) (p : prog) : list srow * bool :=
  match p with
  | PSrc => (src, true)
  | PIdx sel p => let '(r, b) := spec_eval f src p in (takeA dummy_srow r sel, b)
  | PCat ps => (concat (map (fun p => fst (spec_eval f src p)) ps), false)
  | PRepl j txt p => let '(r, _) := spec_eval f src p in (zip_with (subst_row f j) r txt, false)
  | PTouch p => spec_eval f src p
  end.

(* accepted renderings of a row once the table is no longer a pure selection: every column keeps its
   (original or replaced) text; the terminator is the original one or LF; a FASTQ '+' line may lose its
   repeated name *)
Definition row_variants (f : fmt) (r : srow) : list (list Z) :=
  let eols := [s_eol r; [LF]] in
  match f with
  | FFastq => flat_map (fun e => [raw_of f (s_cols r) (plus_of f (s_cols r)) e; raw_of f (s_cols r) [] e]) eols
  | _ => map (raw_of f (s_cols r) []) eols
  end.
Fixpoint is_prefix (a b : list Z) : option (list Z) :=   (* Some rest if b = a ++ rest *)
  match a, b with
  | [], _ => Some b
  | x :: a', y :: b' => if x =? y then is_prefix a' b' else None
  | _, [] => None
  end.
Fixpoint first_some {A} (l : list (option A)) : option A :=
  match l with [] => None | Some x :: _ => Some x | None :: r => first_some r end.
Fixpoint match_rows (f : fmt) (rows : list srow) (out : list Z) : bool :=
  match rows with
  | [] => match out with [] => true | _ => false end
  | r :: rest => match first_some (map (fun v => is_prefix v out) (row_variants f r)) with
                 | Some out' => match_rows f rest out'
                 | None => false
                 end
  end.

Fixpoint has_cat_or_repl (p : prog) : bool :=
  match p with
  | PSrc => false | PIdx _ p => has_cat_or_repl p | PTouch p => has_cat_or_repl p
  | PCat _ => true | PRepl _ _ _ => true
  end.

(* the property: [out] = what the writer produced after the header (None = the library refused) *)
Definition spec_out_ok (f : fmt) (recs : list grec) (p : prog) (out : option (list Z)) : bool :=
  match out with
  | None => match f with FBam => has_cat_or_repl p | _ => false end   (* BAM: modified / re-assembled tables are refused, loudly *)
  | Some o =>
      let '(rows, pure) := spec_eval f (map (srow_of f) recs) p in
      if pure then zlist_eqb o (concat (map s_raw rows)) else match_rows f rows o
  end.

(* ================================================================== (b) MODEL *)
(* TextThroughputExtractor: parallel arrays exactly as in the class *)
Record ext := { x_data : list Z;
                x_fs : list (list Z);    (* _field_starts, n x k *)
                x_fl : list (list Z);    (* _field_lens,   n x k *)
                x_es : list Z;           (* _entry_starts *)
                x_ee : list Z;           (* _entry_ends *)
                x_contig : bool }.

(* __getitem__ : every array indexed with the same idx; data shared; not contiguous any more *)
Definition getitem (sel : list Z) (x : ext) : ext :=
  {| x_data := x_data x; x_fs := takeA [] (x_fs x) sel; x_fl := takeA [] (x_fl x) sel;
     x_es := takeA 0 (x_es x) sel; x_ee := takeA 0 (x_ee x) sel; x_contig := false |}.

(* EncodedRaggedArray(data, RaggedView2(starts, lens)).ravel() *)
Definition ragged_ravel (data : list Z) (starts lens : list Z) : list Z :=
  concat (zip_with (fun s l => slice s (s + l) data) starts lens).

(* _make_contigous *)
Definition make_contiguous (x : ext) : ext :=
  let lens := vsub (x_ee x) (x_es x) in
  let new_starts := 0 :: cumsum lens in
  let offsets := vsub (x_es x) (removelast new_starts) in
  {| x_data := ragged_ravel (x_data x) (x_es x) lens;
     x_fs := zip_with (fun r o => map (fun s => s - o) r) (x_fs x) offsets;
     x_fl := x_fl x;
     x_es := removelast new_starts; x_ee := tl new_starts; x_contig := true |}.
Definition contiguous (x : ext) : ext := if x_contig x then x else make_contiguous x.

(* classmethod concatenate *)
Definition offsets_of (xs : list ext) : list Z := 0 :: cumsum (map (fun b => len (x_data b)) xs).
Definition concatenate (xs : list ext) : ext :=
  let offs := offsets_of xs in
  {| x_data := concat (map x_data xs);
     x_fs := concat (zip_with (fun b o => map (map (Z.add o)) (x_fs b)) xs offs);
     x_fl := concat (map x_fl xs);
     x_es := concat (zip_with (fun b o => map (Z.add o) (x_es b)) xs offs);
     x_ee := concat (zip_with (fun b o => map (Z.add o) (x_ee b)) xs offs);
     x_contig := forallb x_contig xs |}.

(* _extract_data(lens, starts) on self._data (NOT on the compacted .data) *)
Definition extract (x : ext) (starts lens : list Z) : list (list Z) :=
  zip_with (fun s l => slice s (s + l) (x_data x)) starts lens.
Definition get_field (j : Z) (x : ext) : list (list Z) := extract x (col j (x_fs x)) (col j (x_fl x)).
(* get_fields_by_range(from_nr=j): the rest of the line without its last byte *)
Definition rest_of_line (j : Z) (x : ext) : list (list Z) :=
  let starts := col j (x_fs x) in extract x starts (map (fun l => l - 1) (vsub (x_ee x) starts)).
(* SAMBufferExctractor._get_extra_field *)
(* (since /repo 6bbd290) the tags end at the line break, or at the carriage return before it *)
Definition extra_end (data : list Z) (e : Z) : Z :=
  let e0 := e - 1 in e0 - (if nthZ data (Z.max (e0 - 1) 0) =? CR then 1 else 0).
Definition sam_extra (x : ext) : list (list Z) :=
  let starts := zip_with (fun s l => last0 s + last0 l + 1) (x_fs x) (x_fl x) in
  extract x starts (zip_with (fun e st => Z.max (extra_end (x_data x) e - st) 0) (x_ee x) starts).

(* buffer.get_field_range_as_text(i, i+1) per buffer class *)
Definition field_text (f : fmt) (i : Z) (x : ext) : list (list Z) :=
  match f with
  | FVcf _ => if i =? 8 then rest_of_line 8 x else get_field i x
  | FSam => if i =? 11 then sam_extra x else get_field i x
  | FFastq => if i =? 2 then get_field 3 x else get_field i x
  | _ => get_field i x
  end.
Definition n_fields (f : fmt) : Z :=
  match f with FDelim n => n | FVcf n => n | FSam => 12 | FFastq => 3 | FFasta => 2 | FBam => 9 | FGtf => 9 end.

(* join_fields: delimited -> join_columns(TAB, LF); one-line -> header char, LF-terminated lines, FASTQ '+' line *)
Fixpoint transpose_n (n : nat) (cols : list (list (list Z))) : list (list (list Z)) :=   (* columns -> n rows *)
  match n with
  | O => []
  | S k => map (fun c => hd [] c) cols :: transpose_n k (map (@tl _) cols)
  end.
(* Which code is modelled.  [pinned] = /repo HEAD.  The proposed repairs switch one flag each:
     v_crlf   = notes/C04.fix-1.diff (DelimitedBuffer._get_buffer_extractor: entry ends taken before the CR adjustment)
     v_samtab = notes/C04.fix-2.diff (SAMBuffer.join_fields: no separator before an empty 'extra' field)
   THE SWITCH is the single definition [current] below. *)
Record variant := { v_crlf : bool; v_samtab : bool; v_lazyqual : bool }.
(* v_lazyqual = /repo ddae115 (dump_csv.get_column formats a numeric-encoded column held as a plain RaggedArray row by row):
   a LAZY FASTQ table with a replaced quality column can be written; before, the writer refused it *)
Definition pinned : variant := {| v_crlf := false; v_samtab := false; v_lazyqual := false |}.
Definition repaired : variant := {| v_crlf := true; v_samtab := true; v_lazyqual := true |}.
Definition current : variant := repaired.

Definition drop_empty_last (flds : list (list Z)) : list (list Z) :=
  match rev flds with [] :: r => rev r | _ => flds end.
Definition join_row (v : variant) (f : fmt) (flds : list (list Z)) : list Z :=
  match f with
  | FSam => intercalate [TAB] (if v_samtab v then drop_empty_last flds else flds) ++ [LF]
  | FFastq => [64] ++ nth 0 flds [] ++ [LF] ++ nth 1 flds [] ++ [LF] ++ [43] ++ [LF] ++ nth 2 flds [] ++ [LF]
  | FFasta => [62] ++ nth 0 flds [] ++ [LF] ++ nth 1 flds [] ++ [LF]
  | _ => intercalate [TAB] flds ++ [LF]
  end.

(* ---- abstraction of an extractor (used by the theorems; the writer's output is a function of it) ----
   A row is seen as its record bytes plus, per field, (start relative to the record start, length). *)
Record xrow := { r_s : Z; r_e : Z; r_fs : list Z; r_fl : list Z }.
Fixpoint zip4 (ss es : list Z) (fss fls : list (list Z)) : list xrow :=
  match ss, es, fss, fls with
  | s :: ss', e :: es', f :: fss', l :: fls' => {| r_s := s; r_e := e; r_fs := f; r_fl := l |} :: zip4 ss' es' fss' fls'
  | _, _, _, _ => []
  end.
Definition rows (x : ext) : list xrow := zip4 (x_es x) (x_ee x) (x_fs x) (x_fl x).
Record arow := { a_rec : list Z; a_rel : list (Z * Z) }.
Definition arow_of (data : list Z) (r : xrow) : arow :=
  {| a_rec := slice (r_s r) (r_e r) data; a_rel := combine (map (fun a => a - r_s r) (r_fs r)) (r_fl r) |}.
Definition view (x : ext) : list arow := map (arow_of (x_data x)) (rows x).
Definition dummy_arow := {| a_rec := []; a_rel := [] |}.
(* text of field j / rest of the line from field j / SAM extra, read off the record bytes *)
Definition a_field (j : Z) (a : arow) : list Z :=
  let sl := nth (Z.to_nat j) (a_rel a) (0, 0) in slice (fst sl) (fst sl + snd sl) (a_rec a).
Definition a_rest (j : Z) (a : arow) : list Z :=
  let sl := nth (Z.to_nat j) (a_rel a) (0, 0) in slice (fst sl) (len (a_rec a) - 1) (a_rec a).
Definition a_extra (a : arow) : list Z :=
  let sl := last (a_rel a) (0, 0) in
  let st := fst sl + snd sl + 1 in
  slice st (st + Z.max (extra_end (a_rec a) (len (a_rec a)) - st) 0) (a_rec a).
Definition a_field_text (f : fmt) (i : Z) (a : arow) : list Z :=
  match f with
  | FVcf _ => if i =? 8 then a_rest 8 a else a_field i a
  | FSam => if i =? 11 then a_extra a else a_field i a
  | FFastq => if i =? 2 then a_field 3 a else a_field i a
  | _ => a_field i a
  end.
(* well-formedness: every field lies inside its record (leaving room for its separator), every record inside
   the data; a buffer flagged contiguous is the concatenation of its records *)
Definition row_ok (dlen : Z) (r : xrow) : Prop :=
  0 <= r_s r /\ r_s r <= r_e r /\ r_e r <= dlen /\ length (r_fs r) = length (r_fl r) /\
  Forall (fun al => r_s r <= fst al /\ 0 <= snd al /\ fst al + snd al + 1 <= r_e r) (combine (r_fs r) (r_fl r)).
Definition shape_ok (x : ext) : Prop :=
  length (x_ee x) = length (x_es x) /\ length (x_fs x) = length (x_es x) /\ length (x_fl x) = length (x_es x).
Definition Inv (x : ext) : Prop :=
  shape_ok x /\ Forall (row_ok (len (x_data x))) (rows x) /\
  (x_contig x = true -> x_data x = concat (map a_rec (view x))).

(* ---- the lazy table ---- *)
Definition setv := list (Z * list (list Z)).       (* _set_values: field number -> column of texts *)
Fixpoint sv_get (sv : setv) (j : Z) : option (list (list Z)) :=
  match sv with [] => None | (k, c) :: r => if k =? j then Some c else sv_get r j end.
Definition sv_set (sv : setv) (j : Z) (c : list (list Z)) : setv :=
  (j, c) :: filter (fun kc => negb (fst kc =? j)) sv.

Inductive state :=
| SLazy (x : ext) (sv : setv)                (* NewClass(ItemGetter(buffer), set_values) *)
| SEager (rows : list (list (list Z))).      (* a parsed BNPDataClass: per row the text of every entry field *)

Definition n_rows (s : state) : nat := match s with SLazy x _ => length (x_es x) | SEager r => length r end.

(* all entry fields of a lazy table as text columns (set values win), then as rows *)
Definition lazy_columns (f : fmt) (x : ext) (sv : setv) : list (list (list Z)) :=
  map (fun i => match sv_get sv i with Some c => c | None => field_text f i x end) (arange (n_fields f)).
Definition lazy_rows (f : fmt) (x : ext) (sv : setv) : list (list (list Z)) :=
  transpose_n (length (x_es x)) (lazy_columns f x sv).

(* text -> value -> text for an eagerly parsed field: only int columns are re-spelled *)
Fixpoint strip_zeros (l : list Z) : list Z :=
  match l with 48 :: ((_ :: _) as r) => strip_zeros r | _ => l end.
Definition all_zero (l : list Z) : bool := forallb (Z.eqb 48) l.
Definition canon_int (t : list Z) : list Z :=
  match t with
  | 43 :: r => strip_zeros r
  | 45 :: r => if all_zero r then strip_zeros r else 45 :: strip_zeros r
  | _ => strip_zeros t
  end.
Definition is_int_field (f : fmt) (j : Z) : bool :=
  match f with FGtf => (j =? 3) || (j =? 4) | _ => false end.
Definition canon_row (f : fmt) (r : list (list Z)) : list (list Z) :=
  zip_with (fun j t => if is_int_field f j then canon_int t else t) (arange (len r)) r.

Definition is_oneline (f : fmt) : bool := match f with FFastq | FFasta => true | _ => false end.
Definition has_concatenate (f : fmt) : bool :=
  match f with FDelim _ | FVcf _ | FSam => true | _ => false end.

Definition as_lazy (s : state) : option (ext * setv) := match s with SLazy x sv => Some (x, sv) | _ => None end.
Definition as_eager (s : state) : option (list (list (list Z))) := match s with SEager r => Some r | _ => None end.
Fixpoint all_some {A} (l : list (option A)) : option (list A) :=
  match l with
  | [] => Some []
  | Some x :: r => match all_some r with Some r' => Some (x :: r') | None => None end
  | None :: _ => None
  end.

(* the write triggered by PTouch / at the end: TextThroughputExtractor.data compacts the extractor IN PLACE when nothing is
   set; BamBufferExtractor.data (since /repo 0f67f4c) only GATHERS the selected records' bytes and leaves the extractor as
   it is (its record offsets are cached) *)
Definition inplace_compaction (f : fmt) : bool := match f with FBam => false | _ => true end.
Definition touch (f : fmt) (s : state) : state :=
  if inplace_compaction f then
    match s with
    | SLazy x [] => SLazy (contiguous x) []
    | _ => s
    end
  else s.

(* the rows of field texts of a table: what get_data_object() of a lazy table parses, or the parsed rows themselves *)
Definition frows (f : fmt) (st : state) : list (list (list Z)) :=
  match st with SLazy x sv => lazy_rows f x sv | SEager r => r end.

Fixpoint run (f : fmt) (src : state) (p : prog) : option state :=
  match p with
  | PSrc => Some src
  | PIdx sel p =>
      match run f src p with
      | Some s =>
          (* an index outside the table raises IndexError in NumPy *)
          if forallb (fun i => (0 <=? i) && (i <? Z.of_nat (n_rows s))) sel then
            match s with
            | SLazy x sv => Some (SLazy (getitem sel x) (map (fun kc => (fst kc, takeA [] (snd kc) sel)) sv))
            | SEager r => Some (SEager (takeA [] r sel))
            end
          else None
      | None => None
      end
  | PRepl j txt p =>
      match run f src p with
      | Some s =>
          (* a column of the wrong length cannot be written *)
          if negb (Nat.eqb (length txt) (n_rows s)) then None else
          match s with
          | SLazy x sv => Some (SLazy x (sv_set sv j txt))
          | SEager r => Some (SEager (zip_with (fun row t => set_nth j t row) r txt))
          end
      | None => None
      end
  | PTouch p => match run f src p with Some s => Some (touch f s) | None => None end
  | PCat ps =>
      match all_some (map (run f src) ps) with
      | None => None
      | Some sts =>
          match all_some (map as_lazy sts) with
          | Some lz =>
              if has_concatenate f then
                (* set/computed values are taken from the first operand's keys (C05's subject): the model
                   covers operands without set values only *)
                if forallb (fun xs => match snd xs with [] => true | _ => false end) lz
                then Some (SLazy (concatenate (map fst lz)) [])
                else None
              else if is_oneline f then
                (* no buffer.concatenate: every operand is parsed, the result is an eager table *)
                Some (SEager (concat (map (fun xs => lazy_rows f (fst xs) (snd xs)) lz)))
              else None                                   (* BAM: the re-assembled table cannot be written *)
          | None =>
              match all_some (map as_eager sts) with
              | Some es => Some (SEager (concat es))
              | None =>
                  (* (since /repo 5965ca7) lazy and already materialised operands mixed: the lazy ones are parsed, the others
                     taken as they are, the data objects concatenated.  Only the one-line buffers produce eager tables from
                     lazily read files, so only they reach this branch. *)
                  if is_oneline f then Some (SEager (concat (map (frows f) sts))) else None
              end
          end
      end
  end.

(* HISTORY (before /repo ddae115, variant flag v_lazyqual = false): get_buffer on a LAZY FASTQ table whose quality column was
   replaced: dump_csv.get_column's Encoding branch only handled an EncodedRaggedArray; a quality column is a RaggedArray of ints
   -> ValueError / TypeError: the write was refused.  Since ddae115 the branch tests `isinstance(x, RaggedArray)` and the
   column is decoded row by row like on the eager path.  The writer returns before get_buffer on an empty table. *)
Definition refused_lazy (f : fmt) (x : ext) (sv : setv) : bool :=
  match f, sv_get sv 2, x_es x with
  | FFastq, Some _, _ :: _ => true
  | _, _, _ => false
  end.

(* get_buffer + writer: bytes after the header *)
Definition write (v : variant) (f : fmt) (s : state) : option (list Z) :=
  match s with
  | SLazy x [] => Some (x_data (contiguous x))
  | SLazy x sv =>
      match f with
      | FBam => match x_es x with
                | [] => Some []      (* the writer returns before get_buffer when the table is empty *)
                | _ => None          (* supports_modified_write = False *)
                end
      | _ => if negb (v_lazyqual v) && refused_lazy f x sv then None else Some (concat (map (join_row v f) (lazy_rows f x sv)))
      end
  | SEager rows => Some (concat (map (join_row v f) rows))
  end.

(* ---- building the extractor from the raw bytes ---- *)
Definition reshape (n : Z) (l : list Z) : option (list (list Z)) :=
  if (0 <? n) && (len l mod n =? 0) then Some (chunks_of (Z.to_nat n) l) else None.
Definition is_cr_before (data : list Z) (e : Z) : Z := if nthZ data (e - 1) =? CR then 1 else 0.

(* DelimitedBuffer._modify_for_carriage_return: looks at the first row only, then adjusts the last column *)
Definition modify_cr_last (data : list Z) (ends : list (list Z)) : list (list Z) :=
  match ends with
  | [] => ends
  | r0 :: _ =>
      if (len data =? 0) || (last0 r0 =? 0) then ends
      else if nthZ data (last0 r0 - 1) =? CR
           then map (fun r => removelast r ++ [last0 r - is_cr_before data (last0 r)]) ends
           else ends
  end.

(* DelimitedBuffer.from_raw_buffer + _get_buffer_extractor.
   [fixed = false]: the code at /repo HEAD — entry ends are taken AFTER the carriage-return adjustment, so a
   CRLF record stops before its '\n'.  [fixed = true]: notes/C04.fix-1.diff — entry ends taken before it. *)
Definition from_delimited_gen (fixed : bool) (data : list Z) : option ext :=
  let delimiters := flatnonzero (map (fun c => (c =? LF) || (c =? TAB)) data) in
  let entry_ends := flatnonzero (map (fun d => nthZ data d =? LF) delimiters) in
  match entry_ends with
  | [] => None
  | e0 :: _ =>
      let n := e0 + 1 in
      let lastE := last0 entry_ends in
      let size := nthZ delimiters lastE + 1 in
      let dl := (-1) :: firstn (Z.to_nat (lastE + 1)) delimiters in
      let chunk := firstn (Z.to_nat size) data in
      match reshape n (removelast dl), reshape n (tl dl) with
      | Some st, Some en =>
          let starts := map (map (Z.add 1)) st in
          let ends := modify_cr_last chunk en in
          Some {| x_data := chunk; x_fs := starts; x_fl := zip_with vsub ends starts;
                  x_es := map hd0 starts;
                  x_ee := map (fun r => last0 r + 1) (if fixed then en else ends); x_contig := true |}
      | _, _ => None
      end
  end.
Definition from_delimited := from_delimited_gen false.

(* SAMBuffer: ragged rows (11 common columns + any number of tag columns) *)
Fixpoint split_counts (counts : list Z) (l : list Z) : list (list Z) :=
  match counts with
  | [] => []
  | c :: r => firstn (Z.to_nat c) l :: split_counts r (skipn (Z.to_nat c) l)
  end.
Definition from_sam (data : list Z) : option ext :=
  let delimiters := flatnonzero (map (fun c => (c =? LF) || (c =? TAB)) data) in
  let entry_ends := flatnonzero (map (fun d => nthZ data d =? LF) delimiters) in
  match entry_ends with
  | [] => None
  | e0 :: _ =>
      let counts := (e0 + 1) :: diff entry_ends in
      let lastE := last0 entry_ends in
      let size := nthZ delimiters lastE + 1 in
      let dl := (-1) :: firstn (Z.to_nat (lastE + 1)) delimiters in
      let chunk := firstn (Z.to_nat size) data in
      let st := split_counts counts (map (Z.add 1) (removelast dl)) in
      let en := split_counts counts (tl dl) in
      if forallb (fun c => 11 <=? c) counts then
        (* (since /repo 6bbd290) the entry ends are taken BEFORE the carriage-return adjustment; the adjustment is the
           delimited one, applied to the last end of every (ragged) row *)
        let starts := map (firstn 11) st in
        let ends := map (firstn 11) (modify_cr_last chunk en) in
        Some {| x_data := chunk; x_fs := starts; x_fl := zip_with vsub ends starts;
                x_es := map hd0 starts; x_ee := map (fun r => last0 r + 1) en; x_contig := true |}
      else None
  end.

(* OneLineBuffer.from_raw_buffer + _get_buffer_extractor; k lines per entry, per-line start offsets *)
Fixpoint every_kth (k : nat) (i : nat) (l : list Z) : list Z :=   (* l[i::k] with i < k counted down *)
  match l with
  | [] => []
  | x :: r => match i with O => x :: every_kth k (k - 1) r | S i' => every_kth k i' r end
  end.
Definition from_oneline (k : Z) (offs : list Z) (data : list Z) : option ext :=
  let nl0 := positions LF data in
  let n_lines := len nl0 in
  if n_lines <? k then None else
  let new_lines := firstn (Z.to_nat (n_lines - n_lines mod k)) nl0 in
  let chunk := firstn (Z.to_nat (last0 new_lines + 1)) data in
  let tmp := map (Z.add 1) ((-1) :: new_lines) in
  match reshape k new_lines, reshape k (removelast tmp) with
  | Some fe, Some fs0 =>
      let first_ends := map hd0 (firstn (Z.to_nat k) fe) in      (* field_ends[:k, 0] *)
      let fe' := if (hd0 (hd [] fe) <? 1) then fe
                 else if existsb (fun e => nthZ chunk (e - 1) =? CR) first_ends
                      then map (map (fun e => e - is_cr_before chunk e)) fe else fe in
      let starts := map (fun r => vadd r offs) fs0 in
      Some {| x_data := chunk; x_fs := starts; x_fl := zip_with vsub fe' starts;
              x_es := every_kth (Z.to_nat k) 0 (removelast tmp);
              x_ee := tl (every_kth (Z.to_nat k) 0 tmp); x_contig := true |}
  | _, _ => None
  end.

(* BamBuffer._find_starts / from_raw_buffer: chain of block sizes *)
Definition le32 (b : list Z) : Z := nthZ b 0 + 256 * nthZ b 1 + 65536 * nthZ b 2 + 16777216 * nthZ b 3.
Fixpoint bam_starts (fuel : nat) (data : list Z) (start : Z) : list Z :=
  match fuel with
  | O => []
  | S f => if start <=? len data
           then start :: bam_starts f data (start + le32 (slice start (start + 4) data) + 4)
           else []
  end.
Definition from_bam (data : list Z) : option ext :=
  let starts := bam_starts (S (length data)) data 0 in
  Some {| x_data := firstn (Z.to_nat (last0 starts)) data; x_fs := map (fun _ => []) (removelast starts);
          x_fl := map (fun _ => []) (removelast starts);
          x_es := removelast starts; x_ee := tl starts; x_contig := true |}.

(* eager read (GTF): parse every field, i.e. columns as text with int columns re-spelled; CR stripped *)
Definition eager_rows (f : fmt) (x : ext) : list (list (list Z)) :=
  map (canon_row f) (lazy_rows f x []).

Definition read (v : variant) (f : fmt) (data : list Z) : option state :=
  match f with
  | FDelim _ | FVcf _ => option_map (fun x => SLazy x []) (from_delimited_gen (v_crlf v) data)
  | FSam => option_map (fun x => SLazy x []) (from_sam data)
  | FFastq => option_map (fun x => SLazy x []) (from_oneline 4 [1; 0; 0; 0] data)
  | FFasta => option_map (fun x => SLazy x []) (from_oneline 2 [1; 0] data)
  | FBam => option_map (fun x => SLazy x []) (from_bam data)
  | FGtf => option_map (fun x => SEager (eager_rows f x)) (from_delimited_gen (v_crlf v) data)
  end.

(* whole pipeline: file body -> program -> written body *)
Definition model_out_v (v : variant) (f : fmt) (data : list Z) (p : prog) : option (list Z) :=
  match read v f data with
  | None => None
  | Some src => match run f src p with None => None | Some s => write v f s end
  end.
Definition model_out := model_out_v current.

(* ================================================================== (a') SPEC at the level of the abstraction
   What a program means for the rows, independently of any offsets: selections take rows, concatenations
   append them, replacements only touch the replaced column. *)
Fixpoint aeval (v0 : list arow) (p : prog) : list arow :=
  match p with
  | PSrc => v0
  | PIdx sel p => takeA dummy_arow (aeval v0 p) sel
  | PCat ps => concat (map (aeval v0) ps)
  | PRepl _ _ p => aeval v0 p
  | PTouch p => aeval v0 p
  end.
Fixpoint sv_eval (p : prog) : setv :=
  match p with
  | PSrc => []
  | PIdx sel p => map (fun kc => (fst kc, takeA [] (snd kc) sel)) (sv_eval p)
  | PCat _ => []
  | PRepl j txt p => sv_set (sv_eval p) j txt
  | PTouch p => sv_eval p
  end.
Fixpoint cat_free (p : prog) : bool :=
  match p with
  | PSrc => true | PIdx _ p => cat_free p | PRepl _ _ p => cat_free p | PTouch p => cat_free p | PCat _ => false
  end.
Fixpoint repl_free (p : prog) : bool :=
  match p with
  | PSrc => true | PIdx _ p => repl_free p | PRepl _ _ _ => false | PTouch p => repl_free p
  | PCat ps => forallb repl_free ps
  end.
(* row k of a modified write: field i is the replaced text if field i was replaced, else the text of
   field i read off the record's own original bytes *)
Definition render_row (vr : variant) (f : fmt) (v : list arow) (sv : setv) (k : nat) : list Z :=
  join_row vr f (map (fun i => match sv_get sv i with
                            | Some c => nth k c []
                            | None => a_field_text f i (nth k v dummy_arow)
                            end) (arange (n_fields f))).
Definition render_rows (vr : variant) (f : fmt) (v : list arow) (sv : setv) : list (list Z) :=
  map (render_row vr f v sv) (seq 0 (length v)).
Definition width_gt (k : nat) (v : list arow) : Prop := Forall (fun a => (k < length (a_rel a))%nat) v.
Definition width_ok (f : fmt) (v : list arow) : Prop :=
  match f with
  | FVcf n => 8 < n -> width_gt 8 v
  | FSam => width_gt 0 v /\ Forall (fun a => 2 <= len (a_rec a)) v
  | _ => True
  end.

(* decidable versions of the well-formedness conditions (reflected in Proofs/C04.v) *)
Definition row_ok_b (dlen : Z) (r : xrow) : bool :=
  (0 <=? r_s r) && (r_s r <=? r_e r) && (r_e r <=? dlen) && Nat.eqb (length (r_fs r)) (length (r_fl r)) &&
  forallb (fun al => (r_s r <=? fst al) && (0 <=? snd al) && (fst al + snd al + 1 <=? r_e r)) (combine (r_fs r) (r_fl r)).
Definition inv_b (x : ext) : bool :=
  Nat.eqb (length (x_ee x)) (length (x_es x)) && Nat.eqb (length (x_fs x)) (length (x_es x)) &&
  Nat.eqb (length (x_fl x)) (length (x_es x)) &&
  forallb (row_ok_b (len (x_data x))) (rows x) &&
  (negb (x_contig x) || zlist_eqb (x_data x) (concat (map a_rec (view x)))).
Definition width_b (f : fmt) (v : list arow) : bool :=
  match f with
  | FVcf n => negb (8 <? n) || forallb (fun a => Nat.ltb 8 (length (a_rel a))) v
  | FSam => forallb (fun a => Nat.ltb 0 (length (a_rel a))) v && forallb (fun a => 2 <=? len (a_rec a)) v
  | _ => true
  end.

(* the abstraction a record of the generator is expected to have: its raw bytes and where its columns lie *)
Fixpoint col_offsets (pos : Z) (cols : list (list Z)) : list (Z * Z) :=
  match cols with [] => [] | c :: r => (pos, len c) :: col_offsets (pos + len c + 1) r end.
Definition gview (f : fmt) (r : grec) : arow :=
  let cols := g_cols r in let e := len (g_eol r) in
  {| a_rec := g_raw f r;
     a_rel := match f with
              | FSam => firstn 11 (col_offsets 0 cols)
              | FFastq => let n := len (nth 0 cols []) in let s := len (nth 1 cols []) in let p := len (nth 2 cols []) in
                          [(1, n); (1 + n + e, s); (1 + n + e + s + e, 1 + p); (1 + n + e + s + e + 1 + p + e, len (nth 3 cols []))]
              | FFasta => let n := len (nth 0 cols []) in [(1, n); (1 + n + e, len (nth 1 cols []))]
              | FBam => []
              | _ => col_offsets 0 cols
              end |}.
Definition arow_eqb (a b : arow) : bool :=
  zlist_eqb (a_rec a) (a_rec b) &&
  list_eqb (fun p q => (fst p =? fst q) && (snd p =? snd q)) (a_rel a) (a_rel b).

(* ================================================================== named arithmetic kernels
   The formulas the operations above are built from, one name each; Bridge/C04.v proves (i) that the definitions
   regenerated from the source (Gen/C04.v) equal these, and (ii) that getitem / make_contiguous / concatenate /
   rest_of_line re-assembled from the regenerated formulas ARE the functions above. *)
Definition m_rec_len (s e : Z) : Z := e - s.                          (* lens = entry_ends - entry_starts *)
Definition m_new_starts (lens : list Z) : list Z := 0 :: cumsum lens. (* np.insert(np.cumsum(lens), 0, 0) *)
Definition m_offset (es ns : Z) : Z := es - ns.                       (* entry_starts - new_starts[:-1] *)
Definition m_rebase (fs o : Z) : Z := fs - o.                         (* field_starts - offsets[:, None] *)
Definition m_shift (v o : Z) : Z := o + v.                            (* b._x + offset in concatenate *)
Definition m_range_len (e s : Z) : Z := e - s - 1.                    (* get_fields_by_range, keep_sep = False *)
Definition m_delim_start (d : Z) : Z := 1 + d.                        (* delimiters[:-1] + 1 *)
Definition m_delim_entry_end (e : Z) : Z := e + 1.                    (* ends[:, -1] + 1 *)
Definition ext_tuple (x : ext) := (x_data x, x_fs x, x_fl x, x_es x, x_ee x, x_contig x).
(* SAMBuffer.join_fields (repaired code): in the flat table of cells, n per row, the separator to drop for a row
   without tags is the last byte of cell (row, n - 2); a tag cell is empty when it only holds its separator *)
Definition m_sam_cell_ends (lengths : list Z) : list Z := map (fun c => c - 1) (cumsum lengths).
Definition m_sam_drop_cell (row n : Z) : Z := row * n + (n - 2).
Definition m_sam_tag_first (n : Z) : Z := n - 1.
Definition m_sam_tag_empty (l : Z) : bool := l =? 1.

(* ================================================================== sessions: tables derived from earlier tables
   [subst_src q p] = the program p applied to the table that program q denotes (every reference to the source in p
   replaced by q).  The harness expands references to earlier tables of a session this way; Proofs/C04_session.v shows
   that in the model (and in the Spec) this is the same as running p on the table q produced — deriving a table never
   changes the table it is derived from. *)
Fixpoint subst_src (q p : prog) : prog :=
  match p with
  | PSrc => q
  | PIdx sel p => PIdx sel (subst_src q p)
  | PCat ps => PCat (map (subst_src q) ps)
  | PRepl j txt p => PRepl j txt (subst_src q p)
  | PTouch p => PTouch (subst_src q p)
  end.

(* Model/C10.v — genome-wide operations and chromosome boundaries.
   Part A  Spec : what "each chromosome gets exactly the single-contig result on its own entries" means.
   Part B  Model: the code's algorithms — concatenated ("global") coordinates, offsets = insert0 (cumsum sizes),
                  searchsorted for the way back, slicing of global arrays per chromosome, the streamed
                  per-chromosome walk used by merged(distance>0)
                  (bionumpy/genomic_data/{global_offset,genome_context,genomic_intervals,genomic_track,
                   genomic_sequence,geometry}.py).
   Executable definitions only; proofs live in Proofs/C10.v.

   Single-contig kernels of bionumpy/arithmetics/intervals.py (get_pileup, get_boolean_mask,
   merge_intervals, clip, extend_to_size) are property C08's subject.  Here they are the functions
   pileup1 / mask1 / merge1 / clip1 / extend1; what C10 is about is how the genome-wide code calls them. *)
From Coq Require Import ZArith List Bool.
From BNP Require Import Base.Prims.
Import ListNotations.
Open Scope Z_scope.

(* ------------------------------------------------------------------ common vocabulary *)
Record chrom := { c_name : list Z; c_size : Z }.
Inductive filt := KeepAll | IgnoreUnderscore.          (* the filter_function given to GenomeContext.from_dict *)
Record entry := { e_chr : Z; e_start : Z; e_stop : Z; e_fwd : bool }.   (* e_fwd = strand is '+' *)
Definition set_se (e : entry) (s t : Z) : entry :=
  {| e_chr := e_chr e; e_start := s; e_stop := t; e_fwd := e_fwd e |}.
Definition set_chr (e : entry) (c : Z) : entry :=
  {| e_chr := c; e_start := e_start e; e_stop := e_stop e; e_fwd := e_fwd e |}.
Definition mk (c s t : Z) : entry := {| e_chr := c; e_start := s; e_stop := t; e_fwd := true |}.

(* exception classes the public API answers with *)
Definition E_ASSERT := 1.  Definition E_ATTR := 2.  Definition E_INDEX := 3.
Definition E_GENOME := 4.  Definition E_BOUNDS := 5. (* `raise Exception(...)` of the bounds checks *)
Definition E_COMP := 6.    (* ComputationException *)
Definition E_OTHER := 9.   (* anything else (StopIteration, ValueError, ...) *)

Inductive res :=
| RErr (code : Z)
| RArrays (a : list (list Z))            (* one array per included chromosome, genome order; booleans as 0/1 *)
| RIvs (l : list (Z * Z * Z))            (* rows (chromosome, start, stop) *)
| RPos (l : list (Z * Z))                (* rows (chromosome, position) *)
| RRows (l : list (list Z))              (* one row of values per interval *)
| RCoords (fwd : list Z) (bwd : list (Z * Z)) (rej : list bool).

(* programs: Genome.get_intervals(.., stranded) followed by interval-producing methods and a strand-aware consumer *)
Inductive pstep :=
| PSorted                                (* .sorted() *)
| PMerged (d : Z)                        (* .merged(d) *)
| PClip                                  (* .clip() *)
| PExtend (n : Z)                        (* .extended_to_size(n) *)
| PRev                                   (* [::-1] *)
| PMask (m : list bool)                  (* [boolean mask] *)
| PLocWin (w l r : Z).                   (* .get_location(where).get_windows(..) *)
Inductive pcons :=
| CExtract                               (* GenomicArray[intervals] *)
| CSeq                                   (* GenomicSequence[intervals] *)
| CLocation (w : Z).                     (* .get_location(where) *)

(* the genome-wide arrays whose run-length view is read *)
Inductive tkind := TPileup | TMask | TNotMask.   (* get_pileup() / get_mask() / ~get_mask() *)

Inductive op :=
| OCoords                                (* GlobalOffset.from_local_coordinates / to_local_coordinates *)
| OPileup (geo : bool) | OMask (geo : bool)      (* geo: through Geometry(chrom_sizes) instead of Genome.get_intervals *)
| OMerged (geo : bool) (d : Z)
| OClip (geo : bool) | OExtend (geo : bool) (n : Z)
| OSorted (geo : bool)
| OLocation (stranded : bool) (w : Z)    (* 0 start, 1 stop, 2 center *)
| OWindows (l r : Z)                     (* flank f: l = f, r = f+1 ; window_size w: l = w/2, r = w/2 + w mod 2 *)
| OLocSorted
| OExtract (stranded : bool)             (* GenomicArray[GenomicIntervals] *)
| OSeq (stranded : bool)                 (* GenomicSequence[GenomicIntervals] *)
| OProg (stranded : bool) (steps : list pstep) (cons : pcons)    (* interval-producing steps, then a strand-aware use *)
| ORuns (k : tkind)                      (* track.get_data() / GenomicIntervals.from_track(track) / from_bedgraph(get_data()):
                                            the BedGraph / Interval rows (chromosome, start, stop, value) of a genome-wide array *)
| OUnder (neg seq : bool).               (* values at the True positions of a genome-wide mask (neg: of ~mask):
                                            seq: GenomicSequence[mask] ; otherwise GenomicArray[mask] *)

(* ---------- ignored chromosomes (genome_context.py: from_dict, __init__, mask_data) ---------- *)
Definition has_us (n : list Z) : bool := existsb (Z.eqb 95) n.           (* '_' *)
Definition keeps (f : filt) (c : chrom) : bool :=
  match f with KeepAll => true | IgnoreUnderscore => negb (has_us (c_name c)) end.
(* a genome context is a chrom-size dict plus the predicate "this chromosome is included" *)
Definition incl_flags (p : chrom -> bool) (g : list chrom) : list bool := map p g.
(* the string encoding lists the included names first: code = rank among the included *)
Definition code_of (fl : list bool) (k : Z) : Z := len (filter (fun b : bool => b) (firstn (Z.to_nat k) fl)).
Definition incl_idx (fl : list bool) : list Z := flatnonzero fl.
Definition uncode (fl : list bool) (c : Z) : Z := nthZ (incl_idx fl) c.
Definition ctx_sizes (p : chrom -> bool) (g : list chrom) : list Z := map c_size (filter p g).
Definition ctx_us (p : chrom -> bool) (g : list chrom) : list bool := map (fun c => has_us (c_name c)) (filter p g).

(* ---------- GenomeContext as a state: dict + set of ignored names (from_dict, with_ignored_added) ---------- *)
Record gctx := { gx_dict : list chrom; gx_ign : list (list Z) }.
Definition name_in (n : list Z) (l : list (list Z)) : bool := existsb (zlist_eqb n) l.
Definition gx_keep (x : gctx) (c : chrom) : bool := negb (name_in (c_name c) (gx_ign x)).
(* GenomeContext.from_dict(chrom_sizes, filter_function): the names the filter rejects are the ignored set *)
Definition ctx_from_dict (f : filt) (g : list chrom) : gctx :=
  {| gx_dict := g; gx_ign := map c_name (filter (fun c => negb (keeps f c)) g) |}.
(* c.update({name: 0 for name in ignored}): an existing name gets size 0 in place, a new one is appended *)
Fixpoint set_size0 (n : list Z) (d : list chrom) : list chrom :=
  match d with
  | [] => []
  | c :: r => (if zlist_eqb (c_name c) n then {| c_name := c_name c; c_size := 0 |} else c) :: set_size0 n r
  end.
Definition dict_add (d : list chrom) (n : list Z) : list chrom :=
  if name_in n (map c_name d) then set_size0 n d else d ++ [{| c_name := n; c_size := 0 |}].
Definition dict_update (d : list chrom) (names : list (list Z)) : list chrom := fold_left dict_add names d.
(* GenomeContext.with_ignored_added: the new ignored set is the added names together with the old ignored set *)
Definition ctx_with_ignored_added (x : gctx) (added : list (list Z)) : gctx :=
  {| gx_dict := dict_update (gx_dict x) added; gx_ign := added ++ gx_ign x |}.
Definition ctx_steps (f : filt) (g : list chrom) (steps : list (list (list Z))) : gctx :=
  fold_left ctx_with_ignored_added steps (ctx_from_dict f g).
(* mask_data: entries of ignored chromosomes are dropped, the rest re-coded *)
Definition visible (fl : list bool) (es : list entry) : list entry :=
  map (fun e => set_chr e (code_of fl (e_chr e))) (filter (fun e => nthd false fl (e_chr e)) es).

Definition size_of (szs : list Z) (c : Z) : Z := nthZ szs c.
Definition total (szs : list Z) : Z := sumZ szs.
Definition in_range (szs : list Z) (c : Z) : bool := (0 <=? c) && (c <? len szs).

(* ---------- single-contig kernels ---------- *)
(* get_pileup: +1 at every start, -1 at every stop, cumulated *)
Definition cov (ivs : list (Z * Z)) (x : Z) : Z :=
  sumZ (map (fun '(s, t) => (if s <=? x then 1 else 0) - (if t <=? x then 1 else 0)) ivs).
Definition pileup1 (size : Z) (ivs : list (Z * Z)) : list Z := map (cov ivs) (arange size).
Definition covered (ivs : list (Z * Z)) (x : Z) : bool := existsb (fun '(s, t) => (s <=? x) && (x <? t)) ivs.
Definition mask1 (size : Z) (ivs : list (Z * Z)) : list Z := map (fun x => if covered ivs x then 1 else 0) (arange size).
(* merge_intervals: running maximum of the stops over the whole prefix (np.maximum.accumulate), a new
   interval begins where start > running max + distance; the row that begins a run keeps its other columns *)
Fixpoint merge_from (d : Z) (cur : entry) (m : Z) (rest : list entry) : list entry :=
  match rest with
  | [] => [set_se cur (e_start cur) m]
  | e :: r => if e_start e >? m + d
              then set_se cur (e_start cur) m :: merge_from d e (Z.max m (e_stop e)) r
              else merge_from d cur (Z.max m (e_stop e)) r
  end.
Definition merge1 (d : Z) (l : list entry) : list entry :=
  match l with [] => [] | e :: r => merge_from d e (e_stop e) r end.
Fixpoint starts_sorted (l : list entry) : bool :=
  match l with
  | a :: ((b :: _) as r) => (e_start a <=? e_start b) && starts_sorted r
  | _ => true
  end.
Definition clip1 (size : Z) (e : entry) : entry := set_se e (Z.max 0 (e_start e)) (Z.min size (e_stop e)).
(* the single-contig clip since fc449e4 (arithmetics.intervals.clip): both ends are kept inside [0, size], so an
   interval lying entirely outside the contig becomes an empty interval at the nearer end instead of an inverted one *)
Definition clip2 (size : Z) (e : entry) : entry :=
  set_se e (Z.min (Z.max 0 (e_start e)) size) (Z.max (Z.min size (e_stop e)) 0).
Definition extend1 (n size : Z) (e : entry) : entry :=
  if e_fwd e then set_se e (e_start e) (Z.min (e_start e + n) size)
  else set_se e (Z.max (e_stop e - n) 0) (e_stop e).
Definition complement (b : Z) : Z :=
  if b =? 65 then 84 else if b =? 84 then 65 else if b =? 67 then 71 else if b =? 71 then 67 else b.
Definition revcomp (s : list Z) : list Z := rev (map complement s).

(* stable sort by a key (np.lexsort is stable) *)
Definition key3 := (Z * Z * Z)%type.
Definition key_le (a b : key3) : bool :=
  let '(a1, a2, a3) := a in let '(b1, b2, b3) := b in
  (a1 <? b1) || ((a1 =? b1) && ((a2 <? b2) || ((a2 =? b2) && (a3 <=? b3)))).
Fixpoint insert_by {A} (k : A -> key3) (x : A) (l : list A) : list A :=
  match l with
  | [] => [x]
  | y :: r => if key_le (k x) (k y) then x :: y :: r else y :: insert_by k x r
  end.
(* inserting from the right, in front of equal keys, keeps equal keys in their original order *)
Definition sort_by {A} (k : A -> key3) (l : list A) : list A := fold_right (insert_by k) [] l.
Fixpoint sorted_by {A} (k : A -> key3) (l : list A) : bool :=
  match l with
  | a :: ((b :: _) as r) => key_le (k a) (k b) && sorted_by k r
  | _ => true
  end.

Definition triple (e : entry) : Z * Z * Z := (e_chr e, e_start e, e_stop e).
Definition ivs_of (es : list entry) : list (Z * Z) := map (fun e => (e_start e, e_stop e)) es.
Definition on_chr (es : list entry) (c : Z) : list entry := filter (fun e => e_chr e =? c) es.

(* ---------- the run-length reading of an array: its maximal constant runs (start, stop, value) ---------- *)
Fixpoint runs_from (start pos v : Z) (rest : list Z) : list (Z * Z * Z) :=
  match rest with
  | [] => [(start, pos, v)]
  | x :: r => if x =? v then runs_from start (pos + 1) v r else (start, pos, v) :: runs_from pos (pos + 1) x r
  end.
Definition rle (a : list Z) : list (Z * Z * Z) := match a with [] => [] | x :: r => runs_from 0 1 x r end.
(* rows [chromosome; start; stop; value] of one chromosome's array; a boolean array lists its True runs only *)
Definition rows_of (is_bool : bool) (c : Z) (a : list Z) : list (list Z) :=
  map (fun '(s, t, v) => [c; s; t; v]) (filter (fun '(_, _, v) => negb is_bool || (v =? 1)) (rle a)).
Definition track_rows (is_bool : bool) (arrs : list (list Z)) : list (list Z) :=
  concat (map (fun p : Z * list Z => rows_of is_bool (fst p) (snd p)) (combine (arange (len arrs)) arrs)).
Definition flip01 (x : Z) : Z := if x =? 0 then 1 else 0.
Definition tk_bool (k : tkind) : bool := match k with TPileup => false | _ => true end.

(* =================================================================== Part A: Spec *)
(* the BedGraph / Interval view of a genome-wide array: for every chromosome the runs of that chromosome's own
   single-contig result — also for a chromosome without entries (one run of 0) or covered completely *)
Definition spec_track (k : tkind) (szs : list Z) (es : list entry) : list (list Z) :=
  map (fun c => match k with
                | TPileup => pileup1 (size_of szs c) (ivs_of (on_chr es c))
                | TMask => mask1 (size_of szs c) (ivs_of (on_chr es c))
                | TNotMask => map flip01 (mask1 (size_of szs c) (ivs_of (on_chr es c)))
                end) (arange (len szs)).
Definition spec_runs (k : tkind) (szs : list Z) (es : list entry) : list (list Z) :=
  track_rows (tk_bool k) (spec_track k szs es).
(* the values at the True positions of the mask: chromosome by chromosome, that chromosome's own values under its own mask *)
Definition spec_under (neg : bool) (szs : list Z) (vals : list (list Z)) (es : list entry) : list Z :=
  concat (map (fun c => mask_select (map (fun x => x =? 1) (nthd [] (spec_track (if neg then TNotMask else TMask) szs es) c))
                                    (nthd [] vals c)) (arange (len szs))).

(* every chromosome gets the single-contig kernel applied to its own entries, nothing else *)
Definition spec_pileup (szs : list Z) (es : list entry) : list (list Z) :=
  map (fun c => pileup1 (size_of szs c) (ivs_of (on_chr es c))) (arange (len szs)).
Definition spec_mask (szs : list Z) (es : list entry) : list (list Z) :=
  map (fun c => mask1 (size_of szs c) (ivs_of (on_chr es c))) (arange (len szs)).
Definition spec_merged (szs : list Z) (d : Z) (es : list entry) : list entry :=
  concat (map (fun c => merge1 d (on_chr es c)) (arange (len szs))).
Definition spec_clip (szs : list Z) (es : list entry) : list entry :=
  map (fun e => clip2 (size_of szs (e_chr e)) e) es.
Definition spec_extend (szs : list Z) (n : Z) (es : list entry) : list entry :=
  map (fun e => extend1 n (size_of szs (e_chr e)) e) es.
Definition spec_windows (szs : list Z) (l r : Z) (es : list entry) : list entry :=
  map (fun e => clip2 (size_of szs (e_chr e)) (set_se e (e_start e - l) (e_start e + r))) es.
(* the location of an unstranded interval is that of a '+' interval *)
Definition spec_location (stranded : bool) (w : Z) (e : entry) : Z :=
  let fwd := negb stranded || e_fwd e in
  if w =? 0 then (if fwd then e_start e else e_stop e - 1)
  else if w =? 1 then (if fwd then e_stop e - 1 else e_start e)
  else (e_start e + e_stop e) / 2.
(* sorting: the same rows, in genome order then start then stop (a relation on the output) *)
Definition same_rows (a b : list (Z * Z * Z)) : bool :=
  list_eqb (fun x y => key_le x y && key_le y x) (sort_by (fun x => x) a) (sort_by (fun x => x) b).
Definition spec_sorted_ok (by_stop : bool) (input out : list (Z * Z * Z)) : bool :=
  same_rows input out && sorted_by (fun '(c, s, t) => (c, s, if by_stop then t else 0)) out.
(* values / sequence under an interval: that chromosome's own array, sliced; reversed (complemented) on '-' *)
Definition spec_extract (vals : list (list Z)) (stranded : bool) (es : list entry) : list (list Z) :=
  map (fun e => let row := slice (e_start e) (e_stop e) (nthd [] vals (e_chr e)) in
                if stranded && negb (e_fwd e) then rev row else row) es.
Definition spec_seq (vals : list (list Z)) (stranded : bool) (es : list entry) : list (list Z) :=
  map (fun e => let row := slice (e_start e) (e_stop e) (nthd [] vals (e_chr e)) in
                if stranded && negb (e_fwd e) then revcomp row else row) es.
(* coordinates: enumerating (chromosome, position) in genome order enumerates 0,1,2,... *)
Definition enum_positions (szs : list Z) : list (Z * Z) :=
  concat (map (fun c => map (fun p => (c, p)) (arange (size_of szs c))) (arange (len szs))).

(* which inputs an operation that places intervals on the genome must accept / must refuse *)
Definition entry_good (szs : list Z) (e : entry) : bool :=       (* a non-degenerate place on its chromosome *)
  in_range szs (e_chr e) && (0 <=? e_start e) && (e_start e <? size_of szs (e_chr e))
  && (e_start e <=? e_stop e) && (e_stop e <=? size_of szs (e_chr e)).
Definition entry_bad (szs : list Z) (e : entry) : bool :=        (* reaches outside its chromosome *)
  (e_start e <? 0) || (size_of szs (e_chr e) <? e_stop e) || (e_stop e <? e_start e).

(* =================================================================== Part B: Model *)
(* ---------- global_offset.py ---------- *)
Definition offsets (szs : list Z) : list Z := insert0 0 (cumsum szs).
Definition off (szs : list Z) (c : Z) : Z := nthZ (offsets szs) c.
(* np.searchsorted(a, v, side="right") on a sorted array: the number of elements <= v *)
Definition searchsorted_right (a : list Z) (v : Z) : Z := len (filter (fun x => x <=? v) a).
Definition from_local (szs : list Z) (c p : Z) : option Z :=
  if size_of szs c <=? p then None else Some (off szs c + p).
Definition to_local (szs : list Z) (g : Z) : Z * Z :=
  let idx := searchsorted_right (offsets szs) g - 1 in (idx, g - off szs idx).
(* start_ends_from_intervals(do_clip=False) *)
(* [neg]: also refuse negative starts — absent at the pinned commit, proposed in notes/C10.fix-2.diff *)
Definition check_bounds_gen (neg : bool) (szs : list Z) (es : list entry) : option Z :=
  if existsb (fun e => size_of szs (e_chr e) <=? e_start e) es then Some E_BOUNDS
  else if neg && existsb (fun e => e_start e <? 0) es then Some E_BOUNDS
  else if negb (forallb (fun e => e_stop e <=? size_of szs (e_chr e)) es) then Some E_ASSERT
  else None.
Definition checks_negative_start := true.      (* pinned code: false ; with fix-2: true *)
Definition check_bounds := check_bounds_gen checks_negative_start.
Definition globalise (szs : list Z) (es : list entry) : list entry :=
  map (fun e => set_se e (e_start e + off szs (e_chr e)) (e_stop e + off szs (e_chr e))) es.
(* to_local_interval: chromosome from the start; asserts the stop fits *)
Definition to_local_interval (szs : list Z) (gl : list entry) : option (list entry) :=
  let loc := map (fun e => let idx := fst (to_local szs (e_start e)) in
                           set_chr (set_se e (e_start e - off szs idx) (e_stop e - off szs idx)) idx) gl in
  if forallb (fun e => e_stop e <=? size_of szs (e_chr e)) loc then Some loc else None.

(* ---------- GenomicArrayGlobal.to_dict: the global array cut at the offsets ---------- *)
Definition split_chroms (szs : list Z) (arr : list Z) : list (list Z) :=
  map (fun c => slice (off szs c) (off szs c + size_of szs c) arr) (arange (len szs)).

Definition model_pileup (szs : list Z) (es : list entry) : res :=
  match check_bounds szs es with
  | Some c => RErr c
  | None => RArrays (split_chroms szs (pileup1 (total szs) (ivs_of (globalise szs es))))
  end.
Definition model_mask (szs : list Z) (es : list entry) : res :=
  match check_bounds szs es with
  | Some c => RErr c
  | None => RArrays (split_chroms szs (mask1 (total szs) (ivs_of (globalise szs es))))
  end.

(* ---------- GenomicArrayGlobal.get_data: the global run-length track sliced at the offsets, chromosome by chromosome,
   each slice's runs as BedGraph rows (Interval rows of the True runs for a boolean track) ---------- *)
Definition global_track (k : tkind) (szs : list Z) (es : list entry) : list Z :=
  match k with
  | TPileup => pileup1 (total szs) (ivs_of (globalise szs es))
  | TMask => mask1 (total szs) (ivs_of (globalise szs es))
  | TNotMask => map flip01 (mask1 (total szs) (ivs_of (globalise szs es)))     (* ufunc on the global track *)
  end.
Definition model_get_data (is_bool : bool) (szs : list Z) (garr : list Z) : list (list Z) :=
  track_rows is_bool (split_chroms szs garr).
Definition model_runs (k : tkind) (szs : list Z) (es : list entry) : res :=
  match check_bounds szs es with
  | Some c => RErr c
  | None => RRows (model_get_data (tk_bool k) szs (global_track k szs es))
  end.
(* GenomicSequence._index_boolean: extract_intervals(mask.get_data()).ravel() — the rows of get_data, each looked up on
   its chromosome's own sequence;  GenomicArrayGlobal._index_boolean: global_track[mask.global_track] *)
Definition model_under (neg seq : bool) (szs : list Z) (vals : list (list Z)) (es : list entry) : res :=
  match check_bounds szs es with
  | Some c => RErr c
  | None =>
      let gm := global_track (if neg then TNotMask else TMask) szs es in
      if seq then
        RRows [concat (map (fun row => slice (nthZ row 1) (nthZ row 2) (nthd [] vals (nthZ row 0)))
                           (model_get_data true szs gm))]
      else RRows [mask_select (map (fun x => x =? 1) gm) (concat vals)]
  end.

(* ---------- merged ---------- *)
(* groupby on the chromosome column: first == last key -> one group with everything, else runs *)
Fixpoint runs (es : list entry) : list (Z * list entry) :=
  match es with
  | [] => []
  | e :: r => match runs r with
              | (c, g) :: t => if c =? e_chr e then (c, e :: g) :: t else (e_chr e, [e]) :: (c, g) :: t
              | [] => [(e_chr e, [e])]
              end
  end.
Definition groupby_chr (es : list entry) : list (Z * list entry) :=
  match es with
  | [] => []
  | e :: _ => if e_chr (last es e) =? e_chr e then [(e_chr e, es)] else runs es
  end.
(* GenomeContext.iter_chromosomes: walk the chromosome order, hand out the pending group when its
   name comes up and an empty table otherwise; None = GenomeError *)
Fixpoint walk (order seen : list Z) (pend : option (Z * list entry)) (rest : list (Z * list entry))
  : option (list (list entry) * list (Z * list entry)) :=
  match order with
  | [] => Some ([], rest)
  | n :: order' =>
      match pend with
      | Some (c, g) =>
          if c =? n then
            let pend' := hd_error rest in
            if match pend' with Some (c', _) => existsb (Z.eqb c') seen | None => false end then None
            else match walk order' (n :: seen) pend' (tl rest) with
                 | Some (chunks, lft) => Some (g :: chunks, lft)
                 | None => None
                 end
          else match walk order' (n :: seen) pend rest with
               | Some (chunks, lft) => Some ([] :: chunks, lft)
               | None => None
               end
      | None => match walk order' (n :: seen) None rest with
                | Some (chunks, lft) => Some ([] :: chunks, lft)
                | None => None
                end
      end
  end.
(* chromosome_order(): the included names without '_' — whatever the filter was *)
Definition chromosome_order (us : list bool) : list Z := flatnonzero (map negb us).
Definition stream_merged (us : list bool) (d : Z) (es : list entry) : res :=
  match es with
  | [] => RErr E_INDEX                                   (* groupby: keys[-1] of an empty column *)
  | _ =>
      let groups := groupby_chr es in
      match chromosome_order us with [] => RErr E_OTHER | _ =>     (* empty stream: StopIteration in compute() *)
      match walk (chromosome_order us) [] (hd_error groups) (tl groups) with
      | None => RErr E_GENOME
      | Some (chunks, lft) =>
          if negb (forallb starts_sorted chunks) then RErr E_COMP
          else match lft with
               | _ :: _ => RErr E_GENOME                 (* groups left over after the walk *)
               | [] =>
                   let outs := map (merge1 d) chunks in
                   (* compute(): np.concatenate of the chromosome columns fails when empty and
                      non-empty chunks are mixed *)
                   if forallb (fun o : list entry => match o with [] => true | _ => false end) outs then RIvs []
                   else if existsb (fun o : list entry => match o with [] => true | _ => false end) outs then RErr E_ATTR
                   else RIvs (map triple (concat outs))
               end
      end
      end
  end.
(* GenomicIntervalsFull.merged as it is at the pinned commit *)
Definition model_merged_pinned (szs : list Z) (us : list bool) (d : Z) (es : list entry) : res :=
  if d >? 0 then stream_merged us d es
  else if negb (d =? 0) then RErr E_ASSERT
  else match check_bounds szs es with
       | Some c => RErr c
       | None => if starts_sorted (globalise szs es) then RErr E_ATTR   (* self._global_offset *)
                 else RErr E_ASSERT
       end.
(* proposed repair (notes/C10.fix-1.diff): merge in global coordinates with the chromosomes moved
   distance+1 further apart, so nothing is merged across a boundary; rows keep their chromosome *)
Definition gap_shift (szs : list Z) (d c : Z) : Z := off szs c + (d + 1) * c.
Definition model_merged_fixed (szs : list Z) (us : list bool) (d : Z) (es : list entry) : res :=
  if d <? 0 then RErr E_ASSERT
  else match check_bounds szs es with
  | Some c => RErr c
  | None =>
      let sh := map (fun e => set_se e (e_start e + gap_shift szs d (e_chr e)) (e_stop e + gap_shift szs d (e_chr e))) es in
      if starts_sorted sh then
        RIvs (map (fun e => (e_chr e, e_start e - gap_shift szs d (e_chr e), e_stop e - gap_shift szs d (e_chr e)))
                  (merge1 d sh))
      else RErr E_ASSERT
  end.
(* Geometry.merge_intervals at the pinned commit: global merge, then to_local_interval *)
Definition model_geo_merge_pinned (szs : list Z) (d : Z) (es : list entry) : res :=
  match check_bounds szs es with
  | Some c => RErr c
  | None =>
      let gl := globalise szs es in
      if starts_sorted gl then
        match to_local_interval szs (merge1 d gl) with
        | Some loc => RIvs (map triple loc)
        | None => RErr E_ASSERT
        end
      else RErr E_ASSERT
  end.
(* Geometry.sort: np.lexsort((global stop, global start)), back to local *)
Definition model_geo_sort (szs : list Z) (es : list entry) : res :=
  match check_bounds szs es with
  | Some c => RErr c
  | None =>
      match to_local_interval szs (sort_by (fun e => (e_start e, e_stop e, 0)) (globalise szs es)) with
      | Some loc => RIvs (map triple loc)
      | None => RErr E_ASSERT
      end
  end.

(* ---------- per-row operations: the size is looked up through the chromosome code ---------- *)
(* GenomicIntervalsFull.clip.  At HEAD only one side of each end is clamped (an interval lying entirely beyond the
   chromosome end comes out inverted); notes/C10.fix-4.diff clamps both like arithmetics.clip / Geometry.clip.
   Switch for fix-4: replace the two bodies by  Z.min (Z.max 0 s) size  and  Z.max (Z.min size t) 0 . *)
Definition m_clip_start (size s : Z) : Z := Z.min (Z.max 0 s) size.
Definition m_clip_stop (size t : Z) : Z := Z.max (Z.min size t) 0.
Definition model_clip (szs : list Z) (es : list entry) : list entry :=
  map (fun e => set_se e (m_clip_start (size_of szs (e_chr e)) (e_start e)) (m_clip_stop (size_of szs (e_chr e)) (e_stop e))) es.
Definition model_extend (szs : list Z) (n : Z) (es : list entry) : list entry :=
  map (fun e => if e_fwd e then set_se e (e_start e) (Z.min (e_start e + n) (size_of szs (e_chr e)))
                else set_se e (Z.max (e_stop e - n) 0) (e_stop e)) es.
Definition model_windows (szs : list Z) (l r : Z) (es : list entry) : list entry :=
  model_clip szs (map (fun e => set_se e (e_start e - l) (e_start e + r)) es).
(* get_location; the pinned code hands back the interval table itself for unstranded 'start' and 'stop' *)
Definition model_location_pinned (stranded : bool) (w : Z) (e : entry) : Z :=
  if (w =? 0) || (w =? 1) then
    if negb stranded then e_start e
    else if e_fwd e then (if w =? 0 then e_start e else e_stop e - 1)
         else (if w =? 0 then e_stop e - 1 else e_start e)
  else (e_start e + e_stop e) / 2.
(* proposed repair (notes/C10.fix-3.diff) *)
Definition model_location_fixed (stranded : bool) (w : Z) (e : entry) : Z :=
  if (w =? 0) || (w =? 1) then
    if negb stranded then (if w =? 0 then e_start e else e_stop e - 1)
    else if e_fwd e then (if w =? 0 then e_start e else e_stop e - 1)
         else (if w =? 0 then e_stop e - 1 else e_start e)
  else (e_start e + e_stop e) / 2.
Definition model_sorted (es : list entry) : list entry := sort_by triple es.
Definition model_loc_sorted (es : list entry) : list entry := sort_by (fun e => (e_chr e, e_start e, 0)) es.

(* ---------- values under intervals: slices of the concatenated array ---------- *)
Definition model_extract (szs : list Z) (vals : list (list Z)) (stranded : bool) (es : list entry) : res :=
  match check_bounds szs es with
  | Some c => RErr c
  | None =>
      let garr := concat vals in
      RRows (map (fun e => let row := slice (e_start e + off szs (e_chr e)) (e_stop e + off szs (e_chr e)) garr in
                           if stranded && negb (e_fwd e) then rev row else row) es)
  end.
(* sequence under intervals: per-chromosome lookup (dict / indexed FASTA), reverse complement on '-'.
   [model_seq_pinned] — HISTORY, the code before the repair notes/C14.fix-2.final.diff: the strand selection handed
   npstructures' np.where a column mask `(strand == '+')[:, np.newaxis]`, which is broadcast over the rows only when
   mask.size < data.size: with at least as many rows as bases (e.g. every interval of length 1) the call failed.
   [model_seq] — the code in force: GenomicSequence.extract_intervals builds the ragged mask itself
   (sequence.dna.broadcast_row_mask), so the row-wise choice happens for every shape (the mask expression is regenerated
   and tied in Bridge/C14.v: gen_genomic_mask, b_stranded_genomic_full). *)
Definition model_seq_pinned (vals : list (list Z)) (stranded : bool) (es : list entry) : res :=
  let rows := map (fun e => slice (e_start e) (e_stop e) (nthd [] vals (e_chr e))) es in
  if stranded && (len (concat rows) <=? len rows) then RErr E_ATTR
  else RRows (map (fun e => let row := slice (e_start e) (e_stop e) (nthd [] vals (e_chr e)) in
                            if stranded && negb (e_fwd e) then revcomp row else row) es).
Definition model_seq (vals : list (list Z)) (stranded : bool) (es : list entry) : res :=
  let rows := map (fun e => slice (e_start e) (e_stop e) (nthd [] vals (e_chr e))) es in
  let rc := map revcomp rows in
  RRows (map (fun p : bool * (list Z * list Z) => if fst p then fst (snd p) else snd (snd p))
             (combine (map (fun e => negb stranded || e_fwd e) es) (combine rows rc))).

(* ---------- coordinates ---------- *)
Definition model_coords (szs : list Z) : res :=
  RCoords (map (fun '(c, p) => match from_local szs c p with Some g => g | None => -1 end) (enum_positions szs))
          (map (to_local szs) (arange (total szs)))
          (map (fun c => match from_local szs c (size_of szs c) with None => true | Some _ => false end)
               (arange (len szs))).

(* ---------- the arithmetic kernels by name ----------
   Bridge/C10.v proves (a) that the definitions regenerated from the source (Gen/C10.v) equal these, and (b) that
   the model functions above are these helpers put together (link lemmas, by computation). *)
Definition m_from_local_reject (size p : Z) : bool := size <=? p.
Definition m_from_local_value (o p : Z) : Z := o + p.
Definition m_to_local_idx (ss : Z) : Z := ss - 1.          (* ss = searchsorted(offsets, g, side="right") *)
Definition m_to_local_pos (o g : Z) : Z := g - o.
(* refusal code of one entry in start_ends_from_intervals: 5 Exception, 1 failed assert, 0 accepted *)
Definition m_entry_check (neg : bool) (size s t : Z) : Z :=
  if size <=? s then E_BOUNDS else if neg && (s <? 0) then E_BOUNDS else if negb (t <=? size) then E_ASSERT else 0.
Definition m_global (o x : Z) : Z := x + o.
Definition m_stop_fits (size t : Z) : bool := t <=? size.
Definition m_geo_clip_start (size s : Z) : Z := Z.min (Z.max 0 s) size.
Definition m_geo_clip_stop (size t : Z) : Z := Z.max (Z.min size t) 0.
Definition m_extend_start (fwd : bool) (s t n : Z) : Z := if fwd then s else Z.max (t - n) 0.
Definition m_extend_stop (fwd : bool) (s t n size : Z) : Z := if fwd then Z.min (s + n) size else t.
Definition m_flank_l (f : Z) : Z := f.
Definition m_flank_r (f : Z) : Z := f + 1.
Definition m_wsize_l (w : Z) : Z := w / 2.
Definition m_wsize_r (w : Z) : Z := w / 2 + w mod 2.
Definition m_win_start (p l : Z) : Z := p - l.
Definition m_win_stop (p r : Z) : Z := p + r.
Definition m_loc_unstranded (is_start : bool) (s t : Z) : Z := if is_start then s else t - 1.
Definition m_loc_stranded (is_start fwd : bool) (s t : Z) : Z :=
  if fwd then (if is_start then s else t - 1) else (if is_start then t - 1 else s).
Definition m_loc_center (s t : Z) : Z := (s + t) / 2.
Definition m_shift (o c d : Z) : Z := o + (d + 1) * c.     (* = gap_shift *)
(* Geometry.clip (and arithmetics.clip) clamp both ends into [0, size] *)
Definition model_geo_clip (szs : list Z) (es : list entry) : list entry :=
  map (fun e => set_se e (m_geo_clip_start (size_of szs (e_chr e)) (e_start e))
                         (m_geo_clip_stop (size_of szs (e_chr e)) (e_stop e))) es.

(* ---------- programs: the object handed from method to method is (is_stranded flag, table) ---------- *)
(* the rows merged() returns, strand column included (each merged row is the first row of its run) *)
Definition merged_entries (szs : list Z) (d : Z) (es : list entry) : Z + list entry :=
  if d <? 0 then inl E_ASSERT
  else match check_bounds szs es with
  | Some c => inl c
  | None =>
      let sh := map (fun e => set_se e (e_start e + gap_shift szs d (e_chr e)) (e_stop e + gap_shift szs d (e_chr e))) es in
      if starts_sorted sh then
        inr (map (fun e => set_se e (e_start e - gap_shift szs d (e_chr e)) (e_stop e - gap_shift szs d (e_chr e)))
                 (merge1 d sh))
      else inl E_ASSERT
  end.
(* GenomicIntervalsFull.extended_to_size rebuilds its result with from_intervals(.., genome_context) and does not hand
   the strandedness flag on (HEAD: false).  notes/C10.fix-6.diff passes it on (then: true). *)
Definition extend_keeps_strand := true.
Definition pstate := (bool * list entry)%type.
Definition model_step_gen (keep : bool) (szs : list Z) (st : pstate) (p : pstep) : Z + pstate :=
  let '(fl, rows) := st in
  match p with
  | PSorted => inr (fl, model_sorted rows)
  | PMerged d => match merged_entries szs d rows with inl c => inl c | inr l => inr (fl, l) end
  | PClip => inr (fl, model_clip szs rows)
  | PExtend n => inr (fl && keep, model_extend szs n rows)
  | PRev => inr (fl, rev rows)
  | PMask m => if len m =? len rows then inr (fl, mask_select m rows) else inl E_INDEX
  | PLocWin w l r =>
      inr (fl, model_clip szs (map (fun e => set_se e (model_location_fixed fl w e - l) (model_location_fixed fl w e + r)) rows))
  end.
Definition model_step := model_step_gen extend_keeps_strand.
Fixpoint model_steps (szs : list Z) (st : pstate) (ps : list pstep) : Z + pstate :=
  match ps with
  | [] => inr st
  | p :: r => match model_step szs st p with inl c => inl c | inr st' => model_steps szs st' r end
  end.
Definition model_cons (szs : list Z) (vals : list (list Z)) (st : pstate) (k : pcons) : res :=
  let '(fl, rows) := st in
  match k with
  | CExtract => model_extract szs vals fl rows
  | CSeq => model_seq vals fl rows
  | CLocation w => RPos (map (fun e => (e_chr e, model_location_fixed fl w e)) rows)
  end.
Definition model_prog (szs : list Z) (vals : list (list Z)) (stranded : bool) (es : list entry) (ps : list pstep) (k : pcons) : res :=
  match model_steps szs (stranded, es) ps with
  | inl c => RErr c
  | inr st => model_cons szs vals st k
  end.

(* Spec of a program: every step is the single-contig operation per chromosome on the rows, and the table stays as
   stranded as it was created.  None = a step's precondition does not hold (nothing is required then). *)
Definition spec_step (szs : list Z) (stranded : bool) (rows : list entry) (p : pstep) : option (list entry) :=
  match p with
  | PSorted => Some (sort_by triple rows)
  | PMerged d => if sorted_by (fun e => (e_chr e, e_start e, 0)) rows && forallb (entry_good szs) rows && (0 <=? d)
                 then Some (spec_merged szs d rows) else None
  | PClip => Some (spec_clip szs rows)
  | PExtend n => Some (spec_extend szs n rows)
  | PRev => Some (rev rows)
  | PMask m => if len m =? len rows then Some (mask_select m rows) else None
  | PLocWin w l r =>
      if (0 <=? w) && (w <=? 2)
      then Some (map (fun e => clip2 (size_of szs (e_chr e)) (set_se e (spec_location stranded w e - l) (spec_location stranded w e + r))) rows)
      else None
  end.
Fixpoint spec_steps (szs : list Z) (stranded : bool) (rows : list entry) (ps : list pstep) : option (list entry) :=
  match ps with
  | [] => Some rows
  | p :: r => match spec_step szs stranded rows p with None => None | Some rows' => spec_steps szs stranded rows' r end
  end.
Definition spec_cons (szs : list Z) (vals : list (list Z)) (stranded : bool) (rows : list entry) (k : pcons) : option res :=
  match k with
  | CExtract => if forallb (entry_good szs) rows then Some (RRows (spec_extract vals stranded rows)) else None
  | CSeq => if forallb (entry_good szs) rows then Some (RRows (spec_seq vals stranded rows)) else None
  | CLocation w => if (0 <=? w) && (w <=? 2) then Some (RPos (map (fun e => (e_chr e, spec_location stranded w e)) rows)) else None
  end.
Definition spec_prog (szs : list Z) (vals : list (list Z)) (stranded : bool) (es : list entry) (ps : list pstep) (k : pcons) : option res :=
  match spec_steps szs stranded es ps with
  | None => None
  | Some rows => spec_cons szs vals stranded rows k
  end.

(* The variants the checks run against.  When a repair is committed to /repo, switch the line:
     fix-1 (GenomicIntervalsFull.merged)   : model_merged    := model_merged_fixed
     fix-1 (Geometry.merge_intervals)      : model_geo_merge := fun szs d es => model_merged_fixed szs [] d es
     fix-2 (negative starts refused)       : checks_negative_start := true   (above)
     fix-3 (get_location 'stop')           : model_location  := model_location_fixed *)
Definition model_merged := model_merged_fixed.
Definition model_geo_merge := fun szs d es => model_merged_fixed szs [] d es.
Definition model_location := model_location_fixed.

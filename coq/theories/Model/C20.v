(* Model/C20.v — operations do not modify their inputs.

   (a) Spec: what "unchanged" means for a call — every buffer that existed before the call has the
       same bytes afterwards, and every argument object has the same logical content.
   (b) Model: a store of buffers ("blocks") and registers (Python objects) with NumPy / npstructures
       aliasing semantics, and straight-line *effect programs* over it:
         IAlloc        a new array (np.zeros, arithmetic, comparison, .copy(), astype, ...)
         IView cow ..  a new object on the buffers of existing ones.  cow = false: a NumPy view (basic slice,
                       reshape, raw(), attribute, wrapping constructor) — writes go through.  cow = true: what
                       boolean / integer-array indexing gives: for a NumPy array a copy, for an npstructures ragged
                       array a view-shaped object that copies itself before the first write through it
                       (RaggedBase._flatten_myself, called by __setitem__ and ravel()).  `really = false` is the
                       run-time case in which the operation copied (np fancy index, non-contiguous reshape).
         IPick         one of several objects (if/else, try/except, several returns)
         IFlatten      ragged.ravel(): a view-shaped ragged array rebinds itself to a contiguous copy
         IWrite        x[...] = v, x += v, out=x, x.sort(), replace_inplace(x, ..)
       plus the static checker `safe_prog` that the harness runs on the program extracted from the
       current source of every in-place-writing site (harness/props/c20.py, class Extractor).
   Executable definitions only; proofs are in Proofs/C20.v. *)
From Coq Require Import ZArith List Bool Arith.
From BNP Require Import Base.Prims.
Import ListNotations.
Open Scope nat_scope.

(* ---------------------------------------------------------------- store *)
Definition block := list Z.
Record reg := { r_blocks : list nat; r_cow : bool }.
Record state := { s_blocks : list block; s_regs : list reg }.
Definition empty_reg : reg := {| r_blocks := []; r_cow := false |}.
Definition get_reg (s : state) (r : nat) : reg := nth r (s_regs s) empty_reg.
Definition blk (s : state) (b : nat) : block := nth b (s_blocks s) [].
(* logical content of an object: the bytes of the buffers it is made of *)
Definition content (s : state) (rg : reg) : list block := map (blk s) (r_blocks rg).

Fixpoint set_nth {A} (n : nat) (x : A) (l : list A) : list A :=
  match l, n with
  | [], _ => []
  | _ :: t, O => x :: t
  | h :: t, S k => h :: set_nth k x t
  end.

Inductive instr :=
| IAlloc (d : block)
| IView (cow really : bool) (rs : list nat)
| IPick (k : nat) (rs : list nat)
| IFlatten (r : nat)
| IWrite (r k : nat) (d : block).

(* a view-shaped (copy-on-write) object rebinds itself to fresh copies of its buffers *)
Definition flatten (s : state) (r : nat) : state :=
  let rg := get_reg s r in
  if r_cow rg then
    {| s_blocks := s_blocks s ++ content s rg;
       s_regs := set_nth r {| r_blocks := seq (length (s_blocks s)) (length (r_blocks rg)); r_cow := false |}
                         (s_regs s) |}
  else s.

Definition step (s : state) (i : instr) : state :=
  match i with
  | IAlloc d =>
      {| s_blocks := s_blocks s ++ [d];
         s_regs := s_regs s ++ [{| r_blocks := [length (s_blocks s)]; r_cow := false |}] |}
  | IView cow really rs =>
      let bs := flat_map (fun r => r_blocks (get_reg s r)) rs in
      if really then
        {| s_blocks := s_blocks s; s_regs := s_regs s ++ [{| r_blocks := bs; r_cow := cow |}] |}
      else
        {| s_blocks := s_blocks s ++ map (blk s) bs;
           s_regs := s_regs s ++ [{| r_blocks := seq (length (s_blocks s)) (length bs); r_cow := false |}] |}
  | IPick k rs =>
      {| s_blocks := s_blocks s; s_regs := s_regs s ++ [get_reg s (nth k rs (length (s_regs s)))] |}
  | IFlatten r => flatten s r
  | IWrite r k d =>
      let s1 := flatten s r in
      match nth_error (r_blocks (get_reg s1 r)) k with
      | Some b => {| s_blocks := set_nth b d (s_blocks s1); s_regs := s_regs s1 |}
      | None => s1
      end
  end.
Definition run (p : list instr) (s : state) : state := fold_left step p s.

(* ---------------------------------------------------------------- spec *)
(* a call state: np argument objects (registers 0..np-1) over a store of existing buffers *)
Definition wf_init (np : nat) (s : state) : Prop :=
  length (s_regs s) = np /\
  forall r b, In b (r_blocks (get_reg s r)) -> b < length (s_blocks s).
(* "the call did not modify its inputs" *)
Definition unchanged (np : nat) (s s' : state) : Prop :=
  (forall b, b < length (s_blocks s) -> blk s' b = blk s b) /\
  (forall i, i < np -> content s' (get_reg s' i) = content s (get_reg s i)).
(* decidable form used per case *)
Definition blocks_eqb (a b : list block) : bool := zll_eqb a b.
Definition unchanged_b (np : nat) (s s' : state) : bool :=
  blocks_eqb (firstn (length (s_blocks s)) (s_blocks s')) (s_blocks s)
  && forallb (fun i => blocks_eqb (content s' (get_reg s' i)) (content s (get_reg s i))) (seq 0 np).

(* ---------------------------------------------------------------- checker *)
(* per register:  a_wt  a write through it may change an input;
                  a_bt  it may share a buffer with an input;
                  a_fl  after flattening it, it shares no buffer with an input
                        (it is copy-on-write, or it shares none already) *)
Record areg := { a_wt : bool; a_bt : bool; a_fl : bool }.
Definition a_param : areg := {| a_wt := true; a_bt := true; a_fl := false |}.
Definition a_fresh : areg := {| a_wt := false; a_bt := false; a_fl := true |}.
Definition aget (a : list areg) (r : nat) : areg := nth r a a_param.
Definition in_range (a : list areg) (rs : list nat) : bool := forallb (fun r => r <? length a) rs.
Definition a_flat (a : list areg) (r : nat) : list areg :=
  if a_fl (aget a r) then set_nth r {| a_wt := a_wt (aget a r); a_bt := false; a_fl := true |} a else a.

Definition astep (a : list areg) (i : instr) : option (list areg) :=
  match i with
  | IAlloc _ => Some (a ++ [a_fresh])
  | IView cow _ rs =>
      if in_range a rs then
        let b := existsb (fun r => a_bt (aget a r)) rs in
        let w := existsb (fun r => a_wt (aget a r)) rs in
        Some (a ++ [if cow then {| a_wt := false; a_bt := b; a_fl := true |}
                    else {| a_wt := w || b; a_bt := b; a_fl := negb b |}])
      else None
  | IPick _ rs =>
      match rs with
      | [] => None
      | _ => if in_range a rs then
               Some (a ++ [{| a_wt := existsb (fun r => a_wt (aget a r)) rs;
                              a_bt := existsb (fun r => a_bt (aget a r)) rs;
                              a_fl := forallb (fun r => a_fl (aget a r)) rs |}])
             else None
      end
  | IFlatten r => if r <? length a then Some (a_flat a r) else None
  | IWrite r _ _ => if (r <? length a) && negb (a_wt (aget a r)) then Some (a_flat a r) else None
  end.
Fixpoint acheck (a : list areg) (p : list instr) : bool :=
  match p with
  | [] => true
  | i :: q => match astep a i with Some a' => acheck a' q | None => false end
  end.
Definition safe_prog (np : nat) (p : list instr) : bool := acheck (repeat a_param np) p.

(* the checker looks at the shape of a program only, not at run-time data *)
Definition shape_i (i : instr) : instr :=
  match i with
  | IAlloc _ => IAlloc []
  | IView c _ rs => IView c true rs
  | IPick _ rs => IPick 0 rs
  | IFlatten r => IFlatten r
  | IWrite r _ _ => IWrite r 0 []
  end.
Definition shape (p : list instr) : list instr := map shape_i p.

(* ---------------------------------------------------------------- sites *)
(* HISTORY ONLY.  Effect programs of the in-place-writing sites as harness/props/c20.py (extract_site) extracted
   them from an earlier /repo commit.  They are NOT compared with the current source any more: the programs of the
   current source are regenerated on every run into Gen/C20.v (translate/gen_c20.py), proved safe in
   Bridge/C20.v and compared with the harness's own extraction in Corr/C20.v. *)
(*SITES-BEGIN*)
(* site 1: str_to_int — bionumpy.io.strops:str_to_int *)
Definition site_1 : list instr :=
  [IAlloc []; IWrite 1%nat 0%nat []; IWrite 1%nat 0%nat []; IFlatten 1%nat; IAlloc []; IWrite 2%nat 0%nat []; IAlloc []; IWrite 3%nat 0%nat []; IWrite 2%nat 0%nat []; IWrite 2%nat 0%nat []; IWrite 2%nat 0%nat []].
(* site 2: str_to_float — bionumpy.io.strops:str_to_float *)
Definition site_2 : list instr :=
  [IAlloc []; IView true true [0%nat]; IFlatten 2%nat; IAlloc []; IWrite 3%nat 0%nat []; IWrite 3%nat 0%nat []; IAlloc []; IWrite 4%nat 0%nat []; IAlloc []; IWrite 5%nat 0%nat []; IWrite 4%nat 0%nat []; IWrite 4%nat 0%nat []; IWrite 4%nat 0%nat []; IAlloc []; IWrite 6%nat 0%nat []; IFlatten 2%nat; IAlloc []; IFlatten 7%nat; IWrite 7%nat 0%nat []; IWrite 7%nat 0%nat []; IFlatten 7%nat; IAlloc []; IWrite 8%nat 0%nat []; IAlloc []; IWrite 9%nat 0%nat []; IWrite 8%nat 0%nat []; IWrite 8%nat 0%nat []; IWrite 8%nat 0%nat []; IWrite 1%nat 0%nat []; IView true true [0%nat]; IWrite 10%nat 0%nat []; IWrite 10%nat 0%nat []; IAlloc []; IWrite 11%nat 0%nat []; IAlloc []; IWrite 12%nat 0%nat []; IWrite 11%nat 0%nat []; IWrite 11%nat 0%nat []; IWrite 11%nat 0%nat []; IAlloc []; IWrite 13%nat 0%nat []; IWrite 1%nat 0%nat []].
(* site 3: str_to_int_with_missing — bionumpy.io.strops:str_to_int_with_missing *)
Definition site_3 : list instr :=
  [IAlloc []; IView true true [0%nat]; IFlatten 2%nat; IWrite 1%nat 0%nat []; IAlloc []; IAlloc []; IFlatten 4%nat; IWrite 4%nat 0%nat []; IWrite 4%nat 0%nat []; IFlatten 4%nat; IAlloc []; IWrite 5%nat 0%nat []; IAlloc []; IWrite 6%nat 0%nat []; IWrite 5%nat 0%nat []; IWrite 5%nat 0%nat []; IWrite 5%nat 0%nat []; IWrite 3%nat 0%nat []].
(* site 4: str_to_float_with_missing — bionumpy.io.strops:str_to_float_with_missing *)
Definition site_4 : list instr :=
  [IAlloc []; IView true true [0%nat]; IFlatten 2%nat; IWrite 1%nat 0%nat []; IAlloc []; IView true true [0%nat]; IAlloc []; IView true true [4%nat]; IFlatten 6%nat; IAlloc []; IWrite 7%nat 0%nat []; IWrite 7%nat 0%nat []; IAlloc []; IWrite 8%nat 0%nat []; IAlloc []; IWrite 9%nat 0%nat []; IWrite 8%nat 0%nat []; IWrite 8%nat 0%nat []; IWrite 8%nat 0%nat []; IAlloc []; IWrite 10%nat 0%nat []; IFlatten 6%nat; IAlloc []; IFlatten 11%nat; IWrite 11%nat 0%nat []; IWrite 11%nat 0%nat []; IFlatten 11%nat; IAlloc []; IWrite 12%nat 0%nat []; IAlloc []; IWrite 13%nat 0%nat []; IWrite 12%nat 0%nat []; IWrite 12%nat 0%nat []; IWrite 12%nat 0%nat []; IWrite 5%nat 0%nat []; IView true true [4%nat]; IWrite 14%nat 0%nat []; IWrite 14%nat 0%nat []; IAlloc []; IWrite 15%nat 0%nat []; IAlloc []; IWrite 16%nat 0%nat []; IWrite 15%nat 0%nat []; IWrite 15%nat 0%nat []; IWrite 15%nat 0%nat []; IAlloc []; IWrite 17%nat 0%nat []; IWrite 5%nat 0%nat []; IWrite 3%nat 0%nat []].
(* site 5: ints_to_strings — bionumpy.io.strops:ints_to_strings *)
Definition site_5 : list instr :=
  [IAlloc []; IWrite 1%nat 0%nat []; IAlloc []; IWrite 2%nat 0%nat []; IWrite 1%nat 0%nat []; IWrite 1%nat 0%nat []; IWrite 1%nat 0%nat []; IAlloc []; IFlatten 3%nat; IView false true [3%nat]; IView false true [4%nat]; IView false true [3%nat]; IView false true [5%nat; 6%nat]; IFlatten 7%nat; IAlloc []; IView false true [8%nat]; IView false true [8%nat]; IView false true [7%nat]; IView false true [10%nat; 11%nat]; IPick 0%nat [9%nat; 12%nat]; IWrite 13%nat 0%nat []].
(* site 6: int_lists_to_strings — bionumpy.io.strops:int_lists_to_strings *)
Definition site_6 : list instr :=
  [IFlatten 0%nat; IAlloc []; IWrite 1%nat 0%nat []; IAlloc []; IWrite 2%nat 0%nat []; IWrite 1%nat 0%nat []; IWrite 1%nat 0%nat []; IWrite 1%nat 0%nat []; IAlloc []; IFlatten 3%nat; IView false true [3%nat]; IView false true [4%nat]; IView false true [3%nat]; IView false true [5%nat; 6%nat]; IFlatten 7%nat; IAlloc []; IView false true [8%nat]; IView false true [8%nat]; IView false true [7%nat]; IView false true [10%nat; 11%nat]; IPick 0%nat [9%nat; 12%nat]; IWrite 13%nat 0%nat []; IAlloc []; IAlloc []; IAlloc []; IView false true [15%nat; 16%nat]; IView false true [14%nat; 17%nat]; IWrite 18%nat 0%nat []; IWrite 18%nat 0%nat []; IFlatten 18%nat].
(* site 7: join — bionumpy.io.strops:join *)
Definition site_7 : list instr :=
  [IAlloc []; IAlloc []; IAlloc []; IView false true [2%nat; 3%nat]; IView false true [1%nat; 4%nat]; IWrite 5%nat 0%nat []; IWrite 5%nat 0%nat []; IFlatten 5%nat].
(* site 8: split — bionumpy.io.strops:split *)
Definition site_8 : list instr :=
  [IAlloc []; IWrite 1%nat 0%nat []; IWrite 1%nat 0%nat []; IAlloc []; IPick 0%nat [1%nat; 2%nat]; IWrite 3%nat 0%nat []; IAlloc []; IWrite 4%nat 0%nat []].
(* site 9: str_equal — bionumpy.io.strops:str_equal *)
Definition site_9 : list instr :=
  [IAlloc []; IWrite 2%nat 0%nat []; IAlloc []; IFlatten 0%nat; IFlatten 0%nat; IWrite 3%nat 0%nat []].
(* site 10: merge_intervals — bionumpy.arithmetics.intervals:merge_intervals *)
Definition site_10 : list instr :=
  [IAlloc []; IWrite 1%nat 0%nat []; IView true true [0%nat]; IView true true [2%nat]; IWrite 3%nat 0%nat []].
(* site 11: count_overlap — bionumpy.arithmetics.intervals:count_overlap *)
Definition site_11 : list instr :=
  [IAlloc []; IAlloc []; IWrite 2%nat 0%nat []; IWrite 3%nat 0%nat []].
(* site 12: chunk_list_column — bionumpy.io.file_buffers:TextBufferExtractor.get_field_by_number; bionumpy.io.delimited_buffers:DelimitedBuffer._parse_split_fields *)
Definition site_12 : list instr :=
  [IView false true [0%nat]; IFlatten 1%nat; IView false true [0%nat]; IFlatten 2%nat; IView false true [0%nat]; IAlloc []; IView true true [3%nat; 4%nat]; IWrite 5%nat 0%nat []; IAlloc []; IWrite 6%nat 0%nat []; IPick 0%nat [5%nat; 6%nat]; IFlatten 7%nat; IAlloc []; IWrite 8%nat 0%nat []; IWrite 8%nat 0%nat []; IAlloc []; IPick 0%nat [8%nat; 9%nat]; IWrite 10%nat 0%nat []; IAlloc []; IWrite 11%nat 0%nat []; IAlloc []; IFlatten 12%nat; IWrite 12%nat 0%nat []; IWrite 12%nat 0%nat []; IFlatten 12%nat; IAlloc []; IWrite 13%nat 0%nat []; IAlloc []; IWrite 14%nat 0%nat []; IWrite 13%nat 0%nat []; IWrite 13%nat 0%nat []; IWrite 13%nat 0%nat []; IAlloc []; IFlatten 15%nat; IWrite 15%nat 0%nat []; IWrite 15%nat 0%nat []; IFlatten 15%nat; IAlloc []; IWrite 16%nat 0%nat []; IAlloc []; IWrite 17%nat 0%nat []; IWrite 16%nat 0%nat []; IWrite 16%nat 0%nat []; IWrite 16%nat 0%nat []].
(* site 13: chunk_genotype_columns — bionumpy.io.file_buffers:TextThroughputExtractor.get_fields_by_range; bionumpy.encodings.vcf_encoding:_GenotypeRowEncoding.encode *)
Definition site_13 : list instr :=
  [IAlloc []; IWrite 1%nat 0%nat []; IView false true [0%nat]; IAlloc []; IView true true [2%nat; 3%nat]; IAlloc []; IView false true [5%nat]; IPick 0%nat [4%nat; 6%nat]; IFlatten 7%nat; IView false true [7%nat]; IWrite 8%nat 0%nat []].
(* site 14: genotype_encode — bionumpy.encodings.vcf_encoding:_GenotypeRowEncoding.encode *)
Definition site_14 : list instr :=
  [IAlloc []; IView false true [1%nat]; IPick 0%nat [0%nat; 2%nat]; IFlatten 3%nat; IView false true [3%nat]; IWrite 4%nat 0%nat []].
(* site 15: chunk_int_column — bionumpy.io.file_buffers:TextBufferExtractor.get_digit_array; bionumpy.io.strops:str_to_int *)
Definition site_15 : list instr :=
  [IView false true [0%nat]; IFlatten 1%nat; IView false true [0%nat]; IFlatten 2%nat; IView false true [0%nat]; IAlloc []; IFlatten 4%nat; IView true true [3%nat]; IWrite 5%nat 0%nat []; IAlloc []; IWrite 6%nat 0%nat []; IWrite 6%nat 0%nat []; IFlatten 6%nat; IAlloc []; IWrite 7%nat 0%nat []; IAlloc []; IWrite 8%nat 0%nat []; IWrite 7%nat 0%nat []; IWrite 7%nat 0%nat []; IWrite 7%nat 0%nat []].
(* site 16: chunk_padded_field — bionumpy.io.file_buffers:TextBufferExtractor.get_padded_field *)
Definition site_16 : list instr :=
  [IView false true [0%nat]; IView false true [1%nat]; IAlloc []; IView false true [0%nat]; IFlatten 2%nat; IFlatten 3%nat; IView true true [4%nat]; IView true true [5%nat]; IFlatten 6%nat; IView false true [6%nat]; IPick 0%nat [5%nat; 7%nat]; IAlloc []; IWrite 9%nat 0%nat []; IWrite 9%nat 0%nat []; IWrite 9%nat 0%nat []; IFlatten 8%nat; IView false true [8%nat]; IWrite 10%nat 0%nat []].
(* site 17: lazy_replace — bionumpy.bnpdataclass.lazybnpdataclass:create_lazy_class *)
Definition site_17 : list instr :=
  [IAlloc []; IAlloc []; IView true true [1%nat; 2%nat]; IWrite 3%nat 0%nat []].
(* site 18: carriage_return_ends — bionumpy.io.delimited_buffers:DelimitedBuffer._modify_for_carriage_return *)
Definition site_18 : list instr :=
  [IAlloc []; IWrite 2%nat 0%nat []].
(* site 19: translate_windowed — bionumpy.sequence.translate:Translate.windowed *)
Definition site_19 : list instr :=
  [IFlatten 0%nat].
(* site 20: change_encoding — bionumpy.encoded_array:change_encoding *)
Definition site_20 : list instr :=
  [IFlatten 0%nat].
(* site 21: chunk_float_column — bionumpy.io.file_buffers:TextBufferExtractor.get_field_by_number; bionumpy.io.strops:str_to_float *)
Definition site_21 : list instr :=
  [IView false true [0%nat]; IFlatten 1%nat; IView false true [0%nat]; IFlatten 2%nat; IView false true [0%nat]; IAlloc []; IView true true [3%nat; 4%nat]; IAlloc []; IView true true [5%nat]; IFlatten 7%nat; IAlloc []; IWrite 8%nat 0%nat []; IWrite 8%nat 0%nat []; IAlloc []; IWrite 9%nat 0%nat []; IAlloc []; IWrite 10%nat 0%nat []; IWrite 9%nat 0%nat []; IWrite 9%nat 0%nat []; IWrite 9%nat 0%nat []; IAlloc []; IWrite 11%nat 0%nat []; IFlatten 7%nat; IAlloc []; IFlatten 12%nat; IWrite 12%nat 0%nat []; IWrite 12%nat 0%nat []; IFlatten 12%nat; IAlloc []; IWrite 13%nat 0%nat []; IAlloc []; IWrite 14%nat 0%nat []; IWrite 13%nat 0%nat []; IWrite 13%nat 0%nat []; IWrite 13%nat 0%nat []; IWrite 6%nat 0%nat []; IView true true [5%nat]; IWrite 15%nat 0%nat []; IWrite 15%nat 0%nat []; IAlloc []; IWrite 16%nat 0%nat []; IAlloc []; IWrite 17%nat 0%nat []; IWrite 16%nat 0%nat []; IWrite 16%nat 0%nat []; IWrite 16%nat 0%nat []; IAlloc []; IWrite 18%nat 0%nat []; IWrite 6%nat 0%nat []].
Definition site_table : list (Z * (nat * list instr)) :=
  [(1%Z, (1%nat, site_1));
   (2%Z, (1%nat, site_2));
   (3%Z, (1%nat, site_3));
   (4%Z, (1%nat, site_4));
   (5%Z, (1%nat, site_5));
   (6%Z, (1%nat, site_6));
   (7%Z, (1%nat, site_7));
   (8%Z, (1%nat, site_8));
   (9%Z, (2%nat, site_9));
   (10%Z, (1%nat, site_10));
   (11%Z, (2%nat, site_11));
   (12%Z, (1%nat, site_12));
   (13%Z, (1%nat, site_13));
   (14%Z, (1%nat, site_14));
   (15%Z, (1%nat, site_15));
   (16%Z, (1%nat, site_16));
   (17%Z, (1%nat, site_17));
   (18%Z, (2%nat, site_18));
   (19%Z, (1%nat, site_19));
   (20%Z, (1%nat, site_20));
   (21%Z, (1%nat, site_21))].
(*SITES-END*)

Definition lookup_site (sid : Z) : option (nat * list instr) :=
  match find (fun p => Z.eqb (fst p) sid) site_table with Some p => Some (snd p) | None => None end.

(* THE SWITCH.  false: the model is the code as it is at /repo HEAD (site 14 writes its argument).
   true: the model of the tree after notes/C20.fix-1.diff.  Nothing else has to change. *)
Definition fix1_applied : bool := true.

(* site 14 is the one site that is NOT safe at HEAD: _GenotypeRowEncoding.encode replaces "\n" by "\t" in
   place on genotype_rows.ravel(), which is the argument's own buffer when the argument is contiguous and
   the argument's new private buffer otherwise (finding C20-genotype-encode-writes-argument).
   `site_14` is the program of the code as it is; `site_14_fixed` is the program after notes/C20.fix-1.diff. *)
Definition site_14_fixed : list instr :=
  [IAlloc []; IView false true [1]; IPick 0 [0; 2]; IFlatten 3].
(* site 13 (VCF genotype matrix buffer: get_data) inlines the same encode; its program after the fix *)
Definition site_13_fixed : list instr :=
  [IAlloc []; IWrite 1%nat 0%nat []; IView false true [0%nat]; IAlloc []; IView true true [2%nat; 3%nat]; IAlloc []; IView false true [5%nat]; IPick 0%nat [4%nat; 6%nat]; IFlatten 7%nat].

(* ---------------------------------------------------------------- executable model of one call *)
(* The harness observes the buffers reachable from the arguments (k of them), whether the argument object was a
   view-shaped ragged array, and which buffer holds its text.  The model of a registered call:
   - a function whose site program is safe leaves everything as it was;
   - genotype encoding (site 14) runs  flatten; view; write (newline -> tab)  on the text buffer. *)
Definition nl_to_tab (d : block) : block := map (fun c => if Z.eqb c 10 then 9 else c)%Z d.
Definition call_init (bufs : list block) (target : nat) (cow : bool) : state :=
  {| s_blocks := bufs; s_regs := [{| r_blocks := [target]; r_cow := cow |}] |}.
Definition genotype_prog (txt : block) : list instr :=
  [IFlatten 0; IView false true [0]; IWrite 1 0 (nl_to_tab txt)].
Definition genotype_prog_fixed (txt : block) : list instr :=
  [IFlatten 0; IView false true [0]].
Definition model_prog (sid : Z) (txt : block) : list instr :=
  if Z.eqb sid 14%Z then genotype_prog txt else [].
Definition model_prog_fixed (sid : Z) (txt : block) : list instr :=
  if Z.eqb sid 14%Z then genotype_prog_fixed txt else [].
(* what Corr/C20.v uses *)
Definition model_prog_sel (sid : Z) (txt : block) : list instr :=
  if fix1_applied then model_prog_fixed sid txt else model_prog sid txt.
(* the registered sites (harness/props/c20.py:SITES); the generated table must list exactly these *)
Definition site_ids : list Z :=
  [1; 2; 3; 4; 5; 6; 7; 8; 9; 10; 11; 12; 13; 14; 15; 16; 17; 18; 19; 20; 21; 22; 23; 24; 25; 26; 27; 28; 29; 30; 32; 33;
   34; 35; 36; 37; 38; 39; 40; 41; 42; 43; 44; 45; 46; 47; 48; 49; 50; 51; 52; 53; 54]%Z.
(* round 6: the sites outside the anchored files (package-wide write gate, harness/props/c20.py:write_gate) *)
Definition round6_site_ids : list Z :=
  [34; 35; 36; 37; 38; 39; 40; 41; 42; 43; 44; 45; 46; 47; 48; 49; 50; 51; 52; 53; 54]%Z.

(* ---------------------------------------------------------------- chains of calls (round 6) *)
(* returning to the caller: the callee's local objects are dropped, the caller keeps its np argument objects (which
   the callee may have rebound: a view-shaped ragged argument that flattened itself) over the store as it is now *)
Definition ret (np : nat) (s : state) : state :=
  {| s_blocks := s_blocks s; s_regs := firstn np (s_regs s) |}.
(* a sequence of calls on the same argument objects, each one starting from the state the previous one left *)
Fixpoint run_calls (np : nat) (ps : list (list instr)) (s : state) : state :=
  match ps with
  | [] => s
  | p :: t => run_calls np t (ret np (run p s))
  end.

(* decidable equality of programs (the harness's extraction against the generated one) *)
Definition nat_list_eqb := list_eqb Nat.eqb.
Definition instr_eqb (i j : instr) : bool :=
  match i, j with
  | IAlloc d, IAlloc e => zlist_eqb d e
  | IView c r rs, IView c' r' rs' => Bool.eqb c c' && Bool.eqb r r' && nat_list_eqb rs rs'
  | IPick k rs, IPick k' rs' => Nat.eqb k k' && nat_list_eqb rs rs'
  | IFlatten r, IFlatten r' => Nat.eqb r r'
  | IWrite r k d, IWrite r' k' d' => Nat.eqb r r' && Nat.eqb k k' && zlist_eqb d d'
  | _, _ => false
  end.
Definition prog_eqb := list_eqb instr_eqb.

(* Model/C16.v — BAM alignment records.
   (a) Spec: the record/file encoder written from SAMv1 section 4.2 (little-endian fields, l_read_name
       including the NUL, n_cigar_op, 4-bit packing high nibble first, block_size) and the values the
       specification defines for a record (reference name, letters, reference interval).  This encoder is
       the independent spec-level encoder of the property; harness/props/c16.py has the same encoder in
       Python and Corr/C16.v checks on every case that the two agree byte for byte.
   (b) Model: the algorithm of bionumpy/io/bam.py (block chain `_find_starts`, fixed-offset fields,
       derived offsets, nibble unpack and trim, CIGAR split), bionumpy/alignments/cigar.py
       (`count_reference_length`), BamIntervalBuffer / alignment_to_interval, the gzip ("prepend mode")
       chunk reader of bionumpy/io/parser.py instantiated with BamBuffer, and the writer.
   Two places where the code at /repo HEAD departs from the specification are kept in the model as
   selectable variants (record [variant]): [pinned] is the code as it is, [repaired] is the code after
   notes/C16.fix-1.diff and notes/C16.fix-2.diff.  [current] is the one the correspondence uses.
   Executable definitions only; proofs live in Proofs/C16.v. *)
From Coq Require Import ZArith List Bool.
From BNP Require Import Base.Prims.
Import ListNotations.
Open Scope Z_scope.

(* ================================================================= little-endian integers *)
Fixpoint le_bytes (n : nat) (x : Z) : list Z :=
  match n with O => [] | S k => (x mod 256) :: le_bytes k (x / 256) end.
Definition le32 (x : Z) : list Z := le_bytes 4 x.     (* two's complement for negative x (floor div/mod) *)
Definition le16 (x : Z) : list Z := le_bytes 2 x.
(* int.from_bytes(b, "little") for any number of bytes, unsigned *)
Fixpoint from_le (l : list Z) : Z := match l with [] => 0 | b :: r => b + 256 * from_le r end.
Definition signed32 (u : Z) : Z := if u <? 2147483648 then u else u - 4294967296.

(* ================================================================= (a) specification *)
Record brec := {
  b_ref : Z;  b_pos : Z;  b_mapq : Z;  b_bin : Z;  b_flag : Z;
  b_name : list Z;                    (* read name, without the NUL *)
  b_cigar : list (Z * Z);             (* (operation code 0..8, length) *)
  b_seq : list Z;                     (* base codes 0..15 *)
  b_qual : list Z;                    (* one per base *)
  b_nref : Z;  b_npos : Z;  b_tlen : Z;
  b_tags : list Z                     (* uninterpreted auxiliary bytes *)
}.

Fixpoint pack_seq (s : list Z) : list Z :=
  match s with
  | [] => []
  | [a] => [16 * a]
  | a :: b :: r => (16 * a + b) :: pack_seq r
  end.
Definition cigar_word (c : Z * Z) : list Z := le32 (fst c + 16 * snd c).
Definition rec_body (r : brec) : list Z :=
  le32 (b_ref r) ++ le32 (b_pos r) ++ [len (b_name r) + 1] ++ [b_mapq r] ++ le16 (b_bin r)
  ++ le16 (len (b_cigar r)) ++ le16 (b_flag r) ++ le32 (len (b_seq r))
  ++ le32 (b_nref r) ++ le32 (b_npos r) ++ le32 (b_tlen r)
  ++ b_name r ++ [0] ++ concat (map cigar_word (b_cigar r)) ++ pack_seq (b_seq r) ++ b_qual r ++ b_tags r.
Definition encode_rec (r : brec) : list Z := le32 (len (rec_body r)) ++ rec_body r.
Definition encode_recs (rs : list brec) : list Z := concat (map encode_rec rs).
Definition encode_ref (nl : list Z * Z) : list Z := le32 (len (fst nl) + 1) ++ fst nl ++ [0] ++ le32 (snd nl).
Definition bam_magic : list Z := [66; 65; 77; 1].
Definition encode_header (text : list Z) (refs : list (list Z * Z)) : list Z :=
  bam_magic ++ le32 (len text) ++ text ++ le32 (len refs) ++ concat (map encode_ref refs).
Definition encode_file (text : list Z) (refs : list (list Z * Z)) (rs : list brec) : list Z :=
  encode_header text refs ++ encode_recs rs.

(* the records with the given numbers, in that order (a filtered or reordered write) *)
Definition select {A} (l : list A) (idx : list Z) : list A :=
  flat_map (fun i => match nth_error l (Z.to_nat i) with Some x => [x] | None => [] end) idx.

(* validity of a record (the ranges of SAMv1 4.2) as a decidable predicate *)
Definition in_range (lo hi x : Z) : bool := (lo <=? x) && (x <? hi).
Definition rec_okb (nrefs : Z) (r : brec) : bool :=
  in_range (-1) nrefs (b_ref r) && in_range (-1) 2147483648 (b_pos r) && in_range 0 256 (b_mapq r)
  && in_range 0 65536 (b_bin r) && in_range 0 65536 (b_flag r)
  && in_range 1 255 (len (b_name r)) && forallb (in_range 1 256) (b_name r)
  && in_range 0 65536 (len (b_cigar r))
  && forallb (fun c => in_range 0 9 (fst c) && in_range 0 268435456 (snd c)) (b_cigar r)
  && in_range 0 2147483648 (len (b_seq r)) && forallb (in_range 0 16) (b_seq r)
  && (len (b_qual r) =? len (b_seq r)) && forallb (in_range 0 256) (b_qual r)
  && in_range (-1) nrefs (b_nref r) && in_range (-1) 2147483648 (b_npos r)
  && in_range (-2147483648) 2147483648 (b_tlen r) && forallb (in_range 0 256) (b_tags r).

(* what the specification says a record means *)
Definition seq_letters : list Z := [61; 65; 67; 77; 71; 82; 83; 86; 84; 87; 89; 72; 75; 68; 66; 78]. (* =ACMGRSVTWYHKDBN *)
Definition cigar_letters : list Z := [77; 73; 68; 78; 83; 72; 80; 61; 88].                          (* MIDNSHP=X *)
Definition spec_chrom (refs : list (list Z * Z)) (r : brec) : option (list Z) :=
  if b_ref r <? 0 then None else nth_error (map fst refs) (Z.to_nat (b_ref r)).
Definition spec_ops (r : brec) : list Z := map (fun c => nthZ cigar_letters (fst c)) (b_cigar r).
Definition spec_lens (r : brec) : list Z := map snd (b_cigar r).
Definition spec_letters (r : brec) : list Z := map (nthZ seq_letters) (b_seq r).
Definition consumes_ref (op : Z) : bool :=      (* M D N = X *)
  (op =? 0) || (op =? 2) || (op =? 3) || (op =? 7) || (op =? 8).
Definition spec_reflen (r : brec) : Z :=
  sumZ (map (fun c => if consumes_ref (fst c) then snd c else 0) (b_cigar r)).
Definition spec_strand (r : brec) : Z := if Z.testbit (b_flag r) 4 then 45 else 43.   (* '-' / '+' *)

(* ================================================================= (b) model of the code *)
(* --- variants: code as it is at /repo HEAD versus repaired --- *)
Definition py_index {A} (l : list A) (i : Z) : option A :=     (* Python/NumPy integer indexing *)
  if (0 <=? i) && (i <? len l) then nth_error l (Z.to_nat i)
  else if (- len l <=? i) && (i <? 0) then nth_error l (Z.to_nat (len l + i))
  else None.
Record variant := {
  v_cigar_bytes : Z -> Z;                              (* _get_cigar_bytes: n_cigar_op * 4 *)
  v_chrom : list (list Z) -> Z -> option (list Z)      (* _get_chromosome: names[ref_id] *)
}.
(* HEAD: `n_cigar_op * 4` is evaluated in uint16 and wraps; `names[ref_id]` with ref_id = -1 is the last name *)
Definition pinned : variant :=
  {| v_cigar_bytes := fun n => (n * 4) mod 65536;
     v_chrom := fun names i => py_index names i |}.
(* after fix-1 (names + ['*']) and fix-2 (widen before multiplying) *)
Definition repaired : variant :=
  {| v_cigar_bytes := fun n => n * 4;
     v_chrom := fun names i => py_index (names ++ [[42]]) i |}.
Definition current : variant := repaired.        (* <- the one-line switch *)

(* --- record boundaries: BamBuffer._find_starts ---
   starts = takewhile(start <= len(chunk), iterate(start -> start + from_bytes(chunk[start:start+4]) + 4, 0)) *)
Definition find_next (chunk : list Z) (start : Z) : Z :=
  start + from_le (slice start (start + 4) chunk) + 4.
Definition in_chunk (start chunk_len : Z) : bool := start <=? chunk_len.     (* the takewhile test *)
Fixpoint find_starts_fuel (fuel : nat) (chunk : list Z) (start : Z) : option (list Z) :=
  match fuel with
  | O => None                                                      (* out of fuel: distinct error *)
  | S f => if in_chunk start (len chunk)
           then option_map (cons start) (find_starts_fuel f chunk (find_next chunk start))
           else Some []
  end.
Definition find_starts (chunk : list Z) : option (list Z) :=
  find_starts_fuel (S (S (length chunk))) chunk 0.

Record buf := { bf_data : list Z; bf_starts : list Z; bf_ends : list Z }.
(* from_raw_buffer: data = chunk[:starts[-1]], starts[:-1], starts[1:] *)
Definition from_raw_buffer (chunk : list Z) : option buf :=
  match find_starts chunk with
  | None => None
  | Some sts => Some {| bf_data := firstn (Z.to_nat (last sts 0)) chunk;
                        bf_starts := removelast sts; bf_ends := tl sts |}
  end.
Definition buf_size (b : buf) : Z := len (bf_data b).

(* --- fixed-offset fields and derived offsets (BamBufferExtractor) --- *)
Definition get_uint (d : list Z) (s off n : Z) : Z := from_le (slice (s + off) (s + off + n) d).
(* a typed field read described by (offset, number of bytes, signed) *)
Definition read_field (f : Z * Z * bool) (d : list Z) (s : Z) : Z :=
  let '(off, n, sg) := f in if sg then signed32 (get_uint d s off n) else get_uint d s off n.
Definition m_refid (d : list Z) (s : Z) : Z := signed32 (get_uint d s 4 4).
Definition m_pos (d : list Z) (s : Z) : Z := signed32 (get_uint d s 8 4).
Definition m_l_read_name (d : list Z) (s : Z) : Z := nthZ d (s + 12).
Definition m_mapq (d : list Z) (s : Z) : Z := nthZ d (s + 13).
Definition m_n_cigar (d : list Z) (s : Z) : Z := get_uint d s 16 2.
Definition m_flag (d : list Z) (s : Z) : Z := get_uint d s 18 2.
Definition m_l_seq (d : list Z) (s : Z) : Z := signed32 (get_uint d s 20 4).
Definition m_name_start (s : Z) : Z := s + 36.
Definition m_cigar_start (d : list Z) (s : Z) : Z := m_name_start s + m_l_read_name d s.
Definition m_seq_start (v : variant) (d : list Z) (s : Z) : Z :=
  m_cigar_start d s + v_cigar_bytes v (m_n_cigar d s).
Definition m_qual_start (v : variant) (d : list Z) (s : Z) : Z :=
  m_seq_start v d s + (m_l_seq d s + 1) / 2.
Definition m_name (d : list Z) (s : Z) : list Z := slice (m_name_start s) (m_cigar_start d s - 1) d.
(* cigar bytes viewed as uint32 words, split into (word & 15, word >> 4) *)
Definition m_cigar_words (v : variant) (d : list Z) (s : Z) : list Z :=
  map from_le (chunks_of 4%nat (slice (m_cigar_start d s) (m_seq_start v d s) d)).
Definition m_cigar (v : variant) (d : list Z) (s : Z) : list (Z * Z) :=
  map (fun w => (w mod 16, w / 16)) (m_cigar_words v d s).
(* each byte -> (b >> 4) & 15, b & 15; rows of 2*n_seq_bytes nibbles, trimmed to l_seq *)
Definition nibbles (bs : list Z) : list Z := flat_map (fun b => [(b / 16) mod 16; b mod 16]) bs.
Definition m_seq (v : variant) (d : list Z) (s : Z) : list Z :=
  firstn (Z.to_nat (m_l_seq d s)) (nibbles (slice (m_seq_start v d s) (m_qual_start v d s) d)).
Definition m_qual (v : variant) (d : list Z) (s : Z) : list Z :=
  slice (m_qual_start v d s) (m_qual_start v d s + m_l_seq d s) d.

(* decoded record as the library presents it: letters for sequence and CIGAR operations;
   None = the field access raises (index outside the table) *)
Record orec := {
  o_chrom : option (list Z);  o_name : list Z;  o_flag : Z;  o_pos : Z;  o_mapq : Z;
  o_ops : option (list Z);  o_lens : list Z;  o_seq : list Z;  o_qual : list Z
}.
Fixpoint all_some {A} (l : list (option A)) : option (list A) :=
  match l with
  | [] => Some []
  | None :: _ => None
  | Some x :: r => match all_some r with Some r' => Some (x :: r') | None => None end
  end.
Definition op_letters (ops : list Z) : option (list Z) :=
  all_some (map (fun o => nth_error cigar_letters (Z.to_nat o)) ops).
Definition decode_at (v : variant) (names : list (list Z)) (d : list Z) (s : Z) : orec :=
  let cg := m_cigar v d s in
  {| o_chrom := v_chrom v names (m_refid d s);
     o_name := m_name d s; o_flag := m_flag d s; o_pos := m_pos d s; o_mapq := m_mapq d s;
     o_ops := op_letters (map fst cg); o_lens := map snd cg;
     o_seq := map (nthZ seq_letters) (m_seq v d s); o_qual := m_qual v d s |}.
Definition decode_buf (v : variant) (names : list (list Z)) (b : buf) : list orec :=
  map (decode_at v names (bf_data b)) (bf_starts b).

(* --- reference interval: count_reference_length, BamIntervalBuffer, alignment_to_interval --- *)
Fixpoint index_of (x : Z) (l : list Z) : Z :=
  match l with [] => 0 | y :: r => if x =? y then 0 else 1 + index_of x r end.
Definition m_consuming : list Z := map (fun c => index_of c cigar_letters) [77; 68; 78; 61; 88].  (* "MDN=X" encoded *)
Definition m_reflen (cg : list (Z * Z)) : Z :=
  sumZ (map (fun c => (if existsb (Z.eqb (fst c)) m_consuming then 1 else 0) * snd c) cg).
Record oiv := { i_chrom : option (list Z); i_start : Z; i_stop : Z; i_name : list Z; i_score : Z; i_strand : Z }.
Definition interval_at (v : variant) (names : list (list Z)) (d : list Z) (s : Z) : oiv :=
  {| i_chrom := v_chrom v names (m_refid d s);
     i_start := m_pos d s; i_stop := m_pos d s + m_reflen (m_cigar v d s);
     i_name := m_name d s; i_score := m_mapq d s;
     i_strand := if Z.land (m_flag d s) 16 =? 0 then 43 else 45 |}.
Definition intervals_buf (v : variant) (names : list (list Z)) (b : buf) : list oiv :=
  map (interval_at v names (bf_data b)) (bf_starts b).

(* --- header: BamHeader.read_header (names are read up to the NUL; l_name itself is not used) --- *)
Fixpoint until_nul (l : list Z) : list Z :=
  match l with [] => [] | x :: r => if x =? 0 then [] else x :: until_nul r end.
Fixpoint parse_refs (n : nat) (st : list Z) (off : Z) : list (list Z * Z) * Z :=
  match n with
  | O => ([], off)
  | S k => let name := until_nul (skipn (Z.to_nat (off + 4)) st) in
           let o2 := off + 4 + len name + 1 in
           let l := from_le (slice o2 (o2 + 4) st) in
           let '(rest, o3) := parse_refs k st (o2 + 4) in
           ((name, l) :: rest, o3)
  end.
(* returns (reference table, number of header bytes); None = the magic assertion fails *)
Definition parse_header (st : list Z) : option (list (list Z * Z) * Z) :=
  if zlist_eqb (slice 0 4 st) bam_magic then
    let l_text := from_le (slice 4 8 st) in
    let o := 8 + l_text in
    let n_ref := from_le (slice o (o + 4) st) in
    Some (parse_refs (Z.to_nat n_ref) st (o + 4))
  else None.

(* --- reading the whole file: NumpyFileReader.read (a newline is appended when the last byte is not one) --- *)
Definition add_newline (chunk : list Z) : list Z :=
  if last chunk 0 =? 10 then chunk else chunk ++ [10].
Definition read_whole_buf (body : list Z) : option buf :=
  match body with
  | [] => Some {| bf_data := []; bf_starts := []; bf_ends := [] |}   (* read() returns the empty dataclass *)
  | _ => from_raw_buffer (add_newline body)
  end.

(* bnp.open(p).read() up to field decoding: (reference names, header bytes as replayed on write, buffer) *)
Definition read_file (st : list Z) : option (list (list Z) * list Z * buf) :=
  match parse_header st with
  | None => None
  | Some (refs, off) =>
      match read_whole_buf (skipn (Z.to_nat off) st) with
      | None => None
      | Some b => Some (map fst refs, firstn (Z.to_nat off) st, b)
      end
  end.

(* --- chunked reading of a gzip stream: NumpyFileReader.read_chunk in prepend mode, driven by
       NpDataclassReader.read_chunks = takewhile(len, repeat(read_chunk)).
       [rest] = bytes not yet read from the decompressed stream, [prepend] = carried incomplete tail. *)
Definition is_finished (bytes_read k : Z) : bool := bytes_read <? k.      (* _get_buffer: self._is_finished *)
Fixpoint read_chunks_fuel (fuel : nat) (k : Z) (rest prepend : list Z) : option (list buf) :=
  match fuel with
  | O => None
  | S f =>
      let raw := firstn (Z.to_nat k) rest in
      let rest' := skipn (Z.to_nat k) rest in
      if len raw =? 0 then
        (* nothing more to read.  No pending tail: read_chunk -> None -> empty -> stream ends.  A pending tail
           (previous read ended exactly at the end of the stream) is parsed once more with a newline appended *)
        match prepend with
        | [] => Some []
        | _ => match from_raw_buffer (add_newline prepend) with
               | None => None
               | Some b => match bf_starts b with [] => Some [] | _ => Some [b] end
               end
        end
      else
        let finished := is_finished (len raw) k in
        let chunk := prepend ++ (if finished then add_newline raw else raw) in
        match from_raw_buffer chunk with
        | None => None
        | Some b =>
            match bf_starts b with
            | [] => Some []                                  (* no complete record: takewhile(len) stops *)
            | _ => let prepend' := if finished then [] else skipn (Z.to_nat (buf_size b)) chunk in
                   option_map (cons b) (read_chunks_fuel f k rest' prepend')
            end
        end
  end.
Definition read_chunks (k : Z) (body : list Z) : option (list buf) :=
  read_chunks_fuel (S (S (length body))) k body [].

(* --- writing: header bytes replayed, then the buffer's bytes; a selection data[idx] is made contiguous
       by concatenating the selected records' byte ranges (the bytes `_make_contigous` returns; since /repo 0f67f4c
       the selected object itself is NOT re-based: it keeps the parent's data and the selected starts/ends) --- *)
Definition rec_bytes (b : buf) (i : Z) : option (list Z) :=
  match py_index (bf_starts b) i, py_index (bf_ends b) i with
  | Some s, Some e => Some (slice s e (bf_data b))
  | _, _ => None
  end.
Definition write_whole (hdr : list Z) (b : buf) : list Z := hdr ++ bf_data b.
Definition write_selected (hdr : list Z) (b : buf) (idx : list Z) : option (list Z) :=
  match all_some (map (rec_bytes b) idx) with
  | Some parts => Some (hdr ++ concat parts)
  | None => None
  end.
(* the fields of a selected object u = data[idx], read at any time (before or after u was written): the parent's
   bytes decoded at the selected record starts *)
Definition decode_selected (v : variant) (names : list (list Z)) (b : buf) (idx : list Z) : option (list orec) :=
  all_some (map (fun i => option_map (decode_at v names (bf_data b)) (py_index (bf_starts b) i)) idx).
Definition eof_marker : list Z :=
  [31; 139; 8; 4; 0; 0; 0; 0; 0; 255; 6; 0; 66; 67; 2; 0; 27; 0; 3; 0; 0; 0; 0; 0; 0; 0; 0; 0].

(* ================================================================= round 6: auxiliary area, gzip members *)
(* the same record with another auxiliary (TAG) area.  bionumpy never interprets the auxiliary fields
   (tag[2] val_type[1] value of types A c C s S i I f Z H B): bionumpy/io/bam.py has no code for them; they are the
   bytes from the end of the qualities to the end of the block and travel with the record as raw bytes *)
Definition with_tags (r : brec) (t : list Z) : brec :=
  {| b_ref := b_ref r; b_pos := b_pos r; b_mapq := b_mapq r; b_bin := b_bin r; b_flag := b_flag r;
     b_name := b_name r; b_cigar := b_cigar r; b_seq := b_seq r; b_qual := b_qual r;
     b_nref := b_nref r; b_npos := b_npos r; b_tlen := b_tlen r; b_tags := t |}.

(* --- the gzip layer as far as the reader depends on it.  EXTERNAL code (CPython gzip._GzipReader under
       io.BufferedReader, reached through gzip.open(...).read(n)); modelled to say precisely what assumption A-GZIP
       means.  A file = the list of its members' inflated payloads (BGZF blocks, plain gzip members, empty members
       such as the BGZF EOF block, anywhere in the file).
   _GzipReader.read(size), size > 0: at most [size] bytes of the current member; at the end of a member the next
   one is opened; a member without data is passed over; b"" only when no member is left. *)
Fixpoint raw_read (size : nat) (ms : list (list Z)) : list Z * list (list Z) :=
  match ms with
  | [] => ([], [])
  | [] :: rest => raw_read size rest
  | m :: rest => (firstn size m, skipn size m :: rest)
  end.
(* BufferedReader.read(n): raw reads until n bytes are there or the raw stream is at its end (fuel: None = exhausted) *)
Fixpoint buffered_read (fuel : nat) (n : nat) (ms : list (list Z)) : option (list Z * list (list Z)) :=
  match n with
  | O => Some ([], ms)
  | S _ =>
      match fuel with
      | O => None
      | S f =>
          let '(got, ms') := raw_read n ms in
          match got with
          | [] => Some ([], ms')
          | _ => match buffered_read f (n - length got) ms' with
                 | Some (more, ms'') => Some (got ++ more, ms'')
                 | None => None
                 end
          end
      end
  end.
(* file_obj.read(n) on the gzip stream whose remaining members are [ms] *)
Definition stream_read (n : Z) (ms : list (list Z)) : option (list Z * list (list Z)) :=
  buffered_read (Z.to_nat n) (Z.to_nat n) ms.
(* the chunk reader of [read_chunks_fuel], reading from the members through stream_read *)
Fixpoint read_chunks_members_fuel (fuel : nat) (k : Z) (ms : list (list Z)) (prepend : list Z) : option (list buf) :=
  match fuel with
  | O => None
  | S f =>
      match stream_read k ms with
      | None => None
      | Some (raw, ms') =>
          if len raw =? 0 then
            match prepend with
            | [] => Some []
            | _ => match from_raw_buffer (add_newline prepend) with
                   | None => None
                   | Some b => match bf_starts b with [] => Some [] | _ => Some [b] end
                   end
            end
          else
            let finished := is_finished (len raw) k in
            let chunk := prepend ++ (if finished then add_newline raw else raw) in
            match from_raw_buffer chunk with
            | None => None
            | Some b =>
                match bf_starts b with
                | [] => Some []
                | _ => let prepend' := if finished then [] else skipn (Z.to_nat (buf_size b)) chunk in
                       option_map (cons b) (read_chunks_members_fuel f k ms' prepend')
                end
            end
      end
  end.
Definition read_chunks_members (k : Z) (ms : list (list Z)) : option (list buf) :=
  read_chunks_members_fuel (S (S (length (concat ms)))) k ms [].
(* a sequence of reads file.read(n1); file.read(n2); ... (BamHeader.read_header: read(4), read(4), read(l_text), read(4),
   then per reference read(4), read(1) ... read(1), read(4)) *)
Fixpoint stream_reads (ns : list Z) (ms : list (list Z)) : option (list (list Z) * list (list Z)) :=
  match ns with
  | [] => Some ([], ms)
  | n :: r => match stream_read n ms with
              | None => None
              | Some (d, ms') => match stream_reads r ms' with
                                 | None => None
                                 | Some (ds, ms'') => Some (d :: ds, ms'')
                                 end
              end
  end.

(* --- round 6 strengthening: a selection as an object.  BamBufferExtractor.__getitem__(item) builds a new extractor over
       the SAME bytes with _new_lines[item], _ends[item]; chained selections t[a][b] apply it twice.  Every column of the
       selection is then decoded from its own starts (decode_buf / intervals_buf of the selected buffer); nothing that was
       computed for the parent (offsets, lengths) may be reused.  [idx] = a NumPy integer index list with entries in
       0 .. len-1 (a boolean mask is the list of its True positions, a slice the list of its positions). *)
Definition select_buf (b : buf) (idx : list Z) : buf :=
  {| bf_data := bf_data b; bf_starts := select (bf_starts b) idx; bf_ends := select (bf_ends b) idx |}.

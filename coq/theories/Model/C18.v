(* Model/C18.v — numbers <-> text.
   (a) Spec: what a decimal integer text / a decimal or scientific float text denotes, and what
       "canonical decimal text" means — short, by Horner's rule, independent of the code's algorithm.
   (b) Model: the algorithms of bionumpy/io/strops.py as they are: the flat power-index array built
       with one scatter-add and one cumulative sum (_build_power_array, with the optional gap for the
       decimal point), str_to_int (sign stripping, digit encoding, dot with int64 powers, sign),
       the fixed-width digit-matrix variant used for sign-free integer columns of files,
       ints_to_strings (width, digit extraction |n| // 10^p % 10, '-' placement), int_lists_to_strings
       (join with separators, re-split by row lengths), the list-column parser, and decimal/scientific
       float parsing evaluated in exact rational arithmetic.
   The width / magnitude / power functions of ints_to_strings are parameters of the model:
     ints_to_strings_pinned  = the code at the pinned commit (float log10 width, int64 abs and powers)
     ints_to_strings         = the proposed repair notes/C18.fix-1.diff (exact digit count, uint64)
   Executable definitions only; proofs live in Proofs/C18*.v. *)
From Coq Require Import ZArith List Bool.
From BNP Require Import Base.Prims.
Import ListNotations.
Open Scope Z_scope.

(* ====================================================================================== *)
(* Spec                                                                                    *)
(* ====================================================================================== *)
Definition is_digit (c : Z) : bool := (48 <=? c) && (c <=? 57).
Fixpoint horner (acc : Z) (ds : list Z) : Z :=
  match ds with [] => acc | d :: r => horner (10 * acc + (d - 48)) r end.
Definition digits_value (ds : list Z) : option Z :=
  match ds with
  | [] => None
  | _ => if forallb is_digit ds then Some (horner 0 ds) else None
  end.
(* [+-]?[0-9]+ , leading zeros allowed *)
Definition text_value (t : list Z) : option Z :=
  match t with
  | [] => None
  | c :: ds => if c =? 45 then option_map Z.opp (digits_value ds)
               else if c =? 43 then digits_value ds
               else digits_value t
  end.
(* canonical decimal text: "0", or an optional '-' followed by digits not starting with '0' *)
Definition canonical_digits (t : list Z) : bool :=
  match t with
  | [] => false
  | d :: r => is_digit d && negb (d =? 48) && forallb is_digit r
  end.
Definition unsigned_part (t : list Z) : list Z :=
  match t with c :: r => if c =? 45 then r else t | [] => [] end.
Definition canonical (t : list Z) : bool :=
  zlist_eqb t [48] || canonical_digits (unsigned_part t).
(* the property for one formatted integer *)
Definition is_decimal_of (n : Z) (t : list Z) : bool :=
  canonical t && match text_value t with Some v => v =? n | None => false end.

(* split at the first occurrence of c *)
Fixpoint split_first (c : Z) (t : list Z) : list Z * option (list Z) :=
  match t with
  | [] => ([], None)
  | x :: r => if x =? c then ([], Some r)
              else let '(a, b) := split_first c r in (x :: a, b)
  end.
(* float text:  [+-]? digits* ( '.' digits* )? ( 'e' [+-]? digits+ )?   with at least one mantissa digit.
   Denotation: (negative?, N, E) meaning (-1)^neg * N * 10^E. *)
Definition float_text_value (t : list Z) : option (bool * Z * Z) :=
  let '(mant, ex) := split_first 101 t in
  let neg := match mant with c :: _ => c =? 45 | [] => false end in
  let m1 := match mant with c :: r => if (c =? 45) || (c =? 43) then r else mant | [] => [] end in
  let '(ip, fo) := split_first 46 m1 in
  let fp := match fo with Some f => f | None => [] end in
  match digits_value (ip ++ fp), (match ex with Some e => text_value e | None => Some 0 end) with
  | Some N, Some E => Some (neg, N, E - len fp)
  | _, _ => None
  end.
(* as a fraction num/den, den > 0 *)
Definition frac_of (neg : bool) (N E : Z) : Z * Z :=
  ((if neg then - N else N) * 10 ^ Z.max E 0, 10 ^ Z.max (- E) 0).

(* IEEE-754 binary64 given by its bit pattern: finite value = (-1)^s * m * 2^e ; ulp = 2^e *)
Definition dbl_sign (bits : Z) : bool := 2 ^ 63 <=? bits.
Definition dbl_expfield (bits : Z) : Z := (bits / 2 ^ 52) mod 2048.
Definition dbl_m (bits : Z) : Z :=
  if dbl_expfield bits =? 0 then bits mod 2 ^ 52 else 2 ^ 52 + bits mod 2 ^ 52.
Definition dbl_e (bits : Z) : Z := Z.max (dbl_expfield bits) 1 - 1075.
Definition dbl_finite (bits : Z) : bool := negb (dbl_expfield bits =? 2047).
Definition dbl_is_inf (bits : Z) : bool := (dbl_expfield bits =? 2047) && (bits mod 2 ^ 52 =? 0).
(* | value(bits) - num/den | <= (h/2) ulp(bits)    (h = tolerance in half-ulps), exact integer arithmetic;
   an infinity is accepted iff |num/den| is at least the largest finite double minus the tolerance;
   a zero result must carry the sign given by [neg] when the denoted value is zero *)
Definition within_half_ulps (h : Z) (bits : Z) (neg : bool) (num den : Z) : bool :=
  let K := 1074 in
  if dbl_is_inf bits then
    Bool.eqb (dbl_sign bits) neg && ((2 ^ 54 - 2 - h) * 2 ^ 971 * den <=? 2 * Z.abs num)
  else if negb (dbl_finite bits) then false
  else if num =? 0 then (dbl_m bits =? 0) && Bool.eqb (dbl_sign bits) neg
  else
    let v := (if dbl_sign bits then -1 else 1) * dbl_m bits * 2 ^ (dbl_e bits + K) in
    2 * Z.abs (v * den - num * 2 ^ K) <=? h * 2 ^ (dbl_e bits + K) * den.

(* ====================================================================================== *)
(* Model                                                                                   *)
(* ====================================================================================== *)
Definition two63 : Z := 2 ^ 63.
Definition two64 : Z := 2 ^ 64.
Definition wrap64 (z : Z) : Z := (z + two63) mod two64 - two63.     (* int64 arithmetic *)
Definition b2z (b : bool) : Z := if b then 1 else 0.
Definition set_head (c : Z) (l : list Z) : list Z := match l with [] => [] | _ :: r => c :: r end.
Definition head_is (c : Z) (l : list Z) : bool := match l with x :: _ => x =? c | [] => false end.
Fixpoint down (n : nat) : list Z := match n with O => [] | S k => Z.of_nat k :: down k end.

(* ---------- named arithmetic kernels ----------
   Each of these is re-derived from the source on every run (translate/gen_c18.py -> Gen/C18.v) and proved equal
   to the regenerated definition in Bridge/C18.v; the model functions below are written in terms of them. *)
Definition m_fill : Z := -1.                                   (* np.full(total, -1) *)
Definition m_dot_fill : Z := 0.                                (* index_array[dots] = 0 *)
Definition m_dot_offset : Z := 1.                              (* offset[dots[0]] = 1 *)
Definition m_bump (length offset : Z) : Z := length - offset.  (* lengths[..] - offset_.. added at a row start *)
Definition m_pow10 (p : Z) : Z := 10 ^ p.                      (* 10**power_array, before the dtype's wrap-around *)
Definition m_signed (neg : bool) (v : Z) : Z := v * (if neg then -1 else 1).      (* value * np.where(is_negative,-1,+1) *)
Definition m_digit (a pw : Z) : Z := (a / pw) mod 10.          (* magnitude // powers % 10 *)
Definition m_frac_digits (length col : Z) : Z := length - col - 1.                 (* digits after the point *)
Definition m_dec_den (f : Z) : Z := 10 ^ f.                    (* 10.**exponents *)
Definition m_sci_mant_end (c : Z) : Z := c.                    (* ragged_slice(text, ends=cols) *)
Definition m_sci_exp_start (c : Z) : Z := c + 1.               (* ragged_slice(text, starts=cols+1) *)
Definition m_row_len (sum_lengths n_items : Z) : Z := sum_lengths + n_items.       (* joined row: texts + separators *)
Definition m_join_len (length : Z) : Z := length + 1.          (* a text and its separator *)
Definition m_n_fill (w l : Z) : Z := w - l.                    (* '0' cells left of a right-aligned field *)
Definition m_window_index (e w j : Z) : Z := e - w + j.        (* data index shown in column j of the digit matrix *)
Definition m_row_start (i w : Z) : Z := i * w.                 (* flat position of row i of a row-major matrix *)

(* ---------- _build_power_array (strops.py:20-54) ----------
   A ragged shape is given by its rows: (length, columns holding a '.').
     index_array = full(total, -1); index_array[dots] = 0
     index_array[cumsum(lengths)[:-1]] += lengths[1:] - offset_rest ; index_array[0] += lengths[0] - offset_0
     cumsum(index_array) ; reshape by the row lengths                                     *)
Definition row_init (r : Z * list Z) : list Z :=
  map (fun j => if existsb (Z.eqb j) (snd r) then m_dot_fill else m_fill) (arange (fst r)).
Definition row_offset (r : Z * list Z) : Z := match snd r with [] => 0 | _ => m_dot_offset end.
Definition row_starts (lengths : list Z) : list Z :=
  match lengths with [] => [] | _ => 0 :: removelast (cumsum lengths) end.
(* a[idx] += vals  (NumPy fancy-index semantics: for a repeated index the last value wins) *)
Fixpoint lookup_last (pos : Z) (idx vals : list Z) (found : Z) : Z :=
  match idx, vals with
  | i :: idx', v :: vals' => lookup_last pos idx' vals' (if i =? pos then v else found)
  | _, _ => found
  end.
Fixpoint scatter_add_from (pos : Z) (idx vals : list Z) (l : list Z) : list Z :=
  match l with
  | [] => []
  | x :: r => (x + lookup_last pos idx vals 0) :: scatter_add_from (pos + 1) idx vals r
  end.
Fixpoint split_rows {A} (lengths : list Z) (flat : list A) : list (list A) :=
  match lengths with
  | [] => []
  | l :: r => firstn (Z.to_nat l) flat :: split_rows r (skipn (Z.to_nat l) flat)
  end.
Definition index_array (rows : list (Z * list Z)) : list Z :=
  let lengths := map fst rows in
  cumsum (scatter_add_from 0 (row_starts lengths)
                           (map (fun r => m_bump (fst r) (row_offset r)) rows)
                           (concat (map row_init rows))).
Definition power_rows (rows : list (Z * list Z)) : list (list Z) :=
  split_rows (map fst rows) (index_array rows).
Definition plain_shape (lengths : list Z) : list (Z * list Z) := map (fun l => (l, [])) lengths.

(* ---------- digit encoding (DigitEncoding = AlphabetEncoding "0123456789") ----------
   any byte other than '0'..'9' anywhere in the batch raises EncodingError for the whole batch, with the flat offset
   of the first such byte (the lower-case table no longer maps 'P'..'Y' to digits) *)
Definition digit_code (c : Z) : option Z :=
  if (48 <=? c) && (c <=? 57) then Some (c - 48) else None.
Fixpoint encode_digits (t : list Z) : option (list Z) :=
  match t with
  | [] => Some []
  | c :: r => match digit_code c, encode_digits r with
              | Some d, Some ds => Some (d :: ds)
              | _, _ => None
              end
  end.
Fixpoint encode_rows (ts : list (list Z)) : option (list (list Z)) :=
  match ts with
  | [] => Some []
  | t :: r => match encode_digits t, encode_rows r with
              | Some d, Some ds => Some (d :: ds)
              | _, _ => None
              end
  end.
Fixpoint dotp (ds ps : list Z) : Z :=
  match ds, ps with d :: ds', p :: ps' => d * p + dotp ds' ps' | _, _ => 0 end.
Definition pow10_i64 (p : Z) : Z := wrap64 (m_pow10 p).          (* 10**p on an int64 array *)
Fixpoint zip3 {A B C} (a : list A) (b : list B) (c : list C) : list (A * B * C) :=
  match a, b, c with x :: a', y :: b', z :: c' => (x, y, z) :: zip3 a' b' c' | _, _, _ => [] end.

(* ---------- str_to_int, ragged path (strops.py:86-123) ---------- *)
Definition strip_sign (t : list Z) : list Z :=
  if head_is 45 t || head_is 43 t then set_head 48 t else t.
Definition str_to_int_row (t ds ps : list Z) : Z :=
  wrap64 (m_signed (head_is 45 t) (wrap64 (dotp ds (map pow10_i64 ps)))).
Definition str_to_int_rows (texts : list (list Z)) : option (list Z) :=
  match encode_rows (map strip_sign texts) with
  | None => None
  | Some digs =>
      let pw := power_rows (plain_shape (map len texts)) in
      Some (map (fun '(t, ds, ps) => str_to_int_row t ds ps) (zip3 texts digs pw))
  end.

(* ---------- str_to_int on the right-aligned digit matrix (file_buffers.py:21-31, 355-376;
   strops.py:105-109): used for an integer column of a file when no field starts with a sign ---------- *)
Definition max_len (texts : list (list Z)) : Z := fold_right Z.max 0 (map len texts).
Definition pad_left (w : Z) (t : list Z) : list Z := repeat 48 (Z.to_nat (m_n_fill w (len t))) ++ t.
Definition str_to_int_matrix (texts : list (list Z)) : option (list Z) :=
  let w := max_len texts in
  match encode_rows (map (pad_left w) texts) with
  | None => None
  | Some digs => Some (map (fun ds => wrap64 (dotp ds (map pow10_i64 (down (Z.to_nat w))))) digs)
  end.
(* ---------- move_intervals_to_digit_array at index level (file_buffers.py:21-31) ----------
     max_chars = np.max(ends - starts); view_starts = ends - max_chars
     array = data[view_starts[..., None] + np.arange(max_chars)]       (a negative index wraps around, as in NumPy)
     array[flat cells row*max_chars + [0, max_chars - (end - start))] = fill_value                              *)
Definition np_get (data : list Z) (i : Z) : Z := nthZ data (if i <? 0 then len data + i else i).
Definition max_width (ivs : list (Z * Z)) : Z := fold_right Z.max 0 (map (fun iv => snd iv - fst iv) ivs).
Definition digit_matrix_row (data : list Z) (fill w : Z) (iv : Z * Z) : list Z :=
  map (fun j => if j <? m_n_fill w (snd iv - fst iv) then fill else np_get data (m_window_index (snd iv) w j))
      (arange w).
Definition digit_matrix (data : list Z) (ivs : list (Z * Z)) (fill : Z) : list (list Z) :=
  map (digit_matrix_row data fill (max_width ivs)) ivs.
(* the integer column read from the buffer: fields are data[start:end) *)
Definition fields_of (data : list Z) (ivs : list (Z * Z)) : list (list Z) :=
  map (fun iv => slice (fst iv) (snd iv) data) ivs.
Definition str_to_int_buffer (data : list Z) (ivs : list (Z * Z)) : option (list Z) :=
  let w := max_width ivs in
  match encode_rows (digit_matrix data ivs 48) with
  | None => None
  | Some digs => Some (map (fun ds => wrap64 (dotp ds (map pow10_i64 (down (Z.to_nat w))))) digs)
  end.

Definition has_sign (texts : list (list Z)) : bool :=
  existsb (fun t => head_is 45 t || head_is 43 t) texts.
(* the integer column of a delimited file *)
Definition int_column (texts : list (list Z)) : option (list Z) :=
  if has_sign texts then str_to_int_rows texts else str_to_int_matrix texts.

(* ---------- ints_to_strings (strops.py:186-215) ---------- *)
Fixpoint ndigits_fuel (fuel : nat) (a : Z) : Z :=
  match fuel with
  | O => 1
  | S f => if a <? 10 then 1 else 1 + ndigits_fuel f (a / 10)
  end.
Definition ndigits (a : Z) : Z := ndigits_fuel (S (Z.to_nat (Z.log2 a))) a.

(* pinned code: np.log10(np.maximum(np.abs(number), 1)).astype(int) + 1 *)
Definition abs_i64 (n : Z) : Z := wrap64 (Z.abs n).                  (* np.abs(-2^63) = -2^63 *)
(* int64 -> float64, round to nearest even *)
Definition round53 (a : Z) : Z :=
  let e := Z.log2 a - 52 in
  if e <=? 0 then a
  else let q := a / 2 ^ e in let r := a mod 2 ^ e in let half := 2 ^ (e - 1) in
       (if r <? half then q else if half <? r then q + 1 else if Z.even q then q else q + 1) * 2 ^ e.
(* smallest k-digit double x whose log10, correctly rounded to double, is already k:
   10^k * 10^(-ulp(k)/2) rounded up to a double.  For k <= 14 no integer below 10^k qualifies. *)
Definition log10_carry (k : Z) : Z :=
  if k =? 15 then 10 ^ 15 - 2
  else if k =? 16 then 10 ^ 16 - 20
  else if k =? 17 then 10 ^ 17 - 400
  else if k =? 18 then 10 ^ 18 - 3968
  else 10 ^ k.
Definition width_log10 (n : Z) : Z :=
  let x := round53 (Z.max (abs_i64 n) 1) in
  let k := ndigits x in
  if log10_carry k <=? x then k + 1 else k.

(* repaired code: magnitude as uint64, width = searchsorted(10^1..10^19, magnitude, 'right') + 1 *)
Fixpoint count_pow_le (k : nat) (a : Z) : Z :=
  match k with
  | O => 0
  | S k' => count_pow_le k' a + (if 10 ^ Z.of_nat k <=? a then 1 else 0)
  end.
Definition width_exact (n : Z) : Z := 1 + count_pow_le 19 (Z.abs n).
Definition pow10_u64 (p : Z) : Z := (10 ^ p) mod two64.

Definition ints_to_strings_gen (width mag pw10 : Z -> Z) (ns : list Z) : list (list Z) :=
  let lengths := map (fun n => width n + b2z (n <? 0)) ns in
  let pw := power_rows (plain_shape lengths) in
  map (fun '(n, row) =>
         let t := map (fun p => 48 + m_digit (mag n) (pw10 p)) row in
         if n <? 0 then set_head 45 t else t)
      (combine ns pw).
Definition ints_to_strings_pinned := ints_to_strings_gen width_log10 abs_i64 pow10_i64.
Definition ints_to_strings := ints_to_strings_gen width_exact Z.abs pow10_u64.

(* ---------- join / int_lists_to_strings (strops.py:242-304) ---------- *)
Definition join_keep_last (sep : Z) (ts : list (list Z)) : list Z := concat (map (fun t => t ++ [sep]) ts).
Definition int_lists_to_strings_gen (fmt : list Z -> list (list Z)) (sep : Z) (rows : list (list Z)) : list (list Z) :=
  let strings := fmt (concat rows) in
  let lens := split_rows (map len rows) (map len strings) in
  let joined := join_keep_last sep strings in
  let row_lens := map (fun '(ls, r) => m_row_len (sumZ ls) (len r)) (combine lens rows) in
  map (@removelast Z) (split_rows row_lens joined).
Definition int_lists_to_strings_pinned := int_lists_to_strings_gen ints_to_strings_pinned.
Definition int_lists_to_strings := int_lists_to_strings_gen ints_to_strings.

(* ---------- list column of a file: DelimitedBuffer._parse_split_fields (delimited_buffers.py:250-263):
   each field is taken with its trailing delimiter, which is overwritten by sep; the flat text without
   its last byte is split on sep; empty pieces are dropped; the numbers are regrouped by the count of
   sep per row ---------- *)
Definition count_eq (c : Z) (t : list Z) : Z := len (filter (Z.eqb c) t).
Definition nonempty_piece (p : list Z) : bool := negb (len p =? 0).
(* [fixed] = false: the code as pinned — rows are regrouped by the number of separators, so an empty piece
   (empty list, trailing separator, ",,") shifts every later value into the wrong row;
   [fixed] = true: notes/C02.fix-2.diff — rows are regrouped by the number of non-empty pieces per row. *)
Definition parse_split_ints_gen (fixed : bool) (sep : Z) (fields : list (list Z)) : option (list (list Z)) :=
  let text := map (fun f => f ++ [sep]) fields in
  let pieces := split_on sep (removelast (concat text)) in
  let nonempty := filter nonempty_piece pieces in
  let counts := map (count_eq sep) text in
  let items := if fixed then map (fun ps => len (filter nonempty_piece ps)) (split_rows counts pieces) else counts in
  match (match nonempty with [] => Some [] | _ => str_to_int_rows nonempty end) with
  | None => None
  | Some vals => Some (split_rows items vals)
  end.
Definition parse_split_ints_pinned := parse_split_ints_gen false.
Definition parse_split_ints := parse_split_ints_gen true.

(* ---------- float parsing (strops.py:126-183), exact rational arithmetic ---------- *)
Definition dot_cols (t : list Z) : list Z := positions 46 t.
(* _decimal_str_to_float: per row (negative?, base, number of digits after the point) : value = ±base / 10^frac.
   The pinned code strips only a leading '-' (a '+' reaches the digit encoder and raises); the repair
   notes/C18.fix-2.diff strips '+' as well.  [plus] selects the variant. *)
Definition dec_prepare (plus : bool) (t : list Z) : list Z :=
  map (fun c => if c =? 46 then 48 else c)
      (if head_is 45 t || (plus && head_is 43 t) then set_head 48 t else t).
Definition dec_row (t ds ps : list Z) : bool * Z * Z :=
  (head_is 45 t, dotp ds (map (Z.pow 10) ps),
   match rev (dot_cols t) with c :: _ => m_frac_digits (len t) c | [] => 0 end).
Definition decimal_rows (plus : bool) (texts : list (list Z)) : option (list (bool * Z * Z)) :=
  match encode_rows (map (dec_prepare plus) texts) with
  | None => None
  | Some digs =>
      let pw := power_rows (map (fun t => (len t, dot_cols t)) texts) in
      Some (map (fun '(t, ds, ps) => dec_row t ds ps) (zip3 texts digs pw))
  end.
(* _scientific_str_to_float: split at the 'e'; mantissa by the decimal parser, exponent by str_to_int *)
Definition exp_part (p : list Z * option (list Z)) : list Z := match snd p with Some e => e | None => [] end.
Definition scientific_rows (plus : bool) (texts : list (list Z)) : option (list (bool * Z * Z * Z)) :=
  let parts := map (split_first 101) texts in
  match decimal_rows plus (map fst parts), str_to_int_rows (map exp_part parts) with
  | Some ds, Some es => Some (map (fun '((ng, b, f), e) => (ng, b, f, e)) (combine ds es))
  | _, _ => None
  end.
Fixpoint merge_mask {A} (m : list bool) (a b : list A) : list A :=
  match m with
  | [] => []
  | true :: m' => match a with x :: a' => x :: merge_mask m' a' b | [] => [] end
  | false :: m' => match b with y :: b' => y :: merge_mask m' a b' | [] => [] end
  end.
(* str_to_float: rows containing 'e' go through the scientific parser, the others through the decimal one.
   Result per row: (negative?, base, frac, exp) : value = ±base / 10^frac * 10^exp *)
Definition has_e (t : list Z) : bool := existsb (Z.eqb 101) t.
Definition str_to_float_gen (plus : bool) (texts : list (list Z)) : option (list (bool * Z * Z * Z)) :=
  let sci := map has_e texts in
  let a := mask_select sci texts in
  let b := mask_select (map negb sci) texts in
  match (match a with [] => Some [] | _ => scientific_rows plus a end),
        (match b with [] => Some [] | _ => decimal_rows plus b end) with
  | Some ra, Some rb => Some (merge_mask sci ra (map (fun '(ng, bs, f) => (ng, bs, f, 0)) rb))
  | _, _ => None
  end.
Definition str_to_float_rows_pinned := str_to_float_gen false.
Definition str_to_float_rows := str_to_float_gen true.
Definition model_frac (r : bool * Z * Z * Z) : Z * Z :=
  let '(ng, b, f, e) := r in frac_of ng b (e - f).

(* ====================================================================================== *)
(* The double-precision evaluation of str_to_float, in the order NumPy performs it         *)
(* ====================================================================================== *)
(* MODELLED ASSUMPTIONS (tested bit for bit by the correspondence, not provable from the Python source):
   (E1) +, *, / on float64 are IEEE-754 round-to-nearest-even of the exact result;
   (E2) the row sum `(digits*powers).sum(axis=-1)` is np.add.reduceat: first element + NumPy's pairwise_sum of the
        rest (plain loop from 0. below 8 elements; 8 running accumulators, then ((r0+r1)+(r2+r3))+((r4+r5)+(r6+r7)),
        then the leftover elements one by one, up to 128 elements);
   (E3) 10.**k on an integer array is a fixed function P of k on the running platform (NOT correctly rounded with
        this NumPy build: 10.**-5 = 9.999999999999999e-06); P is observed by the harness and handed to the model.
   A finite double is the dyadic number m * 2^e in canonical form: e <= 0, and e = 0 or m odd (so integers are (n, 0)). *)
Definition dy := (Z * Z)%type.
Definition canon (m e : Z) : dy :=
  if m =? 0 then (0, 0)
  else if 0 <=? e then (m * 2 ^ e, 0)
  else let t := Z.min (Z.log2 (Z.land m (- m))) (- e) in (m / 2 ^ t, e + t).
Definition dy_add (a b : dy) : dy :=
  let e := Z.min (snd a) (snd b) in canon (fst a * 2 ^ (snd a - e) + fst b * 2 ^ (snd b - e)) e.
Definition dy_mul (a b : dy) : dy := canon (fst a * fst b) (snd a + snd b).
(* |m| / 2^s rounded to nearest, ties to even; sign restored *)
Definition rne_shift (m s : Z) : Z :=
  let a := Z.abs m in let q := a / 2 ^ s in let r := a mod 2 ^ s in let h := 2 ^ (s - 1) in
  Z.sgn m * (if r <? h then q else if h <? r then q + 1 else if Z.even q then q else q + 1).
(* round a dyadic to binary64 (53 significant bits, smallest exponent -1074); unbounded above *)
Definition rnd (a : dy) : dy :=
  let '(m, e) := a in
  if m =? 0 then (0, 0)
  else let ue := Z.max (Z.log2 (Z.abs m) - 52 + e) (-1074) in
       if ue <=? e then (m, e) else canon (rne_shift m (ue - e)) ue.
Definition dadd (a b : dy) : dy := rnd (dy_add a b).
Definition dmul (a b : dy) : dy := rnd (dy_mul a b).
(* correctly rounded quotient: 55+ quotient bits and a sticky bit, then one rounding *)
Definition ddiv (a b : dy) : dy :=
  let '(m1, e1) := a in let '(m2, e2) := b in
  if (m1 =? 0) || (m2 =? 0) then (0, 0)
  else let k := Z.max 0 (56 + Z.log2 (Z.abs m2) - Z.log2 (Z.abs m1)) in
       let n := Z.abs m1 * 2 ^ k in
       let q := n / Z.abs m2 in let sticky := if n mod Z.abs m2 =? 0 then 0 else 1 in
       rnd (canon (Z.sgn m1 * Z.sgn m2 * (2 * q + sticky)) (e1 - e2 - k - 1)).

(* NumPy pairwise_sum (loops_utils.h.src), rows of at most 128 elements; None beyond *)
Fixpoint map2_dadd (r a : list dy) : list dy :=
  match r, a with x :: r', y :: a' => dadd x y :: map2_dadd r' a' | _, _ => r end.
Fixpoint acc_blocks (fuel : nat) (r rest : list dy) : list dy * list dy :=
  match fuel with
  | O => (r, rest)
  | S f => if (8 <=? length rest)%nat then acc_blocks f (map2_dadd r (firstn 8 rest)) (skipn 8 rest) else (r, rest)
  end.
Definition tree8 (r : list dy) : dy :=
  match r with
  | [r0; r1; r2; r3; r4; r5; r6; r7] => dadd (dadd (dadd r0 r1) (dadd r2 r3)) (dadd (dadd r4 r5) (dadd r6 r7))
  | _ => (0, 0)
  end.
Definition pairwise_sum (a : list dy) : option dy :=
  if (length a <? 8)%nat then Some (fold_left dadd a (0, 0))
  else if (length a <=? 128)%nat then
    let '(r, rest) := acc_blocks (length a) (firstn 8 a) (skipn 8 a) in Some (fold_left dadd rest (tree8 r))
  else None.
(* np.add.reduceat over one row *)
Definition reduce_row (terms : list dy) : option dy :=
  match terms with
  | [] => Some (0, 0)
  | [t] => Some t
  | t :: rest => option_map (dadd t) (pairwise_sum rest)
  end.

(* ---- the decomposition of a float text the evaluation works on: per row
        (negative?, digits, their exponents, number of digits after the point, exponent after 'e' if any) ---- *)
Definition pre_row := (bool * list Z * list Z * Z * option Z)%type.
Definition decimal_pre (plus : bool) (texts : list (list Z)) : option (list (bool * list Z * list Z * Z)) :=
  match encode_rows (map (dec_prepare plus) texts) with
  | None => None
  | Some digs =>
      let pw := power_rows (map (fun t => (len t, dot_cols t)) texts) in
      Some (map (fun '(t, ds, ps) =>
                   (head_is 45 t, ds, ps, match rev (dot_cols t) with c :: _ => m_frac_digits (len t) c | [] => 0 end))
                (zip3 texts digs pw))
  end.
Definition scientific_pre (plus : bool) (texts : list (list Z)) : option (list pre_row) :=
  let parts := map (split_first 101) texts in
  match decimal_pre plus (map fst parts), str_to_int_rows (map exp_part parts) with
  | Some ds, Some es => Some (map (fun '((ng, d, p, f), e) => (ng, d, p, f, Some e)) (combine ds es))
  | _, _ => None
  end.
Definition float_pre (plus : bool) (texts : list (list Z)) : option (list pre_row) :=
  let sci := map has_e texts in
  let a := mask_select sci texts in
  let b := mask_select (map negb sci) texts in
  match (match a with [] => Some [] | _ => scientific_pre plus a end),
        (match b with [] => Some [] | _ => decimal_pre plus b end) with
  | Some ra, Some rb => Some (merge_mask sci ra (map (fun '(ng, d, p, f) => (ng, d, p, f, @None Z)) rb))
  | _, _ => None
  end.
(* exact-rational reading of a decomposed row: the same (neg, base, frac, exp) str_to_float_gen returns *)
Definition exact_of_pre (r : pre_row) : bool * Z * Z * Z :=
  let '(ng, d, p, f, e) := r in (ng, dotp d (map (Z.pow 10) p), f, match e with Some v => v | None => 0 end).

(* ---- double evaluation of a decomposed row, given the platform's power function P ---- *)
Fixpoint all_some {A} (l : list (option A)) : option (list A) :=
  match l with
  | [] => Some []
  | Some x :: r => option_map (cons x) (all_some r)
  | None :: _ => None
  end.
Definition dbl_terms (P : Z -> option dy) (ds ps : list Z) : option (list dy) :=
  all_some (map (fun '(d, p) => option_map (fun pw => dmul (d, 0) pw) (P p)) (combine ds ps)).
Definition dbl_base (P : Z -> option dy) (ds ps : list Z) : option dy :=
  match dbl_terms P ds ps with Some ts => reduce_row ts | None => None end.
Definition eval_row (P : Z -> option dy) (r : pre_row) : option (bool * dy) :=
  let '(ng, ds, ps, f, e) := r in
  match dbl_base P ds ps, P f with
  | Some base, Some pf =>
      let num := if ng then (- fst base, snd base) else base in      (* signs*base_numbers: exact *)
      let dec := ddiv num pf in                                      (* / 10.**exponents *)
      match e with
      | None => Some (ng, dec)
      | Some ev => option_map (fun pe => (ng, dmul dec pe)) (P ev)    (* * 10.**powers *)
      end
  | _, _ => None
  end.
Definition str_to_float_double (P : Z -> option dy) (plus : bool) (texts : list (list Z)) : option (list (bool * dy)) :=
  match float_pre plus texts with
  | None => None
  | Some rows => all_some (map (eval_row P) rows)
  end.
(* does a 64-bit pattern hold the model's result?  (overflow -> infinity; zero keeps the text's sign) *)
Definition dbl_matches (bits : Z) (r : bool * dy) : bool :=
  let '(ng, (m, e)) := r in
  if m =? 0 then bits =? (if ng then 2 ^ 63 else 0)
  else if (e =? 0) && (2 ^ 1024 <=? Z.abs m) then dbl_is_inf bits && Bool.eqb (dbl_sign bits) (m <? 0)
  else dbl_finite bits
       && (let '(m', e') := canon ((if dbl_sign bits then -1 else 1) * dbl_m bits) (dbl_e bits) in (m' =? m) && (e' =? e)).
(* the observed power table: (k, bits of 10.**k) *)
Definition pow_of_table (tbl : list (Z * Z)) (k : Z) : option dy :=
  match find (fun kv => fst kv =? k) tbl with
  | Some kv => if dbl_finite (snd kv) then Some (canon (dbl_m (snd kv)) (dbl_e (snd kv))) else None
  | None => None
  end.

(* ====================================================================================== *)
(* Malformed texts: which exception, reported at which row                                  *)
(* ====================================================================================== *)
(* outcome of a parser call: values, EncodingError reported at a row of the batch, or another exception
   (ValueError from indexing an empty row, from mis-shaped slices, ...) *)
Inductive pres (A : Type) : Type := POk (x : A) | PEnc (row : Z) | POther.
Arguments POk {A} x. Arguments PEnc {A} row. Arguments POther {A}.
Fixpoint find_index {A} (p : A -> bool) (l : list A) (i : Z) : option Z :=
  match l with [] => None | x :: r => if p x then Some i else find_index p r (i + 1) end.
(* the row a flat offset lies in: np.searchsorted(np.cumsum(lengths), offset, side="right") *)
Definition row_of_offset (lens : list Z) (o : Z) : Z := len (filter (fun c => c <=? o) (cumsum lens)).
Definition first_bad_char (ts : list (list Z)) : option Z :=
  find_index (fun c => match digit_code c with None => true | Some _ => false end) (concat ts) 0.
Definition is_empty (t : list Z) : bool := len t =? 0.
Definition signed (t : list Z) : bool := head_is 45 t || head_is 43 t.
Definition sign_only (t : list Z) : bool := signed t && (len t =? 1).
(* str_to_int (strops.py, after 4a1f4c0): indexing column 0 of an empty row fails first; then a sign without digits
   is reported at the first such row; then the digit encoder reports the first bad byte of the whole flat text *)
Definition str_to_int_res (texts : list (list Z)) : pres (list Z) :=
  match texts with
  | [] => POk []
  | _ =>
    if existsb is_empty texts then POther
    else match find_index sign_only texts 0 with
         | Some r => PEnc r
         | None =>
           match first_bad_char (map strip_sign texts) with
           | Some o => PEnc (row_of_offset (map len texts) o)
           | None => match str_to_int_rows texts with Some vs => POk vs | None => POther end
           end
         end
  end.
(* _decimal_str_to_float: empty row -> ValueError; more than one '.', then no digit at all, then a bad byte *)
Definition dec_err (texts : list (list Z)) : pres unit :=
  if existsb is_empty texts then POther
  else match find_index (fun t => 1 <? len (dot_cols t)) texts 0 with
       | Some r => PEnc r
       | None =>
         match find_index (fun t => len t - len (dot_cols t) - b2z (signed t) <=? 0) texts 0 with
         | Some r => PEnc r
         | None => match first_bad_char (map (dec_prepare true) texts) with
                   | Some o => PEnc (row_of_offset (map len texts) o)
                   | None => POk tt
                   end
         end
       end.
Definition int_err (texts : list (list Z)) : pres unit :=
  match str_to_int_res texts with POk _ => POk tt | PEnc r => PEnc r | POther => POther end.
(* _scientific_str_to_float: np.nonzero(text == 'e') must give one column per row, else the slices are mis-shaped *)
Definition sci_err (texts : list (list Z)) : pres unit :=
  if existsb (fun t => negb (count_eq 101 t =? 1)) texts then POther
  else let parts := map (split_first 101) texts in
       match dec_err (map fst parts) with
       | POk _ => int_err (map exp_part parts)
       | e => e
       end.
Definition float_batch_err (texts : list (list Z)) : pres unit :=
  let sci := map has_e texts in
  let a := mask_select sci texts in
  let b := mask_select (map negb sci) texts in
  match (match a with [] => POk tt | _ => sci_err a end) with
  | POk _ => (match b with [] => POk tt | _ => dec_err b end)
  | e => e
  end.
(* str_to_float (after a4c97df): on an EncodingError of a batch of several rows, the rows are parsed one by one and the
   first one that raises EncodingError is reported; any other exception met on the way propagates *)
Fixpoint first_failing_row (texts : list (list Z)) (i : Z) : pres unit :=
  match texts with
  | [] => POther
  | t :: r => match float_batch_err [t] with
              | POk _ => first_failing_row r (i + 1)
              | PEnc _ => PEnc i
              | POther => POther
              end
  end.
Definition str_to_float_err (texts : list (list Z)) : pres unit :=
  match float_batch_err texts with
  | POk _ => POk tt
  | POther => POther
  | PEnc _ => if len texts =? 1 then PEnc 0 else first_failing_row texts 0
  end.

(* ---- the same outcomes after the proposed repair notes/C18.fix-3.diff: every malformed text raises EncodingError, and a
        batch is re-parsed row by row on the error path, so the error is reported at the first row that does not parse ---- *)
Definition int_text_ok (t : list Z) : bool :=
  negb (is_empty t) && negb (sign_only t)
  && match first_bad_char [strip_sign t] with None => true | Some _ => false end.
Definition dec_text_ok (t : list Z) : bool :=
  negb (is_empty t) && (len (dot_cols t) <=? 1) && (0 <? len t - len (dot_cols t) - b2z (signed t))
  && match first_bad_char [dec_prepare true t] with None => true | Some _ => false end.
Definition float_text_ok (t : list Z) : bool :=
  if has_e t then (count_eq 101 t =? 1)
                  && (let p := split_first 101 t in dec_text_ok (fst p) && int_text_ok (exp_part p))
  else dec_text_ok t.
Definition str_to_int_res_fixed (texts : list (list Z)) : pres (list Z) :=
  match find_index (fun t => negb (int_text_ok t)) texts 0 with
  | Some r => PEnc r
  | None => match str_to_int_rows texts with Some vs => POk vs | None => POther end
  end.
Definition str_to_float_err_fixed (texts : list (list Z)) : pres unit :=
  match find_index (fun t => negb (float_text_ok t)) texts 0 with Some r => PEnc r | None => POk tt end.


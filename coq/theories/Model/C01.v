(* Model/C01.v — the chunked reader (bionumpy/io/parser.py NumpyFileReader.read_chunk / read_chunks)
   and the per-format cut functions (delimited_buffers.py:52-83, one_line_buffer.py:36-71,155-173,
   fastq_buffer.py:38-45, multiline_buffer.py:33-44,89-103).  Executable definitions only. *)
From Coq Require Import ZArith List Bool Arith.
From BNP Require Import Base.Prims.
Import ListNotations.
Open Scope Z_scope.

(* ---------- formats ---------- *)
Inductive fmt :=
| Delim (sep : Z)                              (* one record per line, fields separated by sep: BED, VCF, SAM ... *)
| OneLine (n : nat) (hdr : Z) (plus : bool)    (* n lines per record, first byte hdr; FASTQ also checks '+' *)
| MultiFasta.                                  (* wrapped FASTA: record = '>' line + sequence lines *)

Definition TwoLineFasta := OneLine 2 62 false.
Definition FastQ := OneLine 4 64 true.

(* bytes appended when the end of the file is reached: a missing final line break, then the
   new-entry marker for formats that declare one (parser.py:191-198) *)
Definition marker (f : fmt) : list Z := match f with MultiFasta => [62] | _ => [] end.
Definition add_term (f : fmt) (chunk : list Z) : list Z :=
  (if last chunk 0 =? 10 then chunk else chunk ++ [10]) ++ marker f.
Definition terminator (f : fmt) (file : list Z) : list Z :=
  (if last file 0 =? 10 then [] else [10]) ++ marker f.

(* end of file (parser.py __check_nothing_left, repaired code): what follows the last complete entry may only be
   white space (space, TAB, CR, LF) or the new-entry marker of the format; anything else is an entry cut short *)
Definition ignorable (f : fmt) (c : Z) : bool :=
  (c =? 32) || (c =? 9) || (c =? 13) || (c =? 10) || existsb (Z.eqb c) (marker f).
Definition leftover_ok (f : fmt) (l : list Z) : bool := forallb (ignorable f) l.

Definition nl_pos (l : list Z) : list Z := positions 10 l.
Definition count_nl (l : list Z) : nat := length (nl_pos l).

Inductive cutres :=
| CutOk (size : nat) (nlines : nat)     (* buffer = first size bytes; n_lines it reports *)
| CutIncomplete                         (* IncompleteEntryException *)
| CutRaise                              (* some other exception (no newline, assertion) *)
| CutFormat (line : nat).               (* FormatException(line_number) *)

Fixpoint find_first_bad (test : Z -> bool) (idxs : list Z) (i : nat) : option nat :=
  match idxs with
  | [] => None
  | x :: r => if test x then find_first_bad test r (S i) else Some i
  end.
(* elements k, k+n, k+2n, ... of l that lie at index < stop *)
Fixpoint strided (l : list Z) (k n : nat) (stop : nat) (i : nat) : list Z :=
  match l with
  | [] => []
  | x :: r => if (i <? stop)%nat && (k <=? i)%nat && (((i - k) mod n) =? 0)%nat then x :: strided r k n stop (S i)
              else strided r k n stop (S i)
  end.

(* ---- named decision rules and arithmetic: Bridge/C01.v proves that the definitions regenerated from /repo on
   every run (Gen/C01.v, by translate/gen_c01.py) are equal to these ---- *)
Definition m_is_finished (n_read k : nat) : bool := (n_read <? k)%nat.          (* parser.py _get_buffer *)
Definition m_oneline_incomplete (cnt n : nat) : bool := (cnt <? n)%nat.          (* one_line_buffer.from_raw_buffer *)
Definition m_oneline_kept (cnt n : nat) : nat := (cnt - cnt mod n)%nat.
Definition m_size_after (last_nl : Z) : nat := Z.to_nat (last_nl + 1).           (* new_lines[-1] + 1 *)
Definition m_header_line (i n : nat) : nat := ((i + 1) * n)%nat.                 (* _validate *)
Definition m_plus_line (j n : nat) : nat := (2 + j * n)%nat.                     (* FastQBuffer._validate *)
Definition m_reported (local_line lines_before : nat) : nat := (local_line + lines_before)%nat.
Definition m_lines_after (lines_before buff_lines : nat) : nat := (lines_before + buff_lines)%nat.
(* the line reported for an entry cut short at the end of the file: after a delivered buffer it is the line after
   that buffer (n_lines_read is increased only afterwards); for text that never became a buffer, the lines read so far *)
Definition m_incomplete_line (lines_before buff_lines : nat) : nat := (lines_before + buff_lines)%nat.
Definition m_pending_incomplete_line (lines_before : nat) : nat := lines_before.

Definition m_plus_wins (plus_line header_line : nat) : bool := (plus_line <? header_line)%nat.  (* FastQBuffer._validate *)

(* OneLineBuffer._validate: the first record that does not start with the marker (kept = the line breaks of
   the buffer, data = the buffer, m = number of kept line breaks) *)
Definition m_header_fail (n : nat) (hdr : Z) (kept data : list Z) (m : nat) : option nat :=
  if negb (nthZ data 0 =? hdr) then Some 0%nat
  else
    (* new_lines[n-1:-1:n] + 1 : first byte of every later record *)
    let hidx := map (fun p => p + 1) (strided kept (n - 1) n (m - 1) 0) in
    match find_first_bad (fun p => nthZ data p =? hdr) hidx 0 with
    | Some i => Some (m_header_line i n)
    | None => None
    end.
(* FastQBuffer._validate: the first record whose third line does not start with '+' *)
Definition m_plus_fail (n : nat) (plus : bool) (kept data : list Z) (m : nat) : option nat :=
  if plus then
    let pidx := map (fun p => p + 1) (strided kept 1 n m 0) in
    match find_first_bad (fun p => nthZ data p =? 43) pidx 0 with
    | Some j => Some (m_plus_line j n)
    | None => None
    end
  else None.
(* which of the two is raised (fastq_buffer.py, repaired): the '+' violation if there is no header violation
   or it lies on an earlier line, otherwise the header violation *)
Definition m_first_fail (P H : option nat) : option nat :=
  match P, H with
  | Some p, None => Some p
  | Some p, Some h => if m_plus_wins p h then Some p else Some h
  | None, _ => H
  end.

Definition cut (f : fmt) (chunk : list Z) : cutres :=
  match f with
  | Delim sep =>
      (* delimiters = positions of sep or newline; n_fields from the first line; reshape(-1, n_fields) *)
      let delims := flatnonzero (map (fun c => (c =? 10) || (c =? sep)) chunk) in
      let nls := nl_pos chunk in
      match nls with
      | [] => CutRaise
      | first_nl :: _ =>
          let last_nl := last nls 0 in
          let used := length (filter (fun p => p <=? last_nl) delims) in
          let n_fields := length (filter (fun p => p <=? first_nl) delims) in
          if (used mod n_fields =? 0)%nat then CutOk (m_size_after last_nl) (used / n_fields)
          else CutRaise
      end
  | OneLine n hdr plus =>
      let nls := nl_pos chunk in
      let cnt := length nls in
      if m_oneline_incomplete cnt n then CutIncomplete
      else
        let m := m_oneline_kept cnt n in
        let kept := firstn m nls in
        let size := m_size_after (last kept 0) in
        let data := firstn size chunk in
        match m_first_fail (m_plus_fail n plus kept data m) (m_header_fail n hdr kept data m) with
        | Some l => CutFormat l
        | None => CutOk size m
        end
  | MultiFasta =>
      if negb (nthZ chunk 0 =? 62) then CutRaise
      else
        let nls := nl_pos (removelast chunk) in
        let ents := filter (fun p => nthZ chunk (p + 1) =? 62) nls in
        match ents with
        | [] => CutRaise
        | _ => let e := last ents 0 in
               CutOk (Z.to_nat (e + 1)) (length (filter (fun p => p <? e) nls))
        end
  end.

(* the order of the checks before the repair (all markers first, then the '+' lines): kept for one refutation *)
Definition cut_pinned (f : fmt) (chunk : list Z) : cutres :=
  match f with
  | OneLine n hdr plus =>
      let nls := nl_pos chunk in
      let cnt := length nls in
      if m_oneline_incomplete cnt n then CutIncomplete
      else
        let m := m_oneline_kept cnt n in
        let kept := firstn m nls in
        let size := m_size_after (last kept 0) in
        let data := firstn size chunk in
        if negb (nthZ data 0 =? hdr) then CutFormat 0
        else
          (* new_lines[n-1:-1:n] + 1 : first byte of every later record *)
          let hidx := map (fun p => p + 1) (strided kept (n - 1) n (m - 1) 0) in
          match find_first_bad (fun p => nthZ data p =? hdr) hidx 0 with
          | Some i => CutFormat (m_header_line i n)
          | None =>
              if plus then
                let pidx := map (fun p => p + 1) (strided kept 1 n m 0) in
                match find_first_bad (fun p => nthZ data p =? 43) pidx 0 with
                | Some j => CutFormat (m_plus_line j n)
                | None => CutOk size m
                end
              else CutOk size m
          end
  | _ => cut f chunk
  end.

Inductive compres := CYes | CNo | CFormat (line : nat).

Fixpoint mf_complete (ends_nl : bool) (chunks : list (list Z)) : bool :=
  match chunks with
  | [] => false
  | c :: rest =>
      let nls := nl_pos (removelast c) in
      if existsb (fun p => nthZ c (p + 1) =? 62) nls then true
      else if ends_nl && (nthZ c 0 =? 62) then true
      else mf_complete (last c 0 =? 10) rest
  end.

Definition complete (f : fmt) (temp : list (list Z)) : compres :=
  match f with
  | Delim _ => if (1 <=? fold_right (fun c a => count_nl c + a) 0 temp)%nat then CYes else CNo
  | OneLine n _ _ =>
      match temp with
      | [c] => match cut f c with
               | CutOk _ _ => CYes
               | CutIncomplete => CNo
               | CutFormat l => CFormat l
               | CutRaise => CNo
               end
      | _ => if (n <=? fold_right (fun c a => count_nl c + a) 0 temp)%nat then CYes else CNo
      end
  | MultiFasta => if mf_complete false temp then CYes else CNo
  end.

(* ---------- reader state machine ---------- *)
Inductive mode := Seek | Prepend.
Record rstate := { r_pos : nat; r_prepend : list Z; r_finished : bool; r_lines : nat }.
Definition rinit := {| r_pos := 0; r_prepend := []; r_finished := false; r_lines := 0 |}.

(* accumulate raw reads until the format says a complete entry is present (parser.py:131-150).
   [fixed] selects the repaired end-of-file handling (commit "fix: read_chunk no longer drops ...");
   fixed = false is the code at the pinned commit (it also selects the end-of-file check of read_chunk below,
   commit "fix: an entry cut short at the end of the file ...").  [app] collects the bytes appended at end of file.
   Result: inl (Some (temp, pos, finished, appended)) when an entry is complete;
           inl (None, pending, appended) when read_chunk returns None: [pending] are bytes that were
           read (or carried over) but are not delivered. *)
Inductive accres :=
| AComplete (temp : list (list Z)) (pos : nat) (fin : bool) (app : list Z)
| ANone (pending : list Z) (app : list Z)
| AFormat (line : nat)
| AOutOfFuel.

Fixpoint accumulate (fixed : bool) (fuel : nat) (f : fmt) (k : nat) (file : list Z) (lines0 : nat)
         (pos : nat) (temp : list (list Z)) (reached_end : bool) (app : list Z) : accres :=
  match fuel with
  | O => AOutOfFuel
  | S fuel' =>
      let raw := firstn k (skipn pos file) in
      let pos' := (pos + length raw)%nat in
      let fin := m_is_finished (length raw) k in
      match raw with
      | [] =>
          if (negb fixed) || reached_end || (match temp with [] => true | _ => false end)
          then ANone (concat temp) app
          else
            let pending := concat temp in
            let chunk := add_term f pending in
            let temp' := [chunk] in
            let app' := app ++ terminator f pending in
            match complete f temp' with
            | CFormat l => AFormat (m_reported l lines0)
            | CYes => AComplete temp' pos' true app'
            | CNo => accumulate fixed fuel' f k file lines0 pos' temp' true app'
            end
      | _ =>
          let chunk := if fin then add_term f raw else raw in
          let temp' := temp ++ [chunk] in
          let app' := if fin then app ++ terminator f raw else app in
          match complete f temp' with
          | CFormat l => AFormat (m_reported l lines0)
          | CYes => AComplete temp' pos' fin app'
          | CNo => accumulate fixed fuel' f k file lines0 pos' temp' reached_end app'
          end
      end
  end.

Inductive chunkres :=
| RChunk (bytes : list Z) (dropped : list Z) (appended : list Z) (st : rstate)
| RNone (dropped : list Z) (appended : list Z) (st : rstate)
| RFormat (line : nat)                    (* FormatException with the global line number *)
| RError                                  (* any other exception *)
| ROutOfFuel.

Definition read_chunk (fixed : bool) (f : fmt) (m : mode) (k : nat) (file : list Z) (st : rstate) : chunkres :=
  let temp0 := match r_prepend st with [] => [] | p => [p] end in
  match accumulate fixed (length file + 2) f k file (r_lines st) (r_pos st) temp0 false [] with
  | AOutOfFuel => ROutOfFuel
  | AFormat l => RFormat l
  | ANone pending app =>
      (* repaired code: text that was read but never became a buffer must be ignorable (parser.py case "return None") *)
      if fixed && negb (leftover_ok f pending) then RFormat (m_pending_incomplete_line (r_lines st))
      else RNone pending app {| r_pos := length file; r_prepend := []; r_finished := true; r_lines := r_lines st |}
  | AComplete temp pos' fin appended =>
      let chunk := concat temp in
      match cut f chunk with
      | CutFormat l => RFormat (m_reported l (r_lines st))
      | CutIncomplete | CutRaise => RError
      | CutOk size nl =>
          let buff := firstn size chunk in
          let rest := skipn size chunk in
          let st' :=
            if fin then {| r_pos := pos'; r_prepend := []; r_finished := true; r_lines := m_lines_after (r_lines st) nl |}
            else match m with
                 | Seek => {| r_pos := pos' - length rest; r_prepend := []; r_finished := false; r_lines := m_lines_after (r_lines st) nl |}
                 | Prepend => {| r_pos := pos'; r_prepend := rest; r_finished := false; r_lines := m_lines_after (r_lines st) nl |}
                 end in
          (* repaired code: at the end of the file what follows the buffer must be ignorable *)
          if fixed && fin && negb (leftover_ok f rest) then RFormat (m_incomplete_line (r_lines st) nl)
          else RChunk buff (if fin then rest else []) appended st'
      end
  end.

Inductive runres :=
| Done (chunks : list (list Z)) (dropped : list Z) (appended : list Z) (lines : nat)
| FormatError (line : nat) (chunks : list (list Z))
| OtherError (chunks : list (list Z))
| OutOfFuel.

(* NumpyFileReader.read_chunks: `while not finished: chunk = read_chunk(); if None: break; yield` *)
Fixpoint read_chunks_loop (fixed : bool) (fuel : nat) (f : fmt) (m : mode) (k : nat) (file : list Z)
         (st : rstate) (acc : list (list Z)) : runres :=
  match fuel with
  | O => OutOfFuel
  | S fuel' =>
      if r_finished st then Done (rev acc) [] [] (r_lines st)
      else match read_chunk fixed f m k file st with
           | RNone dropped appended st' => Done (rev acc) dropped appended (r_lines st')
           | RChunk b dropped appended st' =>
               if r_finished st' then Done (rev (b :: acc)) dropped appended (r_lines st')
               else read_chunks_loop fixed fuel' f m k file st' (b :: acc)
           | RFormat l => FormatError l (rev acc)
           | RError => OtherError (rev acc)
           | ROutOfFuel => OutOfFuel
           end
  end.
Definition read_chunks (fixed : bool) (f : fmt) (m : mode) (k : nat) (file : list Z) : runres :=
  read_chunks_loop fixed (length file + 2) f m k file rinit [].

(* ---------- specification ---------- *)
Definition normalise (f : fmt) (file : list Z) : list Z :=
  match file with [] => [] | _ => file ++ terminator f file end.
(* whole-file read (parser.py read()): one buffer cut from the terminated file *)
Definition read_whole (f : fmt) (file : list Z) : cutres :=
  match file with [] => CutRaise | _ => cut f (add_term f file) end.

(* Model/C03.v — writing tables: canonical serialisation (Spec) and the library's writers (Model).
   Mirrors bionumpy/io/strops.py (ints_to_strings, int_lists_to_strings), io/dump_csv.py (get_column,
   join_columns), io/one_line_buffer.py + io/fastq_buffer.py (join_fields), io/multiline_buffer.py
   (MultiLineFastaBuffer.from_data), io/vcf_buffers.py (POS+1, make_header), io/parser.py
   (NpBufferedWriter.write) and io/files.py (mode selection).
   Executable definitions only; proofs live in Proofs/C03*.v. *)
From Coq Require Import ZArith List Bool.
From BNP Require Import Base.Prims.
Import ListNotations.
Open Scope Z_scope.

(* =====================================================================================
   PART A — SPECIFICATION: what the file must contain, independent of how it is produced
   ===================================================================================== *)

(* a cell of a table, by the declared type of its column *)
Inductive fld :=
| FS (s : list Z)                    (* text: str / SequenceID / alphabet-encoded columns, as decoded text *)
| FI (n : Z)                         (* int *)
| FL (l : list Z)                    (* List[int], written comma separated *)
| FQ (q : list Z)                    (* phred qualities, written as bytes q+33 *)
| FF (txt : list Z) (num den : Z).   (* float: the printer's text (Python str(float), opaque) and its exact value num/den *)
Definition row := list fld.

(* canonical decimal numeral of an integer: optional '-', no leading zeros, "0" for zero.
   [dec_fuel] peels digits from the right; the fuel (bit length + 1) always suffices; running out
   of it would emit '?' (63), which is not a digit. *)
Fixpoint dec_fuel (fuel : nat) (m : Z) (acc : list Z) : list Z :=
  match fuel with
  | O => 63 :: acc
  | S f => let acc' := (48 + m mod 10) :: acc in
           if m <? 10 then acc' else dec_fuel f (m / 10) acc'
  end.
Definition dec_nat (m : Z) : list Z := dec_fuel (S (Z.to_nat (Z.log2 m))) m [].
Definition dec (n : Z) : list Z := if n <? 0 then 45 :: dec_nat (- n) else dec_nat n.

Definition print_fld (f : fld) : list Z :=
  match f with
  | FS s => s
  | FI n => dec n
  | FL l => intercalate [44] (map dec l)
  | FQ q => map (fun x => x + 33) q
  | FF t _ _ => t
  end.

(* VcfU: a VCF table whose INFO column has the declared type Union[BNPDataClass, str] (VCFEntry built in
   memory); VcfL: a VCF table read lazily from a canonical file and not modified (its records are passed
   through as the text they were read from — the extraction itself is property C04).  Same file format. *)
(* DelimL: a delimited table (BED, BedGraph, ...) read lazily from a canonical file, then sliced / masked / re-ordered /
   np.concatenate'd but not modified: its records are passed through as the text they were read from *)
(* Sam: a SAMEntry table (eleven typed columns + the optional tags as one rest-of-line text cell) *)
Inductive fmt := Delim | DelimL | Sam | Vcf | VcfU | VcfL | Fasta (w : Z) | Fastq.

(* sequence text in lines of w characters, every line terminated by LF *)
Fixpoint wrap_fuel (fuel : nat) (w : nat) (s : list Z) : list Z :=
  match fuel with
  | O => []
  | S f => match s with
           | [] => []
           | _ => firstn w s ++ [10] ++ wrap_fuel f w (skipn w s)
           end
  end.
Definition wrap (w : Z) (s : list Z) : list Z := wrap_fuel (length s) (Z.to_nat w) s.

(* VCF stores POS 0-based in the table and 1-based in the file *)
Definition vcf_shift (d : Z) (r : row) : row :=
  match r with c :: FI p :: rest => c :: FI (p + d) :: rest | _ => r end.
Definition ser_delim (r : row) : list Z := intercalate [9] (map print_fld r) ++ [10].
(* SAM: the optional tags are the last cell; when it is empty the line ends after the cell before it — no TAB
   (SAM-standard spelling; both write paths since /repo 81bde1f) *)
Definition ser_sam (r : row) : list Z :=
  let texts := map print_fld r in
  match last texts [0] with
  | [] => intercalate [9] (removelast texts) ++ [10]
  | _ => intercalate [9] texts ++ [10]
  end.
Definition ser_row (f : fmt) (r : row) : list Z :=
  match f with
  | Delim | DelimL => ser_delim r
  | Sam => ser_sam r
  | Vcf | VcfU | VcfL => ser_delim (vcf_shift 1 r)
  | Fasta w => match r with
               | [n; s] => [62] ++ print_fld n ++ [10] ++ wrap w (print_fld s)
               | _ => []
               end
  | Fastq => match r with
             | [n; s; q] => [64] ++ print_fld n ++ [10] ++ print_fld s ++ [10; 43; 10] ++ print_fld q ++ [10]
             | _ => []
             end
  end.
Definition serialise (f : fmt) (rows : list row) : list Z := concat (map (ser_row f) rows).

(* a history of writing: sessions (one bnp.open(path, 'w'|'a') each) of write calls; a call passes one
   table, or a stream of tables *)
Record call := { c_stream : bool; c_chunks : list (list row) }.
Record session := { s_append : bool; s_calls : list call }.
Definition rows_of_call (c : call) : list row := concat (c_chunks c).
Definition rows_of_session (s : session) : list row := concat (map rows_of_call (s_calls s)).
Definition rows_of_hist (h : list session) : list row := concat (map rows_of_session h).
(* the header appears exactly once, first, when the history starts by creating the file and passes at
   least one table (possibly empty) to it; appending never adds one *)
Definition spec_header (header : list Z) (h : list session) : list Z :=
  match h with
  | s :: _ => if s_append s then []
              else if existsb (fun c => match c_chunks c with [] => false | _ => true end) (s_calls s) then header
              else []
  | [] => []
  end.
Definition spec_file (f : fmt) (header : list Z) (h : list session) : list Z :=
  spec_header header h ++ serialise f (rows_of_hist h).

Definition nonempty {A} (l : list A) : bool := match l with [] => false | _ => true end.

(* ---- reference reader for canonical files (what "reading the file back" means) ---- *)
Fixpoint parse_nat_acc (acc : Z) (s : list Z) : option Z :=
  match s with
  | [] => Some acc
  | c :: r => if (48 <=? c) && (c <=? 57) then parse_nat_acc (10 * acc + (c - 48)) r else None
  end.
Definition parse_int (s : list Z) : option Z :=
  match s with
  | [] => None
  | c :: r => if c =? 45
              then match r with [] => None | _ => option_map Z.opp (parse_nat_acc 0 r) end
              else parse_nat_acc 0 s
  end.
Fixpoint all_some {A} (l : list (option A)) : option (list A) :=
  match l with
  | [] => Some []
  | Some x :: r => option_map (cons x) (all_some r)
  | None :: _ => None
  end.
(* column kinds: 0 text, 1 int, 2 int list, 3 float, 4 qualities, 5 text = rest of the line (SAM tags),
   6 identifier text (SequenceID) *)
(* [pf] reads the text of a float cell as an exact rational (num, den); it is a PARAMETER: float text is
   produced by an opaque printer (Python str(float)), see the round-trip hypothesis of C03_parse_serialise_floats *)
Definition parse_fld_with (pf : list Z -> option (Z * Z)) (k : Z) (t : list Z) : option fld :=
  if k =? 1 then option_map FI (parse_int t)
  else if k =? 2 then match t with [] => Some (FL []) | _ => option_map FL (all_some (map parse_int (split_on 44 t))) end
  else if k =? 3 then match pf t with Some (n, d) => Some (FF t n d) | None => None end
  else if k =? 4 then Some (FQ (map (fun c => c - 33) t))
  else Some (FS t).
(* a schema ending in kind 5 takes the rest of the line (SAM optional tags, TABs included) as one text cell;
   when the line ends before that column (SAM-standard spelling of "no tags": no trailing TAB) the cell is empty *)
Fixpoint parse_fields_with (pf : list Z -> option (Z * Z)) (schema : list Z) (fs : list (list Z)) : option row :=
  match schema, fs with
  | [], [] => Some []
  | k :: ks, f :: fs' =>
      if (k =? 5) && negb (nonempty ks) then Some [FS (intercalate [9] fs)]
      else match parse_fld_with pf k f, parse_fields_with pf ks fs' with
           | Some x, Some r => Some (x :: r)
           | _, _ => None
           end
  | k :: ks, [] => if (k =? 5) && negb (nonempty ks) then Some [FS []] else None
  | _, _ => None
  end.
Definition parse_line_with pf (schema : list Z) (l : list Z) : option row := parse_fields_with pf schema (split_on 9 l).
(* the instance used by the correspondence: float values are not recomputed from the text (compared loosely) *)
Definition no_float_value : list Z -> option (Z * Z) := fun _ => Some (0, 1).
Definition parse_fld := parse_fld_with no_float_value.
Definition parse_fields := parse_fields_with no_float_value.
Definition parse_line := parse_line_with no_float_value.
Definition is_comment (l : list Z) : bool := match l with c :: _ => c =? 35 | [] => false end.
(* the header is the run of '#' lines at the START of the file; a later '#' line is taken for a record *)
Fixpoint drop_comments (ls : list (list Z)) : list (list Z) :=
  match ls with
  | l :: r => if is_comment l then drop_comments r else ls
  | [] => []
  end.
(* FASTA: a header line opens a record, the following lines are concatenated.  A record without any
   sequence line is outside the reader's domain (None). *)
(* SWITCH: false = the reader as it is (IndexError on a record without sequence lines); true = repaired
   MultiLineFastaBuffer.get_data (notes/C03.fix-3.diff) *)
Definition reader_reads_empty_fasta_record := true.
Definition close_rec (cur : option (list Z * list Z * bool)) : option (list row) :=
  match cur with
  | None => Some []
  | Some (n, s, true) => Some [[FS n; FS s]]
  | Some (n, s, false) => if reader_reads_empty_fasta_record then Some [[FS n; FS s]] else None
  end.
Fixpoint parse_fasta (cur : option (list Z * list Z * bool)) (ls : list (list Z)) : option (list row) :=
  match ls with
  | [] => close_rec cur
  | l :: rest =>
      match l with
      | c :: n =>
          if c =? 62 then
            match close_rec cur, parse_fasta (Some (n, [], false)) rest with
            | Some a, Some b => Some (a ++ b)
            | _, _ => None
            end
          else match cur with
               | Some (n0, s, _) => parse_fasta (Some (n0, s ++ l, true)) rest
               | None => None
               end
      | [] => match cur with
              | Some (n0, s, _) => parse_fasta (Some (n0, s, true)) rest
              | None => None
              end
      end
  end.
Fixpoint parse_fastq (fuel : nat) (ls : list (list Z)) : option (list row) :=
  match fuel with
  | O => match ls with [] => Some [] | _ => None end
  | S f => match ls with
           | [] => Some []
           | (c :: n) :: s :: p :: q :: rest =>
               if (c =? 64) && zlist_eqb p [43]
               then option_map (cons [FS n; FS s; FQ (map (fun c => c - 33) q)]) (parse_fastq f rest)
               else None
           | _ => None
           end
  end.
Definition parse_raw_with pf (f : fmt) (schema : list Z) (file : list Z) : option (list row) :=
  match f with
  | Delim | DelimL | Sam => all_some (map (parse_line_with pf schema) (lines file))
  | Vcf | VcfU | VcfL => option_map (map (vcf_shift (-1)))
             (all_some (map (parse_line_with pf schema) (drop_comments (lines file))))
  | Fasta _ => parse_fasta None (lines file)
  | Fastq => let ls := lines file in parse_fastq (length ls) ls
  end.
Definition parse_raw := parse_raw_with no_float_value.
(* the reader used by the correspondence.  (Until /repo 58b75b9 the delimited reader could not return a table whose
   identifier column was empty in every row; that restriction and its switch are gone.) *)
Definition parse_file (f : fmt) (schema : list Z) (file : list Z) : option (list row) := parse_raw f schema file.

(* =====================================================================================
   PART B — MODEL: the library's algorithms
   ===================================================================================== *)

(* ---- named arithmetic kernels: each is re-derived from /repo on every run (Gen/C03.v, translate/gen_c03.py)
   and proved equal to the definition here by Bridge/C03.v ---- *)
(* multiline_buffer.MultiLineFastaBuffer.from_data *)
Definition m_fasta_n_lines (L w : Z) : Z := (L - 1) / w + 1.
Definition m_fasta_last_length (L w : Z) : Z := (L - 1) mod w + 1.
Definition m_fasta_total (sum_n count : Z) : Z := sum_n + count.
Definition m_fasta_fill (w : Z) : Z := w + 1.
Definition m_fasta_first_start : Z := 0.
Definition m_fasta_entry_step : Z -> Z := fun n => n + 1.
Definition m_fasta_has_lines : Z -> bool := fun n => 0 <? n.
Definition m_fasta_last_index : Z -> Z := fun s => s - 1.
Definition m_fasta_last_value : Z -> Z := fun n => n + 1.
Definition m_fasta_hdr_value : Z -> Z := fun n => n + 2.
Definition m_fasta_body_len (L : Z) : Z := L - 1.
Definition m_fasta_last_before_header : bool := true.
(* dump_csv.join_columns / one_line_buffer.join_fields: cell length + separator byte + column offset *)
Definition m_line_len (clen off : Z) : Z := clen + 1 + off.
Definition m_join_nl_start (n : nat) : nat := (n - 1)%nat.
(* buffers/sam.SAMBuffer.join_fields *)
(* SAMBuffer.from_data hands the columns to SAMBuffer.join_fields (true) rather than to the generic dump_csv (false) *)
Definition m_sam_eager_joins_fields : bool := true.
Definition m_sam_no_tags : Z -> bool := fun L => L =? 1.
Definition m_sam_cell_end : Z -> Z := fun c => c - 1.
Definition m_sam_drop_index (r n : Z) : Z := r * n + n - 2.
Definition m_sep : Z := 9.
Definition m_newline : Z := 10.
(* fastq_buffer.FastQBuffer *)
Definition m_fastq_offsets : list nat := [1%nat; O; O; O].
Definition m_fastq_n_lines : nat := 4%nat.
Definition m_fastq_header : Z := 64.
Definition m_fastq_plus : Z := 43.
Definition m_fastq_plus_position : nat := 2%nat.
(* vcf_buffers: POS written = stored + 1, on the eager path (from_data) and the lazy one (process_field_for_write) *)
Definition m_vcf_pos_delta : Z := 1.
(* parser.NpBufferedWriter.write: when the header is emitted; stream loop does not skip empty chunks *)
Definition m_emits_header (has_make_header append header_written : bool) : bool :=
  has_make_header && negb append && negb header_written.
Definition m_stream_skips_empty : bool := false.

(* ---- strops.ints_to_strings ----
   lengths = int(log10(max(|n|,1))) + 1 (+1 for '-'), digit j = |n| // 10^(len-1-j) % 10, then '-' is
   stored over position 0 of negative numbers.  np.abs wraps at -2^63. *)
Definition abs64 (n : Z) : Z := if n =? - 2 ^ 63 then n else Z.abs n.
Definition width_exact (m : Z) : Z := len (dec_nat m).
(* float64 log10 rounds up to the next integer just below a power of ten: calibrated on the pinned
   platform (numpy/libm): 10^d - m <= slack(d) gives d+1 "digits". *)
Definition log10_slack (d : Z) : Z :=
  if d =? 15 then 2 else if d =? 16 then 21 else if d =? 17 then 407 else if d =? 18 then 4031 else 0.
Definition width_pinned (m : Z) : Z :=
  let d := width_exact m in if 10 ^ d - m <=? log10_slack d then d + 1 else d.
Definition its_with (wd : Z -> Z) (ab : Z -> Z) (n : Z) : list Z :=
  let a := ab n in
  let L := wd (Z.max a 1) in
  let total := L + (if n <? 0 then 1 else 0) in
  let ds := map (fun i => 48 + (a / 10 ^ i) mod 10) (rev (arange total)) in
  if n <? 0 then 45 :: tl ds else ds.
Definition its_pinned : Z -> list Z := its_with width_pinned abs64.
(* repaired ints_to_strings (notes/C18.fix-1.diff): exact digit count, true magnitude *)
Definition its_fixed : Z -> list Z := its_with width_exact Z.abs.
(* SWITCH: the code as it is in /repo *)
Definition its : Z -> list Z := its_fixed.

(* ---- dump_csv.get_column: the text of one cell by column type ---- *)
Definition col_text_with (it : Z -> list Z) (f : fld) : list Z :=
  match f with
  | FS s => s
  | FI n => it n
  | FL l => removelast (concat (map (fun x => it x ++ [44]) l))   (* join(keep_last) then [:, :-1] *)
  | FQ q => map (fun x => x + 33) q
  | FF t _ _ => t
  end.
Definition col_text := col_text_with its.

(* ---- ragged scatter: lines[i::n, off:-1] = column ---- *)
Definition put_body (off : nat) (l c : list Z) : list Z := firstn off l ++ c ++ skipn (off + length c) l.
Fixpoint put_stride (skip n off : nat) (lines col : list (list Z)) : list (list Z) :=
  match lines with
  | [] => []
  | l :: rest =>
      match skip with
      | S k => l :: put_stride k n off rest col
      | O => match col with
             | c :: col' => put_body off l c :: put_stride (n - 1) n off rest col'
             | [] => l :: rest
             end
      end
  end.
Definition set_last (v : Z) (l : list Z) : list Z := removelast l ++ [v].
Definition set_first (v : Z) (l : list Z) : list Z := v :: tl l.
Fixpoint map_stride (g : list Z -> list Z) (skip n : nat) (lines : list (list Z)) : list (list Z) :=
  match lines with
  | [] => []
  | l :: rest => match skip with
                 | S k => l :: map_stride g k n rest
                 | O => g l :: map_stride g (n - 1) n rest
                 end
  end.
Definition template (lens : list Z) : list (list Z) := map (fun L => repeat 0 (Z.to_nat L)) lens.
(* columns of a rectangular table of texts *)
Definition columns (ncol : nat) (rows : list (list (list Z))) : list (list (list Z)) :=
  map (fun i => map (fun r => nth i r []) rows) (seq 0 ncol).
(* lengths matrix (rows x columns) raveled row-major: cell length + 1 + per-column offset *)
Definition line_lengths (offs : list nat) (cols : list (list (list Z))) (nrow : nat) : list Z :=
  flat_map (fun r => map (fun i => m_line_len (len (nth r (nth i cols []) [])) (Z.of_nat (nth i offs O)))
                         (seq 0 (length cols)))
           (seq 0 nrow).
(* for i, column in enumerate(columns): lines[i::n, off_i:-1] = column *)
Definition scatter (offs : list nat) (cols : list (list (list Z))) (nrow : nat) : list (list Z) :=
  let n := length cols in
  fold_left (fun lines i => put_stride i n (nth i offs O) lines (nth i cols []))
            (seq 0 n)
            (template (line_lengths offs cols nrow)).

(* dump_csv.join_columns: the ragged array of cells, each with its separator / line end ... *)
Definition join_lines (cols : list (list (list Z))) (nrow : nat) : list (list Z) :=
  let n := length cols in
  let lines := scatter (repeat O n) cols nrow in
  let lines := map (set_last m_sep) lines in
  map_stride (set_last m_newline) (m_join_nl_start n) n lines.
(* ... and its ravel *)
Definition join_columns (cols : list (list (list Z))) (nrow : nat) : list Z := concat (join_lines cols nrow).

(* buffers/sam.SAMBuffer.join_fields: join_columns, then the separator before an empty last cell is masked out.
     no_tags = flatnonzero(lines.lengths[n-1::n] == 1); cell_ends = cumsum(lines.lengths) - 1
     keep[cell_ends[no_tags * n + n - 2]] = False; flat[keep] *)
Fixpoint stride_sel {A} (skip n : nat) (l : list A) : list A :=
  match l with
  | [] => []
  | x :: r => match skip with
              | S k => stride_sel k n r
              | O => x :: stride_sel (n - 1) n r
              end
  end.
Definition sam_join_fields (cols : list (list (list Z))) (nrow : nat) : list Z :=
  let n := length cols in
  let lines := join_lines cols nrow in
  let flat := concat lines in
  let lens := map len lines in
  let no_tags := flatnonzero (map m_sam_no_tags (stride_sel (m_join_nl_start n) n lens)) in
  let cell_ends := map m_sam_cell_end (cumsum lens) in
  let dropped := map (fun r => nthZ cell_ends (m_sam_drop_index r (Z.of_nat n))) no_tags in
  np_delete flat dropped.
Definition sam_from_data (rows : list row) : list Z :=
  let ncol := length (hd [] rows) in
  sam_join_fields (columns ncol (map (map col_text) rows)) (length rows).
Definition delim_from_data (rows : list row) : list Z :=
  let ncol := length (hd [] rows) in
  join_columns (columns ncol (map (map col_text) rows)) (length rows).

(* OneLineBuffer.join_fields with FastQBuffer's '+' line *)
Definition fastq_texts : row -> list (list Z) :=
  fun r => match r with
           | [n; s; q] => [col_text n; col_text s; [m_fastq_plus]; col_text q]
           | _ => [[]; []; [m_fastq_plus]; []]
           end.
Definition fastq_from_data (rows : list row) : list Z :=
  let texts := map fastq_texts rows in
  let cols := columns m_fastq_n_lines texts in
  let lines := scatter m_fastq_offsets cols (length rows) in
  let lines := map_stride (set_first m_fastq_header) 0 m_fastq_n_lines lines in
  concat (map (set_last m_newline) lines).

(* ---- MultiLineFastaBuffer.from_data ---- *)
Fixpoint set_nth {A} (i : nat) (v : A) (l : list A) : list A :=
  match l, i with
  | [], _ => []
  | _ :: r, O => v :: r
  | x :: r, S k => x :: set_nth k v r
  end.
Fixpoint set_many (idx : list Z) (vals : list Z) (l : list Z) : list Z :=
  match idx, vals with
  | i :: idx', v :: vals' => set_many idx' vals' (set_nth (Z.to_nat i) v l)
  | _, _ => l
  end.
(* walk over the lines: a header line takes the next name, any other line takes the next
   [length - 1] bytes of the concatenated sequence data.  None = the shape assertion fails. *)
Fixpoint fasta_fill (ll : list Z) (is_hdr : list bool) (names : list (list Z)) (data : list Z) : option (list Z) :=
  match ll, is_hdr with
  | [], _ => match data with [] => Some [] | _ => None end
  | L :: ll', h :: is_hdr' =>
      if h then
        match names with
        | nm :: names' =>
            if len nm + 2 =? L then option_map (app ([62] ++ nm ++ [10])) (fasta_fill ll' is_hdr' names' data)
            else None
        | [] => None
        end
      else
        if (1 <=? L) && (m_fasta_body_len L <=? len data) then
          option_map (app (firstn (Z.to_nat (m_fasta_body_len L)) data ++ [10]))
                     (fasta_fill ll' is_hdr' names (skipn (Z.to_nat (m_fasta_body_len L)) data))
        else None
  | _ :: _, [] => None
  end.
Definition fasta_from_data_pinned (w : Z) (es : list (list Z * list Z)) : option (list Z) :=
  let name_lengths := map (fun e => len (fst e)) es in
  let seq_lengths := map (fun e => len (snd e)) es in
  let n_lines := map (fun L => (L - 1) / w + 1) seq_lengths in
  let last_length := map (fun L => (L - 1) mod w + 1) seq_lengths in
  let total := sumZ n_lines + len n_lines in
  let ll0 := repeat (w + 1) (Z.to_nat total) in
  let entry_starts := 0 :: cumsum (map (fun n => n + 1) n_lines) in
  let hdr_idx := removelast entry_starts in
  let ll1 := set_many hdr_idx (map (fun n => n + 2) name_lengths) ll0 in
  let ll2 := set_many (map (fun s => s - 1) (tl entry_starts)) (map (fun n => n + 1) last_length) ll1 in
  let is_hdr := map (fun i => existsb (Z.eqb i) hdr_idx) (arange total) in
  fasta_fill ll2 is_hdr (map fst es) (concat (map snd es)).
(* repaired (notes/C03.fix-3.diff): the last-line length is stored only for entries that have lines, and
   before the header-line lengths *)
(* the two fancy-index assignments into line_lengths, in the order the source performs them *)
Definition fasta_line_lengths (last_first : bool) (hdr_idx hdr_vals last_idx last_vals ll0 : list Z) : list Z :=
  if last_first then set_many hdr_idx hdr_vals (set_many last_idx last_vals ll0)
  else set_many last_idx last_vals (set_many hdr_idx hdr_vals ll0).
Definition fasta_from_data_fixed (w : Z) (es : list (list Z * list Z)) : option (list Z) :=
  let name_lengths := map (fun e => len (fst e)) es in
  let seq_lengths := map (fun e => len (snd e)) es in
  let n_lines := map (fun L => m_fasta_n_lines L w) seq_lengths in
  let last_length := map (fun L => m_fasta_last_length L w) seq_lengths in
  let total := m_fasta_total (sumZ n_lines) (len n_lines) in
  let ll0 := repeat (m_fasta_fill w) (Z.to_nat total) in
  let entry_starts := m_fasta_first_start :: cumsum (map m_fasta_entry_step n_lines) in
  let hdr_idx := removelast entry_starts in
  let has_lines := map m_fasta_has_lines n_lines in
  let ll2 := fasta_line_lengths m_fasta_last_before_header
               hdr_idx (map m_fasta_hdr_value name_lengths)
               (mask_select has_lines (map m_fasta_last_index (tl entry_starts)))
               (mask_select has_lines (map m_fasta_last_value last_length)) ll0 in
  let is_hdr := map (fun i => existsb (Z.eqb i) hdr_idx) (arange total) in
  fasta_fill ll2 is_hdr (map fst es) (concat (map snd es)).
(* SWITCH: the code as it is in /repo *)
Definition fasta_from_data := fasta_from_data_fixed.

(* dump_csv.get_column has no entry for the type Union[BNPDataClass, str]: KeyError (code 2).
   SWITCH: false = the code as it is; true = repaired get_column (notes/C03.fix-4.diff) that writes a text
   INFO column. *)
Definition union_info_writable := true.
(* ---- one from_data call of the buffer type; (error code, bytes): 0 ok, 1 AssertionError, 2 KeyError ---- *)
Definition from_data (f : fmt) (rows : list row) : Z * list Z :=
  match f with
  | Delim => (0, delim_from_data rows)
  | Sam => (0, if m_sam_eager_joins_fields then sam_from_data rows else delim_from_data rows)
  | Vcf => (0, delim_from_data (map (vcf_shift m_vcf_pos_delta) rows))
  | VcfU => if union_info_writable then (0, delim_from_data (map (vcf_shift m_vcf_pos_delta) rows)) else (2, [])
  | VcfL => (0, serialise VcfL rows)      (* buffer.data.ravel(): the canonical source lines *)
  | DelimL => (0, serialise DelimL rows)  (* the selected records' source lines, in the selected order *)
  | Fastq => (0, fastq_from_data rows)
  | Fasta w =>
      match fasta_from_data w (map (fun r => match r with
                                             | [n; s] => (col_text n, col_text s)
                                             | _ => ([], [])
                                             end) rows) with
      | Some b => (0, b)
      | None => (1, [])
      end
  end.

(* the lazy write path of a VCF table whose POS column was replaced (lazybnpdataclass.get_buffer): the unmodified
   columns are the text they were read as (FS cells), the replaced column goes through
   VCFBuffer.process_field_for_write (+ m_vcf_pos_delta) and get_column, then join_fields = join_columns *)
Definition from_data_lazy_pos (rows : list row) : list Z :=
  delim_from_data (map (vcf_shift m_vcf_pos_delta) rows).

(* ---- NpBufferedWriter.write, files._get_buffered_file ---- *)
Definition has_header (f : fmt) : bool := match f with Delim | DelimL | Sam | Vcf | VcfU | VcfL => true | _ => false end.
(* `self._file_obj.mode != 'ab'`: a GzipFile's mode is an int, never 'ab' — the code as it is *)
Definition mode_is_ab_pinned (append gz : bool) : bool := append && negb gz.
Definition mode_is_ab_fixed (append gz : bool) : bool := append.

Record wstate := { w_hw : bool; w_out : list Z; w_err : Z }.
(* one write(table) call: header once unless appending, nothing more for an empty table, else the bytes
   of from_data; after an exception nothing further happens *)
Definition write_one (f : fmt) (header : list Z) (ab : bool) (st : wstate) (chunk : list row) : wstate :=
  if negb (w_err st =? 0) then st else
  let st1 := if m_emits_header (has_header f) ab (w_hw st)
             then {| w_hw := true; w_out := w_out st ++ header; w_err := 0 |} else st in
  match chunk with
  | [] => st1
  | _ => let '(e, b) := from_data f chunk in
         {| w_hw := w_hw st1; w_out := w_out st1 ++ b; w_err := e |}
  end.
(* write(stream): `for buf in data: if len(buf) > 0: self.write(buf)` — empty chunks are skipped BEFORE the
   header logic in the code as it is ([skip] = true) *)
Definition chunks_seen (skip : bool) (c : call) : list (list row) :=
  if c_stream c && skip then filter nonempty (c_chunks c) else c_chunks c.
Definition write_call (skip : bool) (f : fmt) (header : list Z) (ab : bool) (st : wstate) (c : call) : wstate :=
  fold_left (write_one f header ab) (chunks_seen skip c) st.
Definition run_session (is_ab : bool -> bool -> bool) (skip : bool) (f : fmt) (header : list Z) (gz : bool)
           (st : Z * list Z) (s : session) : Z * list Z :=
  let '(e, content) := st in
  if negb (e =? 0) then st else
  let st0 := {| w_hw := false; w_out := if s_append s then content else []; w_err := 0 |} in
  let st1 := fold_left (write_call skip f header (is_ab (s_append s) gz)) (s_calls s) st0 in
  (w_err st1, w_out st1).
Definition run_hist_with (is_ab : bool -> bool -> bool) (skip : bool) (f : fmt) (header : list Z) (gz : bool)
           (h : list session) : Z * list Z :=
  fold_left (run_session is_ab skip f header gz) h (0, []).
(* the code as it is in /repo, and the repaired writer (notes/C03.fix-1.diff for the append test,
   notes/C03.fix-2.diff for streams) *)
Definition run_hist_pinned := run_hist_with mode_is_ab_pinned true.
Definition run_hist_fixed := run_hist_with mode_is_ab_fixed m_stream_skips_empty.
(* SWITCH: the code as it is in /repo (fix-1 only: run_hist_with mode_is_ab_fixed true;
   fix-2 only: run_hist_with mode_is_ab_pinned false) *)
Definition run_hist := run_hist_fixed.

(* Model/C09_pileup.v — get_pileup as the code performs it (round 6), producing a run-length array.
   bionumpy/arithmetics/intervals.py get_pileup:
       if len(intervals) == 0: return GenomicRunLengthArray(np.array([0, chromosome_size]), np.array([0]))
       rla = RunLength2dArray.from_intervals(intervals.start, intervals.stop, chromosome_size)
       return GenomicRunLengthArray.from_rle(rla.sum(axis=0))
   bionumpy itself only shifts the rows to global coordinates (GlobalOffset.from_local_interval, Model/C09.v to_global),
   tests for the empty set and hands over; the event list is built by npstructures:
     RunLength2dArray.from_intervals : one row per interval — [position 0 (value 0) if start > 0], [start (value 1)],
                                        [stop (value 0) if stop < row_len];
     RunLength2dArray._col_sum       : all row positions ravelled, stable argsort (mergesort), value CHANGES (np.diff, first of
                                        every row = its first value) permuted the same way, np.cumsum, np.append(positions, L),
                                        RunLengthArray.remove_empty_intervals (of equal neighbouring positions the LAST stays),
                                        RunLengthArray(...) with its three assertions.
   The row events, the stable sort and the running sum are the definitions C08 already uses for the same code
   (Model/C08.v row_events / isort pos_leb / cum_from); the removal of empty runs and the constructor are C09's own
   (Model/C09.v remove_empty / mk_rle).  NAMED MODELLING ASSUMPTION (npstructures is external, not translated): the five
   steps above are what RunLength2dArray.from_intervals(...).sum(axis=0) does; validated by the correspondence check on every
   run (dense values AND run structure, through to_dict() and get_data()).
   Executable definitions only; proofs live in Proofs/C09_pileup.v. *)
From Coq Require Import ZArith List Bool.
From Coq Require String.
Import String.StringSyntax.
Delimit Scope string_scope with string.
From BNP Require Import Base.Prims Model.C09.
From BNP Require Model.C08.
Import ListNotations.
Open Scope Z_scope.

(* named formulas of the bionumpy part (regenerated from /repo by translate/gen_c09.py, bridged in Bridge/C09.v) *)
Definition m_pu_is_empty (n_intervals : Z) : bool := n_intervals =? 0.
Definition m_pu_empty_events (size : Z) : list Z := [0; size].
Definition m_pu_empty_values : list Z := [0].
Definition m_pu_shape : list String.string :=
  ["GenomicRunLengthArray(events, values)";
   "RunLength2dArray.from_intervals(intervals.start, intervals.stop, chromosome_size)";
   "GenomicRunLengthArray.from_rle(rla.sum(axis=0))"]%string.
(* genomic_intervals.py GenomicIntervalsFull.get_pileup: shift, flat pileup over the whole genome, wrap *)
Definition m_gpu_shape : list String.string :=
  ["self._genome_context.global_offset.from_local_interval(self._intervals)";
   "GenomicArray.from_global_data(get_pileup(go, self._genome_context.size), self._genome_context)"]%string.

(* the interval of a record; the value field of an interval record is its multiplicity (number of identical rows) *)
Definition iv_of (r : Z * Z * (Z * Z)) : Model.C08.iv := (fst (fst r), snd (fst r)).
Definition mult_of (r : Z * Z * (Z * Z)) : Z := fst (snd r).
Definition rows_of (recs : list (Z * Z * (Z * Z))) : list Model.C08.iv :=
  concat (map (fun r => repeat (iv_of r) (Z.to_nat (mult_of r))) recs).
Definition n_rows (recs : list (Z * Z * (Z * Z))) : Z := sumZ (map (fun r => Z.max 0 (mult_of r)) recs).

(* positions[args], changes[args] -> cumsum *)
Definition pileup_cum (I : list Model.C08.iv) (size : Z) : list (Z * Z) :=
  Model.C08.cum_from 0 (Model.C08.isort Model.C08.pos_leb (concat (map (Model.C08.row_events size) I))).
Definition pileup_events (recs : list (Z * Z * (Z * Z))) (size : Z) : option (kind * (list Z * list (Z * Z))) :=
  let I := rows_of recs in
  if m_pu_is_empty (len I)
  then match mk_rle (m_pu_empty_events size) (map vint m_pu_empty_values) with Some r => Some (KI, r) | None => None end
  else
    let cum := pileup_cum I size in
    let positions := map fst cum ++ [size] in                    (* np.append(positions, L) *)
    let values := map (fun x => vint (snd x)) cum in
    let '(ev, vs) := remove_empty positions values in            (* RunLengthArray.remove_empty_intervals *)
    match mk_rle ev vs with Some r => Some (KI, r) | None => None end.

(* the pileup model used by the correspondence: the code's event pipeline; for interval sets of more than [pileup_row_limit]
   rows (the size-threshold cases: 2^15+1 .. 2^17+1 rows) insertion-sorting the events inside Coq is infeasible and the
   abstract coverage model [pileup] of Model/C09.v is evaluated instead *)
Definition pileup_row_limit : Z := 48.
Definition pileup_in_force (recs : list (Z * Z * (Z * Z))) (size : Z) : option (kind * (list Z * list (Z * Z))) :=
  if n_rows recs <=? pileup_row_limit then pileup_events recs size else pileup recs size.

(* Model/C15.v — malformed input: which line is reported.
   Spec: the zero-based line of the first offending record, counted from the start of the data.
   Model: the reader (Model/C01.v) delivers chunks; each chunk is parsed on its own and a violation in
   row i of a chunk is reported as (lines delivered in earlier chunks) + i
   (parser.py:139-157, npdataclassreader.py:80-92, lazybnpdataclass.py:37-42, delimited_buffers.py:220-232). *)
From Coq Require Import ZArith List Bool Arith.
From BNP Require Import Base.Prims Model.C01.
Import ListNotations.
Open Scope Z_scope.

Inductive coltype := CStr | CInt | CStrand | CFloat | COptInt.

Definition is_digit (c : Z) : bool := (48 <=? c) && (c <=? 57).
Definition int_text_ok (t : list Z) : bool :=
  match t with
  | [] => false
  | c :: r => if (c =? 45) || (c =? 43) then negb (match r with [] => true | _ => false end) && forallb is_digit r
              else forallb is_digit t
  end.
Definition strand_ok (t : list Z) : bool :=
  match t with [c] => (c =? 43) || (c =? 45) || (c =? 46) | _ => false end.
(* decimal text: optional sign, digits with at most one '.', at least one digit (strops._decimal_str_to_float) *)
Definition unsigned_part (t : list Z) : list Z :=
  match t with c :: r => if (c =? 45) || (c =? 43) then r else t | [] => [] end.
Definition count_if (f : Z -> bool) (t : list Z) : nat := length (filter f t).
Definition dec_text_ok (t : list Z) : bool :=
  let b := unsigned_part t in
  forallb (fun c => is_digit c || (c =? 46)) b && Nat.leb (count_if (fun c => c =? 46) b) 1 && Nat.leb 1 (count_if is_digit b).
(* float text: a decimal text, or <decimal>e<integer> (strops._scientific_str_to_float) *)
Definition float_text_ok (t : list Z) : bool :=
  match split_on 101 t with
  | [m] => dec_text_ok m
  | [m; e] => dec_text_ok m && int_text_ok e
  | _ => false
  end.
(* Optional[int]: empty or the placeholder '.' (strops.parse_with_missing), else an integer text *)
Definition optint_ok (t : list Z) : bool :=
  match t with [] => true | [46] => true | _ => int_text_ok t end.
Definition field_ok (ty : coltype) (t : list Z) : bool :=
  match ty with CStr => true | CInt => int_text_ok t | CStrand => strand_ok t
              | CFloat => float_text_ok t | COptInt => optint_ok t end.
Fixpoint fields_ok (tys : list coltype) (fs : list (list Z)) : bool :=
  match tys, fs with
  | [], _ => true
  | ty :: tys', f :: fs' => field_ok ty f && fields_ok tys' fs'
  | _ :: _, [] => false
  end.
Definition strip_cr (l : list Z) : list Z := match rev l with 13 :: r => rev r | _ => l end.
Definition row_ok (tys : list coltype) (row : list Z) : bool := fields_ok tys (split_on 9 (strip_cr row)).

(* index of the first row that is not ok *)
Fixpoint first_bad_from (tys : list coltype) (i : nat) (rows : list (list Z)) : option nat :=
  match rows with
  | [] => None
  | r :: rest => if row_ok tys r then first_bad_from tys (S i) rest else Some i
  end.
Definition first_bad tys rows := first_bad_from tys 0 rows.

(* ---------- Spec ---------- *)
Definition spec_line (tys : list coltype) (file_text : list Z) : option nat := first_bad tys (lines file_text).

(* ---------- Model: chunk by chunk with the running line offset ---------- *)
Fixpoint report (tys : list coltype) (before : nat) (chunks : list (list Z)) : option nat :=
  match chunks with
  | [] => None
  | c :: rest =>
      match first_bad tys (lines c) with
      | Some i => Some (before + i)%nat
      | None => report tys (before + length (lines c)) rest
      end
  end.

Inductive outcome := NoError | FormatAt (line : nat) | Other.
Definition model_delim (tys : list coltype) (m : mode) (k : nat) (file : list Z) : outcome :=
  match read_chunks true (Delim 9) m k file with
  | Done chunks _ _ _ => match report tys 0 chunks with Some l => FormatAt l | None => NoError end
  | FormatError l _ => FormatAt l
  | _ => Other
  end.
(* formats validated when the buffer is cut (FASTQ / two-line FASTA) *)
Definition model_oneline (f : fmt) (m : mode) (k : nat) (file : list Z) : outcome :=
  match read_chunks true f m k file with
  | Done _ _ _ _ => NoError
  | FormatError l _ => FormatAt l
  | _ => Other
  end.

(* ---------- Spec for record-marker formats (FASTQ, two-line FASTA) ---------- *)
Definition line_bad (n : nat) (hdr : Z) (plus : bool) (i : nat) (l : list Z) : bool :=
  ((i mod n =? 0)%nat && negb (nthZ l 0 =? hdr)) || (plus && (i mod n =? 2)%nat && negb (nthZ l 0 =? 43)).
Fixpoint first_bad_line (n : nat) (hdr : Z) (plus : bool) (i : nat) (ls : list (list Z)) : option nat :=
  match ls with
  | [] => None
  | l :: rest => if line_bad n hdr plus i l then Some i else first_bad_line n hdr plus (S i) rest
  end.
(* the lines of the text are grouped into records of n lines.  A violation inside a complete record is reported at
   its line (the first one wins); otherwise a final record that was cut short - fewer than n lines that are not all
   white space - is reported at its first line w; trailing blank lines are no record. *)
Definition spec_oneline (f : fmt) (file_text : list Z) : option nat :=
  match f with
  | OneLine n hdr plus =>
      let ls := lines file_text in
      let w := ((length ls / n) * n)%nat in
      match first_bad_line n hdr plus 0 (firstn w ls) with
      | Some l => Some l
      | None => if leftover_ok f (concat (skipn w ls)) then None else Some w
      end
  | _ => None
  end.

(* Model/C11.v — streamed evaluation versus in-memory evaluation.
   Part 1 (Spec): what each computation means on the concatenated data — short, no chunking, no index tricks.
   Part 2 (Model): what the code does with a stream of chunks —
     streams/chunk_entries.py (_chunk_entries: `if`, and the proposed `while` repair), io/parser.py (chunk_lines),
     streams/decorators.py (streamable = map over chunks, then the declared reduction),
     streams/reductions.py (sum_and_n + sum; bincount + bincount_reduce; histogram + histogram_reduce),
     sequence/kmers.py (count_kmers + sum), streams/groupby_func.py (change points, fast path, join_groupbys),
     genome_context.iter_chromosomes (valid, genome-ordered data only), computation_graph.py (StreamNode /
     ComputationNode / ReductionNode as a pull machine with per-node buffer index).
   Executable definitions only; proofs live in Proofs/C11*.v. *)
From Coq Require Import ZArith List Bool.
From BNP Require Import Base.Prims.
Import ListNotations.
Open Scope Z_scope.

(* ====================================================================================== *)
(* Part 1 — Spec                                                                          *)
(* ====================================================================================== *)

Definition countZ (v : Z) (l : list Z) : Z := len (filter (Z.eqb v) l).
Definition maxZ (l : list Z) : Z := fold_right Z.max (-1) l.           (* -1 for the empty list *)

(* np.bincount on non-negative integers *)
Definition spec_bincount (l : list Z) : list Z := map (fun v => countZ v l) (arange (maxZ l + 1)).

(* np.histogram(x, bins=k, range=(lo,hi)) for integer data, integer lo < hi, k >= 1, with bin edges that are
   exactly representable (k divides hi-lo, or k a power of two): value x falls in bin floor((x-lo)*k/(hi-lo)),
   the last edge is inclusive, values outside [lo,hi] are dropped. *)
Definition bin_of (k lo hi x : Z) : Z :=
  if (x <? lo) || (hi <? x) then -1 else if x =? hi then k - 1 else ((x - lo) * k) / (hi - lo).
Definition spec_hist (k lo hi : Z) (l : list Z) : list Z :=
  map (fun b => countZ b (map (bin_of k lo hi) l)) (arange k).

(* mean = (sum, n) — the quotient is a float and is compared as a rational in Corr *)
Definition spec_sum_n (l : list Z) : Z * Z := (sumZ l, len l).

(* k-mers of one sequence over the alphabet 0..3, hashed little-endian (first base least significant) *)
Fixpoint kmer_hash (w : list Z) : Z := match w with [] => 0 | c :: r => c + 4 * kmer_hash r end.
Fixpoint windows_fuel (fuel : nat) (k : nat) (s : list Z) : list (list Z) :=
  match fuel with
  | O => []
  | S f => if (k <=? length s)%nat then firstn k s :: windows_fuel f k (tl s) else []
  end.
Definition windows (k : nat) (s : list Z) : list (list Z) := windows_fuel (length s) k s.
Definition seq_kmers (k : nat) (s : list Z) : list Z := map kmer_hash (windows k s).
Definition spec_kmer_counts (k : nat) (seqs : list (list Z)) : list Z :=
  let hs := concat (map (seq_kmers k) seqs) in
  map (fun h => countZ h hs) (arange (4 ^ Z.of_nat k)).

(* a row-local streamable function without reduction: reverse complement of every DNA row (0..3 = A,C,G,T) *)
Definition revcomp (s : list Z) : list Z := rev (map (fun c => 3 - c) s).
Definition spec_revcomp (seqs : list (list Z)) : list (list Z) := map revcomp seqs.

(* group-by: maximal runs of equal keys, in order *)
Fixpoint runs {A} (l : list (Z * A)) : list (Z * list A) :=
  match l with
  | [] => []
  | (k, x) :: r =>
      match runs r with
      | (k', xs) :: t => if k =? k' then (k, x :: xs) :: t else (k, [x]) :: (k', xs) :: t
      | [] => [(k, [x])]
      end
  end.

(* re-chunking: sizes of all chunks but the last are exactly n, the last has between [lo] and n entries *)
Fixpoint sizes_ok (lo n : Z) (sizes : list Z) : bool :=
  match sizes with
  | [] => true
  | [x] => (lo <=? x) && (x <=? n)
  | x :: r => (x =? n) && sizes_ok lo n r
  end.
Definition rechunk_ok (lo n : Z) (data : list Z) (out : list (list Z)) : bool :=
  zlist_eqb (concat out) data && sizes_ok lo n (map len out).

(* genome pipelines: dense per-chromosome meaning *)
Definition iv := (Z * Z)%type.                                   (* start, stop *)
Definition covers (p : Z) (i : iv) : bool := (fst i <=? p) && (p <? snd i).
Definition coverage (size : Z) (ivs : list iv) : list Z :=
  map (fun p => len (filter (covers p) ivs)) (arange size).
Definition mask_of (size : Z) (ivs : list iv) : list Z :=
  map (fun c => if 0 <? c then 1 else 0) (coverage size ivs).
Definition values_under (track : list Z) (ivs : list iv) : list (list Z) :=
  map (fun i => slice (fst i) (snd i) track) ivs.
(* column sums and column counts of a ragged array (np.sum / np.mean over axis 0) *)
Definition col_sum (rows : list (list Z)) (j : Z) : Z := sumZ (map (fun r => nthZ r j) rows).
Definition col_cnt (rows : list (list Z)) (j : Z) : Z := len (filter (fun r => j <? len r) rows).
Definition ncols (rows : list (list Z)) : Z := maxZ (map len rows) .
Definition spec_cols (rows : list (list Z)) : list (Z * Z) :=
  map (fun j => (col_sum rows j, col_cnt rows j)) (arange (Z.max 0 (ncols rows))).

(* ====================================================================================== *)
(* Part 2 — Model                                                                         *)
(* ====================================================================================== *)

(* ---------- named kernels: the decisions and index formulas that translate/gen_c11.py regenerates from the source
   (Gen/C11.v) and Bridge/C11.v proves equal to these ---------- *)
Definition m_ce_cond (buffer_size n : nat) : bool := (n <=? buffer_size)%nat.     (* buffer_size >= n_entries *)
Definition m_cl_cond (n_in_chunk remaining : Z) : bool := n_in_chunk >=? remaining. (* n_lines_in_chunk >= remaining_lines *)
Definition m_cl_after (remaining n_in_chunk : Z) : Z := remaining - n_in_chunk.    (* remaining_lines -= n_lines_in_chunk *)
Definition m_br_cond (asize bsize : nat) : bool := (bsize <=? asize)%nat.          (* bincount_a.size >= bincount_b.size *)
Definition m_gb_fast_test (first last : Z) : bool := first =? last.                (* np.all(keys[-1] == keys[0]) *)
Definition m_node_cached (idx i : nat) : bool := (idx =? S i)%nat.                 (* _buffer_index == i   (idx = _buffer_index + 1) *)
Definition m_node_pull (idx i : nat) : bool := (idx =? i)%nat.                     (* _buffer_index == i-1 *)

(* ---------- streams/chunk_entries.py:_chunk_entries ---------- *)
(* as it is at the pinned commit: ONE `if buffer_size >= n_entries` per incoming chunk *)
Fixpoint chunk_entries_if {A} (n : nat) (buf : list A) (cs : list (list A)) : list (list A) :=
  match cs with
  | [] => match buf with [] => [] | _ => [buf] end
  | c :: r =>
      let total := buf ++ c in
      if m_ce_cond (length total) n then firstn n total :: chunk_entries_if n (skipn n total) r
      else chunk_entries_if n total r
  end.
(* the proposed repair (notes/C11.fix-1.diff): `while buffer_size >= n_entries` *)
Fixpoint drain {A} (fuel n : nat) (total : list A) : option (list (list A) * list A) :=
  if m_ce_cond (length total) n then
    match fuel with
    | O => None                                        (* out of fuel: distinct from every normal result *)
    | S f => match drain f n (skipn n total) with
             | Some (o, rest) => Some (firstn n total :: o, rest)
             | None => None
             end
    end
  else Some ([], total).
Fixpoint chunk_entries_while {A} (n : nat) (buf : list A) (cs : list (list A)) : option (list (list A)) :=
  match cs with
  | [] => Some (match buf with [] => [] | _ => [buf] end)
  | c :: r =>
      let total := buf ++ c in
      match drain (length total) n total with
      | None => None
      | Some (o, rest) => match chunk_entries_while n rest r with
                          | Some o' => Some (o ++ o')
                          | None => None
                          end
      end
  end.
(* Which variant describes /repo: since the commit "fix: chunk_entries emits every full chunk ..." the code uses
   `while`, so [chunk_entries] is the `while` variant; [chunk_entries_pinned] is the code at the pinned commit. *)
Definition chunk_entries_pinned {A} (n : nat) (cs : list (list A)) : option (list (list A)) :=
  Some (chunk_entries_if n [] cs).
Definition chunk_entries_fixed {A} (n : nat) (cs : list (list A)) : option (list (list A)) :=
  chunk_entries_while n [] cs.
Definition chunk_entries {A} (n : nat) (cs : list (list A)) : option (list (list A)) := chunk_entries_fixed n cs.

(* ---------- io/parser.py:chunk_lines ---------- *)
(* inner `while n_lines_in_chunk >= remaining_lines` *)
Fixpoint lines_drain {A} (fuel : nat) (n : Z) (cur chunk : list A) (remaining : Z)
  : option (list (list A) * list A * list A * Z) :=
  if m_cl_cond (len chunk) remaining then
    match fuel with
    | O => None
    | S f =>
        match lines_drain f n [] (skipn (Z.to_nat remaining) chunk) n with
        | Some (o, cur', chunk', rem') => Some ((cur ++ firstn (Z.to_nat remaining) chunk) :: o, cur', chunk', rem')
        | None => None
        end
    end
  else Some ([], cur, chunk, remaining).
Fixpoint chunk_lines_go {A} (n : Z) (cur : list A) (remaining : Z) (cs : list (list A)) : option (list (list A)) :=
  match cs with
  | [] => Some [cur]                                   (* the final unconditional `yield np.concatenate(cur_buffers)` *)
  | c :: r =>
      match lines_drain (S (length c)) n cur c remaining with
      | None => None
      | Some (o, cur', c', rem') =>
          match chunk_lines_go n (cur' ++ c') (m_cl_after rem' (len c')) r with
          | Some o' => Some (o ++ o')
          | None => None
          end
      end
  end.
Definition chunk_lines {A} (n : Z) (cs : list (list A)) : option (list (list A)) :=
  match cs with [] => None (* np.concatenate([]) raises *) | _ => chunk_lines_go n [] n cs end.

(* ---------- streamable reductions ---------- *)
(* streamable() without a reduction (decorators.py: `BnpStream(func(chunk) for chunk in stream)`): the function is
   applied to every chunk and the results stay a stream of chunks *)
Definition stream_map {A B} (f : list A -> list B) (cs : list (list A)) : list (list B) := map f cs.

(* sum_and_n per chunk, then Python's sum(): 0 + r1 + r2 + ... *)
Definition sum_and_n (c : list Z) : Z * Z := (sumZ c, len c).
Definition pair_add (a b : Z * Z) : Z * Z := (fst a + fst b, snd a + snd b).
Definition stream_sum_n (cs : list (list Z)) : Z * Z := fold_left pair_add (map sum_and_n cs) (0, 0).

(* np.bincount per chunk; reduce(bincount_reduce): the longer array receives the shorter in its prefix *)
Fixpoint add_prefix (long short : list Z) : list Z :=
  match long, short with
  | x :: l, y :: s => (x + y) :: add_prefix l s
  | l, [] => l
  | [], _ => []
  end.
Definition bincount_reduce (a b : list Z) : list Z :=
  if m_br_cond (length a) (length b) then add_prefix a b else add_prefix b a.
Definition reduce1 {A} (f : A -> A -> A) (l : list A) : option A :=
  match l with [] => None | h :: t => Some (fold_left f t h) end.
Definition stream_bincount (cs : list (list Z)) : option (list Z) :=
  reduce1 bincount_reduce (map spec_bincount cs).

(* np.histogram per chunk (fixed bins and range); histogram_reduce: first + sum(rest), sum starting from 0 *)
Fixpoint vadd (a b : list Z) : list Z :=
  match a, b with x :: a', y :: b' => (x + y) :: vadd a' b' | _, _ => [] end.
Definition stream_hist (k lo hi : Z) (cs : list (list Z)) : option (list Z) :=
  match map (spec_hist k lo hi) cs with
  | [] => None
  | h1 :: rest =>
      Some (match rest with
            | [] => h1                                  (* 0 + hist *)
            | r1 :: rr => vadd (fold_left vadd rr r1) h1
            end)
  end.

(* count_kmers per chunk of sequences, then sum(): 0 + c1 + c2 + ... *)
Definition chunk_kmer_counts (k : nat) (seqs : list (list Z)) : list Z := spec_kmer_counts k seqs.
Definition stream_kmer_counts (k : nat) (cs : list (list (list Z))) : option (list Z) :=
  reduce1 vadd (map (chunk_kmer_counts k) cs).

(* ---------- groupby ---------- *)
(* get_changes: flatnonzero(keys[1:] != keys[:-1]) + 1 *)
Fixpoint neq_adjacent (l : list Z) : list bool :=
  match l with a :: ((b :: _) as r) => negb (a =? b) :: neq_adjacent r | _ => [] end.
Definition get_changes (keys : list Z) : list Z := map (Z.add 1) (flatnonzero (neq_adjacent keys)).
Fixpoint zip_bounds (b : list Z) : list (Z * Z) :=
  match b with s :: ((e :: _) as r) => (s, e) :: zip_bounds r | _ => [] end.
(* one chunk; [fast] = the keys are of a kind for which the first-equals-last shortcut is tried *)
Definition groupby_chunk_nonempty {A} (fast : bool) (keys : list Z) (data : list A) : list (Z * list A) :=
  if fast && m_gb_fast_test (nthZ keys 0) (nthZ keys (len keys - 1)) then [(nthZ keys 0, skipn 0 data)]
  else
    let changes := (0 :: get_changes keys) ++ [len data] in
    map (fun '(s, e) => (nthZ keys s, slice s e data)) (zip_bounds changes).
(* `if len(keys) == 0: return grouped_stream(iter(()), column)` — a table without entries has no groups (a68b397) *)
Definition groupby_chunk {A} (fast : bool) (keys : list Z) (data : list A) : list (Z * list A) :=
  if len keys =? 0 then [] else groupby_chunk_nonempty fast keys data.
(* join_groupbys: itertools.groupby over the chained (key, group) pairs, groups concatenated *)
Fixpoint join_groups {A} (gs : list (Z * list A)) : list (Z * list A) :=
  match gs with
  | [] => []
  | (k, xs) :: r =>
      match join_groups r with
      | (k', ys) :: t => if k =? k' then (k, xs ++ ys) :: t else (k, xs) :: (k', ys) :: t
      | [] => [(k, xs)]
      end
  end.
Definition stream_groupby {A} (fast : bool) (cs : list (list (Z * A))) : list (Z * list A) :=
  join_groups (concat (map (fun c => groupby_chunk fast (map fst c) (map snd c)) cs)).

(* ---------- genome_context.iter_chromosomes, on data whose groups are known and in genome order ---------- *)
Fixpoint walk {A} (order : list Z) (groups : list (Z * list A)) : list (list A) :=
  match order with
  | [] => []
  | name :: o =>
      match groups with
      | (g, xs) :: r => if g =? name then xs :: walk o r else [] :: walk o groups
      | [] => [] :: walk o []
      end
  end.

(* ---------- computation_graph.py: the pull machine ---------- *)
(* A graph is a list of nodes in creation order; a ComputationNode's arguments were created before it. *)
Inductive node (V : Type) :=
| NStream (bufs : list V)
| NComp (f : list V -> V) (args : list nat).
Arguments NStream {V} _.  Arguments NComp {V} _ _.
(* per-node state.  ns_idx = _buffer_index + 1 (so 0 is the initial -1) *)
Record nstate (V : Type) := { ns_idx : nat; ns_cur : option V; ns_rest : list V }.
Arguments ns_idx {V} _.  Arguments ns_cur {V} _.  Arguments ns_rest {V} _.  Arguments Build_nstate {V} _ _ _.
Inductive res (A : Type) := ROk (a : A) | RStop | RAssert | RFuel.
Arguments ROk {A} _.  Arguments RStop {A}.  Arguments RAssert {A}.  Arguments RFuel {A}.

Fixpoint set_nth {A} (n : nat) (x : A) (l : list A) : list A :=
  match n, l with
  | O, _ :: r => x :: r
  | S m, y :: r => y :: set_nth m x r
  | _, [] => []
  end.

(* args = [a._get_buffer(i) for a in self._args], left to right, threading the state *)
Fixpoint pull_args {V} (gb : list (nstate V) -> nat -> res (list (nstate V) * V)) (args : list nat)
         (st : list (nstate V)) : res (list (nstate V) * list V) :=
  match args with
  | [] => ROk (st, [])
  | a :: more =>
      match gb st a with
      | ROk (st1, v) =>
          match pull_args gb more st1 with
          | ROk (st2, vs) => ROk (st2, v :: vs)
          | RStop => RStop | RAssert => RAssert | RFuel => RFuel
          end
      | RStop => RStop | RAssert => RAssert | RFuel => RFuel
      end
  end.

(* node._get_buffer(i) for node number k.  `assert self._buffer_index in (i, i-1)` is RAssert. *)
Fixpoint get_buffer {V} (fuel : nat) (g : list (node V)) (st : list (nstate V)) (k i : nat)
  : res (list (nstate V) * V) :=
  match fuel with
  | O => RFuel
  | S fuel' =>
      match nth_error g k, nth_error st k with
      | Some nd, Some s =>
          if m_node_cached (ns_idx s) i then
            match ns_cur s with Some v => ROk (st, v) | None => RAssert end
          else if m_node_pull (ns_idx s) i then
            match nd with
            | NStream _ =>
                match ns_rest s with
                | [] => RStop                                       (* next(self._stream) raises StopIteration *)
                | b :: r => ROk (set_nth k (Build_nstate (S i) (Some b) r) st, b)
                end
            | NComp f args =>
                match pull_args (fun st' a => get_buffer fuel' g st' a i) args st with
                | ROk (st1, vs) =>
                    let v := f vs in
                    ROk (set_nth k (Build_nstate (S i) (Some v) (match nth_error st1 k with Some s1 => ns_rest s1 | None => [] end)) st1, v)
                | RStop => RStop | RAssert => RAssert | RFuel => RFuel
                end
            end
          else RAssert
      | _, _ => RAssert
      end
  end.

(* construction: every node's constructor calls self._get_buffer(0), in creation order *)
Definition raw_state {V} (nd : node V) : nstate V :=
  match nd with NStream bufs => Build_nstate 0 None bufs | NComp _ _ => Build_nstate 0 None [] end.
Fixpoint construct_from {V} (g : list (node V)) (st : list (nstate V)) (k : nat) (todo : nat) : res (list (nstate V)) :=
  match todo with
  | O => ROk st
  | S t => match get_buffer (S k) g st k 0 with
           | ROk (st1, _) => construct_from g st1 (S k) t
           | RStop => RStop | RAssert => RAssert | RFuel => RFuel
           end
  end.
Definition construct {V} (g : list (node V)) : res (list (nstate V)) :=
  construct_from g (map raw_state g) 0 (length g).

(* Node.get_iter: _get_buffer(0), _get_buffer(1), ... until StopIteration.  [rounds] bounds the number of pulls. *)
Fixpoint iter_from {V} (rounds : nat) (g : list (node V)) (st : list (nstate V)) (root i : nat) : res (list V) :=
  match rounds with
  | O => RFuel
  | S r =>
      match get_buffer (S root) g st root i with
      | ROk (st1, v) => match iter_from r g st1 root (S i) with
                        | ROk vs => ROk (v :: vs)
                        | e => e
                        end
      | RStop => ROk []
      | RAssert => RAssert
      | RFuel => RFuel
      end
  end.
Definition max_stream_len {V} (g : list (node V)) : nat :=
  fold_right Nat.max 0%nat (map (fun nd => match nd with NStream b => length b | NComp _ _ => 0%nat end) g).
(* build every node, then iterate the root to exhaustion *)
Definition run_graph {V} (g : list (node V)) (root : nat) : res (list V) :=
  match construct g with
  | ROk st => iter_from (S (S (max_stream_len g))) g st root 0
  | RStop => RStop | RAssert => RAssert | RFuel => RFuel
  end.

(* denotation: the value node k has for buffer i — per-chromosome application, no state *)
Fixpoint value {V} (fuel : nat) (g : list (node V)) (k i : nat) : option V :=
  match fuel with
  | O => None
  | S f =>
      match nth_error g k with
      | Some (NStream bufs) => nth_error bufs i
      | Some (NComp fn args) =>
          let vals := map (fun a => value f g a i) args in
          if forallb (fun o => match o with Some _ => true | None => false end) vals
          then Some (fn (flat_map (fun o => match o with Some v => [v] | None => [] end) vals))
          else None
      | None => None
      end
  end.

(* ---------- the genomic pipelines as graphs over a small value universe ---------- *)
Definition swin := (iv * Z)%type.                 (* a stranded window: ((start, stop), strand code) *)
Inductive gval :=
| GIv (l : list iv)            (* intervals of one chromosome *)
| GZ (z : Z)                   (* chromosome size / scalar *)
| GL (l : list Z)              (* dense track, starts, histogram counts *)
| GR (r : list (list Z))       (* ragged values under intervals *)
| GSN (sn : list (Z * Z))      (* sum_and_n over axis 0: per column (sum, count) *)
| GT (t : list gval)           (* tuple *)
| GIvS (l : list swin)         (* stranded windows of one chromosome: ((start, stop), strand) with 0 '+', 1 '-', 2 '.' *)
| GErr.

Definition op_pileup (a : list gval) : gval :=
  match a with [GIv l; GZ size] => GL (coverage size l) | _ => GErr end.
Definition op_mask (a : list gval) : gval :=
  match a with [GIv l; GZ size] => GL (mask_of size l) | _ => GErr end.
Definition op_start (a : list gval) : gval := match a with [GIv l] => GL (map fst l) | _ => GErr end.
Definition op_stop (a : list gval) : gval := match a with [GIv l] => GL (map snd l) | _ => GErr end.
Definition op_chrom (a : list gval) : gval := match a with [GIv l] => GL (map (fun _ => 0) l) | _ => GErr end.
Definition op_extract (a : list gval) : gval :=
  match a with [GL t; GL s; GL e] => GR (map (fun '(x, y) => slice x y t) (combine s e)) | _ => GErr end.
Definition op_sum (a : list gval) : gval := match a with [GL t] => GZ (sumZ t) | _ => GErr end.
Definition op_hist (k lo hi : Z) (a : list gval) : gval :=
  match a with [GL t] => GL (spec_hist k lo hi t) | _ => GErr end.
(* computation_graph.sum_and_n(array, axis=0): (0, 0) for an empty array *)
Definition op_sum_n0 (a : list gval) : gval :=
  match a with
  | [GR rows] => if len (concat rows) =? 0 then GZ 0 else GSN (spec_cols rows)
  | _ => GErr
  end.
Definition op_tuple (a : list gval) : gval := GT a.

(* reductions (ReductionNode.compute = functools.reduce over the root's buffers) *)
Definition red_add (a b : gval) : gval := match a, b with GZ x, GZ y => GZ (x + y) | _, _ => GErr end.
Definition red_hist (a b : gval) : gval := match a, b with GL x, GL y => GL (vadd x y) | _, _ => GErr end.
(* mean_reduction adds sums and counts with `+`: a scalar 0 (empty chromosome) is neutral, arrays of different
   length cannot be added (the library raises) *)
Definition red_mean (a b : gval) : gval :=
  match a, b with
  | GZ 0, y => y
  | x, GZ 0 => x
  | GSN x, GSN y => if (length x =? length y)%nat then GSN (map (fun '(p, q) => pair_add p q) (combine x y)) else GErr
  | _, _ => GErr
  end.
(* the repaired mean_reduction (notes/C11.fix-2.diff): column-wise addition, the shorter operand is padded *)
Fixpoint sn_padadd (x y : list (Z * Z)) : list (Z * Z) :=
  match x, y with
  | p :: x', q :: y' => pair_add p q :: sn_padadd x' y'
  | [], y => y
  | x, [] => x
  end.
Definition red_mean_fixed (a b : gval) : gval :=
  match a, b with
  | GZ 0, y => y
  | x, GZ 0 => x
  | GSN x, GSN y => GSN (sn_padadd x y)
  | _, _ => GErr
  end.
(* THE SWITCH for finding C11-mean-axis0-ragged-columns: pinned code = red_mean, after fix-2 = red_mean_fixed *)
Definition red_mean_current := red_mean_fixed.

(* np.sum of the ragged values of one chromosome.  axis=None on a RunLengthRaggedArray gives the ROW sums (one per
   window); axis=0 gives the column sums and raises on a chromosome without windows (zero-size reduction). *)
Definition op_rowsums (a : list gval) : gval := match a with [GR rows] => GL (map sumZ rows) | _ => GErr end.
Definition op_colsums (a : list gval) : gval :=
  match a with
  | [GR []] => GErr
  | [GR rows] => GL (map fst (spec_cols rows))
  | _ => GErr
  end.
(* reductions_map[np.sum] = operator.add.  On ndarrays `+` broadcasts: equal lengths add element-wise, a length-1
   operand is added to every element of the other (also of an empty one), anything else raises. *)
Definition red_bcast (a b : gval) : gval :=
  match a, b with
  | GL x, GL y =>
      if (length x =? length y)%nat then GL (vadd x y)
      else match x, y with
           | [x0], _ => GL (map (Z.add x0) y)
           | _, [y0] => GL (map (fun v => v + y0) x)
           | _, _ => GErr
           end
  | _, _ => GErr
  end.
(* on RunLengthArrays (column sums) `+` insists on equal lengths *)
Definition red_strict (a b : gval) : gval :=
  match a, b with
  | GL x, GL y => if (length x =? length y)%nat then GL (vadd x y) else GErr
  | _, _ => GErr
  end.

(* ---- after notes/C11.fix-3.diff: Node.__array_function__ chooses the reduction of np.sum by its axis
   (`_sum_reduction`) and the per-buffer function is `_buffer_sum` ---- *)
(* `_add_totals` (axis=None): two single numbers are added; per-row sums (the np.sum of ragged rows is one number per
   row) follow each other; a number and an array cannot be concatenated (np.concatenate raises on a 0-d operand) *)
Definition red_total (a b : gval) : gval :=
  match a, b with
  | GZ x, GZ y => GZ (x + y)
  | GL x, GL y => GL (x ++ y)
  | _, _ => GErr
  end.
(* `_concatenate_rows` (axis=-1): np.concatenate([a, b]) *)
Definition red_rows (a b : gval) : gval := match a, b with GL x, GL y => GL (x ++ y) | _, _ => GErr end.
(* `_buffer_sum(array, axis=0)`: the scalar 0 for a buffer without rows, else the column sums *)
Definition op_colsums_fixed (a : list gval) : gval :=
  match a with
  | [GR []] => GZ 0
  | [GR rows] => GL (map fst (spec_cols rows))
  | _ => GErr
  end.
(* `_add_columns` on column sums: a scalar operand is added with `+` (only the 0 of an empty buffer occurs), equal
   lengths add, otherwise the shorter is added into the prefix of the longer *)
Fixpoint z_padadd (x y : list Z) : list Z :=
  match x, y with
  | p :: x', q :: y' => (p + q) :: z_padadd x' y'
  | [], y => y
  | x, [] => x
  end.
Definition red_cols (a b : gval) : gval :=
  match a, b with
  | GZ 0, y => y
  | x, GZ 0 => x
  | GL x, GL y => GL (z_padadd x y)
  | _, _ => GErr
  end.

Definition red_tuple (fs : list (gval -> gval -> gval)) (a b : gval) : gval :=
  match a, b with
  | GT xs, GT ys => GT (map (fun '(f, (x, y)) => f x y) (combine fs (combine xs ys)))
  | _, _ => GErr
  end.

(* GenomicIntervalsStreamed(StreamNode(iter_chromosomes(...))) creates, in this order: the interval stream node,
   start, stop, chromosome getattr nodes, and a chromosome-size stream node. *)
Definition intervals_nodes (base : nat) (per_chrom : list (list iv)) (sizes : list Z) : list (node gval) :=
  [ NStream (map GIv per_chrom);
    NComp op_start [base]; NComp op_stop [base]; NComp op_chrom [base];
    NStream (map GZ sizes) ].

Inductive pipeline :=
| PPileup            (* compute(pileup.get_data()): the per-chromosome tracks, concatenated *)
| PMask              (* compute(mask.get_data()) *)
| PPileupSum         (* compute(pileup.sum()) *)
| PPileupHist (k lo hi : Z)     (* compute(np.histogram(pileup, bins=k, range=(lo,hi))) *)
| PHistAndSum (k lo hi : Z)     (* compute((histogram, sum)) : ReductionNode.join *)
| PValues            (* compute(pileup[windows]) : values under a second streamed interval set *)
| PValuesMean0       (* compute(pileup[windows].mean(axis=0)) *)
| PValuesSum         (* compute(np.sum(pileup[windows])) *)
| PValuesSum0        (* compute(pileup[windows].sum(axis=0)) *)
| PValuesSum1        (* compute(pileup[windows].sum(axis=-1)) *)
| PValuesSumPinned   (* history: np.sum(pileup[windows]) before fix-3 (reductions_map[np.sum] = operator.add) *)
| PValuesSum0Pinned. (* history: pileup[windows].sum(axis=0) before fix-3 *)

(* names stream node content is irrelevant for the dense observation; modelled as GZ index *)
Definition names_node (n : nat) : node gval := NStream (map (fun i => GZ i) (arange (Z.of_nat n))).
Definition op_data (a : list gval) : gval := match a with [_; GL t] => GL t | _ => GErr end.

Definition pipeline_graph (p : pipeline) (sizes : list Z) (a b : list (list iv)) : list (node gval) * nat :=
  let A := intervals_nodes 0 a sizes in                 (* nodes 0..4 *)
  match p with
  | PPileup => (A ++ [NComp op_pileup [0%nat; 4%nat]; names_node (length sizes); NComp op_data [6%nat; 5%nat]], 7%nat)
  | PMask => (A ++ [NComp op_mask [0%nat; 4%nat]; names_node (length sizes); NComp op_data [6%nat; 5%nat]], 7%nat)
  | PPileupSum => (A ++ [NComp op_pileup [0%nat; 4%nat]; names_node (length sizes); NComp op_sum [5%nat]], 7%nat)
  | PPileupHist k lo hi =>
      (A ++ [NComp op_pileup [0%nat; 4%nat]; names_node (length sizes); NComp (op_hist k lo hi) [5%nat]], 7%nat)
  | PHistAndSum k lo hi =>
      (A ++ [NComp op_pileup [0%nat; 4%nat]; names_node (length sizes); NComp (op_hist k lo hi) [5%nat];
             NComp op_sum [5%nat]; NComp op_tuple [7%nat; 8%nat]], 9%nat)
  | PValues =>
      (A ++ [NComp op_pileup [0%nat; 4%nat]; names_node (length sizes)] ++ intervals_nodes 7 b sizes   (* 7..11 *)
         ++ [NComp op_extract [5%nat; 8%nat; 9%nat]], 12%nat)
  | PValuesMean0 =>
      (A ++ [NComp op_pileup [0%nat; 4%nat]; names_node (length sizes)] ++ intervals_nodes 7 b sizes
         ++ [NComp op_extract [5%nat; 8%nat; 9%nat]; NComp op_sum_n0 [12%nat]], 13%nat)
  | PValuesSum =>
      (A ++ [NComp op_pileup [0%nat; 4%nat]; names_node (length sizes)] ++ intervals_nodes 7 b sizes
         ++ [NComp op_extract [5%nat; 8%nat; 9%nat]; NComp op_rowsums [12%nat]], 13%nat)
  | PValuesSum0 =>
      (A ++ [NComp op_pileup [0%nat; 4%nat]; names_node (length sizes)] ++ intervals_nodes 7 b sizes
         ++ [NComp op_extract [5%nat; 8%nat; 9%nat]; NComp op_colsums_fixed [12%nat]], 13%nat)
  | PValuesSum1 =>
      (A ++ [NComp op_pileup [0%nat; 4%nat]; names_node (length sizes)] ++ intervals_nodes 7 b sizes
         ++ [NComp op_extract [5%nat; 8%nat; 9%nat]; NComp op_rowsums [12%nat]], 13%nat)
  | PValuesSumPinned =>
      (A ++ [NComp op_pileup [0%nat; 4%nat]; names_node (length sizes)] ++ intervals_nodes 7 b sizes
         ++ [NComp op_extract [5%nat; 8%nat; 9%nat]; NComp op_rowsums [12%nat]], 13%nat)
  | PValuesSum0Pinned =>
      (A ++ [NComp op_pileup [0%nat; 4%nat]; names_node (length sizes)] ++ intervals_nodes 7 b sizes
         ++ [NComp op_extract [5%nat; 8%nat; 9%nat]; NComp op_colsums [12%nat]], 13%nat)
  end.

Definition gconcat (vs : list gval) : gval :=
  match vs with
  | GR _ :: _ => GR (concat (map (fun v => match v with GR r => r | _ => [] end) vs))
  | _ => GT vs                                        (* per-chromosome tracks are kept per chromosome *)
  end.
Definition finish (p : pipeline) (mean_red : gval -> gval -> gval) (vs : list gval) : option gval :=
  match p with
  | PPileup | PMask => Some (GT vs)
  | PValues => Some (gconcat vs)
  | PPileupSum => reduce1 red_total vs
  | PPileupHist _ _ _ => reduce1 red_hist vs
  | PHistAndSum _ _ _ => reduce1 (red_tuple [red_hist; red_total]) vs
  | PValuesMean0 => reduce1 mean_red vs
  | PValuesSum => reduce1 red_total vs
  | PValuesSum0 => reduce1 red_cols vs
  | PValuesSum1 => reduce1 red_rows vs
  | PValuesSumPinned => reduce1 red_bcast vs
  | PValuesSum0Pinned => reduce1 red_strict vs
  end.

(* whole streamed pipeline: chunks of (chromosome id, interval) -> groupby/join -> genome walk -> graph -> result *)
Definition per_chromosome (order : list Z) (cs : list (list (Z * iv))) : list (list iv) :=
  walk order (stream_groupby false cs).
Definition run_pipeline_with (mean_red : gval -> gval -> gval) (p : pipeline) (order sizes : list Z)
           (csa csb : list (list (Z * iv))) : option gval :=
  let '(g, root) := pipeline_graph p sizes (per_chromosome order csa) (per_chromosome order csb) in
  match run_graph g root with
  | ROk vs => finish p mean_red vs
  | _ => None
  end.
Definition run_pipeline := run_pipeline_with red_mean_current.

(* in-memory meaning of the same pipeline: everything at once, per chromosome of the genome *)
Definition ivs_of (name : Z) (d : list (Z * iv)) : list iv := map snd (filter (fun e => fst e =? name) d).
Definition spec_pipeline (p : pipeline) (order sizes : list Z) (da db : list (Z * iv)) : gval :=
  let tracks := map (fun '(name, size) => coverage size (ivs_of name da)) (combine order sizes) in
  let masks := map (fun '(name, size) => mask_of size (ivs_of name da)) (combine order sizes) in
  let vals := concat (map (fun '(name, t) => values_under t (ivs_of name db)) (combine order tracks)) in
  match p with
  | PPileup => GT (map GL tracks)
  | PMask => GT (map GL masks)
  | PPileupSum => GZ (sumZ (concat tracks))
  | PPileupHist k lo hi => GL (spec_hist k lo hi (concat tracks))
  | PHistAndSum k lo hi => GT [GL (spec_hist k lo hi (concat tracks)); GZ (sumZ (concat tracks))]
  | PValues => GR vals
  | PValuesMean0 => if len (concat vals) =? 0 then GZ 0 else GSN (spec_cols vals)
  | PValuesSum | PValuesSum1 | PValuesSumPinned => GL (map sumZ vals)    (* in memory: one sum per window *)
  | PValuesSum0 | PValuesSum0Pinned => GL (map fst (spec_cols vals))      (* in memory: the column sums *)
  end.

(* ====================================================================================== *)
(* Values under STRANDED windows (GenomicArrayNode.extract_intervals, stranded_func) *)
(* ====================================================================================== *)
(* both the streamed stranded_func and the in-memory extract_intervals keep a row as it is only for strand '+' and
   reverse it for every other strand symbol ('-' and '.'): np.where((strand == '+')[:, None], rle, rle[:, ::-1]) *)
Definition orient (strand : Z) (row : list Z) : list Z := if strand =? 0 then row else rev row.
Definition values_under_stranded (track : list Z) (ws : list swin) : list (list Z) :=
  map (fun w => orient (snd w) (slice (fst (fst w)) (snd (fst w)) track)) ws.

Definition op_sstart (a : list gval) : gval := match a with [GIvS l] => GL (map (fun w => fst (fst w)) l) | _ => GErr end.
Definition op_sstop (a : list gval) : gval := match a with [GIvS l] => GL (map (fun w => snd (fst w)) l) | _ => GErr end.
Definition op_sstrand (a : list gval) : gval := match a with [GIvS l] => GL (map snd l) | _ => GErr end.
Definition op_schrom (a : list gval) : gval := match a with [GIvS l] => GL (map (fun _ => 0) l) | _ => GErr end.
Definition op_extract_stranded (a : list gval) : gval :=
  match a with
  | [GL t; GL s; GL e; GL st] =>
      GR (map (fun '(x, y, z) => orient z (slice x y t)) (combine (combine s e) st))
  | _ => GErr
  end.
(* GenomicIntervalsStreamed(..., is_stranded=True) creates: stream, start, stop, strand, chromosome, chrom sizes *)
Definition stranded_nodes (base : nat) (per_chrom : list (list swin)) (sizes : list Z) : list (node gval) :=
  [ NStream (map GIvS per_chrom);
    NComp op_sstart [base]; NComp op_sstop [base]; NComp op_sstrand [base]; NComp op_schrom [base];
    NStream (map GZ sizes) ].

Inductive spipeline := SValues | SValuesMean0.
Definition spipeline_graph (p : spipeline) (sizes : list Z) (a : list (list iv)) (w : list (list swin))
  : list (node gval) * nat :=
  let A := intervals_nodes 0 a sizes in                                          (* 0..4 *)
  let base := A ++ [NComp op_pileup [0%nat; 4%nat]; names_node (length sizes)]   (* 5, 6 *)
                ++ stranded_nodes 7 w sizes                                      (* 7..12 *)
                ++ [NComp op_extract_stranded [5%nat; 8%nat; 9%nat; 10%nat]] in  (* 13 *)
  match p with
  | SValues => (base, 13%nat)
  | SValuesMean0 => (base ++ [NComp op_sum_n0 [13%nat]], 14%nat)
  end.
Definition per_chromosome_s (order : list Z) (cs : list (list (Z * swin))) : list (list swin) :=
  walk order (stream_groupby false cs).
Definition run_stranded_with (mean_red : gval -> gval -> gval) (p : spipeline) (order sizes : list Z)
           (csa : list (list (Z * iv))) (csw : list (list (Z * swin))) : option gval :=
  let '(g, root) := spipeline_graph p sizes (per_chromosome order csa) (per_chromosome_s order csw) in
  match run_graph g root with
  | ROk vs => match p with SValues => Some (gconcat vs) | SValuesMean0 => reduce1 mean_red vs end
  | _ => None
  end.
Definition run_stranded := run_stranded_with red_mean_current.
Definition swins_of (name : Z) (d : list (Z * swin)) : list swin := map snd (filter (fun e => fst e =? name) d).
Definition spec_stranded (p : spipeline) (order sizes : list Z) (da : list (Z * iv)) (dw : list (Z * swin)) : gval :=
  let vals := concat (map (fun '(name, size) => values_under_stranded (coverage size (ivs_of name da)) (swins_of name dw))
                          (combine order sizes)) in
  match p with
  | SValues => GR vals
  | SValuesMean0 => if len (concat vals) =? 0 then GZ 0 else GSN (spec_cols vals)
  end.

(* ====================================================================================== *)
(* Arithmetic on a streamed track: Node.__array_ufunc__ builds ComputationNode(ufunc, args) *)
(* with the operands IN THE ORDER THEY WERE WRITTEN; plain values stay in their position.  *)
(* ====================================================================================== *)
Inductive bop := BAdd | BSub | BMul | BPow | BFloorDiv | BMod | BGt | BLt | BGe | BLe | BEq | BNe.
Definition b2z (b : bool) : Z := if b then 1 else 0.
Definition bop_eval (o : bop) (x y : Z) : Z :=
  match o with
  | BAdd => x + y | BSub => x - y | BMul => x * y | BPow => x ^ y
  | BFloorDiv => x / y | BMod => x mod y
  | BGt => b2z (x >? y) | BLt => b2z (x <? y) | BGe => b2z (x >=? y) | BLe => b2z (x <=? y)
  | BEq => b2z (x =? y) | BNe => b2z (negb (x =? y))
  end.
(* the expression as the user writes it: operand order is part of the term *)
Inductive texpr := TTrack | TConst (c : Z) | TBin (o : bop) (a b : texpr).
Fixpoint teval (e : texpr) (x : Z) : Z :=
  match e with TTrack => x | TConst c => c | TBin o a b => bop_eval o (teval a x) (teval b x) end.

(* a ufunc on per-chromosome buffers: arrays element-wise, a plain value broadcast *)
Fixpoint map2 (f : Z -> Z -> Z) (a b : list Z) : list Z :=
  match a, b with x :: a', y :: b' => f x y :: map2 f a' b' | _, _ => [] end.
Definition lift2 (o : bop) (a b : gval) : gval :=
  match a, b with
  | GL x, GL y => if (length x =? length y)%nat then GL (map2 (bop_eval o) x y) else GErr
  | GZ c, GL y => GL (map (bop_eval o c) y)
  | GL x, GZ c => GL (map (fun v => bop_eval o v c) x)
  | _, _ => GErr
  end.
Inductive operand := ONode (k : nat) | OConst (c : Z).
(* ComputationNode._get_buffer: args = [a._get_buffer(i) if isinstance(a, Node) else a for a in self._args] *)
Fixpoint fill_args (template : list operand) (vs : list gval) : list gval :=
  match template with
  | [] => []
  | OConst c :: t => GZ c :: fill_args t vs
  | ONode _ :: t => match vs with v :: vs' => v :: fill_args t vs' | [] => [GErr] end
  end.
Definition node_args (template : list operand) : list nat :=
  flat_map (fun o => match o with ONode k => [k] | OConst _ => [] end) template.
Definition apply_ufunc (o : bop) (args : list gval) : gval :=
  match args with [x; y] => lift2 o x y | _ => GErr end.
Definition ufunc_node (o : bop) (template : list operand) : node gval :=
  NComp (fun vs => apply_ufunc o (fill_args template vs)) (node_args template).

(* nodes created while Python evaluates the expression (left operand first); [next] is the number of nodes that exist *)
Fixpoint compile (e : texpr) (track next : nat) : list (node gval) * operand :=
  match e with
  | TTrack => ([], ONode track)
  | TConst c => ([], OConst c)
  | TBin o a b =>
      let '(na, oa) := compile a track next in
      let '(nb, ob) := compile b track (next + length na) in
      match oa, ob with
      | OConst x, OConst y => (na ++ nb, OConst (bop_eval o x y))          (* plain Python arithmetic, no node *)
      | _, _ => (na ++ nb ++ [ufunc_node o [oa; ob]], ONode (next + length na + length nb))
      end
  end.

Inductive query :=
| QTrack                       (* compute(track.get_data()) *)
| QSum                         (* compute(track.sum()) *)
| QHist (k lo hi : Z)          (* compute(np.histogram(track, bins=k, range=(lo,hi))) *)
| QValues.                     (* compute(track[windows]) *)
Definition expr_graph (e : texpr) (q : query) (sizes : list Z) (a b : list (list iv)) : option (list (node gval) * nat) :=
  let base := intervals_nodes 0 a sizes ++ [NComp op_pileup [0%nat; 4%nat]; names_node (length sizes)]
              ++ intervals_nodes 7 b sizes in                                        (* 0..11 *)
  let '(ne, oe) := compile e 5 12 in
  match oe with
  | OConst _ => None                                                                (* not a track *)
  | ONode t =>
      let r := (12 + length ne)%nat in
      Some (base ++ ne ++ [match q with
                           | QTrack => NComp op_data [6%nat; t]
                           | QSum => NComp op_sum [t]
                           | QHist k lo hi => NComp (op_hist k lo hi) [t]
                           | QValues => NComp op_extract [t; 8%nat; 9%nat]
                           end], r)
  end.
Definition finish_query (q : query) (vs : list gval) : option gval :=
  match q with
  | QTrack => Some (GT vs)
  | QSum => reduce1 red_total vs
  | QHist _ _ _ => reduce1 red_hist vs
  | QValues => Some (gconcat vs)
  end.
Definition run_expr (e : texpr) (q : query) (order sizes : list Z) (csa csb : list (list (Z * iv))) : option gval :=
  match expr_graph e q sizes (per_chromosome order csa) (per_chromosome order csb) with
  | None => None
  | Some (g, root) => match run_graph g root with ROk vs => finish_query q vs | _ => None end
  end.
(* in memory: the same expression on the whole per-chromosome tracks, position by position *)
Definition spec_expr (e : texpr) (q : query) (order sizes : list Z) (da db : list (Z * iv)) : gval :=
  let tracks := map (fun '(name, size) => map (teval e) (coverage size (ivs_of name da))) (combine order sizes) in
  match q with
  | QTrack => GT (map GL tracks)
  | QSum => GZ (sumZ (concat tracks))
  | QHist k lo hi => GL (spec_hist k lo hi (concat tracks))
  | QValues => GR (concat (map (fun '(name, t) => values_under t (ivs_of name db)) (combine order tracks)))
  end.

(* ====================================================================================== *)
(* Windows around streamed locations: get_location('start').get_windows(flank= | window_size=) *)
(* ====================================================================================== *)
Inductive warg := WFlank (f : Z) | WSize (w : Z).
(* named kernel (Gen/C11.v regenerates it from both get_windows implementations) *)
Definition m_win_flanks (a : warg) : Z * Z :=
  match a with
  | WFlank f => (f, f + 1)
  | WSize w => (w / 2, w / 2 + w mod 2)
  end.
(* arithmetics/intervals.py:clip *)
Definition clip_iv (size : Z) (i : iv) : iv :=
  (Z.min (Z.max 0 (fst i)) size, Z.max (Z.min size (snd i)) 0).
Definition loc_windows (a : warg) (size : Z) (ivs : list iv) : list iv :=
  let '(l, r) := m_win_flanks a in map (fun i => clip_iv size (fst i - l, fst i + r)) ivs.

Definition op_mk_iv (a : list gval) : gval :=
  match a with [GL _; GL lo; GL hi] => GIv (combine lo hi) | _ => GErr end.
Definition op_clip (a : list gval) : gval :=
  match a with [GIv l; GZ size] => GIv (map (clip_iv size) l) | _ => GErr end.

Inductive wquery := WWindows | WValues | WMean0.
(* nodes in creation order: intervals (0..4), pileup + names (5, 6), location (chromosome 7, position 8, sizes 9),
   position - l (10), position + r (11), Interval(...) (12), GenomicIntervalsStreamed (13..16), clip (17),
   GenomicIntervalsStreamed of the clipped windows (18..21), values (22), sum_and_n (23) *)
Definition window_graph (a : warg) (q : wquery) (sizes : list Z) (ivs : list (list iv)) : list (node gval) * nat :=
  let '(l, r) := m_win_flanks a in
  let sz := NStream (map GZ sizes) in
  let g := intervals_nodes 0 ivs sizes
           ++ [NComp op_pileup [0%nat; 4%nat]; names_node (length sizes)]
           ++ [NComp op_chrom [0%nat]; NComp op_start [0%nat]; sz]
           ++ [ufunc_node BSub [ONode 8; OConst l]; ufunc_node BAdd [ONode 8; OConst r]; NComp op_mk_iv [7%nat; 10%nat; 11%nat]]
           ++ [NComp op_start [12%nat]; NComp op_stop [12%nat]; NComp op_chrom [12%nat]; sz]
           ++ [NComp op_clip [12%nat; 16%nat]]
           ++ [NComp op_start [17%nat]; NComp op_stop [17%nat]; NComp op_chrom [17%nat]; sz]
           ++ [NComp op_extract [5%nat; 18%nat; 19%nat]; NComp op_sum_n0 [22%nat]] in
  (g, match q with WWindows => 17%nat | WValues => 22%nat | WMean0 => 23%nat end).
Definition run_windows (a : warg) (q : wquery) (order sizes : list Z) (cs : list (list (Z * iv))) : option gval :=
  let '(g, root) := window_graph a q sizes (per_chromosome order cs) in
  match run_graph g root with
  | ROk vs => match q with
              | WWindows => Some (GT vs)
              | WValues => Some (gconcat vs)
              | WMean0 => reduce1 red_mean_current vs
              end
  | _ => None
  end.
Definition spec_windows (a : warg) (q : wquery) (order sizes : list Z) (d : list (Z * iv)) : gval :=
  let per := map (fun '(name, size) => (coverage size (ivs_of name d), loc_windows a size (ivs_of name d))) (combine order sizes) in
  let vals := concat (map (fun '(t, w) => values_under t w) per) in
  match q with
  | WWindows => GT (map (fun '(_, w) => GIv w) per)
  | WValues => GR vals
  | WMean0 => if len (concat vals) =? 0 then GZ 0 else GSN (spec_cols vals)
  end.

(* ====================================================================================== *)
(* count_encoded on more than max_size values: counted block by block *)
(* ====================================================================================== *)
Definition count_vector (K : Z) (xs : list Z) : list Z := map (fun b => countZ b xs) (arange K).
Definition max_block : Z := 1000000.
(* sum(np.bincount(values[i*max_size:(i+1)*max_size], minlength) for i in range(len(values) // max_size + 1)):
   entry c of the summed bincounts is the sum over the blocks of the number of c's in the block *)
Definition m_nblocks (n M : Z) : Z := n / M + 1.
Definition count_blocks (M K : Z) (l : list Z) : list Z :=
  map (fun c => sumZ (map (fun i => countZ c (slice (i * M) ((i + 1) * M) l)) (arange (m_nblocks (len l) M)))) (arange K).
Definition count_encoded_flat (M K : Z) (l : list Z) : list Z :=
  if len l >? M then count_blocks M K l else count_vector K l.
(* reads are handed to Coq run-length encoded: (letter, run length) *)
Definition runs_t := list (Z * Z).
Definition expand_runs (r : runs_t) : list Z := concat (map (fun '(x, n) => repeat x (Z.to_nat n)) r).
(* count_kmers(stream.sequence, 1): per chunk all reads flattened, counted, the chunk results summed *)
Definition stream_big_counts (M K : Z) (cs : list (list runs_t)) : option (list Z) :=
  reduce1 vadd (map (fun reads => count_encoded_flat M K (concat (map expand_runs reads))) cs).
Definition spec_big_counts (K : Z) (cs : list (list runs_t)) : list Z :=
  map (fun c => sumZ (map snd (filter (fun xn => fst xn =? c) (concat (concat cs))))) (arange K).

(* Model/C06.v — alphabet encodings: specification and faithful model.
   Mirrors bionumpy/encodings/alphabet_encoding.py (__init__, _initialize, _encode, _decode),
   the input-type dispatch of OneToOneEncoding.encode (encoded_array.py:43-95), the re-targeting
   rule of as_encoded_array (encoded_array.py:578-595) and change_encoding (655-695).
   Executable definitions only; proofs live in Proofs/C06.v.

   Variants.  Two places of the code at /repo HEAD are defective; each is modelled twice and every
   model function takes the variant as a parameter, so theorems can be stated about both:
     lower_pinned   = alphabet + 32 (uint8)          — the code as it is (alphabet_encoding.py:24)
     lower_fixed    = c.lower() of every member       — notes/C06.fix-1.diff
     RPinned        = prefix compared up to [:m]     — the code as it is (encoded_array.py:584-585)
     RFixed         = prefix [:m+1], empty data ok   — notes/C06.fix-2.diff
   The two one-line switches `cur_lower` / `cur_rule` below say which variant Corr.C06.model_ok
   compares the implementation with; they must name the variant that is in /repo. *)
From Coq Require Import ZArith List Bool.
From BNP Require Import Base.Prims.
Import ListNotations.
Open Scope Z_scope.

(* ====================================================================== specification *)
(* An alphabet is the list of its (upper-cased) byte values.  A character belongs to it when its
   upper-case form is a member: letters case-insensitively, everything else exactly. *)
Definition member (A : list Z) (c : Z) : bool := existsb (Z.eqb (upper c)) A.
Definition text_ok (A : list Z) (s : list Z) : bool := forallb (member A) s.
(* decoding = indexing the alphabet; None when a code is not a code of the alphabet *)
Fixpoint spec_decode (A : list Z) (codes : list Z) : option (list Z) :=
  match codes with
  | [] => Some []
  | k :: r => if (0 <=? k) && (k <? len A)
              then match spec_decode A r with Some t => Some (nthZ A k :: t) | None => None end
              else None
  end.
Fixpoint spec_decode_rows (A : list Z) (rows : list (list Z)) : option (list (list Z)) :=
  match rows with
  | [] => Some []
  | r :: rest => match spec_decode A r, spec_decode_rows A rest with
                 | Some t, Some ts => Some (t :: ts) | _, _ => None end
  end.

(* ====================================================================== model *)
Inductive enc := Base | Alpha (raw : list Z).      (* BaseEncoding (ASCII) | AlphabetEncoding(raw) *)

(* __init__: self._raw_alphabet = [c.upper() for c in alphabet] *)
Definition alphabet_of (raw : list Z) : list Z := map upper raw.

(* tbl[i] = v  (i within range; NumPy raises otherwise, the model leaves the table alone) *)
Fixpoint set_nth (i : nat) (v : Z) (l : list Z) : list Z :=
  match l with
  | [] => []
  | x :: r => match i with O => v :: r | S i' => x :: set_nth i' v r end
  end.
(* tbl[idx] = vals with integer-array idx: assignments happen in order, the last one wins *)
Fixpoint scatter (tbl idx vals : list Z) : list Z :=
  match idx, vals with
  | i :: idx', v :: vals' => scatter (set_nth (Z.to_nat i) v tbl) idx' vals'
  | _, _ => tbl
  end.

(* lower_alphabet = self._alphabet + ord("a") - ord("A")     (uint8 arithmetic) *)
Definition lower_pinned (A : list Z) : list Z := map (fun a => (a + 32) mod 256) A.
(* repaired: the lower-case form of every member (non-letters map to themselves) *)
Definition lower_fixed (A : list Z) : list Z := map lower A.

(* the code that marks "not in the alphabet" in the 256-entry table (np.full(256, 255); `ret.ravel()==255`) *)
Definition invalid_code : Z := 255.

(* _initialize: lookup = full(256, 255); lookup[alphabet] = arange(n); lookup[lower_alphabet] = arange(n) *)
Definition build_lookup (L : list Z -> list Z) (A : list Z) : list Z :=
  let n := arange (len A) in
  scatter (scatter (repeat invalid_code 256) A n) (L A) n.

Inductive res :=
  | Ok (codes : list Z)
  | EncErr (offset : Z)      (* EncodingError(message, offset) *)
  | EncExc                   (* EncodingException: re-targeting refused *)
  | Unicode                  (* UnicodeEncodeError from bytes(str, 'ascii') *)
  | Crash.                   (* any other exception (IndexError, ValueError ...) *)

(* _encode on a flat uint8 array (every element of s is in 0..255) *)
Definition encode_flat (L : list Z -> list Z) (A : list Z) (s : list Z) : res :=
  let tbl := build_lookup L A in
  let ret := map (nthZ tbl) s in
  if existsb (fun r => len A <=? r) ret then
    match positions invalid_code ret with
    | o :: _ => EncErr o                  (* np.flatnonzero(ret.ravel()==255)[0] *)
    | [] => Crash                         (* IndexError: nothing equals 255 *)
    end
  else Ok ret.

(* _decode: self._alphabet[array]  (IndexError when a code is outside the alphabet) *)
Fixpoint decode_flat (A : list Z) (codes : list Z) : option (list Z) :=
  match codes with
  | [] => Some []
  | k :: r => if (0 <=? k) && (k <? len A)
              then match decode_flat A r with Some t => Some (nthZ A k :: t) | None => None end
              else None
  end.

(* EncodedRaggedArray(data, lens): rows of a flat array *)
Fixpoint unflatten (lens : list nat) (flat : list Z) : list (list Z) :=
  match lens with
  | [] => []
  | n :: r => firstn n flat :: unflatten r (skipn n flat)
  end.
Definition lens_of (rows : list (list Z)) : list nat := map (@length Z) rows.

(* Input routes of OneToOneEncoding.encode:
     0  bnp.as_encoded_array(str, enc)       1  enc.encode(str)
        -> bytes(str, 'ascii') first: any char >= 128 raises UnicodeEncodeError
     2  as_encoded_array(list of str, enc)   3  enc.encode(np.ndarray uint8)   4  enc.encode(base-encoded ragged array)
     5  enc.encode(list of str)              6  as_encoded_array(base-encoded EncodedArray, enc)
   Rows are flattened, encoded as one array (so the error offset counts over the flattened
   text) and the row lengths are put back. *)
Definition is_str_route (route : Z) : bool := (route =? 0) || (route =? 1).
Definition encode_rows (L : list Z -> list Z) (route : Z) (A : list Z) (rows : list (list Z))
  : res * list nat :=
  let flat := concat rows in
  if is_str_route route && existsb (fun c => 128 <=? c) flat then (Unicode, [])
  else (encode_flat L A flat, lens_of rows).

(* ---------- re-targeting already encoded data: as_encoded_array(s, target) ---------- *)
Inductive rule := RPinned | RFixed.
Fixpoint maxl (d : Z) (l : list Z) : Z := match l with [] => d | x :: r => maxl (Z.max d x) r end.
(* named pieces of the repaired rule (bridged to the source by Bridge/C06.v):
   m = int(s.raw().max()) if s.size > 0 else -1 ;  prefixes [:m + 1] ;  m < len(target alphabet) *)
Definition m_retarget_m (size mx : Z) : Z := if size >? 0 then mx else -1.
Definition retarget_m (codes : list Z) : Z :=
  m_retarget_m (len codes) (match codes with [] => 0 | x :: r => maxl x r end).
Definition m_prefix_len (m : Z) : Z := m + 1.
Definition m_fits (m len_target : Z) : bool := m <? len_target.
Definition retarget (ru : rule) (src dst : enc) (codes : list Z) : res :=
  match src, dst with
  | Base, Base => Ok codes
  | Alpha _, Base => EncExc              (* target has no get_alphabet *)
  | Base, Alpha _ => Crash               (* not a re-targeting: handled by encode_rows *)
  | Alpha ra, Alpha rb =>
      let A := alphabet_of ra in let B := alphabet_of rb in
      if zlist_eqb A B then Ok codes     (* s.encoding == target_encoding: returned unchanged *)
      else match ru, codes with
           | RPinned, [] => Crash        (* s.raw().max() of an empty array: ValueError *)
           | RPinned, x :: r =>
               let m := maxl x r in
               if zlist_eqb (firstn (Z.to_nat m) A) (firstn (Z.to_nat m) B)
               then (if m <? len B then Ok codes else EncExc)
               else EncExc
           | RFixed, _ =>
               let m := retarget_m codes in          (* -1 for empty data *)
               if zlist_eqb (firstn (Z.to_nat (m_prefix_len m)) A) (firstn (Z.to_nat (m_prefix_len m)) B)
               then (if m_fits m (len B) then Ok codes else EncExc)
               else EncExc
           end
  end.

(* ---------- change_encoding = decode with the old, encode with the new ---------- *)
Definition change (L : list Z -> list Z) (src dst : enc) (codes : list Z) : res :=
  match src with
  | Base => Crash
  | Alpha ra =>
      match decode_flat (alphabet_of ra) codes with
      | None => Crash
      | Some txt => match dst with
                    | Base => Ok txt
                    | Alpha rb => encode_flat L (alphabet_of rb) txt
                    end
      end
  end.

(* ---------- numeric offset encodings (encodings/__init__.py: DigitEncodingFactory) ---------- *)
Definition num_encode (b min_code : Z) : Z := b - min_code.     (* bytes_array - self._min_code *)
Definition num_decode (d min_code : Z) : Z := d + min_code.     (* digits + self._min_code *)
Definition digit_min_code : Z := 48.      (* DigitEncodingFactory("0") *)
Definition quality_min_code : Z := 33.    (* DigitEncodingFactory("!") *)
Definition cigar_min_code : Z := 0.       (* DigitEncodingFactory(chr(0)) *)

(* ---------- numeric offset encodings on uint8 data (what the library computes: uint8 arithmetic wraps) ---------- *)
Definition num_encode_u8 (b min_code : Z) : Z := (num_encode b min_code) mod 256.
Definition num_decode_u8 (d min_code : Z) : Z := (num_decode d min_code) mod 256.
(* routes: 0 enc.encode(str) | 1 as_encoded_array(str, enc) | 2 enc.encode(list) | 3 enc.encode(ndarray uint8)
           4 enc.encode(base-encoded ragged)  — encode rows then decode them back with enc.decode
           9 enc.decode(int64 ndarray): no wrap *)
Definition num_rows (route mc : Z) (rows : list (list Z)) : res * list (list Z) * list (list Z) :=
  if route =? 9 then (Ok [], rows, map (map (fun d => num_decode d mc)) rows)
  else if is_str_route route && existsb (fun c => 128 <=? c) (concat rows) then (Unicode, [], [])
  else let codes := map (map (fun b => num_encode_u8 b mc)) rows in
       (Ok [], codes, map (map (fun d => num_decode_u8 d mc)) codes).

(* ---------- StringEncoding (string_encodings.py + util/ascii_hash.py) ----------
   A label is looked up by its polynomial hash only: sum_i ((129^i mod M) * s_i mod M) mod M, M = 2^31-1. *)
Definition big_mod : Z := 2147483647.
Definition n_letters : Z := 129.
Fixpoint str_hash_from (p : Z) (s : list Z) : Z :=
  match s with
  | [] => 0
  | c :: r => (p * c) mod big_mod + str_hash_from ((p * n_letters) mod big_mod) r
  end.
Definition str_hash (s : list Z) : Z := (str_hash_from 1 s) mod big_mod.
Fixpoint find_from (i : Z) (h : Z) (hs : list Z) : option Z :=
  match hs with [] => None | x :: r => if x =? h then Some i else find_from (i + 1) h r end.
Fixpoint nodupb (l : list Z) : bool :=
  match l with [] => true | x :: r => negb (existsb (Z.eqb x) r) && nodupb r end.
Fixpoint all_some {A} (l : list (option A)) : option (list A) :=
  match l with
  | [] => Some []
  | Some x :: r => match all_some r with Some t => Some (x :: t) | None => None end
  | None :: _ => None
  end.
(* verify = false: the code at HEAD (hash match is taken as identity);
   verify = true : the matched label is compared with the query (notes/C06.fix-3.diff) *)
Definition str_lookup (verify : bool) (labels : list (list Z)) (q : list Z) : option Z :=
  match find_from 0 (str_hash q) (map str_hash labels) with
  | Some i => if verify then (if zlist_eqb (nth (Z.to_nat i) labels []) q then Some i else None) else Some i
  | None => None
  end.
Definition str_encode (verify : bool) (labels queries : list (list Z)) : res :=
  if negb (nodupb (map str_hash labels)) then Crash        (* assert in AsciiHashTable.from_sequences *)
  else match all_some (map (str_lookup verify labels) queries) with
       | Some idx => Ok idx
       | None => EncErr 0                                   (* EncodingError('String encoding failed') *)
       end.
Definition str_decode (labels : list (list Z)) (codes : list Z) : option (list (list Z)) :=
  all_some (map (fun k => if (0 <=? k) && (k <? len labels) then Some (nth (Z.to_nat k) labels []) else None) codes).

(* ---------- KmerEncoding (kmer_encodings.py): little-endian base-n number of the letter codes ---------- *)
Fixpoint kmer_hash (n : Z) (codes : list Z) : Z :=
  match codes with [] => 0 | c :: r => c + n * kmer_hash n r end.
Fixpoint kmer_digits (n : Z) (k : nat) (h : Z) : list Z :=
  match k with O => [] | S k' => h mod n :: kmer_digits n k' (h / n) end.
(* encode one k-mer text: AssertionError unless it has k letters; the alphabet encoding's error otherwise *)
Definition kmer_encode (L : list Z -> list Z) (A : list Z) (k : Z) (s : list Z) : res :=
  if negb (len s =? k) then Crash
  else match encode_flat L A s with
       | Ok codes => Ok [kmer_hash (len A) codes]
       | e => e
       end.
(* a list of k-mer texts: every row must have k letters; rows are flattened and encoded as one array *)
Definition kmer_encode_rows (L : list Z -> list Z) (route : Z) (A : list Z) (k : Z) (rows : list (list Z)) : res :=
  if existsb (fun r => negb (len r =? k)) rows then Crash
  else if is_str_route route && existsb (fun c => 128 <=? c) (concat rows) then Unicode
  else match encode_flat L A (concat rows) with
       | Ok codes => Ok (map (kmer_hash (len A)) (unflatten (lens_of rows) codes))
       | e => e
       end.
Definition kmer_to_string (A : list Z) (k : Z) (h : Z) : option (list Z) :=
  decode_flat A (kmer_digits (len A) (Z.to_nat k) h).

(* ---------- what the library reports as decoded text for codes in an encoding ---------- *)
Definition decode_enc (e : enc) (codes : list Z) : option (list Z) :=
  match e with Base => Some codes | Alpha ra => decode_flat (alphabet_of ra) codes end.

(* single-byte acceptance table: code of byte b, 255 when EncodingError, -1 for anything else *)
Definition byte_code (L : list Z -> list Z) (A : list Z) (b : Z) : Z :=
  match encode_flat L A [b] with Ok [k] => k | EncErr _ => 255 | _ => -1 end.

(* ====================================================================== which variant is in /repo *)
Definition cur_lower : list Z -> list Z := lower_fixed.     (* switch to lower_fixed with notes/C06.fix-1.diff *)
Definition cur_str_verify : bool := true.                    (* switch to true with notes/C06.fix-3.diff *)
Definition cur_rule : rule := RFixed.                       (* switch to RFixed with notes/C06.fix-2.diff *)

(* the predefined alphabets (constructor strings of alphabet_encoding.py:105-125) *)
Definition predefined : list (list Z) :=
  [ [65;67;84;71]  (* ACTG *);
    [65;67;71;84]  (* ACGT *);
    [65;67;84;71;110]  (* ACTGn *);
    [65;67;71;84;110]  (* ACGTn *);
    [48;49;50;51;52;53;54;55;56;57]  (* 0123456789 *);
    [65;67;85;71]  (* ACUG *);
    [65;67;68;69;70;71;72;73;75;76;77;78;80;81;82;83;84;86;87;89;42]  (* ACDEFGHIKLMNPQRSTVWYstar *);
    [61;65;67;77;71;82;83;86;84;87;89;72;75;68;66;78]  (* =ACMGRSVTWYHKDBN *);
    [77;73;68;78;83;72;80;61;88]  (* MIDNSHP=X *);
    [43;45;46]  (* +-. *) ].

(* ====================================================================== vocabulary of the theorems *)
Definition byte (c : Z) : Prop := 0 <= c < 256.

(* an alphabet as AlphabetEncoding.__init__ leaves it: ASCII, upper-cased, at most 255 members *)
Definition alphabet_ok (A : list Z) : Prop :=
  len A <= 255 /\ Forall (fun a => 0 <= a < 128 /\ upper a = a) A.

Definition lookup (L : list Z -> list Z) (A : list Z) (c : Z) : Z := nthZ (build_lookup L A) c.

Definition is_letter (a : Z) : bool := (65 <=? a) && (a <=? 90).

(* c is one of the bytes that the +32 table adds for a non-letter member *)
Definition shifted_nonletter (A : list Z) (c : Z) : Prop :=
  exists a, In a A /\ is_letter a = false /\ (a + 32) mod 256 = c.

(* decoding in an encoding (Base = the bytes themselves) *)
Definition dec (e : enc) (codes : list Z) : option (list Z) :=
  match e with Base => Some codes | Alpha raw => spec_decode (alphabet_of raw) codes end.

Definition pre_alphas : list (list Z) := map alphabet_of predefined.

Definition shifted_b (A : list Z) (c : Z) : bool :=
  existsb (fun a => negb (is_letter a) && ((a + 32) mod 256 =? c)) A.

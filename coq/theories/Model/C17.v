(* Model/C17.v — indexed FASTA: layout specification, index construction, random access.
   Mirrors bionumpy/io/indexed_fasta.py (__getitem__, get_interval_sequences,
   get_contig_lengths) and bionumpy/io/multiline_buffer.py (FastaIdxBuffer.get_data).
   Executable definitions only; proofs live in Proofs/C17.v. *)
From Coq Require Import String.
From Coq Require Import ZArith List Bool.
From BNP Require Import Base.Prims.
Import ListNotations.
Open Scope Z_scope.

(* ---------- specification side: how a FASTA file is laid out ---------- *)
Record rec := { r_name : list Z;    (* header text after '>' (may contain a description) *)
                r_seq : list Z;     (* the sequence, no line breaks *)
                r_width : Z }.      (* bases per line, >= 1 *)

(* eol = [10] (LF) or [13;10] (CRLF) *)
Fixpoint wrap_fuel (fuel : nat) (w : nat) (eol : list Z) (s : list Z) : list Z :=
  match fuel with
  | O => []
  | S f => match s with
           | [] => []
           | _ => firstn w s ++ eol ++ wrap_fuel f w eol (skipn w s)
           end
  end.
Definition wrap (w : Z) (eol : list Z) (s : list Z) : list Z :=
  wrap_fuel (length s) (Z.to_nat w) eol s.
Definition layout_rec (eol : list Z) (r : rec) : list Z :=
  [62] ++ r_name r ++ eol ++ wrap (r_width r) eol (r_seq r).
Definition layout (eol : list Z) (rs : list rec) : list Z := concat (map (layout_rec eol) rs).

Record idx := { i_name : list Z; i_rlen : Z; i_offset : Z; i_lenc : Z; i_lenb : Z }.

(* the index the file format defines for a layout *)
Fixpoint spec_index_from (pos : Z) (eol : list Z) (rs : list rec) : list idx :=
  match rs with
  | [] => []
  | r :: rest =>
      let off := pos + 1 + len (r_name r) + len eol in
      {| i_name := r_name r; i_rlen := len (r_seq r); i_offset := off;
         i_lenc := Z.min (r_width r) (len (r_seq r));
         i_lenb := Z.min (r_width r) (len (r_seq r)) + len eol |}
      :: spec_index_from (pos + len (layout_rec eol r)) eol rest
  end.
Definition spec_index := spec_index_from 0.

(* ---------- model of index construction (FastaIdxBuffer.get_data + create_index) ----------
   The buffer splits the (newline-terminated) text into lines, finds header lines (first byte
   '>'), and per entry reports: header text, summed sequence-line lengths (CR stripped), byte
   offset of the first sequence line, its length without CR, and its length with line end. *)
Definition strip_cr (l : list Z) : list Z :=
  match rev l with 13 :: r => rev r | _ => l end.
Definition is_header (l : list Z) : bool := match l with 62 :: _ => true | _ => false end.

(* lines with their start offsets *)
Fixpoint with_offsets (pos : Z) (ls : list (list Z)) : list (Z * list Z) :=
  match ls with [] => [] | l :: r => (pos, l) :: with_offsets (pos + len l + 1) r end.

(* fold over lines: current entry under construction *)
Record cur := { c_name : list Z; c_len : Z; c_first : option (Z * Z * Z) (* offset, lenc, lenb *) }.
Definition close (c : cur) : list idx :=
  match c_first c with
  | Some (off, lc, lb) => [{| i_name := c_name c; i_rlen := c_len c; i_offset := off; i_lenc := lc; i_lenb := lb |}]
  | None => []   (* an entry without sequence lines: the library cannot index it either *)
  end.
Fixpoint build_index (c : option cur) (ls : list (Z * list Z)) : list idx :=
  match ls with
  | [] => match c with Some c => close c | None => [] end
  | (pos, l) :: rest =>
      if is_header l then
        (match c with Some c => close c | None => [] end)
        ++ build_index (Some {| c_name := strip_cr (tl l); c_len := 0; c_first := None |}) rest
      else
        match c with
        | None => build_index None rest
        | Some c =>
            let body := strip_cr l in
            let first := match c_first c with
                         | Some f => Some f
                         | None => Some (pos, len body, len l + 1)
                         end in
            build_index (Some {| c_name := c_name c; c_len := c_len c + len body; c_first := first |}) rest
        end
  end.
Definition model_index (file : list Z) : list idx := build_index None (with_offsets 0 (lines file)).

(* ---------- model of random access ---------- *)
(* f.seek(off); f.read(n) *)
Definition read_at (file : list Z) (off n : Z) : list Z := slice off (off + n) file.

(* the offset arithmetic, as named helpers: Bridge/C17.v proves that the definitions regenerated from
   /repo on every run (Gen/C17.v) are equal to these *)
Definition m_n_rows (rlen lenc : Z) : Z := (rlen + lenc - 1) / lenc.
Definition m_bytes_to_read (rlen lenc lenb : Z) : Z :=
  (m_n_rows rlen lenc - 1) * lenb + (rlen - (m_n_rows rlen lenc - 1) * lenc).
Definition m_phys (lenc lenb x : Z) : Z := (x / lenc) * lenb + x mod lenc.     (* byte offset of base x *)
Definition m_read_start (offset lenc lenb a : Z) : Z := offset + m_phys lenc lenb a.
Definition m_read_len (lenc lenb a b : Z) : Z := m_phys lenc lenb b - m_phys lenc lenb a.
Definition m_n_del (lenc a b : Z) : Z := b / lenc - a / lenc.
Definition m_del_index (lenb start_mod j : Z) : Z := lenb * (j + 1) - 1 - start_mod.

(* IndexedFasta.__getitem__ : read the block, view it as n_rows rows of lenb bytes (the unread
   tail of the np.empty buffer is arbitrary: [fill]), keep the first lenc columns, ravel, trim. *)
Definition fetch_contig (fill : list Z) (ix : idx) (file : list Z) : list Z :=
  let lenb := i_lenb ix in let rlen := i_rlen ix in let lenc := i_lenc ix in
  let n_rows := m_n_rows rlen lenc in
  let bytes_to_read := m_bytes_to_read rlen lenc lenb in
  let data := read_at file (i_offset ix) bytes_to_read
              ++ firstn (Z.to_nat (lenb * n_rows - bytes_to_read)) fill in
  let rows := chunks_of (Z.to_nat lenb) data in
  firstn (Z.to_nat rlen) (concat (map (firstn (Z.to_nat lenc)) rows)).

(* get_interval_sequences (both variants use the same arithmetic) *)
Definition fetch_interval (ix : idx) (file : list Z) (a b : Z) : list Z :=
  let lenb := i_lenb ix in let lenc := i_lenc ix in
  let tmp := read_at file (m_read_start (i_offset ix) lenc lenb a) (m_read_len lenc lenb a b) in
  np_delete tmp (map (m_del_index lenb (a mod lenc)) (arange (m_n_del lenc a b))).

(* get_contig_lengths: which index column is reported.  The code at the pinned commit returned
   lenc (bases per line); the repaired code returns rlen. *)
Definition column (name : String.string) (ix : idx) : option Z :=
  if String.eqb name "rlen"%string then Some (i_rlen ix)
  else if String.eqb name "lenc"%string then Some (i_lenc ix)
  else if String.eqb name "lenb"%string then Some (i_lenb ix)
  else if String.eqb name "offset"%string then Some (i_offset ix) else None.
Definition contig_length_column : String.string := "rlen"%string.
Definition contig_length (ix : idx) : Z := match column contig_length_column ix with Some v => v | None => -1 end.
Definition contig_length_pinned (ix : idx) : Z := i_lenc ix.

(* ---------- create_index over a chunked read ----------
   create_index reads the FASTA through the chunked reader with FastaIdxBuffer: every chunk (a run of whole records,
   C01) yields the index rows of its records with offsets RELATIVE to the chunk plus its size in bytes
   (byte_size = self._data.size); the rows are shifted by offsets = cumsum([0] + sizes), paired with zip. *)
Definition m_ci_shift (start offset : Z) : Z := start + offset.
Definition m_ci_offsets (sizes : list Z) : list Z := cumsum (0 :: sizes).
Definition shift_idx (off : Z) (ix : idx) : idx :=
  {| i_name := i_name ix; i_rlen := i_rlen ix; i_offset := m_ci_shift (i_offset ix) off;
     i_lenc := i_lenc ix; i_lenb := i_lenb ix |}.
Definition model_index_chunks (chunks : list (list Z)) : list idx :=
  concat (map (fun p => map (shift_idx (snd p)) (model_index (fst p)))
              (combine chunks (m_ci_offsets (map len chunks)))).

(* the index as a function of the records' SHAPES only (name, sequence length, width, bytes of the record in the file):
   used for files too large to hand to Coq as bytes *)
Record shape := { s_name : list Z; s_len : Z; s_width : Z; s_bytes : Z }.
Fixpoint spec_index_shapes_from (pos eollen : Z) (ss : list shape) : list idx :=
  match ss with
  | [] => []
  | s :: rest =>
      {| i_name := s_name s; i_rlen := s_len s; i_offset := pos + 1 + len (s_name s) + eollen;
         i_lenc := Z.min (s_width s) (s_len s); i_lenb := Z.min (s_width s) (s_len s) + eollen |}
      :: spec_index_shapes_from (pos + s_bytes s) eollen rest
  end.
Definition shape_of (eol : list Z) (r : rec) : shape :=
  {| s_name := r_name r; s_len := len (r_seq r); s_width := r_width r; s_bytes := len (layout_rec eol r) |}.
(* bytes a record of this shape occupies: '>' name eol, then the sequence with one eol per line *)
Definition shape_bytes (eollen : Z) (s : shape) : Z :=
  1 + len (s_name s) + eollen + s_len s + ((s_len s + s_width s - 1) / s_width s) * eollen.

(* Model/C14.v — reverse complement, strand-aware extraction, translation.
   (a) Spec: the 10-entry complement function, the standard genetic code written as
       amino acid -> codons, what strand-aware extraction must return.
   (b) Model: the algorithms of bionumpy/sequence/dna.py (complement lookup built per encoding,
       lookup over the raveled data, row reversal, np.where on the strand column),
       bionumpy/sequence/lookup.py (values[raw]), bionumpy/encodings/alphabet_encoding.py
       (256-entry encode table), bionumpy/sequence/translate.py (TCAG encoding, reshape(-1,3),
       reversed 3-mer hash, 64-letter amino acid string), genomic_data/genomic_sequence.py and
       sequence/genes.py (np.where on '+' resp. '-').
   Executable definitions only; proofs live in Proofs/C14.v. *)
From Coq Require Import String.
From Coq Require Import ZArith List Bool Ascii.
From BNP Require Import Base.Prims.
Import ListNotations.
Open Scope Z_scope.

Fixpoint str (s : String.string) : list Z :=
  match s with
  | String.EmptyString => []
  | String.String a r => Z.of_nat (nat_of_ascii a) :: str r
  end.

(* ======================================================================================= *)
(* (a) Specification                                                                        *)
(* ======================================================================================= *)

(* the complement of a DNA symbol: A<->T, C<->G, N fixed, case kept *)
Definition comp_pairs : list (Z * Z) :=
  [(65, 84); (84, 65); (67, 71); (71, 67); (78, 78);          (* A T C G N *)
   (97, 116); (116, 97); (99, 103); (103, 99); (110, 110)].   (* a t c g n *)
Fixpoint assoc (k : Z) (l : list (Z * Z)) : option Z :=
  match l with [] => None | (a, b) :: r => if k =? a then Some b else assoc k r end.
Definition dna10 : list Z := map fst comp_pairs.
Definition acgt8 : list Z := [65; 84; 67; 71; 97; 116; 99; 103].
Definition upper5 : list Z := [65; 84; 67; 71; 78].
Definition mem (c : Z) (l : list Z) : bool := existsb (Z.eqb c) l.
Definition comp10 (c : Z) : Z := match assoc c comp_pairs with Some v => v | None => c end.
Definition spec_revcomp (s : list Z) : list Z := rev (map comp10 s).

(* Encodings are numbered 0 = ASCII (BaseEncoding), 1 = ACGT (DNAEncoding), 2 = ACGTN (ACGTnEncoding).
   An alphabet encoding cannot represent case: the text an encoded array stands for is upper case. *)
Definition canon (e : Z) (c : Z) : Z := if e =? 0 then c else upper c.
Definition domain (e : Z) : list Z := if e =? 1 then acgt8 else dna10.

(* strand-aware extraction: strand byte 43 = '+', 45 = '-' *)
Definition spec_stranded (ref : list Z) (iv : Z * Z * Z) : list Z :=
  let '(a, b, s) := iv in
  if s =? 45 then spec_revcomp (slice a b ref) else slice a b ref.

(* the standard genetic code (NCBI table 1), amino acid -> its codons; written out independently of the
   64-letter string the implementation indexes *)
Definition genetic_code : list (String.string * list String.string) := [
  ("F", ["TTT"; "TTC"]);
  ("L", ["TTA"; "TTG"; "CTT"; "CTC"; "CTA"; "CTG"]);
  ("I", ["ATT"; "ATC"; "ATA"]);
  ("M", ["ATG"]);
  ("V", ["GTT"; "GTC"; "GTA"; "GTG"]);
  ("S", ["TCT"; "TCC"; "TCA"; "TCG"; "AGT"; "AGC"]);
  ("P", ["CCT"; "CCC"; "CCA"; "CCG"]);
  ("T", ["ACT"; "ACC"; "ACA"; "ACG"]);
  ("A", ["GCT"; "GCC"; "GCA"; "GCG"]);
  ("Y", ["TAT"; "TAC"]);
  ("*", ["TAA"; "TAG"; "TGA"]);
  ("H", ["CAT"; "CAC"]);
  ("Q", ["CAA"; "CAG"]);
  ("N", ["AAT"; "AAC"]);
  ("K", ["AAA"; "AAG"]);
  ("D", ["GAT"; "GAC"]);
  ("E", ["GAA"; "GAG"]);
  ("C", ["TGT"; "TGC"]);
  ("W", ["TGG"]);
  ("R", ["CGT"; "CGC"; "CGA"; "CGG"; "AGA"; "AGG"]);
  ("G", ["GGT"; "GGC"; "GGA"; "GGG"])
]%string.
Definition spec_aa (codon : list Z) : option Z :=
  match filter (fun p => existsb (zlist_eqb (map upper codon)) (map str (snd p))) genetic_code with
  | (a, _) :: _ => hd_error (str a)
  | [] => None
  end.
Definition aa_of (codon : list Z) : Z := match spec_aa codon with Some a => a | None => 0 end.
(* all 512 spellings (upper / lower case per base) of the 64 codons *)
Definition all_codons : list (list Z) :=
  flat_map (fun a => flat_map (fun b => map (fun c => [a; b; c]) acgt8) acgt8) acgt8.
Definition upper_codons : list (list Z) :=
  let u := [65; 67; 71; 84] in flat_map (fun a => flat_map (fun b => map (fun c => [a; b; c]) u) u) u.
(* translation of a DNA string whose length is a multiple of three, codon by codon *)
Definition spec_translate (s : list Z) : list Z := map aa_of (chunks_of 3 s).

(* ======================================================================================= *)
(* (b) Model of the code                                                                    *)
(* ======================================================================================= *)
Inductive result (A : Type) : Type := Ok (a : A) | Err (code : Z).
Arguments Ok {A} a. Arguments Err {A} code.
(* error codes: 1 EncodingError, 2 AssertionError, 3 IndexError, 4 KeyError,
   5 the failure of npstructures' np.where when its mask is not broadcast (AttributeError/ValueError) *)

Definition set_at (l : list Z) (i v : Z) : list Z :=
  if (0 <=? i) && (i <? len l) then firstn (Z.to_nat i) l ++ v :: skipn (S (Z.to_nat i)) l else l.
Definition set_many (l : list Z) (kv : list (Z * Z)) : list Z :=
  fold_left (fun acc p => set_at acc (fst p) (snd p)) kv l.
Fixpoint map_opt {A B} (f : A -> option B) (l : list A) : option (list B) :=
  match l with
  | [] => Some []
  | x :: r => match f x, map_opt f r with Some y, Some ys => Some (y :: ys) | _, _ => None end
  end.

(* AlphabetEncoding._initialize: _lookup = full(256, 255); _lookup[alphabet] = arange;
   _lookup[alphabet + 32] = arange   (uint8 arithmetic) *)
Definition alpha_table (alphabet : list Z) : list Z :=
  let n := arange (len alphabet) in
  set_many (set_many (repeat 255 256) (combine alphabet n))
           (combine (map (fun c => (c + 32) mod 256) alphabet) n).
(* AlphabetEncoding._encode: ret = _lookup[bytes]; any(ret >= alphabet_size) -> EncodingError *)
Definition alpha_encode (alphabet bytes : list Z) : result (list Z) :=
  let r := map (nthZ (alpha_table alphabet)) bytes in
  if existsb (fun x => len alphabet <=? x) r then Err 1 else Ok r.
Definition alpha_decode (alphabet codes : list Z) : list Z := map (nthZ alphabet) codes.

Inductive encoding := Ascii | Alpha (alphabet : list Z).
Definition enc_of (e : Z) : encoding :=
  if e =? 0 then Ascii else if e =? 1 then Alpha (str "ACGT") else Alpha (str "ACGTN").
Definition encode (e : encoding) (bytes : list Z) : result (list Z) :=
  match e with Ascii => Ok bytes | Alpha a => alpha_encode a bytes end.
Definition decode (e : encoding) (codes : list Z) : list Z :=
  match e with Ascii => codes | Alpha a => alpha_decode a codes end.

(* dna.py:10  _complements, in dict order.  [complements_pinned] is the code as it is at /repo HEAD;
   [complements_fixed] is the proposed repair (notes/C14.fix-1.diff: lower-case keys added). *)
Definition complements_pinned : list (Z * Z) := [(65, 84); (71, 67); (67, 71); (84, 65); (78, 78)].
Definition complements_fixed : list (Z * Z) :=
  complements_pinned ++ map (fun p => (lower (fst p), lower (snd p))) complements_pinned.
Definition complements : list (Z * Z) := complements_fixed.     (* <- the one-line switch *)

(* dna.py:29-33  values = zeros(128); values[ord(key)] = ord(value) *)
Definition ascii_values (keys : list (Z * Z)) : list Z := set_many (repeat 0 128) keys.
(* dna.py:22-26  new_alphabet = [_complements[c] for c in alphabet]; encoded with the same encoding *)
Definition alpha_values (keys : list (Z * Z)) (alphabet : list Z) : result (list Z) :=
  match map_opt (fun c => assoc c keys) alphabet with
  | None => Err 4
  | Some na => alpha_encode alphabet na
  end.
(* lookup.py: values[raw] *)
Definition lookup_take (values raw : list Z) : result (list Z) :=
  if existsb (fun x => (x <? 0) || (len values <=? x)) raw then Err 3 else Ok (map (nthZ values) raw).
Definition complement_codes (keys : list (Z * Z)) (e : encoding) (codes : list Z) : result (list Z) :=
  match e with
  | Ascii => lookup_take (ascii_values keys) codes
  | Alpha a => match alpha_values keys a with Err c => Err c | Ok v => lookup_take v codes end
  end.

(* a ragged array is (flat data, row lengths) *)
Fixpoint split_lens {A} (flat : list A) (lens : list Z) : list (list A) :=
  match lens with
  | [] => []
  | n :: r => firstn (Z.to_nat n) flat :: split_lens (skipn (Z.to_nat n) flat) r
  end.
(* dna.py:36-66  complement over ravel(), same shape, then [..., ::-1] reverses every row *)
Definition revcomp_codes (keys : list (Z * Z)) (e : encoding) (flat : list Z) (lens : list Z)
  : result (list Z) :=
  match complement_codes keys e flat with
  | Err c => Err c
  | Ok comp => Ok (concat (map (@rev Z) (split_lens comp lens)))
  end.

(* get_reverse_complement(as_encoded_array(rows, enc)), result decoded to text *)
Definition model_revcomp (keys : list (Z * Z)) (ez : Z) (rows : list (list Z)) : result (list (list Z)) :=
  let e := enc_of ez in let lens := map len rows in
  match encode e (concat rows) with
  | Err c => Err c
  | Ok codes =>
      match revcomp_codes keys e codes lens with
      | Err c => Err c
      | Ok flat => Ok (split_lens (decode e flat) lens)
      end
  end.
(* applied twice on the encoded array *)
Definition model_revcomp2 (keys : list (Z * Z)) (ez : Z) (rows : list (list Z)) : result (list (list Z)) :=
  let e := enc_of ez in let lens := map len rows in
  match encode e (concat rows) with
  | Err c => Err c
  | Ok codes =>
      match revcomp_codes keys e codes lens with
      | Err c => Err c
      | Ok flat1 =>
          match revcomp_codes keys e flat1 lens with
          | Err c => Err c
          | Ok flat2 => Ok (split_lens (decode e flat2) lens)
          end
      end
  end.

(* np.where(mask[:, newaxis], x, y) on ragged arrays (npstructures.arrayfunctions.where): the column mask
   is broadcast over the rows only `if ragged_mask.size < x.size`; otherwise the call fails.
   [where_pinned] is that behaviour (the code BEFORE the repair: mask handed over as `(..)[:, np.newaxis]`);
   [where_fixed] is row-wise choice for every shape: the repaired code (notes/C14.fix-2.final.diff) hands np.where an
   explicit ragged mask `broadcast_row_mask(.., sequences)`; [where_flat] / [row_mask_of] at the end of this file are
   npstructures' behaviour on such a mask, Bridge/C14.v proves that it is [where_fixed] on operands of equal shape. *)
Definition choose_rows (mask : list bool) (x y : list (list Z)) : list (list Z) :=
  map (fun p : bool * (list Z * list Z) => if fst p then fst (snd p) else snd (snd p)) (combine mask (combine x y)).
Definition where_pinned (mask : list bool) (x y : list (list Z)) : result (list (list Z)) :=
  if len mask <? len (concat x) then Ok (choose_rows mask x y) else Err 5.
Definition where_fixed (mask : list bool) (x y : list (list Z)) : result (list (list Z)) :=
  Ok (choose_rows mask x y).
Definition where_rows : list bool -> list (list Z) -> list (list Z) -> result (list (list Z)) := where_fixed.                            (* <- the one-line switch; where_fixed since the repair notes/C14.fix-2.final.diff (broadcast_row_mask) *)

Definition iv_slice (codes : list Z) (iv : Z * Z * Z) : list Z := let '(a, b, _) := iv in slice a b codes.
Definition iv_strand (iv : Z * Z * Z) : Z := let '(_, _, s) := iv in s.
(* dna.py:68-88 get_strand_specific_sequences (minus = true: where(strand == '-', revcomp, forward));
   genomic_sequence.py:49-57 extract_intervals(stranded=True) (minus = false: where(strand == '+', forward, revcomp)) *)
Definition model_stranded (keys : list (Z * Z)) (wh : list bool -> list (list Z) -> list (list Z) -> result (list (list Z)))
           (minus : bool) (ez : Z) (ref : list Z) (ivs : list (Z * Z * Z)) : result (list (list Z)) :=
  let e := enc_of ez in
  match encode e ref with
  | Err c => Err c
  | Ok codes =>
      let rel := map (iv_slice codes) ivs in
      match revcomp_codes keys e (concat rel) (map len rel) with
      | Err c => Err c
      | Ok flat =>
          let rc := split_lens flat (map len rel) in
          let r := if minus then wh (map (fun iv => iv_strand iv =? 45) ivs) rc rel
                   else wh (map (fun iv => iv_strand iv =? 43) ivs) rel rc in
          match r with Err c => Err c | Ok rows => Ok (map (decode e) rows) end
      end
  end.

(* translate.py *)
Definition tcag : list Z := str "TCAG".
Definition amino_acids : list Z := str "FFLLSSSSYY**CC*WLLLLPPPPHHQQRRRRIIIMTTTTNNKKSSRRVVVVAAAADDEEGGGG".
Fixpoint dot (a b : list Z) : Z :=
  match a, b with x :: a', y :: b' => x * y + dot a' b' | _, _ => 0 end.
(* KmerEncoder(3, TCAG): _convolution = 4 ** arange(3); called on the reversed window *)
Definition convolution : list Z := map (fun j => 4 ^ j) (arange 3).
Definition codon_hash (w : list Z) : Z := dot (rev w) convolution.
(* WindowFunction.windowed + Translate.__call__ *)
Definition model_translate (rows : list (list Z)) : result (list (list Z)) :=
  let lens := map len rows in
  match alpha_encode tcag (concat rows) with
  | Err c => Err c
  | Ok codes =>
      if negb (forallb (fun l => l mod 3 =? 0) lens) then Err 2
      else
        let tuples := chunks_of 3 codes in                       (* ravel().reshape(-1, 3) *)
        let aas := map (fun t => nthZ amino_acids (codon_hash t)) tuples in
        Ok (split_lens aas (map (fun l => l / 3) lens))
  end.

(* ======================================================================================= *)
(* Generalised forms of the definitions above, with the tables and small rules of the source *)
(* as parameters.  Bridge/C14.v instantiates them with what translate/gen_c14.py regenerates  *)
(* from /repo (Gen/C14.v) and proves the instances equal to the definitions the theorems are *)
(* about.  Nothing above depends on this part.                                               *)
(* ======================================================================================= *)
Definition ascii_values_gen (size fill : Z) (assignments : list (Z * Z)) : list Z :=
  set_many (repeat fill (Z.to_nat size)) assignments.
(* a where site: (code point the strand column is compared with, the operand taken where the test holds is
   the reverse complement) *)
Definition where_site (minus : bool) : Z * bool := if minus then (45, true) else (43, false).
Definition model_stranded_site (keys : list (Z * Z))
           (wh : list bool -> list (list Z) -> list (list Z) -> result (list (list Z)))
           (site : Z * bool) (lo hi : Z -> Z -> Z) (ez : Z) (ref : list Z) (ivs : list (Z * Z * Z))
  : result (list (list Z)) :=
  let e := enc_of ez in
  match encode e ref with
  | Err c => Err c
  | Ok codes =>
      let rel := map (fun iv : Z * Z * Z => let '(a, b, _) := iv in slice (lo a b) (hi a b) codes) ivs in
      match revcomp_codes keys e (concat rel) (map len rel) with
      | Err c => Err c
      | Ok flat =>
          let rc := split_lens flat (map len rel) in
          let mask := map (fun iv => iv_strand iv =? fst site) ivs in
          let r := if snd site then wh mask rc rel else wh mask rel rc in
          match r with Err c => Err c | Ok rows => Ok (map (decode e) rows) end
      end
  end.
Definition model_translate_gen (w : Z) (alphabet amino : list Z) (weight : Z -> Z -> Z) (reversed : bool)
           (check : Z -> Z -> bool) (outlen : Z -> Z -> Z) (rows : list (list Z)) : result (list (list Z)) :=
  let lens := map len rows in
  match alpha_encode alphabet (concat rows) with
  | Err c => Err c
  | Ok codes =>
      if negb (forallb (fun l => check l w) lens) then Err 2
      else
        let tuples := chunks_of (Z.to_nat w) codes in
        let conv := map (weight (len alphabet)) (arange w) in
        let aas := map (fun t => nthZ amino (dot (if reversed then rev t else t) conv)) tuples in
        Ok (split_lens aas (map (fun l => outlen l w) lens))
  end.

(* ---------- extraction of arbitrary items (intervals, multi-exon transcripts) ---------- *)
(* the common shape of the three strand-aware sites: rows extracted from the encoded reference, all of them
   reverse-complemented, np.where on the strand column *)
Definition model_extract {I : Type} (keys : list (Z * Z))
           (wh : list bool -> list (list Z) -> list (list Z) -> result (list (list Z)))
           (site : Z * bool) (ez : Z) (ref : list Z)
           (ext : list Z -> I -> list Z) (strand : I -> Z) (items : list I) : result (list (list Z)) :=
  let e := enc_of ez in
  match encode e ref with
  | Err c => Err c
  | Ok codes =>
      let rel := map (ext codes) items in
      match revcomp_codes keys e (concat rel) (map len rel) with
      | Err c => Err c
      | Ok flat =>
          let rc := split_lens flat (map len rel) in
          let mask := map (fun it => strand it =? fst site) items in
          let r := if snd site then wh mask rc rel else wh mask rel rc in
          match r with Err c => Err c | Ok rows => Ok (map (decode e) rows) end
      end
  end.
(* genes.py get_transcript_sequences: a transcript = (its exons [a,b) in file order, strand); the reference is encoded as
   ACGTN, the exon slices of one transcript are concatenated, '-' transcripts are reverse-complemented as a whole *)
Definition transcript := (list (Z * Z) * Z)%type.
Definition tx_ext (codes : list Z) (t : transcript) : list Z :=
  concat (map (fun p => slice (fst p) (snd p) codes) (fst t)).
Definition tx_strand (t : transcript) : Z := snd t.
Definition model_transcripts (keys : list (Z * Z))
           (wh : list bool -> list (list Z) -> list (list Z) -> result (list (list Z)))
           (ref : list Z) (txs : list transcript) : result (list (list Z)) :=
  model_extract keys wh (where_site true) 2 ref tx_ext tx_strand txs.
(* Spec: the spliced sequence for '+', its reverse complement for '-' *)
Definition spec_transcript (ref : list Z) (t : transcript) : list Z :=
  if tx_strand t =? 45 then spec_revcomp (tx_ext ref t) else tx_ext ref t.
Definition tx_bases (txs : list transcript) : Z :=
  sumZ (map (fun t : transcript => sumZ (map (fun p => snd p - fst p) (fst t))) txs).

(* Spec for input the property does not quantify over: a row with a symbol outside ACGTacgt (N, n) or a length that is
   not a multiple of three must not be translated silently — the call has to raise *)
Definition tr_wellformed (rows : list (list Z)) : bool :=
  forallb (fun r => forallb (fun cd => existsb (zlist_eqb cd) all_codons) (chunks_of 3 r)) rows.

(* ---------- the repaired mask: dna.py broadcast_row_mask + npstructures' np.where on a full-size ragged mask ---------- *)
(* npstructures.arrayfunctions.where with a ragged mask that is NOT smaller than x: no broadcasting, np.where on the three
   raveled arrays, rows rebuilt with the shape OF THE MASK.  Flat sizes that differ make NumPy raise (Err 5). *)
Definition choice (p : bool * (Z * Z)) : Z := if fst p then fst (snd p) else snd (snd p).
Definition where_flat (rmask : list (list bool)) (x y : list (list Z)) : result (list (list Z)) :=
  let fm := concat rmask in let fx := concat x in let fy := concat y in
  if (len fm =? len fx) && (len fm =? len fy)
  then Ok (split_lens (map choice (combine fm (combine fx fy))) (map len rmask))
  else Err 5.
(* a where call of the repaired code: [row_mask] is the regenerated broadcast_row_mask, [over_x] says whether its second
   argument is the first (x) or the second (y) np.where operand *)
Definition where_call (row_mask : list bool -> list (list Z) -> list (list bool)) (over_x : bool)
           (mask : list bool) (x y : list (list Z)) : result (list (list Z)) :=
  where_flat (row_mask mask (if over_x then x else y)) x y.
(* the hand-written reading of broadcast_row_mask: RaggedArray(np.repeat(mask, lengths), lengths) *)
Definition row_mask_of {A} (mask : list bool) (sequences : list (list A)) : list (list bool) :=
  map (fun p : bool * list A => repeat (fst p) (length (snd p))) (combine mask sequences).
(* which np.where a site reaches: explicit row mask (repaired) or column mask `[:, np.newaxis]` (before the repair) *)
Definition where_by_form (row_form : bool) : list bool -> list (list Z) -> list (list Z) -> result (list (list Z)) :=
  if row_form then where_fixed else where_pinned.

(* ======================================================================================= *)
(* Round 6 strengthening: the indexed-FASTA backend (bionumpy/io/indexed_fasta.py),         *)
(* IndexedFasta._get_interval_sequences_fast — the fetch behind                              *)
(* Genome.from_file(fa).read_sequence()[intervals].  A FASTA file is modelled as its bytes,  *)
(* the .fai index as (rlen, offset, lenc, lenb) per record.                                   *)
(* ======================================================================================= *)
Definition fa_rec := (list Z * list Z * Z)%type.          (* name, sequence, line width the record is wrapped to *)
Definition fa_name (r : fa_rec) : list Z := fst (fst r).
Definition fa_seq (r : fa_rec) : list Z := snd (fst r).
Definition fa_w (r : fa_rec) : Z := snd r.
(* the sequence lines of a record: every line, the last one included, ends in a line break (10) *)
Definition fa_body (w : Z) (seq : list Z) : list Z :=
  concat (map (fun l => l ++ [10]) (chunks_of (Z.to_nat w) seq)).
Definition fa_record (r : fa_rec) : list Z := 62 :: fa_name r ++ 10 :: fa_body (fa_w r) (fa_seq r).
(* nl_end = false: the file lacks its final line break *)
Definition fa_file (recs : list fa_rec) (nl_end : bool) : list Z :=
  let t := concat (map fa_record recs) in if nl_end then t else removelast t.
Definition fa_idx := (Z * Z * Z * Z)%type.                 (* rlen, offset, lenc, lenb — one .fai line *)
(* the standard (samtools faidx) index of such a file: lenc = length of the first line, lenb = lenc + 1 *)
Fixpoint fa_index_from (pos : Z) (recs : list fa_rec) : list fa_idx :=
  match recs with
  | [] => []
  | r :: rest =>
      let off := pos + len (fa_name r) + 2 in
      let lenc := Z.min (fa_w r) (len (fa_seq r)) in
      (len (fa_seq r), off, lenc, lenc + 1) :: fa_index_from (off + len (fa_body (fa_w r) (fa_seq r))) rest
  end.
(* indexed_fasta.py:146-166, one turn of the loop: seek(read_start); read(read_length) (short at end of file);
   newline_idxs = [lenb*(j+1)-1-start_mod for j in range(n_row)] filtered to < size; np.delete *)
Definition fa_fetch (file : list Z) (ix : fa_idx) (a b : Z) : list Z :=
  let '(_, off, lenc, lenb) := ix in
  let start_row := a / lenc in
  let start_mod := a mod lenc in
  let start_offset := start_row * lenb + start_mod in
  let stop_row := b / lenc in
  let stop_offset := stop_row * lenb + b mod lenc in
  let r := firstn (Z.to_nat (stop_offset - start_offset)) (skipn (Z.to_nat (off + start_offset)) file) in
  let idxs := filter (fun i => i <? len r)
                     (map (fun j => lenb * (j + 1) - 1 - start_mod) (arange (stop_row - start_row))) in
  np_delete r idxs.
Definition iv4 := (Z * Z * Z * Z)%type.                    (* record number, start, stop, strand byte *)
Definition iv4_strand (iv : iv4) : Z := snd iv.
Definition fa_fetch_iv (file : list Z) (index : list fa_idx) (iv : iv4) : list Z :=
  let '(c, a, b, _) := iv in fa_fetch file (nth (Z.to_nat c) index (0, 0, 1, 1)) a b.
Definition fa_sized (p : list Z * iv4) : bool := let '(_, a, b, _) := snd p in len (fst p) =? b - a.
(* GenomicSequenceIndexedFasta.extract_intervals: every piece is fetched in the order of the intervals (no state is kept
   between two turns of the loop or between two calls), written to pre_alloc at the cumulated offsets and cut into rows of
   stop-start; dna_encode (ACGTN); for stranded intervals np.where(row mask of strand == '+', rows, reverse complement).
   A piece whose size is not stop-start would leave np.empty bytes in the result: not modelled, distinct value Err 8. *)
Definition model_fa_call (keys : list (Z * Z))
           (wh : list bool -> list (list Z) -> list (list Z) -> result (list (list Z)))
           (file : list Z) (index : list fa_idx) (stranded : bool) (ivs : list iv4) : result (list (list Z)) :=
  let raw := map (fa_fetch_iv file index) ivs in
  if negb (forallb fa_sized (combine raw ivs)) then Err 8
  else
    let e := enc_of 2 in
    match encode e (concat raw) with
    | Err c => Err c
    | Ok codes =>
        let lens := map len raw in
        let rel := split_lens codes lens in
        if stranded then
          match revcomp_codes keys e codes lens with
          | Err c => Err c
          | Ok flat =>
              match wh (map (fun iv => iv4_strand iv =? 43) ivs) rel (split_lens flat lens) with
              | Err c => Err c
              | Ok rows => Ok (map (decode e) rows)
              end
          end
        else Ok (map (decode e) rel)
    end.
(* Spec: what such a call must return for one interval *)
Definition fa_want (recs : list fa_rec) (stranded : bool) (iv : iv4) : list Z :=
  let '(c, a, b, s) := iv in
  let ref := map (canon 2) (fa_seq (nth (Z.to_nat c) recs ([], [], 1))) in
  if stranded then spec_stranded ref (a, b, s) else slice a b ref.

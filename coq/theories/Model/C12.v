(* Model/C12.v — per-chromosome synchronisation of grouped, streamed data with a genome / contig list.
   (a) Spec: what a correct synchronisation is (exact per-contig assignment, or an error);
   (b) Model: the three state machines of the code as they are at /repo HEAD
         GenomeContext.iter_chromosomes + _included_groups + chromosome_order   (genome_context.py:103-135)
         SynchedStream.__iter__                                                 (multistream.py:55-103)
         left_join                                                              (left_join.py)
       the chunk-wise groupby with its first-key==last-key fast path + join_groupbys (groupby_func.py:36-45,106-121),
       and the consumers that pull the generators (computation_graph.py get_iter / StreamNode, zip in
       streams/decorators.py).  A generator is modelled by its *trace*: the values it yields, then how it ends
       (StopIteration or an exception).  A consumer that stops pulling after k items never sees what happens
       after the k-th yield — this is where the code's late checks get lost.
   No proofs in this file. *)
From Coq Require Import ZArith List Bool.
From BNP Require Import Base.Prims.
Import ListNotations.
Open Scope Z_scope.

(* ---------- generator traces and consumers ---------- *)
Inductive ending := Stop | Raise (code : Z).
Definition trace (A : Type) := (list A * ending)%type.
Definition ycons {A} (a : A) (t : trace A) : trace A := (a :: fst t, snd t).
Definition yapp {A} (l : list A) (t : trace A) : trace A := (l ++ fst t, snd t).
Inductive res (A : Type) := Done (a : A) | Err (code : Z).
Arguments Done {A} a.  Arguments Err {A} code.
(* pulled until the generator ends: sees the ending *)
Definition pull_all {A} (t : trace A) : res (list A) :=
  match snd t with Stop => Done (fst t) | Raise c => Err c end.
(* pulled at most k times: if k items arrive, whatever the generator would do next is never run *)
Definition pull_n {A} (k : nat) (t : trace A) : res (list A) :=
  if (k <=? length (fst t))%nat then Done (firstn k (fst t)) else pull_all t.
Definition res_map {A B} (f : A -> B) (r : res A) : res B :=
  match r with Done a => Done (f a) | Err c => Err c end.
Definition is_err {A} (r : res A) : bool := match r with Err _ => true | Done _ => false end.

(* error codes (the harness maps exception type + message to these) *)
Definition E_NOTINCL := 1.   (* GenomeError "<name> not included in genome"            _included_groups *)
Definition E_ORDER := 2.     (* GenomeError "Sort order discrepancy"                   iter_chromosomes *)
Definition E_LEFTOVER := 3.  (* GenomeError() after the walk: a group is left          iter_chromosomes *)
Definition E_SEEN := 4.      (* StreamError "... already occured"                      SynchedStream *)
Definition E_NOTIN := 5.     (* StreamError "Stream had value not present in contig order" *)
Definition E_ASSERT := 6.    (* AssertionError at the end of left_join *)
Definition E_INDEX := 7.     (* IndexError contig_order[cur_contig_idx] past the end   SynchedStream *)
Definition E_NOSTREAM := 8.  (* StopIteration escaping StreamNode.__init__: the walk yields nothing at all *)

Section Generic.
Variable name : Type.
Variable neqb : name -> name -> bool.
Variable has_us : name -> bool.            (* '_' in name *)

Definition mem (n : name) (l : list name) : bool := existsb (neqb n) l.

Section Payload.
Variable P : Type.                          (* the table handed to one contig *)
Variable empty : P.                         (* dataclass.empty() / default value / None *)

(* ================= (a) Spec ================= *)
(* l is a subsequence of G: the data's contig order is compatible with the genome's and names nothing else *)
Inductive Subseq : list name -> list name -> Prop :=
| Subseq_nil : forall G, Subseq [] G
| Subseq_take : forall n l G, Subseq l G -> Subseq (n :: l) (n :: G)
| Subseq_skip : forall l c G, Subseq l G -> Subseq l (c :: G).
Fixpoint subseq_b (l G : list name) {struct G} : bool :=
  match G with
  | [] => match l with [] => true | _ => false end
  | c :: G' => match l with
               | [] => true
               | n :: l' => if neqb n c then subseq_b l' G' else subseq_b l G'
               end
  end.
Fixpoint lookup (c : name) (D : list (name * P)) : P :=
  match D with [] => empty | (n, p) :: r => if neqb c n then p else lookup c r end.
(* every contig, in genome order, gets the table carrying its name, or the empty table *)
Definition assign (G : list name) (D : list (name * P)) : list P := map (fun c => lookup c D) G.
Definition not_ignored (I : list name) (D : list (name * P)) := filter (fun g => negb (mem (fst g) I)) D.
(* Some assignment when the non-ignored groups are order-compatible with G, otherwise an error is due *)
Definition spec_sync (G I : list name) (D : list (name * P)) : option (list P) :=
  let D' := not_ignored I D in
  if subseq_b (map fst D') G then Some (assign G D') else None.
(* an observed result meets the property: the exact assignment when one exists, an error otherwise *)
Definition meets {A} (eqb : A -> A -> bool) (expected : option A) (r : res A) : bool :=
  match expected, r with
  | Some a, Done b => eqb a b
  | None, Err _ => true
  | _, _ => false
  end.

(* ================= (b) Model ================= *)
(* --- GenomeContext._included_groups: skip ignored names, raise at the first name that is not included.
       Result: the groups it yields and whether it ends by raising. *)
Fixpoint included_groups (ign incl : list name) (gs : list (name * P)) : list (name * P) * bool :=
  match gs with
  | [] => ([], false)
  | (n, p) :: r =>
      if mem n ign then included_groups ign incl r
      else if mem n incl then let '(l, e) := included_groups ign incl r in ((n, p) :: l, e)
      else ([], true)
  end.

(* --- GenomeContext.iter_chromosomes.  State: R = the pending (next_name, next_group) followed by what
       `grouped` will still yield; R = [] <-> next_name is None (grouped exhausted); e = grouped ends by raising.
       seen = genome names already passed (the current one is appended after the yield). *)
Fixpoint walk (order seen : list name) (R : list (name * P)) (e : bool) : trace P :=
  match order with
  | [] =>                                        (* if next(grouped, None) is not None: raise GenomeError() *)
      match R with
      | [] => ([], Stop)
      | [_] => ([], if e then Raise E_NOTINCL else Stop)      (* the pending group itself is never looked at *)
      | _ :: _ :: _ => ([], Raise E_LEFTOVER)
      end
  | c :: rest =>
      match R with
      | (n, p) :: up =>
          if neqb c n then
            match up with                        (* yield next_group; then pull the next one *)
            | (n', _) :: _ => if mem n' seen then ([p], Raise E_ORDER)
                              else ycons p (walk rest (seen ++ [c]) up e)
            | [] => if e then ([p], Raise E_NOTINCL) else ycons p (walk rest (seen ++ [c]) [] false)
            end
          else ycons empty (walk rest (seen ++ [c]) R e)
      | [] => ycons empty (walk rest (seen ++ [c]) [] e)
      end
  end.
(* variant proposed in notes/C12.fix-2.diff: the next group is pulled and checked BEFORE the current one is
   yielded, so every error precedes the last yield *)
Fixpoint walk_ahead (order seen : list name) (R : list (name * P)) (e : bool) : trace P :=
  match order with
  | [] => match R with
          | [] => ([], Stop)
          | _ :: _ => ([], Raise E_LEFTOVER)       (* if next_name is not None: raise GenomeError(...) *)
          end
  | c :: rest =>
      match R with
      | (n, p) :: up =>
          if neqb c n then
            match up with
            | (n', _) :: _ => if mem n' seen || neqb n' c then ([], Raise E_ORDER)
                              else ycons p (walk_ahead rest (seen ++ [c]) up e)
            | [] => if e then ([], Raise E_NOTINCL) else ycons p (walk_ahead rest (seen ++ [c]) [] false)
            end
          else ycons empty (walk_ahead rest (seen ++ [c]) R e)
      | [] => ycons empty (walk_ahead rest (seen ++ [c]) [] e)
      end
  end.
Definition iter_chrom_with (w : list name -> list name -> list (name * P) -> bool -> trace P)
           (order incl ign : list name) (gs : list (name * P)) : trace P :=
  let '(R, e) := included_groups ign incl gs in
  match R with
  | [] => if e then ([], Raise E_NOTINCL) else w order [] [] false
  | _ => w order [] R e
  end.
Definition iter_chrom := iter_chrom_with walk.
Definition iter_chrom_ahead := iter_chrom_with walk_ahead.

(* --- SynchedStream.__iter__ (has_default is always True).  rest = contig_order[cur_contig_idx:],
       seen = seen_contig_names. *)
Fixpoint sync_skip (n : name) (rest seen : list name) : nat * option (list name * list name) :=
  match rest with
  | [] => (O, None)                              (* contig_order[cur_contig_idx] past the end *)
  | c :: rest' => if neqb n c then (O, Some (rest', seen ++ [c]))
                  else let '(k, r) := sync_skip n rest' (seen ++ [c]) in (S k, r)
  end.
Fixpoint sync (order rest seen : list name) (gs : list (name * P)) : trace P :=
  match gs with
  | [] => (map (fun _ => empty) rest, Stop)      (* trailing defaults; `remains = next(grouped)` is dead code *)
  | (n, p) :: gs' =>
      if mem n seen then ([], Raise E_SEEN)
      else if negb (mem n order) then ([], Raise E_NOTIN)
      else let '(k, r) := sync_skip n rest seen in
           match r with
           | None => (repeat empty k, Raise E_INDEX)
           | Some (rest', seen') => yapp (repeat empty k ++ [p]) (sync order rest' seen' gs')
           end
  end.
Definition synched (order : list name) (gs : list (name * P)) : trace P := sync order order [] gs.
(* variant proposed in notes/C12.fix-3.diff: the name of the following group is checked BEFORE the data of the
   current group is yielded (the head of gs has already been checked) *)
Definition check_name (order seen : list name) (n : name) : option Z :=
  if mem n seen then Some E_SEEN else if negb (mem n order) then Some E_NOTIN else None.
Fixpoint sync_ahead (order rest seen : list name) (gs : list (name * P)) : trace P :=
  match gs with
  | [] => (map (fun _ => empty) rest, Stop)
  | (n, p) :: gs' =>
      let '(k, r) := sync_skip n rest seen in
      match r with
      | None => (repeat empty k, Raise E_NOTIN)
      | Some (rest', seen') =>
          match gs' with
          | (n', _) :: _ => match check_name order seen' n' with
                            | Some c => (repeat empty k, Raise c)
                            | None => yapp (repeat empty k ++ [p]) (sync_ahead order rest' seen' gs')
                            end
          | [] => yapp (repeat empty k ++ [p]) (map (fun _ => empty) rest', Stop)
          end
      end
  end.
Definition synched_ahead (order : list name) (gs : list (name * P)) : trace P :=
  match gs with
  | (n, _) :: _ => match check_name order [] n with Some c => ([], Raise c) | None => sync_ahead order order [] gs end
  | [] => (map (fun _ => empty) order, Stop)
  end.
(* the code after notes/C12.fix-4.diff (what /repo has now): `for (name, data), following in _with_following(grouped)`;
   the two guards (`_check_name`) run on the group's own name at the top of the loop body as before, the missing
   contigs get their defaults, and BEFORE `yield data` the name of the following group (if there is one) goes through
   the same `_check_name` with the already updated seen set.  `contig_order[cur_contig_idx]` past the end is still an
   IndexError (unreachable when the contig names are distinct). *)
Fixpoint sync_fol (order rest seen : list name) (gs : list (name * P)) : trace P :=
  match gs with
  | [] => (map (fun _ => empty) rest, Stop)      (* trailing defaults *)
  | (n, p) :: gs' =>
      match check_name order seen n with
      | Some c => ([], Raise c)
      | None =>
          let '(k, r) := sync_skip n rest seen in
          match r with
          | None => (repeat empty k, Raise E_INDEX)
          | Some (rest', seen') =>
              match gs' with
              | (n', _) :: _ => match check_name order seen' n' with
                                | Some c => (repeat empty k, Raise c)
                                | None => yapp (repeat empty k ++ [p]) (sync_fol order rest' seen' gs')
                                end
              | [] => yapp (repeat empty k ++ [p]) (map (fun _ => empty) rest', Stop)   (* loop ends: trailing defaults *)
              end
          end
      end
  end.
Definition synched_fol (order : list name) (gs : list (name * P)) : trace P := sync_fol order order [] gs.
End Payload.

(* --- left_join(grouped_left, grouped_right): left = (name, size) pairs of the contig list *)
Section LeftJoin.
Variables S P : Type.
Fixpoint left_join (left : list (name * S)) (R : list (name * P)) : trace (name * S * option P) :=
  match left with
  | [] => match R with [] => ([], Stop) | _ :: _ => ([], Raise E_ASSERT) end
  | (c, s) :: left' =>
      match R with
      | (n, p) :: up => if neqb c n then ycons (c, s, Some p) (left_join left' up)
                        else ycons (c, s, None) (left_join left' R)
      | [] => ycons (c, s, None) (left_join left' [])
      end
  end.
End LeftJoin.

(* --- groupby on one chunk + join_groupbys over the chunk stream.  Entries are (contig name, entry id). *)
Fixpoint runs (es : list (name * Z)) : list (name * list Z) :=       (* split where the key changes *)
  match es with
  | [] => []
  | (n, i) :: r => match runs r with
                   | (n', ids) :: gs => if neqb n n' then (n, i :: ids) :: gs else (n, [i]) :: (n', ids) :: gs
                   | [] => [(n, [i])]
                   end
  end.
Definition group_chunk (c : list (name * Z)) : list (name * list Z) :=
  match c with
  | [] => []                  (* the code raises on an empty chunk; no reader produces one; theorems assume non-empty *)
  | (n0, i0) :: _ => if neqb (fst (last c (n0, i0))) n0 then [(n0, map snd c)]    (* fast path: first key == last key *)
                     else runs c
  end.
Fixpoint join_groups (gs : list (name * list Z)) : list (name * list Z) :=      (* itertools.groupby + concatenate *)
  match gs with
  | [] => []
  | (n, p) :: r => match join_groups r with
                   | (n', p') :: r' => if neqb n n' then (n, p ++ p') :: r' else (n, p) :: (n', p') :: r'
                   | [] => [(n, p)]
                   end
  end.
Definition grouped (chunks : list (list (name * Z))) : list (name * list Z) :=
  join_groups (flat_map group_chunk chunks).

(* --- GenomeContext.from_dict / with_ignored_added / chromosome_order *)
Definition ctx_ignored (keepall : bool) (genome extra : list name) : list name :=
  (if keepall then [] else filter has_us genome) ++ extra.
Definition ctx_included (keepall : bool) (genome extra : list name) : list name :=
  filter (fun c => negb (mem c (ctx_ignored keepall genome extra))) genome.
Definition chrom_order (incl : list name) : list name := filter (fun c => negb (has_us c)) incl.   (* the code as it is *)
Definition chrom_order_fixed (incl : list name) : list name := incl.                               (* notes/C12.fix-1.diff *)

(* --- consumers of the per-contig stream of entry-id tables *)
(* GenomicArrayNode.get_data(): ComputationNode(f, [chrom_name_node, run_length_node]) — the name stream
   (one item per included contig) is asked first, so the data stream is pulled at most |labels| times, and
   the k-th table is labelled with the k-th included contig *)
Definition stream_guard {A} (t : trace (list Z)) (r : res A) : res A :=
  match t with ([], Stop) => Err E_NOSTREAM | _ => r end.
Definition api_rows (labels : list name) (t : trace (list Z)) : res (list (name * Z)) :=
  stream_guard t (res_map (fun ys => flat_map (fun '(l, ids) => map (pair l) ids) (combine labels ys))
                          (pull_n (Nat.max 1 (length labels)) t)).     (* StreamNode.__init__ pulls the first item eagerly *)
(* gi.start / np.sum(pileup): the data stream is the first argument and is pulled until it ends *)
Definition api_flat (t : trace (list Z)) : res (list Z) := stream_guard t (res_map (@concat Z) (pull_all t)).
Definition api_sum (t : trace (list Z)) : res Z := res_map (fun l => len l) (api_flat t).
End Generic.

(* ================= instantiation: names are byte strings ================= *)
Definition bname := list Z.
Definition has_underscore (n : bname) : bool := existsb (Z.eqb 95) n.
Definition ids := list Z.

Definition genome_trace (fixed_order ahead keepall : bool) (genome extra : list bname)
           (chunks : list (list (bname * Z))) : trace ids :=
  let incl := ctx_included bname zlist_eqb has_underscore keepall genome extra in
  let ign := ctx_ignored bname has_underscore keepall genome extra in
  let order := if fixed_order then chrom_order_fixed bname incl else chrom_order bname has_underscore incl in
  (if ahead then iter_chrom_ahead bname zlist_eqb ids [] else iter_chrom bname zlist_eqb ids [])
    order incl ign (grouped bname zlist_eqb chunks).

(* Which variant is the code at /repo HEAD: all three switches false.  FIXED_ORDER <-> notes/C12.fix-1.diff,
   AHEAD <-> fix-2, SYNC_AHEAD <-> fix-3: flip a switch to true when the corresponding diff is committed to /repo. *)
Definition FIXED_ORDER := true.
Definition AHEAD := true.
Definition genome_trace_head := genome_trace FIXED_ORDER AHEAD.
Definition SYNC_AHEAD := false.            (* fix-3 (superseded by fix-4, never committed) *)
Definition SYNC_FOLLOWING := true.         (* fix-4: the following group's name is checked before `yield data` *)
(* shape of SynchedStream.__iter__: 0 = plain `for name, data in grouped` (pinned history, the code before fix-4),
   1 = fix-3's while/next_item loop, 2 = fix-4's `for (name, data), following in _with_following(grouped)` *)
Definition sync_shape : Z := if SYNC_FOLLOWING then 2 else if SYNC_AHEAD then 1 else 0.
Definition synched_by_shape (shape : Z) (order : list bname) (gs : list (bname * ids)) : trace ids :=
  if shape =? 2 then synched_fol bname zlist_eqb ids [] order gs
  else if shape =? 1 then synched_ahead bname zlist_eqb ids [] order gs
  else synched bname zlist_eqb ids [] order gs.
Definition synched_head (order : list bname) (gs : list (bname * ids)) : trace ids := synched_by_shape sync_shape order gs.

(* ================= the decision rules as functions of flags =================
   One flag per atomic test of the source (`name in self._ignored`, `next_name in seen`, ...).  Bridge/C12.v proves
   (a) that the rules regenerated from /repo on every run (Gen/C12.v) equal these, and (b) that the state machines
   above take exactly the steps these rules prescribe (unfolding equations).  No proofs here. *)
Definition m_filter_ignore_underscores (has_us : bool) : bool := negb has_us.               (* ignore_underscores *)
Definition m_ctx_is_ignored (keepall has_us : bool) : bool := if keepall then false else has_us. (* from_dict: not filter(key) *)
Definition m_ctx_is_included (in_ignored : bool) : bool := negb in_ignored.                  (* GenomeContext.__init__ *)
Definition m_order_drops_underscore_names : bool := negb FIXED_ORDER.                        (* chromosome_order *)
Definition m_included_action (in_ignored in_included : bool) : Z :=                           (* _included_groups *)
  if in_ignored then -1 else if in_included then 0 else E_NOTINCL.                            (* -1 skip, 0 yield, >0 raise *)
Definition m_walk_is_match (is_pending : bool) : bool := is_pending.                         (* name == next_name *)
Definition m_walk_order_error (next_in_seen next_is_current : bool) : bool := next_in_seen || next_is_current.
Definition m_walk_checks_before_yield : bool := AHEAD.
Definition m_walk_leftover_error (pending_is_none : bool) : bool := negb pending_is_none.    (* after the walk *)
Definition m_sync_check (in_seen in_order : bool) : Z :=                                      (* SynchedStream guards *)
  if in_seen then E_SEEN else if negb in_order then E_NOTIN else 0.
Definition m_sync_keeps_skipping (idx_in_range is_current : bool) : bool := idx_in_range && negb is_current.
Definition m_sync_checks_before_yield : bool := SYNC_AHEAD || SYNC_FOLLOWING.
Definition m_sync_shape : Z := sync_shape.
(* fix-4: the check applied to the following group before `yield data` is the same two guards, on the key-mapped name
   of the following group, against the seen set AFTER the current contig was added; skipped when there is no following group *)
Definition m_sync_following_check (has_following in_seen in_order : bool) : Z :=
  if has_following then m_sync_check in_seen in_order else 0.
Definition m_with_following_pairs : bool := true.   (* _with_following yields (item, next item | None), every item once, in order *)
Definition m_lj_gets_default (same_name : bool) : bool := negb same_name.                    (* left_join *)
Definition m_lj_final_ok (right_exhausted : bool) : bool := right_exhausted.                 (* its final assert *)
Definition m_change_at (whole_keys_equal : bool) : bool := negb whole_keys_equal.            (* get_changes: key[i+1] != key[i] *)
Definition m_change_offsets : Z * Z * Z * Z * Z := (1, 0, 0, -1, 1).   (* raw[1:] vs raw[:-1], boundary index = position + 1 *)
Definition m_fast_path (first_last_equal : bool) : bool := first_last_equal.                 (* groupby fast path *)
Definition m_join_key_and_payload_index : Z * Z := (0, 1).            (* join_groupbys: group on x[0], concatenate g[1] *)
Definition m_get_data_names_first : bool := true.                      (* get_data: [chrom_name_node, run_length_node] *)
Definition is_nil {A} (l : list A) : bool := match l with [] => true | _ => false end.

(* ================= the pull machine of computation_graph.py / zip =================
   A ComputationNode evaluates its argument nodes for buffer i in LIST ORDER (`[a._get_buffer(i) … for a in self._args]`),
   a StreamNode answers with `next(stream)`, `get_iter` counts i = 0, 1, … and stops at the first StopIteration that any
   argument raises (exceptions pass through); a nested ComputationNode asks its own arguments in turn, so the leaves are
   asked in the flattened order.  Python's `zip` does the same with its iterables.  Every leaf is a trace.
   pull_round asks every source once; lockstep repeats rounds (fuel = one more than the rows that can arrive). *)
Definition E_FUEL := 9.
Section PullMachine.
Variable U : Type.
Fixpoint pull_round (srcs : list (trace U)) : res (option (list U * list (trace U))) :=
  match srcs with
  | [] => Done (Some ([], []))
  | (l, e) :: rest =>
      match l with
      | [] => match e with Stop => Done None | Raise c => Err c end
      | a :: l' => match pull_round rest with
                   | Done (Some (row, rest')) => Done (Some (a :: row, (l', e) :: rest'))
                   | Done None => Done None
                   | Err c => Err c
                   end
      end
  end.
Fixpoint lockstep (fuel : nat) (srcs : list (trace U)) : res (list (list U)) :=
  match fuel with
  | O => Err E_FUEL
  | S f => match pull_round srcs with
           | Err c => Err c
           | Done None => Done []
           | Done (Some (row, srcs')) => match lockstep f srcs' with Done r => Done (row :: r) | Err c => Err c end
           end
  end.
End PullMachine.

(* the leaves of the genome route and of forbes/jaccard's zip, and the order in which each public call asks them
   (regenerated from the source by translate/gen_c12.py and bridged in Bridge/C12.v) *)
Inductive item := IName (n : bname) | ITable (t : ids) | ISize (z : Z) | IRef (t : ids).
Definition SRC_NAMES := 0.   (* StreamNode(iter(chrom_sizes.keys()))   — one label per included contig *)
Definition SRC_DATA := 1.    (* the synchronised per-contig stream (iter_chromosomes / SynchedStream) *)
Definition SRC_SIZES := 2.   (* StreamNode(iter(chrom_sizes.values())) / ms.lengths *)
Definition SRC_FIRST := 3.   (* the first stream of forbes/jaccard's zip *)
Definition m_pull_order_get_data : list Z := [SRC_NAMES; SRC_DATA; SRC_SIZES].  (* get_data: [name node, f(data node, size node)] *)
Definition m_pull_order_reduce : list Z := [SRC_DATA; SRC_SIZES].               (* np.sum(f(data node, size node)) *)
Definition m_pull_order_field : list Z := [SRC_DATA].                           (* getattr(data node, 'start') *)
Definition m_pull_order_zip : list Z := [SRC_FIRST; SRC_DATA; SRC_SIZES].       (* get_contingency_table(ms.a, ms.b, ms.lengths) *)
Definition m_cg_args_in_list_order : bool := true.
Definition m_cg_get_iter_stops_on_stopiteration : bool := true.
Definition m_cg_streamnode_pulls_first_eagerly : bool := true.
Definition m_streamable_zips_in_arg_order : bool := true.
Definition source_of (names : list bname) (data first : trace ids) (sizes : list Z) (k : Z) : trace item :=
  if k =? SRC_NAMES then (map IName names, Stop)
  else if k =? SRC_DATA then (map ITable (fst data), snd data)
  else if k =? SRC_SIZES then (map ISize sizes, Stop)
  else (map IRef (fst first), snd first).
Definition run_machine (order : list Z) (names : list bname) (data first : trace ids) (sizes : list Z) : res (list (list item)) :=
  lockstep item (S (length sizes)) (map (source_of names data first sizes) order).
Fixpoint row_name (r : list item) : option bname :=
  match r with [] => None | IName n :: _ => Some n | _ :: r' => row_name r' end.
Fixpoint row_table (r : list item) : ids :=
  match r with [] => [] | ITable t :: _ => t | _ :: r' => row_table r' end.
Definition decode_rows (rows : list (list item)) : list (bname * Z) :=
  flat_map (fun r => match row_name r with Some l => map (pair l) (row_table r) | None => [] end) rows.
(* the three observations of the genome route and the zip observation, computed by the machine *)
Definition machine_rows (names : list bname) (sizes : list Z) (t : trace ids) : res (list (bname * Z)) :=
  stream_guard t (res_map decode_rows (run_machine m_pull_order_get_data names t ([], Stop) sizes)).
Definition machine_flat (sizes : list Z) (t : trace ids) : res (list Z) :=
  stream_guard t (res_map (fun rows => concat (map row_table rows)) (run_machine m_pull_order_reduce [] t ([], Stop) sizes)).
Definition machine_zip_second (first : trace ids) (sizes : list Z) (t : trace ids) : res (list ids) :=
  res_map (map row_table) (run_machine m_pull_order_zip [] t first sizes).
(* Spec-side helper: the rows a correct assignment shows under its contig labels *)
Definition labelled (G : list bname) (asg : list ids) : list (bname * Z) :=
  flat_map (fun '(l, i) => map (pair l) i) (combine G asg).
Definition machine_field (t : trace ids) : res (list Z) :=      (* compute((gi.start, gi.stop)): one leaf *)
  stream_guard t (res_map (fun rows => concat (map row_table rows))
                          (lockstep item (S (length (fst t))) (map (source_of [] t ([], Stop) []) m_pull_order_field))).

(* zip over ANY number of MultiStream attributes followed by ms.lengths: column i of the rows the machine returns *)
Definition column {U} (d : U) (i : nat) (rows : list (list U)) : list U := map (fun r => nth i r d) rows.
(* Spec side: does this stream's data have an assignment (order-compatible, only known contigs)? *)
Definition spec_some (order : list bname) (gs : list (bname * ids)) : bool :=
  match spec_sync bname zlist_eqb ids [] order [] gs with Some _ => true | None => false end.
Definition table_src (t : trace ids) : trace item := (map ITable (fst t), snd t).
Definition zip_all_sources (order : list bname) (gss : list (list (bname * ids))) (sizes : list Z) : list (trace item) :=
  map (fun gs => table_src (synched_head order gs)) gss ++ [(map ISize sizes, Stop)].

(* MultiStream(sizes, a=<table held in memory>): `value = NpDataclassStream([value], value.__class__)` — the table is
   the one-chunk stream of itself and goes through SynchedStream like any stream (multistream.py MultiStream.__init__) *)
Definition table_chunks (chunks : list (list (bname * Z))) : list (list (bname * Z)) := [concat chunks].
Definition multistream_trace (order : list bname) (chunks : list (list (bname * Z))) : trace ids :=
  synched_head order (grouped bname zlist_eqb chunks).
Definition multistream_table_trace (order : list bname) (chunks : list (list (bname * Z))) : trace ids :=
  multistream_trace order (table_chunks chunks).
Definition m_ms_table_is_one_chunk_stream : bool := true.   (* table_chunks above is how MultiStream.__init__ feeds a table *)
Definition m_borders_compare_neighbouring_rows : bool := true.   (* `runs`: borders from adjacent keys, whatever codes the key column holds *)
Definition m_with_ignored_added_is_functional : bool := true.     (* deriving g2 from g changes nothing in g: ctx_* are functions of (keepall, genome, extra) *)

(* Model/C13.v — sliding-window sequence functions (k-mers, minimizers, string matching, motif
   scores, k-mer counts, k-mer <-> text).

   (a) Spec: what the property says, independent of how the library computes it: the windows of
       ONE sequence, the little-endian value of a window, and row-wise maps of those.
   (b) Model: the library's algorithm — ravel all rows into one flat array, compute one value per
       position of the FLAT array, re-wrap the flat result with the ORIGINAL row lengths and cut the
       last w-1 columns of every row with the Python slice [: -w+1]
       (bionumpy/sequence/rollable.py:45-67, kmers.py:17-33,89-124, minimizers.py:8-17,
        string_matcher.py:46-58, position_weight_matrix.py:83-101,166-196, count_encoded.py:152-190,
        encodings/kmer_encodings.py:25-74; npstructures raggedshape.py:_pos_col_slice,
        bitarray.py:pack/sliding_window).
   Executable definitions only; proofs live in Proofs/C13.v. *)
From Coq Require Import ZArith List Bool.
From BNP Require Import Base.Prims.
Import ListNotations.
Open Scope Z_scope.

(* ====================================================================================== Spec *)
(* all windows of length w lying entirely inside ONE sequence, left to right (w >= 1) *)
Fixpoint windows (w : nat) (l : list Z) : list (list Z) :=
  match l with
  | [] => []
  | _ :: r => if (w <=? length l)%nat then firstn w l :: windows w r else []
  end.
(* little-endian base-n number of a window's letters: first letter is the least significant digit *)
Fixpoint le_value (n : Z) (l : list Z) : Z :=
  match l with [] => 0 | x :: r => x + n * le_value n r end.
(* row-wise: one value per window inside each row *)
Definition per_row {B} (g : list Z -> B) (w : nat) (rows : list (list Z)) : list (list B) :=
  map (fun r => map g (windows w r)) rows.
Definition min_list (l : list Z) : Z :=
  match l with [] => 0 | x :: r => fold_right Z.min x r end.
Definition b2z (b : bool) : Z := if b then 1 else 0.
(* motif score of one window: sum over positions of column_j[letter_j] *)
Fixpoint score (cols : list (list Z)) (win : list Z) : Z :=
  match cols, win with
  | c :: cs, x :: r => nthZ c x + score cs r
  | _, _ => 0
  end.
Definition bincount (m : Z) (l : list Z) : list Z :=
  map (fun v => len (filter (Z.eqb v) l)) (arange m).
Definition text_of (alpha : list Z) (win : list Z) : list Z := map (nthZ alpha) win.

Definition spec_kmers (n : Z) (k : nat) rows := per_row (le_value n) k rows.
Definition spec_minimizers (n : Z) (k W : nat) rows :=
  per_row (fun win => min_list (map (le_value n) (windows k win))) W rows.
Definition spec_match (pat : list Z) rows :=
  per_row (fun win => b2z (zlist_eqb win pat)) (length pat) rows.
Definition spec_motif (cols : list (list Z)) rows := per_row (score cols) (length cols) rows.

(* ====================================================================================== Model *)
(* ---- the column slice  out[..., :stop]  (npstructures _pos_col_slice; NumPy basic slicing has the
        same lengths): stop=None keeps the row, a negative stop counts from the row end, a
        non-negative stop is clamped to the row length. *)
Definition trim_len (stop : option Z) (L : Z) : Z :=
  match stop with
  | None => L
  | Some s => if s <? 0 then Z.max (L + s) 0 else Z.min L s
  end.
(* the stop the code computes from the window size.
   stop_pinned : code at /repo HEAD        out[..., : (-window_size + 1)]           (w = 1 gives [:0])
   stop_fixed  : after notes/C13.fix-1.diff out[..., : (-window_size + 1) or None]   (w = 1 gives [:None]) *)
Definition stop_pinned (w : Z) : option Z := Some (- w + 1).
Definition stop_fixed (w : Z) : option Z := if (- w + 1) =? 0 then None else Some (- w + 1).
(* ONE-LINE SWITCH: which variant the correspondence check compares the implementation with. *)
Definition stop_of : Z -> option Z := stop_fixed.

(* re-wrap a flat result with the original row lengths (row i starts at the sum of the previous
   lengths) and keep trim_len columns of each row *)
Fixpoint rewrap_trim {B} (stop : option Z) (off : Z) (lens : list Z) (flat : list B) : list (list B) :=
  match lens with
  | [] => []
  | L :: r => slice off (off + trim_len stop L) flat :: rewrap_trim stop (off + L) r flat
  end.

(* RollableFunction.rolling_window(mode="valid"): f on every window of the ravelled data *)
Definition rolling_with {B} (stopf : Z -> option Z) (f : list Z -> B) (w : Z) (rows : list (list Z)) : list (list B) :=
  rewrap_trim (stopf w) 0 (map len rows) (map f (windows (Z.to_nat w) (concat rows))).
Definition rolling {B} := @rolling_with B stop_of.

(* ---- KmerEncoder.__call__ : window . (n ** arange(k)) *)
Definition powers (n k : Z) : list Z := map (Z.pow n) (arange k).
Fixpoint dot (a b : list Z) : Z :=
  match a, b with x :: a', y :: b' => x * y + dot a' b' | _, _ => 0 end.
Definition hash_generic (n k : Z) (win : list Z) : Z := dot win (powers n k).

(* ---- npstructures BitArray.pack(data, 2) and .sliding_window(k) on uint64 registers *)
Definition u64 (x : Z) : Z := x mod 2 ^ 64.
Fixpoint reg_from (i : Z) (chunk : list Z) : Z :=
  match chunk with [] => 0 | x :: r => Z.lor (Z.shiftl x (2 * i)) (reg_from (i + 1) r) end.
Definition pack_regs (flat : list Z) : list Z := map (reg_from 0) (chunks_of 32 flat).
Definition window_mask (k : Z) : Z := Z.shiftr (2 ^ 64 - 1) (64 - 2 * k).
Definition packed_at (regs : list Z) (k p : Z) : Z :=
  let r := p / 32 in let o := p mod 32 in
  let cur := Z.shiftr (nthZ regs r) (2 * o) in
  let nxt := if r <? len regs - 1 then u64 (Z.shiftl (nthZ regs (r + 1)) (64 - 2 * o)) else 0 in
  Z.land (Z.lor cur nxt) (window_mask k).
Definition kmers_packed (k : Z) (flat : list Z) : list Z :=
  map (packed_at (pack_regs flat) k) (arange (len flat - k + 1)).

(* ---- get_kmers: the bit-packed path for alphabets of size 4, the generic one otherwise *)
Definition get_kmers_with (stopf : Z -> option Z) (n k : Z) (rows : list (list Z)) : list (list Z) :=
  if n =? 4 then rewrap_trim (stopf k) 0 (map len rows) (kmers_packed k (concat rows))
  else rolling_with stopf (hash_generic n k) k rows.
Definition get_kmers := get_kmers_with stop_of.

(* ---- get_minimizers: outer rolling window of size W over the flat data; inside it the k-mer
        encoder rolls over the (number of windows) x W matrix of windows (ravel, hash, re-shape,
        cut the last k-1 columns) and the minimum of each row is taken.  An empty row makes NumPy's
        min raise ValueError (None here). *)
Definition get_minimizers_with (stopf : Z -> option Z) (n k W : Z) (rows : list (list Z)) : option (list (list Z)) :=
  let wins := windows (Z.to_nat W) (concat rows) in
  let inner := rolling_with stopf (hash_generic n k) k wins in
  match inner with
  | [] => None                                  (* no window at all: sliding_window_view raises *)
  | _ => if existsb (fun r => match r with [] => true | _ => false end) inner then None
         else Some (rewrap_trim (stopf W) 0 (map len rows) (map min_list inner))
  end.
Definition get_minimizers := get_minimizers_with stop_of.

(* ---- match_string: np.all(window == pattern) *)
Definition match_string_with (stopf : Z -> option Z) (pat : list Z) (rows : list (list Z)) : list (list Z) :=
  rolling_with stopf (fun win => b2z (zlist_eqb win pat)) (len pat) rows.
Definition match_string := match_string_with stop_of.

(* ---- PWM.calculate_scores: scores = zeros(n); for offset, column: scores[:n-offset] += column[seq[offset:]]
        then get_motif_scores re-wraps the n scores and cuts the last w-1 columns *)
Fixpoint add_prefix (a b : list Z) : list Z :=
  match a, b with
  | x :: a', y :: b' => (x + y) :: add_prefix a' b'
  | _, _ => a
  end.
Fixpoint pwm_acc (cols : list (list Z)) (seq : list Z) (scores : list Z) : list Z :=
  match cols with
  | [] => scores
  | c :: cs => pwm_acc cs (tl seq) (add_prefix scores (map (nthZ c) seq))
  end.
Definition motif_flat (cols : list (list Z)) (flat : list Z) : list Z :=
  pwm_acc cols flat (repeat 0 (length flat)).
Definition get_motif_scores_with (stopf : Z -> option Z) (cols : list (list Z)) (rows : list (list Z)) : list (list Z) :=
  rewrap_trim (stopf (len cols)) 0 (map len rows) (motif_flat cols (concat rows)).
Definition get_motif_scores := get_motif_scores_with stop_of.

(* ---- count_kmers: bincount over the k-mers (all rows together, or row by row) *)
Definition count_kmers_flat_with stopf (n k : Z) rows : list Z := bincount (n ^ k) (concat (get_kmers_with stopf n k rows)).
Definition count_kmers_rows_with stopf (n k : Z) rows : list (list Z) := map (bincount (n ^ k)) (get_kmers_with stopf n k rows).
Definition count_kmers_flat := count_kmers_flat_with stop_of.
Definition count_kmers_rows := count_kmers_rows_with stop_of.

(* ---- KmerEncoding.encode (text -> code) and .to_string (code -> text) *)
Definition encode_kmer (n k : Z) (letters : list Z) : Z := dot letters (powers n k).
Definition decode_kmer (n k : Z) (h : Z) : list Z :=
  if n =? 4 then map (fun j => Z.land (Z.shiftr h (2 * j)) 3) (arange k)
  else map (fun p => (h / p) mod n) (powers n k).
Definition to_string (alpha : list Z) (n k h : Z) : list Z := text_of alpha (decode_kmer n k h).
Definition labels (alpha : list Z) (n k : Z) : list (list Z) := map (to_string alpha n k) (arange (n ^ k)).

(* ---- the arithmetic formulas above as named helpers; Bridge/C13.v proves (a) each equals the formula regenerated
        from the source (Gen/C13.v) and (b) the model definitions above are built from them (delta-equal). *)
Definition m_kmer_weight (n j : Z) : Z := n ^ j.                       (* n ** arange(k) at position j *)
Definition m_packed_test (n : Z) : bool := n =? 4.                     (* which alphabets take the shift/mask routes *)
Definition m_digit4 (h j : Z) : Z := Z.land (Z.shiftr h (2 * j)) 3.    (* to_string, |A| = 4 *)
Definition m_digit (n h j : Z) : Z := (h / n ^ j) mod n.               (* to_string, other sizes *)
Definition m_n_labels (n k : Z) : Z := n ^ k.                          (* number of k-mer labels = bincount minlength *)
Definition m_min_n_kmers (W k : Z) : Z := W - k + 1.                   (* k-mers inside a minimizer window *)
Definition m_min_window (n_kmers k : Z) : Z := n_kmers + k - 1.        (* window of the outer roller *)
Definition m_pwm_acc_len (size offset : Z) : Z := size - offset.       (* scores[:size-offset] += column[seq[offset:]] *)

(* ---- equal-length sequences handed over as a dense 2-d EncodedArray.  get_kmers (encoded input),
        get_minimizers, match_string and count_kmers keep the row structure (as_strided re-shape) and are the
        functions above on the same rows.  Two routes at /repo HEAD do not:
        - get_motif_scores re-wraps the flat scores only for ragged input, so a 2-d input is scored as ONE row;
        - get_kmers on an UN-encoded 2-d array first calls change_encoding, which returns the ravelled data.
        Both are the functions above applied to `dense_rows_pinned rows`; after notes/C13.fix-2.diff /
        C13.fix-3.diff they are applied to `dense_rows_fixed rows`.  ONE-LINE SWITCHES: *)
Definition dense_rows_pinned (rows : list (list Z)) : list (list Z) := [concat rows].
Definition dense_rows_fixed (rows : list (list Z)) : list (list Z) := rows.
Definition motif_dense_rows : list (list Z) -> list (list Z) := dense_rows_fixed.              (* fix-2 -> dense_rows_fixed *)
Definition kmers_unencoded_dense_rows : list (list Z) -> list (list Z) := dense_rows_fixed.    (* fix-3 -> dense_rows_fixed *)

(* ---- motif scores over any carrier with an addition (exact rationals Q, integers, ...): the same shifted
        accumulation loop; the Z-valued functions above are the instance used by the correspondence *)
Section GenericScores.
  Context {T : Type} (zero : T) (add : T -> T -> T).
  Definition glook (c : list T) (x : Z) : T := nth (Z.to_nat x) c zero.
  Fixpoint gscore (cols : list (list T)) (win : list Z) : T :=
    match cols, win with
    | c :: cs, x :: r => add (glook c x) (gscore cs r)
    | _, _ => zero
    end.
  Fixpoint gadd_prefix (a b : list T) : list T :=
    match a, b with
    | x :: a', y :: b' => add x y :: gadd_prefix a' b'
    | _, _ => a
    end.
  Fixpoint gpwm_acc (cols : list (list T)) (seq : list Z) (scores : list T) : list T :=
    match cols with
    | [] => scores
    | c :: cs => gpwm_acc cs (tl seq) (gadd_prefix scores (map (glook c) seq))
    end.
  Definition gmotif_flat (cols : list (list T)) (flat : list Z) : list T :=
    gpwm_acc cols flat (repeat zero (length flat)).
  Definition gget_motif_scores_with (stopf : Z -> option Z) (cols : list (list T)) (rows : list (list Z)) : list (list T) :=
    rewrap_trim (stopf (len cols)) 0 (map len rows) (gmotif_flat cols (concat rows)).
End GenericScores.

(* ---- weighted counts: count_encoded(kmers, weights=w) = np.bincount(values, weights, minlength) *)
Definition wbincount (m : Z) (vals weights : list Z) : list Z :=
  map (fun v => sumZ (map snd (filter (fun p => fst p =? v) (combine vals weights)))) (arange m).
Definition count_weighted_with stopf (n k : Z) rows (weights : list Z) : list Z :=
  wbincount (n ^ k) (concat (get_kmers_with stopf n k rows)) weights.
Definition count_weighted := count_weighted_with stop_of.

(* ---- very long rows given as (pattern, repetitions): row_i = pattern_i repeated reps_i times.  Counting 1-mers of
        such rows in closed form (so that collections of more than 10^6 letters can be checked without expanding them);
        Proofs/C13_big.v proves the closed form equal to the counts of the expanded rows. *)
Definition tile (r : nat) (p : list Z) : list Z := concat (repeat p r).
Fixpoint add_lists (a b : list Z) : list Z :=
  match a, b with x :: a', y :: b' => (x + y) :: add_lists a' b' | _, _ => [] end.
Definition big_counts (m : Z) (pats : list (list Z)) (reps : list Z) : list Z :=
  fold_right (fun pr acc => add_lists (map (Z.mul (snd pr)) (bincount m (fst pr))) acc) (bincount m []) (combine pats reps).

(* Model/C08.v — interval-set operations on one contig.
   (a) Spec: everything defined from per-base coverage [cov I x] (how many intervals cover base x).
   (b) Model: the algorithms of bionumpy/arithmetics/intervals.py (get_pileup, get_boolean_mask,
       merge_intervals, sort_intervals, count_overlap, intersect, unique_intersect, extend_to_size, clip),
       bionumpy/arithmetics/bedgraph.py (get_pileup) and bionumpy/arithmetics/similarity_measures.py
       (contingency table, jaccard, forbes) as total functions.  An [option] result [None] is the
       AssertionError the code raises.
   Executable definitions only; proofs live in Proofs/C08*.v. *)
From Coq Require Import ZArith List Bool.
From Coq Require String.
From BNP Require Import Base.Prims.
Import ListNotations.
Open Scope Z_scope.

(* ===================================================================================== *)
(*                                        SPEC                                           *)
(* ===================================================================================== *)
Definition iv := (Z * Z)%type.                       (* half-open [start, stop) *)
Definition covers (x : Z) (i : iv) : bool := (fst i <=? x) && (x <? snd i).
Definition b2z (b : bool) : Z := if b then 1 else 0.
(* number of intervals of I covering base x *)
Definition cov (I : list iv) (x : Z) : Z := sumZ (map (fun i => b2z (covers x i)) I).
Definition covered (I : list iv) (x : Z) : bool := 0 <? cov I x.
Definition bases (size : Z) : list Z := arange size.  (* 0 .. size-1 *)
Definition count_bases (p : Z -> bool) (size : Z) : Z := sumZ (map (fun x => b2z (p x)) (bases size)).

Definition pileup_spec (I : list iv) (size : Z) : list Z := map (cov I) (bases size).
Definition mask_spec (I : list iv) (size : Z) : list bool := map (covered I) (bases size).

(* maximal runs of [true] in a dense mask whose first element is position [pos] *)
Fixpoint runs_from (pos : Z) (cur : option Z) (m : list bool) : list iv :=
  match m with
  | [] => match cur with Some s => [(s, pos)] | None => [] end
  | true :: r => runs_from (pos + 1) (match cur with Some s => Some s | None => Some pos end) r
  | false :: r => match cur with
                  | Some s => (s, pos) :: runs_from (pos + 1) None r
                  | None => runs_from (pos + 1) None r
                  end
  end.
Definition runs (m : list bool) : list iv := runs_from 0 None m.
(* join consecutive runs whose gap (uncovered bases between them) is at most d *)
Fixpoint bridge_acc (d : Z) (cur : iv) (rs : list iv) : list iv :=
  match rs with
  | [] => [cur]
  | r :: rest => if snd cur + d <? fst r then cur :: bridge_acc d r rest
                 else bridge_acc d (fst cur, snd r) rest
  end.
Definition bridge (d : Z) (rs : list iv) : list iv :=
  match rs with [] => [] | r :: rest => bridge_acc d r rest end.
(* S1: the maximal runs of the union, gaps of at most d bridged *)
Definition merge_spec (d : Z) (I : list iv) (size : Z) : list iv := bridge d (runs (mask_spec I size)).
(* S2, the same set described per base: extend every interval d bases to the right, take the maximal
   runs of that union (on a contig of size+d), take the d bases off again *)
Definition grow (d : Z) (I : list iv) : list iv := map (fun i => (fst i, snd i + d)) I.
Definition shrink (d : Z) (I : list iv) : list iv := map (fun i => (fst i, snd i - d)) I.
Definition merge_spec2 (d : Z) (I : list iv) (size : Z) : list iv :=
  shrink d (runs (mask_spec (grow d I) (size + d))).

(* tagged intervals: (tag, start, stop); tag = rank of the chromosome (sorting) or 1/0 for strand +/- *)
Definition tiv := (Z * Z * Z)%type.
Definition t_tag (t : tiv) : Z := fst (fst t).
Definition t_start (t : tiv) : Z := snd (fst t).
Definition t_stop (t : tiv) : Z := snd t.
Definition untag (t : tiv) : iv := (t_start t, t_stop t).
Definition tiv_eqb (a b : tiv) : bool := (t_tag a =? t_tag b) && (t_start a =? t_start b) && (t_stop a =? t_stop b).
Definition iv_eqb (a b : iv) : bool := (fst a =? fst b) && (snd a =? snd b).
(* lexicographic order on (chromosome rank, start, stop) *)
Definition key3_leb (a b : tiv) : bool :=
  (t_tag a <? t_tag b) || ((t_tag a =? t_tag b) &&
    ((t_start a <? t_start b) || ((t_start a =? t_start b) && (t_stop a <=? t_stop b)))).
Fixpoint sortedb {A} (leb : A -> A -> bool) (l : list A) : bool :=
  match l with a :: ((b :: _) as r) => leb a b && sortedb leb r | _ => true end.
Definition count_tiv (x : tiv) (l : list tiv) : Z := sumZ (map (fun y => b2z (tiv_eqb x y)) l).
Definition perm_b (a b : list tiv) : bool :=
  (len a =? len b) && forallb (fun x => count_tiv x a =? count_tiv x b) (a ++ b).
Definition sort_spec_ok (inp out : list tiv) : bool := perm_b inp out && sortedb key3_leb out.

(* interval multisets given with multiplicities: a row (m, start, stop) stands for m copies of [start, stop) *)
Definition expand_w (W : list tiv) : list iv := concat (map (fun t => repeat (untag t) (Z.to_nat (t_tag t))) W).
Definition cov_w (W : list tiv) (x : Z) : Z := sumZ (map (fun t => t_tag t * b2z (covers x (untag t))) W).
Definition pileup_w_spec (W : list tiv) (size : Z) : list Z := map (cov_w W) (bases size).
Definition mask_w_spec (W : list tiv) (size : Z) : list bool := map (fun x => 0 <? cov_w W x) (bases size).
Definition merge_w_spec (d : Z) (W : list tiv) (size : Z) : list iv := bridge d (runs (mask_w_spec W size)).
Definition overlap_w_spec (WA WB : list tiv) (size : Z) : Z :=
  sumZ (map (fun x => Z.max (cov_w WA x + cov_w WB x - 1) 0) (bases size)).

(* overlap counting, in bases *)
Definition overlap_spec (A B : list iv) (size : Z) : Z :=
  sumZ (map (fun x => Z.max (cov (A ++ B) x - 1) 0) (bases size)).
Definition overlap_sets_spec (A B : list iv) (size : Z) : Z :=
  count_bases (fun x => covered A x && covered B x) size.
Definition disjointb (I : list iv) (size : Z) : bool := forallb (fun x => cov I x <=? 1) (bases size).
Definition inside (size : Z) (i : iv) : bool := (0 <=? fst i) && (fst i <=? snd i) && (snd i <=? size).
Definition intersect_spec_ok (A B out : list iv) (size : Z) : bool :=
  forallb (fun o => (fst o <? snd o) && inside size o) out
  && forallb (fun x => cov out x =? Z.max (cov (A ++ B) x - 1) 0) (bases size)
  && (negb (disjointb A size && disjointb B size)
      || forallb (fun x => cov out x =? b2z (covered A x && covered B x)) (bases size)).
Definition span (i : iv) : list Z := arange_from (fst i) (Z.to_nat (snd i - fst i)).
Definition unique_intersect_spec (A B : list iv) : list iv :=
  filter (fun a => existsb (covered B) (span a)) A.
(* similarity measures as exact fractions (numerator, denominator) *)
Definition jaccard_spec (A B : list iv) (size : Z) : Z * Z :=
  (count_bases (fun x => covered A x && covered B x) size,
   count_bases (fun x => covered A x || covered B x) size).
Definition forbes_spec (A B : list iv) (size : Z) : Z * Z :=
  (count_bases (fun x => covered A x && covered B x) size * size,
   count_bases (covered A) size * count_bases (covered B) size).

(* a genome = list of contigs (size, A on that contig, B on that contig); its bases are the disjoint union of the
   contigs' bases, so every genome-wide count is the sum of the per-contig counts *)
Definition contig := (Z * list iv * list iv)%type.
Definition genome_count (f : list iv -> list iv -> Z -> bool) (g : list contig) : Z :=
  sumZ (map (fun c => let '(size, a, b) := c in count_bases (f a b) size) g).
Definition genome_size (g : list contig) : Z := sumZ (map (fun c => fst (fst c)) g).
Definition jaccard_genome_spec (g : list contig) : Z * Z :=
  (genome_count (fun a b x => covered a x && covered b x) g, genome_count (fun a b x => covered a x || covered b x) g).
Definition forbes_genome_spec (g : list contig) : Z * Z :=
  (genome_count (fun a b x => covered a x && covered b x) g * genome_size g,
   genome_count (fun a b x => covered a x) g * genome_count (fun a b x => covered b x) g).

Fixpoint forall2b {A B} (f : A -> B -> bool) (a : list A) (b : list B) : bool :=
  match a, b with
  | [], [] => true
  | x :: a', y :: b' => f x y && forall2b f a' b'
  | _, _ => false
  end.
(* clipping: every result lies inside the contig and covers exactly the bases of the contig the input covered *)
Definition clip_spec_ok (size : Z) (inp out : list iv) : bool :=
  forall2b (fun i o => inside size o && forallb (fun x => Bool.eqb (covers x o) (covers x i)) (bases size)) inp out.
(* strand-aware extension to a fragment length: + keeps the start, - keeps the stop, the length is the
   fragment length or what the contig leaves, and the result lies inside the contig *)
Definition extend_spec_ok (size frag : Z) (inp out : list tiv) : bool :=
  forall2b (fun i o =>
    (t_tag i =? t_tag o) && inside size (untag o) &&
    (if t_tag i =? 1
     then (t_start o =? t_start i) && (t_stop o - t_start o =? Z.min frag (size - t_start i))
     else (t_stop o =? t_stop i) && (t_stop o - t_start o =? Z.min frag (t_stop i)))) inp out.

(* ===================================================================================== *)
(*                                        MODEL                                          *)
(* ===================================================================================== *)
(* stable insertion sort = np.sort / np.argsort(kind="mergesort") / sorted() on total keys *)
Fixpoint insert {A} (leb : A -> A -> bool) (x : A) (l : list A) : list A :=
  match l with [] => [x] | y :: r => if leb x y then x :: l else y :: insert leb x r end.
Definition isort {A} (leb : A -> A -> bool) (l : list A) : list A := fold_right (insert leb) [] l.
Fixpoint zip_with {A B C} (f : A -> B -> C) (a : list A) (b : list B) : list C :=
  match a, b with x :: a', y :: b' => f x y :: zip_with f a' b' | _, _ => [] end.
Definition pos_leb (a b : Z * Z) : bool := fst a <=? fst b.      (* order by position / by start *)

(* ---------- run-length arrays: runs (position, value), the array ends at L ---------- *)
Fixpoint cum_from (acc : Z) (ev : list (Z * Z)) : list (Z * Z) :=
  match ev with [] => [] | (p, d) :: r => (p, acc + d) :: cum_from (acc + d) r end.
(* drop empty runs: of several runs starting at the same position the last one stays
   (npstructures remove_empty_intervals; bedgraph.get_pileup np.delete(.., mask)) *)
Fixpoint dedupe (r : list (Z * Z)) : list (Z * Z) :=
  match r with
  | a :: ((b :: _) as t) => if fst a =? fst b then dedupe t else a :: dedupe t
  | _ => r
  end.
Definition next_pos (t : list (Z * Z)) (L : Z) : Z := match t with [] => L | (q, _) :: _ => q end.
Fixpoint expand (r : list (Z * Z)) (L : Z) : list Z :=
  match r with
  | [] => []
  | (p, v) :: t => repeat v (Z.to_nat (next_pos t L - p)) ++ expand t L
  end.

(* ---------- get_pileup (intervals.py:136-162): RunLength2dArray.from_intervals(...).sum(axis=0) ----------
   one row per interval: [0 (value 0) if start>0] [start (value 1)] [stop (value 0) if stop<L]; the column
   sum sorts all row events by position (stable), accumulates the value changes, drops empty runs. *)
Definition row_events (L : Z) (i : iv) : list (Z * Z) :=
  (if 0 <? fst i then [(0, 0)] else []) ++ [(fst i, 1)] ++ (if snd i <? L then [(snd i, -1)] else []).
Definition pileup_model (I : list iv) (L : Z) : list Z :=
  match I with
  | [] => repeat 0 (Z.to_nat L)
  | _ => expand (dedupe (cum_from 0 (isort pos_leb (concat (map (row_events L) I))))) L
  end.

(* ---------- bedgraph.get_pileup (bedgraph.py:22-35) ---------- *)
Definition bg_pileup_model (I : list iv) (L : Z) : option (list Z) :=
  let ev := (0, 1) :: map (fun i => (fst i, 1)) I ++ map (fun i => (snd i, -1)) I ++ [(L, -1)] in
  let s := isort pos_leb ev in
  let s0 := match s with (p, _) :: t => (p, 0) :: t | [] => [] end in      (* values[0] = 0 *)
  let r := dedupe (cum_from 0 s0) in
  if fst (last r (0, 0)) =? L then Some (expand (removelast r) L) else None.

(* ---------- named per-element kernels; Bridge/C08.v proves each equal to the definition regenerated from the
   source (Gen/C08.v).  A vectorised NumPy expression over equally shaped arrays is read per element. ---------- *)
Definition m_merge_sorted_pair (a b : Z) : bool := a <=? b.                 (* start[:-1] <= start[1:] *)
Definition m_merge_shift (d : Z) (l : list Z) : list Z := if 0 <? d then map (fun e => e + d) l else l.
Definition m_merge_unshift (d : Z) (l : list Z) : list Z := if 0 <? d then map (fun e => e - d) l else l.
Definition m_merge_new_run (next_start shifted_prev_stop : Z) : bool := shifted_prev_stop <? next_start.
Definition m_mask_keep (s e : Z) : bool := negb (s =? e).
Definition m_overlap_term (stop_i start_next : Z) : Z := Z.max (stop_i - start_next) 0.
Definition m_intersect_keep (stop_i start_next : Z) : bool := start_next <? stop_i.
Definition m_intersect_piece (stop_i start_next : Z) : iv := (start_next, stop_i).
Definition m_cell_00 (a b : bool) : bool := a && b.
Definition m_cell_01 (a b : bool) : bool := a && negb b.
Definition m_cell_10 (a b : bool) : bool := negb a && b.
Definition m_cell_11 (a b : bool) : bool := negb a && negb b.
Definition m_jaccard_num (a b c d : Z) : Z := a.
Definition m_jaccard_den (a b c d : Z) : Z := (a + b + c + d) - d.
Definition m_forbes_num (a b c d : Z) : Z := a * (a + b + c + d).
Definition m_forbes_den (a b c d : Z) : Z := (a + b) * (a + c).

(* ---------- merge_intervals (intervals.py:260-294) ---------- *)
Definition merge_model (d : Z) (I : list iv) : option (list iv) :=
  match I with
  | [] => Some []
  | _ =>
    let starts := map fst I in
    if negb (sortedb m_merge_sorted_pair starts) then None else
    let stops0 := max_accumulate (map snd I) in
    let stops := m_merge_shift d stops0 in
    let valid := zip_with m_merge_new_run (tl starts) stops in       (* start[1:] > stops[:-1] *)
    let new_start := mask_select (true :: valid) starts in
    let new_stop0 := mask_select (valid ++ [true]) stops in
    let new_stop := m_merge_unshift d new_stop0 in
    if all_true (zip_with m_merge_new_run (tl new_start) new_stop)
    then Some (combine new_start new_stop) else None
  end.

(* ---------- get_boolean_mask (intervals.py:165-220) ----------
   GenomicRunLengthArray.from_intervals (the subject of C09) is modelled by its assertions and its meaning. *)
Definition from_intervals_mask (m : list iv) (size : Z) : option (list bool) :=
  if forallb (fun i => fst i <? snd i) m
     && all_true (zip_with (fun s e => e <=? s) (tl (map fst m)) (map snd m))
  then Some (map (fun x => existsb (covers x) m) (bases size)) else None.
Definition mask_model (I : list iv) (size : Z) : option (list bool) :=
  if existsb (fun i => size <? snd i) I then None else
  match I with
  | [] => from_intervals_mask [] size
  | _ => match merge_model 0 (isort pos_leb I) with
         | None => None
         | Some mg => from_intervals_mask (filter (fun i => m_mask_keep (fst i) (snd i)) mg) size
         end
  end.

(* ---------- count_overlap, intersect (intervals.py:297-314) ---------- *)
Definition count_overlap_model (A B : list iv) : Z :=
  let starts := isort Z.leb (map fst A ++ map fst B) in
  let stops := isort Z.leb (map snd A ++ map snd B) in
  sumZ (zip_with m_overlap_term stops (tl starts)).      (* stops[:-1] - starts[1:] *)
Definition intersect_model (A B : list iv) : list iv :=
  let all := isort pos_leb (A ++ B) in
  let stops := isort Z.leb (map snd all) in
  filter (fun p => m_intersect_keep (snd p) (fst p)) (zip_with m_intersect_piece stops (tl (map fst all))).

(* ---------- unique_intersect (intervals.py:328-331) ---------- *)
(* genome_mask[intervals_a].any(axis=-1): a row with bases is kept iff one of its bases is covered; for a row
   WITHOUT bases (start = stop = p) npstructures' indexing of the run-length mask by the empty range returns the run
   around p, and the row is kept iff p lies strictly inside a covered run (bases p-1 and p both covered). *)
Definition unique_keep (m : list bool) (size : Z) (a : iv) : bool :=
  if fst a =? snd a
  then (0 <? fst a) && (fst a <? size) && nthd false m (fst a - 1) && nthd false m (fst a)
  else existsb (fun x => nthd false m x) (span a).
Definition unique_intersect_model (A B : list iv) (size : Z) : option (list iv) :=
  match mask_model B size with
  | None => None
  | Some m => Some (filter (unique_keep m size) A)
  end.

(* ---------- similarity_measures.py ---------- *)
Definition count_true (l : list bool) : Z := sumZ (map b2z l).
Definition contingency_model (A B : list iv) (size : Z) : option (Z * Z * Z * Z) :=
  match mask_model A size, mask_model B size with
  | Some ma, Some mb =>
      Some (count_true (zip_with m_cell_00 ma mb), count_true (zip_with m_cell_01 ma mb),
            count_true (zip_with m_cell_10 ma mb), count_true (zip_with m_cell_11 ma mb))
  | _, _ => None
  end.
(* Geometry.jaccard works on the two masks directly *)
Definition jaccard_model (A B : list iv) (size : Z) : option (Z * Z) :=
  match contingency_model A B size with
  | Some (a, b, c, d) => Some (m_jaccard_num a b c d, m_jaccard_den a b c d)
  | None => None
  end.
Definition forbes_model (A B : list iv) (size : Z) : option (Z * Z) :=
  match contingency_model A B size with
  | Some (a, b, c, d) => Some (m_forbes_num a b c d, m_forbes_den a b c d)
  | None => None
  end.

(* arithmetics.jaccard / forbes go through MultiStream + groupby(chromosome).  At the commit the work started from an
   interval set without entries made groupby raise ValueError before any table was computed (pinned variant); since
   a68b397 a table without entries has no groups and the contingency table is computed as for any other input. *)
Inductive result (T : Type) := Ret (v : T) | Raise (code : Z).    (* code 1 = AssertionError, 2 = another exception *)
Arguments Ret {T} v.  Arguments Raise {T} code.
Definition of_option {T} (o : option T) : result T := match o with Some v => Ret v | None => Raise 1 end.
Definition is_nil {T} (l : list T) : bool := match l with [] => true | _ => false end.
Definition stream_similarity_pinned (f : list iv -> list iv -> Z -> option (Z * Z)) (A B : list iv) (size : Z) : result (Z * Z) :=
  if is_nil A || is_nil B then Raise 2 else of_option (f A B size).
Definition stream_similarity_fixed (f : list iv -> list iv -> Z -> option (Z * Z)) (A B : list iv) (size : Z) : result (Z * Z) :=
  of_option (f A B size).
Definition stream_similarity := stream_similarity_fixed.      (* <- /repo HEAD since a68b397 *)
(* on a genome with several contigs the stream route adds up the per-contig contingency tables (@streamable(sum)) *)
Fixpoint genome_table (g : list contig) : option (Z * Z * Z * Z) :=
  match g with
  | [] => Some (0, 0, 0, 0)
  | (size, a, b) :: r =>
      match contingency_model a b size, genome_table r with
      | Some (t1, t2, t3, t4), Some (u1, u2, u3, u4) => Some (t1 + u1, t2 + u2, t3 + u3, t4 + u4)
      | _, _ => None
      end
  end.
Definition jaccard_genome_model (g : list contig) : result (Z * Z) :=
  of_option (match genome_table g with Some (a, b, c, d) => Some (m_jaccard_num a b c d, m_jaccard_den a b c d) | None => None end).
Definition forbes_genome_model (g : list contig) : result (Z * Z) :=
  of_option (match genome_table g with Some (a, b, c, d) => Some (m_forbes_num a b c d, m_forbes_den a b c d) | None => None end).
Definition jaccard_stream_model := stream_similarity jaccard_model.
Definition forbes_stream_model := stream_similarity forbes_model.

(* ---------- sort_intervals (intervals.py:234-257) ----------
   default / sort_order route: sorted((key, start, stop, i)); StringEncoding route: np.lexsort.
   The code at the pinned commit calls lexsort((start, chromosome)) — the stop is not a key there. *)
Definition key2_leb (a b : tiv) : bool :=
  (t_tag a <? t_tag b) || ((t_tag a =? t_tag b) && (t_start a <=? t_start b)).
(* the order a list of column names (primary key first) defines; an unknown column gives None *)
Import String.     (* only from here on: string literals; List's concat / length are not used below *)
Definition field (k : String.string) (t : tiv) : option Z :=
  if String.eqb k "chromosome"%string then Some (t_tag t)
  else if String.eqb k "start"%string then Some (t_start t)
  else if String.eqb k "stop"%string then Some (t_stop t) else None.
Fixpoint leb_of_keys (ks : list String.string) (a b : tiv) : option bool :=
  match ks with
  | [] => Some true
  | k :: r => match field k a, field k b, leb_of_keys r a b with
              | Some x, Some y, Some rest => Some ((x <? y) || ((x =? y) && rest))
              | _, _, _ => None
              end
  end.
(* sorted((key(chromosome), start, stop, i) ...): the trailing index makes the sort stable *)
Definition sort_tuple_keys : list String.string := ["chromosome"; "start"; "stop"; "index"]%string.
(* np.lexsort((stop, start, chromosome)): primary key last in the call, first here *)
Definition sort_lex_keys : list String.string := ["chromosome"; "start"; "stop"]%string.
(* Geometry.sort: np.lexsort((stop, start)) on global coordinates (global start = chromosome offset + start) *)
Definition geom_sort_keys : list String.string := ["start"; "stop"]%string.
(* count_overlap sorts both concatenated arrays *)
Definition count_overlap_sorted : list String.string := ["starts"; "stops"]%string.
(* extend_to_size: the strand symbol that selects the forward branch (tag 1 in the cases) *)
Definition extend_forward_symbol : String.string := "+"%string.
Definition sort_full_model (I : list tiv) : list tiv := isort key3_leb I.
Definition sort_lex_pinned (I : list tiv) : list tiv := isort key2_leb I.
Definition sort_lex_fixed (I : list tiv) : list tiv := isort key3_leb I.
Definition sort_lex_model := sort_lex_fixed.        (* <- one-line switch when notes/C08.fix-1.diff is committed *)
(* Geometry.sort: unstable argsort of the global start (pinned) — any permutation ordered by this key *)
Definition geom_sort_leb_pinned := key2_leb.
Definition geom_sort_leb_fixed := key3_leb.
Definition geom_sort_leb := geom_sort_leb_fixed.    (* <- one-line switch when notes/C08.fix-3.diff is committed *)

(* ---------- deep inputs (more than 2^15 / 2^16 intervals on a tiny contig), given with multiplicities.
   Expanding such a multiset inside Coq and insertion-sorting its events is infeasible, so the correspondence evaluates
   the functions below; Proofs/C08_big.v proves that they ARE the models' outputs on the expanded multiset:
     pileup_model (expand_w W) L = pileup_big_model W L,   mask_model (expand_w W) L = Some (mask_big_model W L),
     merge_model d (expand_w W) = Some (merge_big_model d W L),   count_overlap_model (expand_w WA) (expand_w WB) = ... *)
Definition pileup_big_model (W : list tiv) (L : Z) : list Z := pileup_w_spec W L.
Definition mask_big_model (W : list tiv) (L : Z) : list bool := mask_w_spec W L.
Definition merge_big_model (d : Z) (W : list tiv) (L : Z) : list iv := merge_w_spec d W L.
Definition count_overlap_big_model (WA WB : list tiv) (L : Z) : Z := overlap_w_spec WA WB L.

(* ---------- Geometry routes (genomic_data/geometry.py): the contig is chromosome number r of a genome with
   chromosome sizes [sizes]; Geometry works in global coordinates (offset of the chromosome added) and slices /
   shifts back. ---------- *)
Definition goff (sizes : list Z) (r : Z) : Z := sumZ (firstn (Z.to_nat r) sizes).     (* GlobalOffset: cumulative sizes *)
Definition gsize (sizes : list Z) (r : Z) : Z := nthd 0 sizes r.
Definition shift_iv (k : Z) (i : iv) : iv := (fst i + k, snd i + k).
(* Geometry.get_pileup / get_mask: global array of the whole genome, then the chromosome's slice *)
Definition geom_pileup_model (sizes : list Z) (r : Z) (I : list iv) : list Z :=
  let off := goff sizes r in
  slice off (off + gsize sizes r) (pileup_model (map (shift_iv off) I) (sumZ sizes)).
Definition geom_mask_model (sizes : list Z) (r : Z) (I : list iv) : option (list bool) :=
  let off := goff sizes r in
  match mask_model (map (shift_iv off) I) (sumZ sizes) with
  | Some m => Some (slice off (off + gsize sizes r) m)
  | None => None
  end.
(* Geometry.merge_intervals: chromosomes moved distance+1 further apart, merged globally, shifted back *)
Definition geom_merge_model (sizes : list Z) (r d : Z) (I : list iv) : option (list iv) :=
  let k := goff sizes r + r * (d + 1) in
  match merge_model d (map (shift_iv k) I) with
  | Some out => Some (map (shift_iv (- k)) out)
  | None => None
  end.
(* Geometry.jaccard: the two genome-wide masks; intersect / (|a| + |b| - intersect) *)
Definition geom_jaccard_model (sizes : list Z) (r : Z) (A B : list iv) : option (Z * Z) :=
  let off := goff sizes r in
  jaccard_model (map (shift_iv off) A) (map (shift_iv off) B) (sumZ sizes).
(* Geometry.sort: stable np.lexsort((global stop, global start)) *)
Definition gkey_leb (sizes : list Z) (a b : tiv) : bool :=
  let ga := goff sizes (t_tag a) in let gb := goff sizes (t_tag b) in
  (ga + t_start a <? gb + t_start b) || ((ga + t_start a =? gb + t_start b) && (ga + t_stop a <=? gb + t_stop b)).
Definition geom_sort_model (sizes : list Z) (I : list tiv) : list tiv := isort (gkey_leb sizes) I.

(* ---------- clip (intervals.py:416-430), extend_to_size (intervals.py:365-392) ---------- *)
Definition clip_pinned (size : Z) (i : iv) : iv := (Z.max 0 (fst i), Z.min size (snd i)).
Definition clip_fixed (size : Z) (i : iv) : iv :=
  (Z.min (Z.max 0 (fst i)) size, Z.max (Z.min size (snd i)) 0).
Definition clip_one := clip_fixed.                   (* <- one-line switch when notes/C08.fix-2.diff is committed *)
Definition clip_model (size : Z) (I : list iv) : list iv := map (clip_one size) I.
Definition extend_one (size frag : Z) (t : tiv) : tiv :=
  if t_tag t =? 1 then (t_tag t, t_start t, Z.min (t_start t + frag) size)
  else (t_tag t, Z.max (t_stop t - frag) 0, t_stop t).
Definition extend_model (size frag : Z) (I : list tiv) : list tiv := map (extend_one size frag) I.

(* Model/C07.v — encoded arrays behave like NumPy arrays of characters.
   Executable definitions only; proofs live in Proofs/C07.v.

   Layout
   1. NumPy / Python index vocabulary on lists (slice.indices, integer / fancy / mask selection,
      gather, scatter).  This is the *meaning* of an index expression; Spec and Model share it, the
      harness validates it on every run against Python's own list/str indexing (k_expect in Corr/C07.v).
   2. Encodings: Spec side (alphabet membership, canonical text) and Model side (the 256-entry lookup
      table built by AlphabetEncoding._initialize at HEAD, and the repaired table).
   3. Values, operations and the step function [g_step], parameterised by the character-level
      primitives [prims]: the Spec instance works on characters, the Model instance on raw codes with
      encode-before-compare / encode-before-store (encoded_array.py:415-452, 177-181, 503-508),
      unwrap/re-wrap with the operand's encoding (394-413, 454-486, 161-233).
   4. bionumpy's own flat-data-plus-offsets routines (strops.join / split / str_equal,
      util/ragged_slice.py), as the Model instance of the corresponding primitives. *)
From Coq Require Import ZArith List Bool.
From BNP Require Import Base.Prims.
Import ListNotations.
Open Scope Z_scope.

(* ================= 1. index vocabulary ================= *)
Inductive sel :=
| SInt (i : Z)
| SSlice (a b s : option Z)
| SFancy (l : list Z)
| SMask (m : list bool).

(* Python's slice(a,b,s).indices(n) expanded to the list of positions *)
Definition slice_indices (n : Z) (a b s : option Z) : list Z :=
  let step := match s with Some k => k | None => 1 end in
  if step =? 0 then [] else
  let lower := if 0 <? step then 0 else -1 in
  let upper := if 0 <? step then n else n - 1 in
  let clamp := fun x => if x <? 0 then Z.max (x + n) lower else Z.min x upper in
  let start := match a with None => if step <? 0 then upper else lower | Some x => clamp x end in
  let stop := match b with None => if step <? 0 then lower else upper | Some x => clamp x end in
  let cnt := if 0 <? step
             then (if start <? stop then (stop - start + step - 1) / step else 0)
             else (if stop <? start then (start - stop - step - 1) / (- step) else 0) in
  map (fun k => start + k * step) (arange cnt).

Definition norm_idx (n i : Z) : option Z :=
  if (0 <=? i) && (i <? n) then Some i
  else if (- n <=? i) && (i <? 0) then Some (n + i) else None.

Fixpoint all_some {A} (l : list (option A)) : option (list A) :=
  match l with
  | [] => Some []
  | None :: _ => None
  | Some x :: r => match all_some r with Some r' => Some (x :: r') | None => None end
  end.

(* positions (0-based, in range) selected from a sequence of length n; None = IndexError *)
Definition sel_pos (n : Z) (s : sel) : option (list Z) :=
  match s with
  | SInt i => match norm_idx n i with Some x => Some [x] | None => None end
  | SSlice a b st => Some (slice_indices n a b st)
  | SFancy l => all_some (map (norm_idx n) l)
  | SMask m => if len m =? n then Some (flatnonzero m) else None
  end.

Definition gather {A} (l : list A) (pos : list Z) : list A :=
  flat_map (fun p => match nth_error l (Z.to_nat p) with Some x => [x] | None => [] end) pos.

Fixpoint set_nth {A} (n : nat) (v : A) (l : list A) {struct l} : list A :=
  match l, n with
  | [], _ => []
  | _ :: r, O => v :: r
  | x :: r, S k => x :: set_nth k v r
  end.
(* l[pos] = vals  (positions distinct; written left to right) *)
Fixpoint scatter {A} (l : list A) (pos : list Z) (vals : list A) : list A :=
  match pos, vals with
  | p :: pos', v :: vals' => scatter (set_nth (Z.to_nat p) v l) pos' vals'
  | _, _ => l
  end.

Fixpoint nodupb (l : list Z) : bool :=
  match l with [] => true | x :: r => negb (existsb (Z.eqb x) r) && nodupb r end.

Fixpoint map2 {A B C} (f : A -> B -> C) (a : list A) (b : list B) : list C :=
  match a, b with x :: a', y :: b' => f x y :: map2 f a' b' | _, _ => [] end.
Definition same_shape {A B} (a : list (list A)) (b : list (list B)) : bool :=
  zlist_eqb (map len a) (map len b).

(* ================= 2. encodings ================= *)
(* the alphabet is stored as the constructor stores it: upper-cased character codes *)
Inductive enc := Base | Alpha (alphabet : list Z).

Definition memb (x : Z) (l : list Z) : bool := existsb (Z.eqb x) l.
Fixpoint index_of (x : Z) (l : list Z) (i : Z) : option Z :=
  match l with [] => None | y :: r => if x =? y then Some i else index_of x r (i + 1) end.

(* --- Spec: which characters an encoding has, and the text it stands for --- *)
Definition is_lower (c : Z) : bool := (97 <=? c) && (c <=? 122).
Definition s_prep (e : enc) (c : Z) : option Z :=
  match e with
  | Base => Some c
  | Alpha al => if memb (upper c) al then Some (upper c) else None
  end.

(* --- Model: AlphabetEncoding._initialize builds lookup[alphabet]=i, then lookup[alphabet+32]=i
       (later writes win); _encode raises when the table says 255 --- *)
Fixpoint last_index_where (f : Z -> bool) (l : list Z) (i : Z) (acc : option Z) : option Z :=
  match l with [] => acc | y :: r => last_index_where f r (i + 1) (if f y then Some i else acc) end.
Definition lookup_head (al : list Z) (c : Z) : option Z :=
  match last_index_where (fun a => (a + 32) mod 256 =? c) al 0 None with
  | Some i => Some i
  | None => last_index_where (fun a => a =? c) al 0 None
  end.
(* the table since the C06 repair (c99b89e): lookup[alphabet]=i, then lookup[lower(alphabet)]=i, where lower() moves
   only letters; for a non-letter member both writes hit the same entry, so only letters need the first search
   (alphabets are upper-cased by the constructor) *)
Definition lookup_fixed (al : list Z) (c : Z) : option Z :=
  match last_index_where (fun a => ((65 <=? a) && (a <=? 90)) && (a + 32 =? c)) al 0 None with
  | Some i => Some i
  | None => last_index_where (fun a => a =? c) al 0 None
  end.
Definition m_prep_with (lk : list Z -> Z -> option Z) (e : enc) (c : Z) : option Z :=
  match e with
  | Base => Some c
  | Alpha al => match lk al c with
                | Some i => if i <? len al then Some i else None
                | None => None
                end
  end.
Definition m_prep := m_prep_with lookup_fixed.          (* the code in /repo HEAD (since c99b89e) *)
Definition m_prep_pinned := m_prep_with lookup_head.    (* the table before the C06 repair: kept for the _pinned theorems *)

(* _decode: alphabet[code]; a code outside the alphabet has no character (IndexError in NumPy): the model
   maps it to a negative number (no character is negative), a different one for each code, so that no two
   codes are ever conflated and nothing out of range is mistaken for text *)
Definition decode1 (e : enc) (r : Z) : Z :=
  match e with
  | Base => r
  | Alpha al => if (0 <=? r) && (r <? len al) then nthZ al r else if r <? 0 then 2 * r else - 1 - 2 * r
  end.

(* ================= 3. values, operations, step ================= *)
Inductive value :=
| VR (e : enc) (rows : list (list Z))      (* EncodedRaggedArray *)
| VF (e : enc) (s : list Z)                (* 1-d EncodedArray *)
| VC (e : enc) (c : Z).                    (* 0-d EncodedArray *)

Inductive operand :=
| PChar (c : Z)
| PStr (s : list Z)
| PRows (l : list (list Z))
| PSelf.

Inductive part := PtSelf | PtSlice (a b s : option Z) | PtRows (l : list (list Z)) | PtStr (s : list Z).

Inductive op :=
| RowInt (i : Z)
| RowSel (s : sel)
| ColSlice (a b s : option Z)
| RC (rs : sel) (a b s : option Z)
| RowsCol (rs : sel) (j : Z)
| Elem (i j : Z)
| Elems (is_ js : list Z)
| Eq (o : operand) (neg : bool)
| MaskEq (c : Z) (neg : bool)
| SetRow (i : Z) (o : operand)
| SetElem (i j : Z) (c : Z)
| SetRows (rs : sel) (l : list (list Z))
| SetRC (rs : sel) (a b s : option Z) (o : operand)
| SetRCol (rs : sel) (j : Z) (c : Z)
| SetMaskEq (c c2 : Z)
| Concat (ps : list part)
| Copy
| Ravel
| Str
| SArr
| Iter
| RSlice (starts : list Z) (ends : option (list Z))
| Join (sep : Z) (keep : bool)
| StrEq (s : list Z)
| StrEq2 (l : list (list Z))
| Idx (s : sel)
| SetIdx (s : sel) (o : operand)
| Append (s : list Z)
| Insert (i : Z) (s : list Z)
| Where (m : list bool) (s : list Z)
| Split (sep : Z)
| SplitL (seps : list Z)                 (* strops.split with a LIST of separator characters *)
| Rows2D (k : Z) (s : sel)               (* a.reshape(-1, k)[s].ravel(): first-axis indexing of a 2-d encoded array *)
| SetRows2D (k : Z) (s : sel) (c : Z)    (* y = a.reshape(-1, k); y[s] = 'c'; y.ravel() *)
| Stack (ps : list part).

Inductive obs :=
| OV (v : value)
| OMR (m : list (list bool))
| OMF (m : list bool)
| OS (l : list (list Z))
| OS1 (s : list Z)
| OErr                  (* EncodingError *)
| ORaise                (* any other exception *)
| OInvalid.             (* the step is not defined for this value (generator error / unsupported form) *)

(* what differs between "characters" and "raw codes + flat buffers" *)
Record prims := {
  p_prep : enc -> Z -> option Z;                       (* operand character -> stored code; None = EncodingError *)
  p_dec : enc -> Z -> Z;                               (* stored code -> character, for text output *)
  p_join : list (list Z) -> Z -> bool -> list Z;
  p_split : list Z -> Z -> list (list Z);
  p_splitl : list Z -> list Z -> list (list Z);        (* text, separators *)
  p_streq : list (list Z) -> list Z -> list bool;
  p_streq2 : list (list Z) -> list (list Z) -> list bool;
  p_rslice : list (list Z) -> list Z -> option (list Z) -> option (list (list Z));
  p_sarr : enc -> list (list Z) -> option (list (list Z))   (* None = raises *)
}.

Definition enc_of (v : value) : enc := match v with VR e _ | VF e _ | VC e _ => e end.

Section Step.
Variable P : prims.

Definition prep_str (e : enc) (s : list Z) : option (list Z) := all_some (map (p_prep P e) s).
Definition prep_rows (e : enc) (l : list (list Z)) : option (list (list Z)) := all_some (map (prep_str e) l).

Definition sel_rows {A} (rows : list A) (s : sel) : option (list A) :=
  match sel_pos (len rows) s with Some pos => Some (gather rows pos) | None => None end.
Definition col_slice (a b s : option Z) (r : list Z) : list Z := gather r (slice_indices (len r) a b s).

(* cells = (row, column) pairs; rows given with their index *)
Definition cells_of_row (i : Z) (cols : list Z) : list (Z * Z) := map (fun j => (i, j)) cols.
Definition set_cell (rows : list (list Z)) (c : Z * Z) (v : Z) : list (list Z) :=
  match nth_error rows (Z.to_nat (fst c)) with
  | Some r => set_nth (Z.to_nat (fst c)) (set_nth (Z.to_nat (snd c)) v r) rows
  | None => rows
  end.
Fixpoint assign (rows : list (list Z)) (cells : list (Z * Z)) (vals : list Z) : list (list Z) :=
  match cells, vals with
  | c :: cs, v :: vs => assign (set_cell rows c v) cs vs
  | _, _ => rows
  end.
Definition cell_key (c : Z * Z) : Z := fst c * 1000003 + snd c.
(* write [vals] (or one broadcast value) to [cells]; None when the sizes do not fit or a cell repeats *)
Definition assign_checked (rows : list (list Z)) (cells : list (Z * Z)) (vals : list Z) (bcast : bool)
  : option (list (list Z)) :=
  if negb (nodupb (map cell_key cells)) then None
  else if bcast then
    match vals with
    | [v] => Some (assign rows cells (repeat v (length cells)))
    | _ => None
    end
  else if len vals =? len cells then Some (assign rows cells vals) else None.

Definition row_cells (rows : list (list Z)) (i : Z) : list (Z * Z) :=
  match nth_error rows (Z.to_nat i) with Some r => cells_of_row i (arange (len r)) | None => [] end.
Definition row_cells_slice (rows : list (list Z)) (a b s : option Z) (i : Z) : list (Z * Z) :=
  match nth_error rows (Z.to_nat i) with
  | Some r => cells_of_row i (slice_indices (len r) a b s) | None => [] end.
Definition row_cell_col (rows : list (list Z)) (j : Z) (i : Z) : option (Z * Z) :=
  match nth_error rows (Z.to_nat i) with
  | Some r => match norm_idx (len r) j with Some j' => Some (i, j') | None => None end
  | None => None end.

(* r[j] and rows[i][j] with Python's negative indices; None = IndexError *)
Definition pick_col (j : Z) (r : list Z) : option Z :=
  match norm_idx (len r) j with Some k => nth_error r (Z.to_nat k) | None => None end.
Definition pick_elem (rows : list (list Z)) (i j : Z) : option Z :=
  match norm_idx (len rows) i with Some k => pick_col j (nth (Z.to_nat k) rows []) | None => None end.

(* the rows of a.reshape(-1, k) *)
Definition rows2d (k : Z) (s : list Z) : list (list Z) :=
  map (fun i => gather s (arange_from (i * k) (Z.to_nat k))) (arange (len s / k)).

Definition parts_rows (e : enc) (rows : list (list Z)) (ps : list part) : option (list (list Z)) :=
  match all_some (map (fun p => match p with
                                | PtSelf => Some rows
                                | PtSlice a b s => Some (gather rows (slice_indices (len rows) a b s))
                                | PtRows l => prep_rows e l
                                | PtStr _ => None
                                end) ps) with
  | Some ll => Some (concat ll) | None => None end.
Definition parts_flat (e : enc) (s : list Z) (ps : list part) : option (list Z) :=
  match all_some (map (fun p => match p with
                                | PtSelf => Some s
                                | PtSlice a b st => Some (gather s (slice_indices (len s) a b st))
                                | PtStr t => prep_str e t
                                | PtRows _ => None
                                end) ps) with
  | Some ll => Some (concat ll) | None => None end.
Definition parts_stack (s : list Z) (ps : list part) : option (list (list Z)) :=
  all_some (map (fun p => match p with
                          | PtSelf => Some s
                          | PtSlice a b st => Some (gather s (slice_indices (len s) a b st))
                          | _ => None
                          end) ps).

Definition cmp (neg : bool) (x y : Z) : bool := xorb neg (x =? y).
Definition text (e : enc) (s : list Z) : list Z := map (p_dec P e) s.
Fixpoint join_lines (l : list (list Z)) : list Z :=
  match l with [] => [] | [x] => x | x :: r => x ++ [10] ++ join_lines r end.

Definition keep v : value * obs := (v, OV v).
Definition bad v : value * obs := (v, OInvalid).

Definition step_ragged (e : enc) (rows : list (list Z)) (o : op) : value * obs :=
  let v := VR e rows in
  let n := len rows in
  match o with
  | RowInt i => match norm_idx n i with
                | Some k => keep (VF e (nth (Z.to_nat k) rows []))
                | None => bad v end
  | RowSel s => match sel_rows rows s with Some r => keep (VR e r) | None => bad v end
  | ColSlice a b s => keep (VR e (map (col_slice a b s) rows))
  | RC rs a b s =>
      match sel_rows rows rs with
      | Some sub => match rs with
                    | SInt _ => keep (VF e (concat (map (col_slice a b s) sub)))
                    | _ => keep (VR e (map (col_slice a b s) sub))
                    end
      | None => bad v end
  | RowsCol rs j =>
      match sel_rows rows rs with
      | Some sub => match all_some (map (pick_col j) sub) with
                    | Some cs => keep (VF e cs) | None => bad v end
      | None => bad v end
  | Elem i j => match pick_elem rows i j with Some c => keep (VC e c) | None => bad v end
  | Elems is_ js =>
      if negb (len is_ =? len js) then bad v else
      match all_some (map2 (pick_elem rows) is_ js) with
      | Some cs => keep (VF e cs) | None => bad v end
  | Eq (PChar c) neg =>
      match p_prep P e c with
      | Some c' => (v, OMR (map (map (fun x => cmp neg x c')) rows))
      | None => (v, OErr) end
  | Eq (PRows l) neg =>
      if negb (same_shape l rows) then bad v else
      match prep_rows e l with
      | Some l' => (v, OMR (map2 (map2 (cmp neg)) rows l'))
      | None => (v, OErr) end
  | Eq PSelf neg => (v, OMR (map2 (map2 (cmp neg)) rows rows))
  | Eq (PStr _) _ => bad v
  | MaskEq c neg =>
      match p_prep P e c with
      | Some c' => keep (VF e (filter (fun x => cmp neg x c') (concat rows)))
      | None => (v, OErr) end
  | SetRow i o' =>
      match norm_idx n i with
      | Some k =>
          let cells := row_cells rows k in
          match o' with
          | PChar c => match p_prep P e c with
                       | Some c' => match assign_checked rows cells [c'] true with
                                    | Some r => keep (VR e r) | None => bad v end
                       | None => (v, OErr) end
          | PStr s => match prep_str e s with
                      | Some s' => match assign_checked rows cells s' false with
                                   | Some r => keep (VR e r) | None => bad v end
                      | None => (v, OErr) end
          | _ => bad v
          end
      | None => bad v end
  | SetElem i j c =>
      match norm_idx n i with
      | Some k => match row_cell_col rows j k with
                  | Some cell => match p_prep P e c with
                                 | Some c' => keep (VR e (assign rows [cell] [c']))
                                 | None => (v, OErr) end
                  | None => bad v end
      | None => bad v end
  | SetRows rs l =>
      match sel_pos n rs with
      | Some pos =>
          if negb (same_shape l (gather rows pos)) then bad v else
          match prep_rows e l with
          | Some l' => match assign_checked rows (flat_map (row_cells rows) pos) (concat l') false with
                       | Some r => keep (VR e r) | None => bad v end
          | None => (v, OErr) end
      | None => bad v end
  | SetRC rs a b s o' =>
      match sel_pos n rs with
      | Some pos =>
          let cellrows := map (row_cells_slice rows a b s) pos in
          let cells := concat cellrows in
          match o', rs with
          | PChar c, SInt _ => match p_prep P e c with
                               | Some c' => match assign_checked rows cells [c'] true with
                                            | Some r => keep (VR e r) | None => bad v end
                               | None => (v, OErr) end
          | PStr t, SInt _ => match prep_str e t with
                              | Some t' => match assign_checked rows cells t' false with
                                           | Some r => keep (VR e r) | None => bad v end
                              | None => (v, OErr) end
          | PRows l, SInt _ => bad v
          | PRows l, _ => if negb (same_shape l cellrows) then bad v else
                          match prep_rows e l with
                          | Some l' => match assign_checked rows cells (concat l') false with
                                       | Some r => keep (VR e r) | None => bad v end
                          | None => (v, OErr) end
          | _, _ => bad v
          end
      | None => bad v end
  | SetRCol rs j c =>
      match sel_pos n rs with
      | Some pos => match all_some (map (row_cell_col rows j) pos) with
                    | Some cells => match p_prep P e c with
                                    | Some c' => match assign_checked rows cells [c'] true with
                                                 | Some r => keep (VR e r) | None => bad v end
                                    | None => (v, OErr) end
                    | None => bad v end
      | None => bad v end
  | SetMaskEq c c2 =>
      match p_prep P e c with
      | Some c' => match p_prep P e c2 with
                   | Some c2' => keep (VR e (map (map (fun x => if x =? c' then c2' else x)) rows))
                   | None => (v, OErr) end
      | None => bad v end
  | Concat ps => match parts_rows e rows ps with Some r => keep (VR e r) | None => bad v end
  | Copy => keep v
  | Ravel => keep (VF e (concat rows))
  | Str => (v, OS1 (join_lines (map (text e) (firstn 20 rows))))
  | SArr => match p_sarr P e rows with Some l => (v, OS l) | None => (v, ORaise) end
  | RSlice starts ends => match p_rslice P rows starts ends with Some r => keep (VR e r) | None => bad v end
  | Join sep k => match p_prep P e sep with
                  | Some sep' => keep (VF e (p_join P rows sep' k)) | None => bad v end
  | StrEq s => match prep_str e s with
               | Some s' => (v, OMF (p_streq P rows s')) | None => (v, OErr) end
  | StrEq2 l => if negb (len l =? n) then bad v else
                match prep_rows e l with
                | Some l' => (v, OMF (p_streq2 P rows l')) | None => bad v end
  | _ => bad v
  end.

Definition step_flat (e : enc) (s : list Z) (o : op) : value * obs :=
  let v := VF e s in
  let n := len s in
  match o with
  | Idx sl => match sel_pos n sl with
              | Some pos => match sl with
                            | SInt _ => match gather s pos with [c] => keep (VC e c) | _ => bad v end
                            | _ => keep (VF e (gather s pos))
                            end
              | None => bad v end
  | Eq (PChar c) neg => match p_prep P e c with
                        | Some c' => (v, OMF (map (fun x => cmp neg x c') s)) | None => (v, OErr) end
  | Eq (PStr t) neg => if negb (len t =? n) then bad v else
                       match prep_str e t with
                       | Some t' => (v, OMF (map2 (cmp neg) s t')) | None => (v, OErr) end
  | Eq PSelf neg => (v, OMF (map2 (cmp neg) s s))
  | Eq (PRows _) _ => bad v
  | MaskEq c neg => match p_prep P e c with
                    | Some c' => keep (VF e (filter (fun x => cmp neg x c') s)) | None => (v, OErr) end
  | SetIdx sl o' =>
      match sel_pos n sl with
      | Some pos =>
          if negb (nodupb pos) then bad v else
          match o' with
          | PChar c => match p_prep P e c with
                       | Some c' => keep (VF e (scatter s pos (repeat c' (length pos)))) | None => (v, OErr) end
          | PStr t => if negb (len t =? len pos) then bad v else
                      match prep_str e t with
                      | Some t' => keep (VF e (scatter s pos t')) | None => (v, OErr) end
          | _ => bad v
          end
      | None => bad v end
  | SetMaskEq c c2 =>
      match p_prep P e c with
      | Some c' => match p_prep P e c2 with
                   | Some c2' => keep (VF e (map (fun x => if x =? c' then c2' else x) s))
                   | None => (v, OErr) end
      | None => bad v end
  | Concat ps => match parts_flat e s ps with Some r => keep (VF e r) | None => bad v end
  | Append t => match prep_str e t with Some t' => keep (VF e (s ++ t')) | None => bad v end
  | Insert i t => if (0 <=? i) && (i <=? n) then
                    match prep_str e t with
                    | Some t' => keep (VF e (firstn (Z.to_nat i) s ++ t' ++ skipn (Z.to_nat i) s))
                    | None => bad v end
                  else bad v
  | Where m t => if (len m =? n) && (len t =? n) then
                   match prep_str e t with
                   | Some t' => keep (VF e (map2 (fun (b : bool) (xy : Z * Z) => if b then fst xy else snd xy) m (combine s t')))
                   | None => bad v end
                 else bad v
  | Copy => keep v
  | Ravel => keep v
  | Str => (v, OS1 (text e s))
  | Iter => (v, OS (map (fun c => [p_dec P e c]) s))
  | Split sep => match p_prep P e sep with
                 | Some sep' => keep (VR e (p_split P s sep')) | None => bad v end
  | SplitL seps => match seps with
                   | [] => bad v
                   | _ => match prep_str e seps with
                          | Some seps' => keep (VR e (p_splitl P s seps')) | None => (v, OErr) end
                   end
  | Rows2D k sl =>
      if (0 <? k) && (n mod k =? 0) then
        match sel_pos (n / k) sl with
        | Some pos => keep (VF e (concat (gather (rows2d k s) pos)))
        | None => bad v end
      else bad v
  | SetRows2D k sl c =>
      if (0 <? k) && (n mod k =? 0) then
        match sel_pos (n / k) sl with
        | Some pos =>
            if negb (nodupb pos) then bad v else
            match p_prep P e c with
            | Some c' => let cells := concat (map (fun i => arange_from (i * k) (Z.to_nat k)) pos) in
                         keep (VF e (scatter s cells (repeat c' (length cells))))
            | None => (v, OErr) end
        | None => bad v end
      else bad v
  | Stack ps => match parts_stack s ps with
                | Some (r :: rs) => keep (VR e (r :: rs)) | _ => bad v end
  | RSlice starts ends =>          (* a[starts:ends] with array bounds (NPSArray._ragged_slice) *)
      match p_rslice P [s] starts ends with Some r => keep (VR e r) | None => bad v end
  | _ => bad v
  end.

Definition step_char (e : enc) (c : Z) (o : op) : value * obs :=
  let v := VC e c in
  match o with
  | Eq (PChar d) neg => match p_prep P e d with
                        | Some d' => (v, OMF [cmp neg c d']) | None => (v, OErr) end
  | Str => (v, OS1 [p_dec P e c])
  | _ => bad v
  end.

Definition g_step (v : value) (o : op) : value * obs :=
  match v with
  | VR e rows => step_ragged e rows o
  | VF e s => step_flat e s o
  | VC e c => step_char e c o
  end.

(* a whole program: the observation of every step; [saved] = the object copy() was called on *)
Fixpoint g_run (v : value) (saved : option value) (ops : list op) : list (obs * option value) :=
  match ops with
  | [] => []
  | o :: r =>
      let '(v', ob) := g_step v o in
      match o with
      | Copy => (ob, None) :: g_run v' (Some v) r
      | _ => (ob, saved) :: g_run v' saved r
      end
  end.

(* initial value: as_encoded_array(list of str | str, encoding) *)
Definition init_rows (e : enc) (l : list (list Z)) : option value :=
  match prep_rows e l with Some r => Some (VR e r) | None => None end.
Definition init_flat (e : enc) (s : list Z) : option value :=
  match prep_str e s with Some r => Some (VF e r) | None => None end.
End Step.

(* ================= 3a. Spec instance: characters ================= *)
Definition s_join (rows : list (list Z)) (sep : Z) (keep_last : bool) : list Z :=
  let s := concat (map (fun r => r ++ [sep]) rows) in if keep_last then s else removelast s.
Definition s_split (s : list Z) (sep : Z) : list (list Z) := split_on sep s.
(* split where any character satisfying p separates: "a=1;b" with p = (in "=;") -> ["a";"1";"b"] *)
Fixpoint split_by (p : Z -> bool) (l : list Z) : list (list Z) :=
  match l with
  | [] => [[]]
  | x :: r => let rest := split_by p r in
              if p x then [] :: rest
              else match rest with h :: t => (x :: h) :: t | [] => [[x]] end
  end.
Definition s_split_l (s : list Z) (seps : list Z) : list (list Z) := split_by (fun x => memb x seps) s.
Definition s_streq (rows : list (list Z)) (s : list Z) : list bool := map (fun r => zlist_eqb r s) rows.
Definition s_streq2 (rows l : list (list Z)) : list bool := map2 zlist_eqb rows l.
(* bnp.ragged_slice: segments [start, end) of the flattened text; a negative end counts from the end of
   the text, an end beyond the text is clipped (tests/test_ragged_slice.py pins offsets into the flat text) *)
Definition s_rslice (rows : list (list Z)) (starts : list Z) (ends : option (list Z)) : option (list (list Z)) :=
  let flat := concat rows in
  let T := len flat in
  let es := match ends with Some es => es | None => map (fun _ => T) starts end in
  if negb (len es =? len starts) then None
  else if negb (forallb (fun s => (0 <=? s) && (s <=? T)) starts) then None
  else Some (map2 (fun s e => let e' := if e <? 0 then T + e else Z.min e T in slice s e' flat) starts es).

Definition spec_prims : prims := {|
  p_prep := s_prep; p_dec := fun _ c => c;
  p_join := s_join; p_split := s_split; p_splitl := s_split_l; p_streq := s_streq; p_streq2 := s_streq2;
  p_rslice := s_rslice; p_sarr := fun _ rows => Some rows |}.
Definition s_step := g_step spec_prims.
Definition s_run := g_run spec_prims.

(* ================= 4. Model instance: raw codes, flat data + offsets ================= *)
(* RaggedShape: starts = exclusive cumulative sum of the row lengths *)
Definition starts_of (lens : list Z) : list Z := removelast (0 :: cumsum lens).

(* strops.join (io/strops.py:276-305):
     new_lengths = lengths+1; new_array = ragged(np.empty(sum), new_lengths)
     new_array[:, :-1] = sequences; new_array[:, -1] = sep; ravel(); drop the last byte unless keep_last
   [fill] is whatever np.empty returned. *)
(* the arithmetic of join, named so that the bridge (Bridge/C07.v) can equate it with the formulas regenerated
   from /repo (Gen/C07.v): row length with its separator, how many columns `[:, :-1]` covers, the flat position
   `[:, -1]` addresses in a row starting at s, how many trailing bytes are dropped *)
Definition m_join_new_len (l : Z) : Z := l + 1.
Definition m_join_body_len (l : Z) : Z := l.
Definition m_join_sep_pos (s l : Z) : Z := s + l.
Definition m_join_drop (keep_last : bool) : Z := if keep_last then 0 else 1.
Definition m_join_fill (fill : list Z) (rows : list (list Z)) (sep : Z) (keep_last : bool) : list Z :=
  let lens := map len rows in
  let nl := map m_join_new_len lens in
  let total := sumZ nl in
  let st := starts_of nl in
  let data0 := firstn (Z.to_nat total) (fill ++ repeat 0 (Z.to_nat total)) in
  let idxA := concat (map2 (fun s l => arange_from s (Z.to_nat (m_join_body_len l))) st lens) in   (* flat indices of [:, :-1] *)
  let data1 := scatter data0 idxA (concat rows) in
  let idxB := map2 m_join_sep_pos st lens in                                                    (* flat indices of [:, -1] *)
  let data2 := scatter data1 idxB (repeat sep (length idxB)) in
  if m_join_drop keep_last =? 0 then data2 else removelast data2.
Definition m_join := m_join_fill [].

(* rows of a contiguous ragged array from flat data and row lengths *)
Fixpoint rows_by_lens (data : list Z) (lens : list Z) : list (list Z) :=
  match lens with
  | [] => []
  | l :: r => firstn (Z.to_nat l) data :: rows_by_lens (skipn (Z.to_nat l) data) r
  end.
Fixpoint set_last {A} (v : A) (l : list A) : list A :=
  match l with [] => [] | [_] => [v] | x :: r => x :: set_last v r end.
(* strops.split (308-337): us = data + one zero; mask = (us == sep); mask[-1] = True;
   sep_idx = flatnonzero(mask); lens = diff([0]+sep_idx); lens[0] = sep_idx[0]+1;
   ragged(us, lens)[:, :-1] *)
Definition m_split_first_len (i0 : Z) : Z := i0 + 1.      (* lens[0] = sep_idx[0]+1 *)
Definition m_split_forced_index : Z := -1.                  (* mask[-1] = True  (set_last) *)
Definition m_split_row_len (l : Z) : Z := l - 1.            (* ragged_array[:, :-1]  (removelast per row) *)
Definition m_split (s : list Z) (sep : Z) : list (list Z) :=
  let us := s ++ [0] in
  let mask := set_last true (map (fun x => x =? sep) us) in
  let sep_idx := flatnonzero mask in
  let lens := match diff (0 :: sep_idx) with
              | _ :: r => m_split_first_len (nthZ sep_idx 0) :: r
              | [] => [] end in
  map (@removelast Z) (rows_by_lens us lens).

(* the same routine when sep is a list: mask = (us == sep[0]) | (us == sep[1]) | ... *)
Definition m_split_p (p : Z -> bool) (s : list Z) : list (list Z) :=
  let us := s ++ [0] in
  let mask := set_last true (map p us) in
  let sep_idx := flatnonzero mask in
  let lens := match diff (0 :: sep_idx) with
              | _ :: r => m_split_first_len (nthZ sep_idx 0) :: r
              | [] => [] end in
  map (@removelast Z) (rows_by_lens us lens).
Definition m_split_l (s : list Z) (seps : list Z) : list (list Z) := m_split_p (fun x => existsb (fun sp => x =? sp) seps) s.

(* strops.str_equal (340-372): mask = lengths == L; starts = shape.starts[mask];
   matrix = flat[starts[:,None] + arange(L)]; mask[mask] &= all(matrix == match, axis=-1) *)
Fixpoint refine_mask (mask : list bool) (sub : list bool) : list bool :=
  match mask with
  | [] => []
  | false :: r => false :: refine_mask r sub
  | true :: r => match sub with
                 | b :: sub' => b :: refine_mask r sub'
                 | [] => true :: refine_mask r []
                 end
  end.
Definition m_streq_mask (l L : Z) : bool := l =? L.           (* sequences.lengths == L, per row *)
Definition m_streq_index (st k : Z) : Z := st + k.           (* starts[:, np.newaxis] + np.arange(L), per (row, column) *)
Definition m_streq (rows : list (list Z)) (s : list Z) : list bool :=
  let lens := map len rows in
  let flat := concat rows in
  let L := len s in
  let mask := map (fun l => m_streq_mask l L) lens in
  let starts := mask_select mask (starts_of lens) in
  let matrix := map (fun st => map (fun k => nthZ flat (m_streq_index st k)) (arange L)) starts in
  refine_mask mask (map (fun row => all_true (map2 Z.eqb row s)) matrix).
(* _str_equal_two_encoded_ragged_arrays (375-380) *)
Definition m_streq2 (rows l : list (list Z)) : list bool :=
  let mask := map2 (fun a b => m_streq_mask (len a) (len b)) rows l in
  refine_mask mask (map2 (fun a b => all_true (map2 Z.eqb a b)) (mask_select mask rows) (mask_select mask l)).

(* util/ragged_slice.py -> npstructures.ragged_slice on the *flattened* array (base_starts = 0,
   base_ends = size): starts' = starts; ends' = where(ends<0, size+ends, min(ends, size));
   lengths = max(ends'-starts', 0); flat[indices of the view (starts', lengths)] *)
Definition m_rslice (rows : list (list Z)) (starts : list Z) (ends : option (list Z)) : option (list (list Z)) :=
  let flat := concat rows in
  let T := len flat in
  let es := match ends with
            | Some es => map (fun e => if e <? 0 then T + e else Z.min e T) es
            | None => map (fun _ => T) starts end in
  if negb (len es =? len starts) then None
  else if negb (forallb (fun s => (0 <=? s) && (s <=? T)) starts) then None
  else
    let lens := map2 (fun s e => Z.max (e - s) 0) starts es in
    let idx := concat (map2 (fun s l => arange_from s (Z.to_nat l)) starts lens) in
    Some (rows_by_lens (gather flat idx) lens).

(* string_array(ragged): decode, pad to a matrix with NUL, view as fixed-width bytes: trailing NULs vanish *)
Fixpoint strip0 (l : list Z) : list Z :=
  match l with
  | [] => []
  | x :: r => match strip0 r with [] => if x =? 0 then [] else [x] | r' => x :: r' end
  end.

(* Variants of the code.  [pinned] is /repo HEAD; each flag is one proposed repair (notes/C07.md):
   v_scalar_set_raises : storing one character at ONE integer position (a[i] = 'c', r[i, j] = 'c') raises
       ValueError under NumPy >= 2.4, where a 1-element array is no longer converted to a scalar (fix-1);
   v_sarr_empty_raises : string_array(ragged) raises ValueError when there are rows and all are empty (fix-3).
   (The third defect, as_encoded_array(str) being a read-only buffer under the base encoding (fix-2), needs no
   flag: the model takes the writeable flag of the current array as an observed input.) *)
Record variant := { v_scalar_set_raises : bool; v_sarr_empty_raises : bool }.
Definition pinned : variant := {| v_scalar_set_raises := true; v_sarr_empty_raises := true |}.
Definition repaired : variant := {| v_scalar_set_raises := false; v_sarr_empty_raises := false |}.

Definition m_sarr (vr : variant) (e : enc) (rows : list (list Z)) : option (list (list Z)) :=
  if v_sarr_empty_raises vr && negb (len rows =? 0) && forallb (fun r => len r =? 0) rows then None
  else Some (map (fun r => strip0 (map (decode1 e) r)) rows).

Definition model_prims_with (prep : enc -> Z -> option Z) (vr : variant) : prims := {|
  p_prep := prep; p_dec := decode1;
  p_join := m_join; p_split := m_split; p_splitl := m_split_l; p_streq := m_streq; p_streq2 := m_streq2;
  p_rslice := m_rslice; p_sarr := m_sarr vr |}.
Definition model_prims := model_prims_with m_prep repaired.                    (* /repo HEAD *)
Definition model_prims_pinned_lookup := model_prims_with m_prep_pinned repaired.   (* with the table before the C06 repair *)

Definition is_assignment (o : op) : bool :=
  match o with
  | SetRow _ _ | SetElem _ _ _ | SetRows _ _ | SetRC _ _ _ _ _ | SetRCol _ _ _ | SetMaskEq _ _ | SetIdx _ _ => true
  | _ => false
  end.
Definition scalar_position (v : value) (o : op) : bool :=
  match v, o with
  | VR _ _, SetElem _ _ _ => true
  | VF _ _, SetIdx (SInt _) _ => true
  | _, _ => false
  end.
(* one step of the code: [writable] = numpy's writeable flag of the current buffer (observed) *)
Definition m_step_v (vr : variant) (writable : bool) (v : value) (o : op) : value * obs :=
  let r := g_step (model_prims_with m_prep vr) v o in
  match snd r with
  | OV _ => if is_assignment o && (negb writable || (v_scalar_set_raises vr && scalar_position v o))
            then (v, ORaise) else r
  | _ => r
  end.
Definition m_step := g_step model_prims.        (* = m_step_v repaired true *)
Fixpoint m_run_v (vr : variant) (v : value) (saved : option value) (ops : list (op * bool)) : list (obs * option value) :=
  match ops with
  | [] => []
  | (o, w) :: r =>
      let '(v', ob) := m_step_v vr w v o in
      match o with
      | Copy => (ob, None) :: m_run_v vr v' (Some v) r
      | _ => (ob, saved) :: m_run_v vr v' saved r
      end
  end.

(* decoding a Model value / observation to characters *)
Definition dec_value (v : value) : value :=
  match v with
  | VR e rows => VR e (map (map (decode1 e)) rows)
  | VF e s => VF e (map (decode1 e) s)
  | VC e c => VC e (decode1 e c)
  end.
Definition dec_obs (o : obs) : obs := match o with OV v => OV (dec_value v) | _ => o end.

(* ================= 5. npstructures' ragged views (the model of RaggedArray indexing) =================
   A ragged array is a flat buffer plus, per row, a start offset and a length, and one column step for the whole
   view (RaggedShape / RaggedView2).  Row indexing (`RaggedShape.view`, `RaggedView2.view_rows`) indexes the
   (start, length) table; a column slice (`RaggedView2._pos_col_slice`, `.col_slice`, `._calculate_lengths`) only
   rewrites starts, lengths and the step; nothing is copied until ravel().  The views are therefore non-contiguous,
   overlapping, reordered and strided in general — the "history" a value carries.  Proofs/C07_view.v shows that the
   rows such a view denotes are the list-of-rows meaning used by g_step. *)
Record rview := { rv_data : list Z; rv_starts : list Z; rv_lens : list Z; rv_step : Z }.
Definition rv_row (data : list Z) (step s l : Z) : list Z := map (fun k => nthZ data (s + k * step)) (arange l).
Definition rv_rows (v : rview) : list (list Z) := map2 (rv_row (rv_data v) (rv_step v)) (rv_starts v) (rv_lens v).
(* a freshly built (contiguous) ragged array *)
Definition rv_of_rows (rows : list (list Z)) : rview :=
  {| rv_data := concat rows; rv_starts := starts_of (map len rows); rv_lens := map len rows; rv_step := 1 |}.
Definition rv_wf (v : rview) : Prop := length (rv_starts v) = length (rv_lens v) /\ Forall (fun l => 0 <= l) (rv_lens v).

(* rows: integer array / slice / mask index into the (start, length) table *)
Definition v_rowsel (v : rview) (s : sel) : option rview :=
  match sel_pos (len (rv_starts v)) s with
  | Some pos => Some {| rv_data := rv_data v; rv_starts := gather (rv_starts v) pos;
                        rv_lens := gather (rv_lens v) pos; rv_step := rv_step v |}
  | None => None
  end.
(* RaggedView2._pos_col_slice: step st > 0 *)
Definition pcs_start (a : option Z) (L : Z) : Z :=
  match a with None => 0 | Some x => if 0 <=? x then Z.min x L else Z.max (L + x) 0 end.
Definition pcs_stop (b : option Z) (L : Z) : Z :=
  match b with None => L | Some x => if x <? 0 then Z.max (L + x) 0 else Z.min L x end.
Definition v_colslice_pos (v : rview) (a b : option Z) (st : Z) : rview :=
  {| rv_data := rv_data v;
     rv_starts := map2 (fun s L => s + rv_step v * pcs_start a L) (rv_starts v) (rv_lens v);
     rv_lens := map (fun L => Z.max 0 ((pcs_stop b L - pcs_start a L + (st - 1)) / st)) (rv_lens v);
     rv_step := rv_step v * st |}.
(* RaggedView2.col_slice with step st < 0, lengths from _calculate_lengths (transcribed as it is) *)
Definition ncs_len (a b : option Z) (st L : Z) : Z :=
  let start := match a with None => L - 1 | Some x => if x <? 0 then L + x else x end in
  let stop := match b with None => -1 | Some x => if x <? 0 then L + x else x end in
  let mask := negb (Z.sgn (stop - start) =? Z.sgn st) || ((start <? 0) && (st <? 0)) || ((L <=? start) && (0 <? st))
              || ((stop <=? 0) && (0 <? st)) || ((L <=? stop) && (st <? 0)) in
  let start' := Z.max (Z.min start (L - 1)) 0 in
  let stop' := Z.max (Z.min stop (L - 1)) (-1) in
  if mask then 0 else (Z.abs (stop' - start') - 1) / Z.abs st + 1.
Definition ncs_start (a : option Z) (L : Z) : Z :=
  let x := match a with None => L - 1 | Some x => if x <? 0 then L + x else x end in
  Z.max (Z.min (L - 1) x) 0.
Definition v_colslice_neg (v : rview) (a b : option Z) (st : Z) : rview :=
  {| rv_data := rv_data v;
     rv_starts := map2 (fun s L => s + rv_step v * ncs_start a L) (rv_starts v) (rv_lens v);
     rv_lens := map (ncs_len a b st) (rv_lens v);
     rv_step := st * rv_step v |}.
Definition v_colslice (v : rview) (a b s : option Z) : option rview :=
  let st := match s with Some k => k | None => 1 end in
  if st =? 0 then None else if 0 <? st then Some (v_colslice_pos v a b st) else Some (v_colslice_neg v a b st).
(* ravel(): RaggedView2.get_flat_indices -> build_indices: np.full(size+1, step); at the first element of every
   non-empty row but the first the entry is the jump from the last element of the previous non-empty row; entry 0 is
   the first start; cumsum; the last entry is dropped *)
Fixpoint vb_builder (step : Z) (prev_last : option Z) (starts lens : list Z) : list Z :=
  match starts, lens with
  | s :: starts', l :: lens' =>
      if l <=? 0 then vb_builder step prev_last starts' lens'
      else (match prev_last with None => s | Some p => s - p end)
           :: repeat step (Z.to_nat (l - 1)) ++ vb_builder step (Some (s + (l - 1) * step)) starts' lens'
  | _, _ => []
  end.
Definition v_flat_indices (v : rview) : list Z := cumsum (vb_builder (rv_step v) None (rv_starts v) (rv_lens v)).
Definition v_ravel (v : rview) : list Z := map (nthZ (rv_data v)) (v_flat_indices v).
(* a view operation of a program step; None = the step is not a pure view operation *)
Definition v_step (v : rview) (o : op) : option rview :=
  match o with
  | RowSel s => v_rowsel v s
  | ColSlice a b s => v_colslice v a b s
  | RC (SInt _) _ _ _ => None
  | RC rs a b s => match v_rowsel v rs with Some v' => v_colslice v' a b s | None => None end
  | _ => None
  end.

(* ---- source shapes the bridge compares literally (Gen/C07.v carries the text found in /repo) ---- *)
Import String.
(* split: the row lengths are differences of consecutive separator positions after a leading 0  (diff (0 :: sep_idx)) *)
Definition m_split_lens_src : string := "np.diff(unsafe_extend_left(sep_idx))"%string.
(* str_equal / _str_equal_two: the rows that passed the length test are kept iff ALL their columns match  (refine_mask) *)
Definition m_streq_refine_src : string := "mask[mask] &= np.all(matrix == match_string, axis=-1)"%string.
Definition m_streq2_refine_src : string := "mask[mask] &= (sequences[mask] == sequences_b[mask]).all(axis=-1)"%string.
(* bnp.ragged_slice hands the FLATTENED array and the bounds, unchanged, to npstructures  (m_rslice: offsets into concat rows) *)
Definition m_rslice_call_src : string := "nps.ragged_slice(array.ravel(), starts, ends)"%string.
(* string_array pads on the right (strip0 removes trailing NULs) and answers empty strings itself when there is no text *)
Definition m_sarr_pad_side : string := "right"%string.
Definition m_sarr_empty_guard_src : string := "input_data.size == 0"%string.

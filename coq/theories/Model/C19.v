(* Model/C19.v — tables of entries (bnpdataclass) as column-aligned records.
   (a) Spec : a table is a list of rows (list of tuples); the operations of the property on lists of rows.
   (b) Model: the code's representation — a list of typed columns (ndarray with dtype, ragged array as flat
       data + row lengths, StringArray as NUL-padded fixed-width byte matrix, flat encoded array, nested table)
       and the column-wise algorithms of npdataclass / bnpdataclass / string_array.
   No proofs in this file. *)
From Coq Require Import String.
From Coq Require Import ZArith List Bool.
From BNP Require Import Base.Prims.
Import ListNotations.
Open Scope Z_scope.

(* ====================================================================== Spec *)
(* numbers are held in quarter units (value * 4) so that the float test values k/4 are integers *)
Inductive bcell := BZ (z : Z) | BS (s : list Z) | BL (l : list Z).
Inductive cell := CB (b : bcell) | CN (r : list bcell).
Definition row := list cell.
Definition table := list row.

Definition bcell_eqb (a b : bcell) : bool :=
  match a, b with
  | BZ x, BZ y => x =? y
  | BS x, BS y => zlist_eqb x y
  | BL x, BL y => zlist_eqb x y
  | _, _ => false
  end.
Definition cell_eqb (a b : cell) : bool :=
  match a, b with
  | CB x, CB y => bcell_eqb x y
  | CN x, CN y => list_eqb bcell_eqb x y
  | _, _ => false
  end.
Definition row_eqb : row -> row -> bool := list_eqb cell_eqb.
Definition table_eqb : table -> table -> bool := list_eqb row_eqb.

(* Python index normalisation: 0 <= i < n, or -n <= i < 0 counted from the end; otherwise IndexError *)
Definition norm_index (n i : Z) : option nat :=
  if (0 <=? i) && (i <? n) then Some (Z.to_nat i)
  else if (- n <=? i) && (i <? 0) then Some (Z.to_nat (i + n)) else None.

Definition s_index {A} (rs : list A) (i : Z) : option A :=
  match norm_index (len rs) i with Some k => nth_error rs k | None => None end.
Fixpoint s_take {A} (rs : list A) (ix : list Z) : option (list A) :=
  match ix with
  | [] => Some []
  | i :: r => match s_index rs i, s_take rs r with
              | Some x, Some out => Some (x :: out)
              | _, _ => None
              end
  end.
(* NumPy accepts a zero-length boolean index on an axis of any length (and selects nothing) *)
Definition s_mask {A} (rs : list A) (m : list bool) : option (list A) :=
  if Nat.eqb (length m) (length rs) || Nat.eqb (length m) 0 then Some (mask_select m rs) else None.

(* Python slice.indices + range, closed form (no fuel) *)
Definition clampZ (lo hi x : Z) : Z := Z.max lo (Z.min hi x).
Definition slice_bound (n lo hi dflt : Z) (a : option Z) : Z :=
  match a with None => dflt | Some a => clampZ lo hi (if a <? 0 then a + n else a) end.
Definition slice_indices (n : Z) (a b : option Z) (st : Z) : list Z :=
  if 0 <? st then
    let s := slice_bound n 0 n 0 a in let e := slice_bound n 0 n n b in
    map (fun k => s + k * st) (arange ((e - s + st - 1) / st))
  else if st <? 0 then
    let s := slice_bound n (-1) (n - 1) (n - 1) a in let e := slice_bound n (-1) (n - 1) (-1) b in
    map (fun k => s + k * st) (arange ((s - e + (- st) - 1) / (- st)))
  else [].
Definition s_slice {A} (rs : list A) (a b : option Z) (st : Z) : option (list A) :=
  if st =? 0 then None else s_take rs (slice_indices (len rs) a b st).

Fixpoint set_nth {A} (k : nat) (x : A) (l : list A) : option (list A) :=
  match k, l with
  | O, _ :: r => Some (x :: r)
  | S k', y :: r => match set_nth k' x r with Some r' => Some (y :: r') | None => None end
  | _, [] => None
  end.
Fixpoint map2o {A B C} (f : A -> B -> option C) (a : list A) (b : list B) : option (list C) :=
  match a, b with
  | [], [] => Some []
  | x :: a', y :: b' => match f x y, map2o f a' b' with Some z, Some r => Some (z :: r) | _, _ => None end
  | _, _ => None
  end.
(* replace field f by a new column (one cell per row); a column of another length is an error *)
Definition s_replace {A} (f : nat) (newc : list A) (rs : list (list A)) : option (list (list A)) :=
  map2o (fun x r => set_nth f x r) newc rs.
Definition s_add {A} (newc : list A) (rs : list (list A)) : option (list (list A)) :=
  map2o (fun x r => Some (r ++ [x])) newc rs.

(* ordering of key cells: numbers by value, strings lexicographically by byte *)
Fixpoint lex_leb (a b : list Z) : bool :=
  match a, b with
  | [], _ => true
  | _ :: _, [] => false
  | x :: a', y :: b' => if x <? y then true else if y <? x then false else lex_leb a' b'
  end.
Definition bcell_leb (a b : bcell) : bool :=
  match a, b with
  | BZ x, BZ y => x <=? y
  | BS x, BS y => lex_leb x y
  | _, _ => true
  end.
Definition cell_leb (a b : cell) : bool :=
  match a, b with CB x, CB y => bcell_leb x y | _, _ => true end.
Definition key_of (f : nat) (r : row) : cell := nth f r (CN []).
Fixpoint insert_by {A} (leb : A -> A -> bool) (x : A) (l : list A) : list A :=
  match l with
  | [] => [x]
  | y :: r => if leb x y then x :: l else y :: insert_by leb x r
  end.
(* stable: an element is inserted before the first strictly greater element, processing from the right *)
Definition isort_by {A} (leb : A -> A -> bool) (l : list A) : list A :=
  fold_right (fun x acc => insert_by (fun a b => leb a b) x acc) [] l.
Definition row_leb (f : nat) (a b : row) : bool := cell_leb (key_of f a) (key_of f b).
Definition s_sort_by (f : nat) (rs : table) : table := isort_by (row_leb f) rs.
Fixpoint sorted_b {A} (leb : A -> A -> bool) (l : list A) : bool :=
  match l with
  | a :: ((b :: _) as r) => leb a b && sorted_b leb r
  | _ => true
  end.
Fixpoint remove_first {A} (eqb : A -> A -> bool) (x : A) (l : list A) : option (list A) :=
  match l with
  | [] => None
  | y :: r => if eqb x y then Some r else match remove_first eqb x r with Some r' => Some (y :: r') | None => None end
  end.
Fixpoint perm_b {A} (eqb : A -> A -> bool) (a b : list A) : bool :=
  match a with
  | [] => match b with [] => true | _ => false end
  | x :: a' => match remove_first eqb x b with Some b' => perm_b eqb a' b' | None => false end
  end.

Definition is_nil {A} (l : list A) : bool := match l with [] => true | _ => false end.

(* ====================================================================== Model *)
Inductive dt := DI | DF | DB.                         (* int64 / float64 / bool *)
Inductive rtag := RStr | RDna | RNum (d : dt).         (* what a ragged array holds *)
Inductive bcol :=
| ColNum (d : dt) (v : list Z)                         (* np.ndarray, values in quarter units *)
| ColRag (t : rtag) (data lens : list Z)               (* RaggedArray / EncodedRaggedArray: flat data + row lengths *)
| ColPad (w : Z) (m : list (list Z))                   (* StringArray: dtype S<w>, NUL-padded rows *)
| ColFlat (codes : list Z).                            (* flat EncodedArray (StrandEncoding), one code per row *)
Inductive col := CBase (c : bcol) | CNest (cs : list bcol).
Definition ctable := list col.

(* python values as tolist() delivers / constructors receive them *)
Inductive mb := MZ (d : dt) (z : Z) | MS (s : list Z) | ML (d : dt) (l : list Z).
Inductive mcell := MB (b : mb) | MN (r : list mb).
Definition erase_b (b : mb) : bcell := match b with MZ _ z => BZ z | MS s => BS s | ML _ l => BL l end.
Definition erase (c : mcell) : cell := match c with MB b => CB (erase_b b) | MN r => CN (map erase_b r) end.
Definition erase_row (r : list mcell) : row := map erase r.
Definition erase_rows (rs : list (list mcell)) : table := map erase_row rs.

Inductive kind := KInt | KOpt | KFloat | KBool | KStr | KId | KList | KDna | KStrand.   (* KOpt = Optional[int] *)

(* ---- which proposed repairs are in force (notes/C19.fix-N.diff).  All false = the code of /repo HEAD.
        Applying a fix to /repo = flipping the corresponding line to true. ---- *)
Definition fix1_from_rows_empty : bool := true.     (* from_entry_tuples([]) builds cls.empty() *)
Definition fix2_from_rows_nested : bool := true.    (* a nested-table field converts a list of entries *)
Definition fix3_add_empty : bool := true.           (* add_fields accepts an empty, explicitly typed column *)
Definition fix4_sort_strings : bool := true.        (* sort_by on StringArray / EncodedRaggedArray columns, stable *)
Definition fix5_empty_dtype : bool := true.         (* an empty int / bool column keeps its declared dtype *)
Definition fix7_list_empty_dtype : bool := true.     (* a List[int] column without any element keeps int64 (notes/C19.fix-7.diff) *)
Definition fix8_int_magnitude : bool := true.        (* python ints below and at/above 2^63 in one int column: uint64 or raise, never float64 (notes/C19.fix-8.diff) *)
Definition fix9_lazy_index : bool := false.          (* table[idx][i] works on a just-indexed table with a ragged column (OPEN finding; third-party npstructures, notes/C19.fix-9.diff not applied) *)
Definition fix6_flat_cells : bool := true.          (* a flat-encoded (strand) field rejects entries that are not one symbol *)
Inductive fk := FB (k : kind) | FN (ks : list (list Z * kind)).
Definition schema := list (list Z * fk).

Definition dt_eqb (a b : dt) : bool :=
  match a, b with DI, DI | DF, DF | DB, DB => true | _, _ => false end.
Definition dt_join (a b : dt) : dt :=
  match a, b with
  | DB, x | x, DB => x
  | DI, DI => DI
  | _, _ => DF
  end.
(* int64 -> float64: exact below 2^53, otherwise round to 53 significant bits, ties to even *)
Definition round_half_even (a k : Z) : Z :=
  let p := 2 ^ k in let q := a / p in let r := a mod p in
  (if 2 * r <? p then q else if p <? 2 * r then q + 1 else if Z.even q then q else q + 1) * p.
Definition to_double (v : Z) : Z :=
  let a := Z.abs v in
  if a <? 2 ^ 53 then v else Z.sgn v * round_half_even a (Z.log2 a - 52).
Definition cast (from to : dt) (z : Z) : Z :=
  match from, to with
  | DI, DF => 4 * to_double (z / 4)
  | _, _ => z
  end.

(* ---- ragged ---- *)
Fixpoint rag_rows (data lens : list Z) : list (list Z) :=
  match lens with
  | [] => []
  | n :: r => firstn (Z.to_nat n) data :: rag_rows (skipn (Z.to_nat n) data) r
  end.
Definition rag_of_rows (t : rtag) (rs : list (list Z)) : bcol := ColRag t (concat rs) (map len rs).

(* ---- StringArray ---- *)
Fixpoint strip_nul (s : list Z) : list Z :=
  match s with
  | [] => []
  | c :: r => let r' := strip_nul r in
              if (c =? 0) && (match r' with [] => true | _ => false end) then [] else c :: r'
  end.
Definition pad (w : Z) (s : list Z) : list Z := firstn (Z.to_nat w) (s ++ repeat 0 (Z.to_nat (w - len s))).
Definition max_len (ss : list (list Z)) : Z := fold_right (fun s acc => Z.max (len s) acc) 0 ss.
(* np.array(list_of_str, dtype='S'): width = longest string, at least 1 *)
Definition pad_all (ss : list (list Z)) : bcol := let w := Z.max 1 (max_len ss) in ColPad w (map (pad w) ss).

(* ---- encodings ---- *)
Definition dna_alphabet : list Z := [65; 67; 71; 84].
Definition strand_alphabet : list Z := [43; 45; 46].
Fixpoint index_of (c : Z) (l : list Z) (i : Z) : option Z :=
  match l with [] => None | x :: r => if x =? c then Some i else index_of c r (i + 1) end.
Definition encode_dna (c : Z) : option Z := index_of (upper c) dna_alphabet 0.
Definition encode_strand (c : Z) : option Z := index_of c strand_alphabet 0.
Fixpoint map_opt {A B} (f : A -> option B) (l : list A) : option (list B) :=
  match l with
  | [] => Some []
  | x :: r => match f x, map_opt f r with Some y, Some r' => Some (y :: r') | _, _ => None end
  end.
Definition decode (alph : list Z) (c : Z) : Z := nth (Z.to_nat c) alph 63.

(* ---- cells of a column (what toiter/tolist yields) ---- *)
Definition wrap_rag (t : rtag) (r : list Z) : mb :=
  match t with RStr => MS r | RDna => MS (map (decode dna_alphabet) r) | RNum d => ML d r end.
Definition bcol_cells (c : bcol) : list mb :=
  match c with
  | ColNum d v => map (MZ d) v
  | ColRag t data lens => map (wrap_rag t) (rag_rows data lens)
  | ColPad w m => map (fun r => MS (strip_nul r)) m
  | ColFlat codes => map (fun c => MS [decode strand_alphabet c]) codes
  end.
Definition bcol_len (c : bcol) : nat :=
  match c with
  | ColNum _ v => length v
  | ColRag _ _ lens => length lens
  | ColPad _ m => length m
  | ColFlat v => length v
  end.

(* zip( *iterables ): transposition truncating to the shortest *)
Fixpoint zip_rows {A} (ls : list (list A)) : list (list A) :=
  match ls with
  | [] => []
  | l :: r => match r with
              | [] => map (fun x => [x]) l
              | _ => map (fun p => fst p :: snd p) (combine l (zip_rows r))
              end
  end.
Definition col_cells (c : col) : list mcell :=
  match c with
  | CBase b => map MB (bcol_cells b)
  | CNest cs => map MN (zip_rows (map bcol_cells cs))
  end.
Definition col_len (c : col) : nat :=
  match c with CBase b => bcol_len b | CNest cs => match cs with [] => O | b :: _ => bcol_len b end end.
Definition m_len (t : ctable) : nat := match t with [] => O | c :: _ => col_len c end.
Definition m_to_rows (t : ctable) : list (list mcell) := zip_rows (map col_cells t).
Definition aligned_b (n : nat) (cs : list bcol) : bool := forallb (fun c => Nat.eqb (bcol_len c) n) cs.
Definition col_aligned (n : nat) (c : col) : bool :=
  match c with CBase b => Nat.eqb (bcol_len b) n | CNest cs => negb (match cs with [] => true | _ => false end) && aligned_b n cs end.
Definition aligned (t : ctable) : bool := forallb (col_aligned (m_len t)) t.

(* ---- selection by a list of valid positions (integer-array index, mask, slice, argsort) ---- *)
Definition sel {A} (ix : list nat) (l : list A) : list A :=
  flat_map (fun i => match nth_error l i with Some x => [x] | None => [] end) ix.
Definition bcol_select (ix : list nat) (c : bcol) : bcol :=
  match c with
  | ColNum d v => ColNum d (sel ix v)
  | ColRag t data lens => rag_of_rows t (sel ix (rag_rows data lens))
  | ColPad w m => ColPad w (sel ix m)
  | ColFlat v => ColFlat (sel ix v)
  end.
Definition col_select (ix : list nat) (c : col) : col :=
  match c with CBase b => CBase (bcol_select ix b) | CNest cs => CNest (map (bcol_select ix) cs) end.
Definition m_select (ix : list nat) (t : ctable) : ctable := map (col_select ix) t.
Definition take_indices (n : Z) (ix : list Z) : option (list nat) := map_opt (norm_index n) ix.
Definition mask_indices (n : nat) (m : list bool) : option (list nat) :=
  if Nat.eqb (length m) n || Nat.eqb (length m) 0 then Some (map Z.to_nat (flatnonzero m)) else None.

(* ---- concatenation ---- *)
Definition rtag_join (a b : rtag) : option rtag :=
  match a, b with
  | RStr, RStr => Some RStr
  | RDna, RDna => Some RDna
  | RNum x, RNum y => Some (RNum (dt_join x y))
  | _, _ => None
  end.
Definition cast_rag (from to : rtag) (data : list Z) : list Z :=
  match from, to with RNum x, RNum y => map (cast x y) data | _, _ => data end.
Definition bcol_cat (a b : bcol) : option bcol :=
  match a, b with
  | ColNum d1 v1, ColNum d2 v2 => let d := dt_join d1 d2 in Some (ColNum d (map (cast d1 d) v1 ++ map (cast d2 d) v2))
  | ColRag t1 x1 l1, ColRag t2 x2 l2 =>
      match rtag_join t1 t2 with
      | Some t => Some (ColRag t (cast_rag t1 t x1 ++ cast_rag t2 t x2) (l1 ++ l2))
      | None => None
      end
  | ColPad w1 m1, ColPad w2 m2 => let w := Z.max w1 w2 in Some (ColPad w (map (pad w) m1 ++ map (pad w) m2))
  | ColFlat v1, ColFlat v2 => Some (ColFlat (v1 ++ v2))
  | _, _ => None
  end.
Definition col_cat (a b : col) : option col :=
  match a, b with
  | CBase x, CBase y => match bcol_cat x y with Some c => Some (CBase c) | None => None end
  | CNest xs, CNest ys => match map2o bcol_cat xs ys with Some cs => Some (CNest cs) | None => None end
  | _, _ => None
  end.
Definition check_aligned (t : ctable) : option ctable := if aligned t then Some t else None.
Definition m_cat (a b : ctable) : option ctable :=
  match map2o col_cat a b with Some t => check_aligned t | None => None end.

(* ---- construction: _implicit_format_conversion by declared field type ---- *)
Definition all_MZ (l : list mb) : option (list (dt * Z)) := map_opt (fun b => match b with MZ d z => Some (d, z) | _ => None end) l.
Definition all_MS (l : list mb) : option (list (list Z)) := map_opt (fun b => match b with MS s => Some s | _ => None end) l.
Definition all_ML (l : list mb) : option (list (dt * list Z)) := map_opt (fun b => match b with ML d x => Some (d, x) | _ => None end) l.
(* np.asanyarray(list): dtype is the join of the element types, float64 for the empty list *)
Definition infer_dt (ds : list dt) : dt := match ds with [] => DF | d :: r => fold_left dt_join r d end.
(* dtype of an empty numeric column: float64 on the pinned code whatever the declared type *)
Definition declared_dt (k : kind) : dt := match k with KInt | KOpt => DI | KBool => DB | _ => DF end.
Definition num_dt (fx5 : bool) (k : kind) (ds : list dt) : dt :=
  match ds with [] => if fx5 then declared_dt k else DF | _ => infer_dt ds end.
(* RaggedArray(rows) without any element is float64 on the pinned code whatever the declared element type *)
Definition list_empty_dt : dt := if fix7_list_empty_dtype then DI else DF.
Definition bcol_of_cells_gen (fx5 fx6 : bool) (k : kind) (l : list mb) : option bcol :=
  match k with
  | KInt | KOpt | KFloat | KBool =>
      match all_MZ l with
      | Some ps => let d := num_dt fx5 k (map fst ps) in Some (ColNum d (map (fun p => cast (fst p) d (snd p)) ps))
      | None => None
      end
  | KStr => match all_MS l with Some ss => Some (rag_of_rows RStr ss) | None => None end
  | KDna => match all_MS l with
            | Some ss => match map_opt (map_opt encode_dna) ss with Some cs => Some (rag_of_rows RDna cs) | None => None end
            | None => None
            end
  | KStrand => match all_MS l with
               | Some ss =>
                   (* pinned: the ragged result is ravelled whatever the entry lengths *)
                   if fx6 && negb (forallb (fun s => Nat.eqb (length s) 1) ss) then None
                   else match map_opt encode_strand (concat ss) with Some cs => Some (ColFlat cs) | None => None end
               | None => None
               end
  | KId => match all_MS l with Some ss => Some (pad_all ss) | None => None end
  | KList =>
      match all_ML l with
      | Some ps =>
          let ne := filter (fun p => negb (match snd p with [] => true | _ => false end)) ps in
          let d := match ne with [] => list_empty_dt | _ => infer_dt (map fst ne) end in
          Some (rag_of_rows (RNum d) (map (fun p => map (cast (fst p) d) (snd p)) ps))
      | None => None
      end
  end.
Definition bcol_of_cells := bcol_of_cells_gen fix5_empty_dtype fix6_flat_cells.
Definition all_MB (l : list mcell) : option (list mb) := map_opt (fun c => match c with MB b => Some b | _ => None end) l.
Definition all_MN (l : list mcell) : option (list (list mb)) := map_opt (fun c => match c with MN r => Some r | _ => None end) l.
(* a column handed to the constructor: python list for a base field, Inner( *columns ) for a nested field *)
Inductive colarg :=
| ABase (l : list mb) | ANest (cols : list (list mb))
| AArr (v : list Z)      (* an integer ndarray of any width / signedness handed to the constructor (values in quarter units) *)
| ABig (v : list Z).     (* a python list of ints of any magnitude: NumPy decides how it can be held *)
(* how np.asanyarray holds a python list of ints v (whole numbers, here NOT scaled):
   all within int64 -> int64; all within [2^63, 2^64) -> uint64; both below and at/above 2^63 -> float64 on the pinned
   code (values that are not doubles change silently); anything outside [-2^63, 2^64) -> an object array, which no
   later use of the table survives *)
Definition fits_i64 (v : Z) : bool := (- 2 ^ 63 <=? v) && (v <? 2 ^ 63).
Definition fits_u64 (v : Z) : bool := (0 <=? v) && (v <? 2 ^ 64).
Definition is_num_kind (k : kind) : bool := match k with KInt | KOpt | KFloat | KBool => true | _ => false end.
Definition is_int_kind (k : kind) : bool := match k with KInt | KOpt => true | _ => false end.
Definition int_list_col (fx8 : bool) (k : kind) (qs : list Z) : option bcol :=
  let vs := map (fun q => q / 4) qs in
  match qs with
  | [] => Some (ColNum (if fix5_empty_dtype then match k with KInt | KOpt => DI | KBool => DB | _ => DF end else DF) [])
  | _ =>
    if forallb fits_i64 vs then Some (ColNum DI qs)
    else if forallb (fun v => (2 ^ 63 <=? v) && (v <? 2 ^ 64)) vs then Some (ColNum DI qs)
    else if forallb (fun v => fits_i64 v || fits_u64 v) vs then
      (if fx8 && match k with KInt | KOpt => true | _ => false end
       then (if forallb fits_u64 vs then Some (ColNum DI qs) else None)
       else Some (ColNum DF (map (fun v => 4 * to_double v) vs)))
    else None
  end.
Definition col_of_arg (f : fk) (a : colarg) : option col :=
  match f, a with
  | FB k, ABase l => match bcol_of_cells k l with Some c => Some (CBase c) | None => None end
  | FN ks, ANest cols =>
      match map2o (fun kk l => bcol_of_cells (snd kk) l) ks cols with
      | Some cs => match cs with
                   | [] => None
                   | c :: _ => if aligned_b (bcol_len c) cs then Some (CNest cs) else None
                   end
      | None => None
      end
  | FB k, AArr v => if is_num_kind k then Some (CBase (ColNum DI v)) else None
  | FB k, ABig v =>
      if is_num_kind k then match int_list_col fix8_int_magnitude k v with Some c => Some (CBase c) | None => None end
      else None
  | _, _ => None
  end.
Definition m_construct (sch : schema) (args : list colarg) : option ctable :=
  match map2o (fun f a => col_of_arg (snd f) a) sch args with
  | Some t => check_aligned t
  | None => None
  end.

(* from_entry_tuples: cls( *(list(c) for c in zip( *tuples)) ).
   pinned code: zero rows give zero constructor arguments (TypeError); a nested-table field receives a python
   list of entry objects, is stored unconverted, and every later column-wise use of the table raises. *)
Definition has_nested (sch : schema) : bool := existsb (fun f => match snd f with FN _ => true | _ => false end) sch.
Definition arg_of_cells (f : fk) (cells : list mcell) : option colarg :=
  match f with
  | FB _ => match all_MB cells with Some l => Some (ABase l) | None => None end
  | FN ks => match all_MN cells with
             | Some rs => Some (ANest (match rs with [] => map (fun _ => []) ks | _ => zip_rows rs end))
             | None => None
             end
  end.
Definition m_from_rows_nonempty (sch : schema) (rows : list (list mcell)) : option ctable :=
  match map2o (fun f c => arg_of_cells (snd f) c) sch (zip_rows rows) with
  | Some args => m_construct sch args
  | None => None
  end.
(* npstructures' cls.empty(): np.empty(0, dtype=t) for int and float fields, t.empty() for nested tables, [] otherwise *)
Definition empty_col (fx5 : bool) (k : kind) : option bcol :=
  match k with
  | KInt => Some (ColNum DI [])
  | KFloat => Some (ColNum DF [])
  | _ => bcol_of_cells_gen fx5 false k []
  end.
Definition m_empty (fx5 : bool) (sch : schema) : option ctable :=
  match
  map_opt (fun f => match snd f with
                    | FB k => match empty_col fx5 k with Some c => Some (CBase c) | None => None end
                    | FN ks => match map_opt (fun kk => empty_col fx5 (snd kk)) ks with
                               | Some (c :: cs) => Some (CNest (c :: cs))
                               | _ => None
                               end
                    end) sch
  with Some t => check_aligned t | None => None end.
Definition m_from_rows_gen (fx1 fx2 fx5 : bool) (sch : schema) (rows : list (list mcell)) : option ctable :=
  match rows with
  | [] => if fx1 then m_empty fx5 sch else None
  | _ => if has_nested sch && negb fx2 then None else m_from_rows_nonempty sch rows
  end.
Definition m_from_rows := m_from_rows_gen fix1_from_rows_empty fix2_from_rows_nested fix5_empty_dtype.

(* ---- replace / add_fields: the constructor is re-run on all columns; converted columns pass through ---- *)
Definition m_replace (sch : schema) (f : nat) (a : colarg) (t : ctable) : option ctable :=
  match nth_error sch f with
  | Some fd => match col_of_arg (snd fd) a with
               | Some c => match set_nth f c t with Some t' => check_aligned t' | None => None end
               | None => None
               end
  | None => None
  end.
(* add_fields on the pinned code indexes values[0] before anything else: IndexError on an empty column *)
Definition m_add_gen (fx3 : bool) (k : kind) (l : list mb) (t : ctable) : option ctable :=
  if is_nil l && negb fx3 then None
  else match bcol_of_cells k l with Some c => check_aligned (t ++ [CBase c]) | None => None end.
Definition m_add := m_add_gen fix3_add_empty.

(* ---- sort_by: self[np.argsort(column)] ---- *)
Fixpoint insert_idx (key : nat -> Z) (i : nat) (l : list nat) : list nat :=
  match l with
  | [] => [i]
  | j :: r => if key i <=? key j then i :: l else j :: insert_idx key i r
  end.
Definition argsort (v : list Z) : list nat :=
  fold_right (insert_idx (fun i => nth i v 0)) [] (seq 0 (length v)).
(* pinned: np.argsort is only implemented for ndarray and flat EncodedArray columns (TypeError otherwise) *)
Definition sort_key_pinned (c : col) : option (list Z) :=
  match c with
  | CBase (ColNum _ v) => Some v
  | CBase (ColFlat v) => Some v
  | _ => None
  end.
(* proposed repair (notes/C19.fix-4.diff): string-like columns are sorted through their NUL-padded byte rows *)
Fixpoint insert_idx_by {A} (leb : A -> A -> bool) (key : nat -> A) (i : nat) (l : list nat) : list nat :=
  match l with
  | [] => [i]
  | j :: r => if leb (key i) (key j) then i :: l else j :: insert_idx_by leb key i r
  end.
Definition argsort_by {A} (leb : A -> A -> bool) (d : A) (v : list A) : list nat :=
  fold_right (insert_idx_by leb (fun i => nth i v d)) [] (seq 0 (length v)).
Definition str_keys (c : bcol) : option (list (list Z)) :=
  match c with
  | ColPad _ m => Some (map strip_nul m)
  | ColRag RStr data lens => Some (rag_rows data lens)
  | ColRag RDna data lens => Some (map (map (decode dna_alphabet)) (rag_rows data lens))
  | _ => None
  end.
Definition m_sort_by_gen (fx4 : bool) (f : nat) (t : ctable) : option ctable :=
  match nth_error t f with
  | Some c => match sort_key_pinned c with
              | Some v => Some (m_select (argsort v) t)
              | None => if negb fx4 then None else
                        match c with
                        | CBase b => match str_keys b with
                                     | Some ks => Some (m_select (argsort_by lex_leb [] ks) t)
                                     | None => None
                                     end
                        | _ => None
                        end
              end
  | None => None
  end.
Definition m_sort_by := m_sort_by_gen fix4_sort_strings.

(* ---- todict / from_dict (and the pandas round trip, which goes through the same dictionary) ---- *)
Inductive dval :=
| VArr (d : dt) (v : list Z)                 (* ndarray, passed through *)
| VStrs (ss : list (list Z))                 (* pandas string Series / list of str *)
| VRows (d : dt) (rs : list (list Z)).       (* list of row arrays of a RaggedArray *)
Definition dval_of (c : bcol) : dval :=
  match c with
  | ColNum d v => VArr d v
  | ColRag (RNum d) data lens => VRows d (rag_rows data lens)
  | ColRag RStr data lens => VStrs (rag_rows data lens)
  | ColRag RDna data lens => VStrs (map (map (decode dna_alphabet)) (rag_rows data lens))
  | ColPad _ m => VStrs (map strip_nul m)
  | ColFlat v => VStrs (map (fun c => [decode strand_alphabet c]) v)
  end.
Definition dot : Z := 46.
(* f'{field.name}.{k}' *)
Definition m_dict_join (name sub : list Z) : list Z := name ++ [dot] ++ sub.
Definition m_todict (sch : schema) (t : ctable) : list (list Z * dval) :=
  flat_map (fun p =>
    match snd (fst p), snd p with
    | FN ks, CNest cs => map (fun q => (m_dict_join (fst (fst p)) (fst (fst q)), dval_of (snd q))) (combine ks cs)
    | _, CBase b => [(fst (fst p), dval_of b)]
    | _, _ => []
    end) (combine sch t).
Definition bcol_of_dval (k : kind) (v : dval) : option bcol :=
  match v with
  | VArr d x => match k with KInt | KOpt | KFloat | KBool => Some (ColNum d x) | _ => None end
  | VStrs ss => bcol_of_cells k (map MS ss)
  | VRows d rs => match k with
                  | KList => Some (rag_of_rows (RNum (match concat rs with [] => list_empty_dt | _ => d end)) rs)
                  | _ => None
                  end
  end.
Fixpoint lookup (name : list Z) (d : list (list Z * dval)) : option dval :=
  match d with [] => None | (n, v) :: r => if zlist_eqb n name then Some v else lookup name r end.
(* name.split('.', maxsplit=1) *)
Fixpoint split_dot (s : list Z) : list Z * option (list Z) :=
  match s with
  | [] => ([], None)
  | c :: r => if c =? dot then ([], Some r)
              else let '(a, b) := split_dot r in (c :: a, b)
  end.
Definition sub_dict (name : list Z) (d : list (list Z * dval)) : list (list Z * dval) :=
  flat_map (fun p => match split_dot (fst p) with
                     | (n, Some sub) => if zlist_eqb n name then [(sub, snd p)] else []
                     | _ => []
                     end) d.
Definition m_from_dict (sch : schema) (d : list (list Z * dval)) : option ctable :=
  match map_opt (fun f =>
          match snd f with
          | FB k => match lookup (fst f) d with Some v => match bcol_of_dval k v with Some c => Some (CBase c) | None => None end | None => None end
          | FN ks =>
              let sd := sub_dict (fst f) d in
              match map_opt (fun kk => match lookup (fst kk) sd with Some v => bcol_of_dval (snd kk) v | None => None end) ks with
              | Some cs => match cs with [] => None | c :: _ => if aligned_b (bcol_len c) cs then Some (CNest cs) else None end
              | None => None
              end
          end) sch with
  | Some t => check_aligned t
  | None => None
  end.

(* ---- how a sequence argument is handed over: the iteration protocol ----
   from_entry_tuples is declared to take an Iterable[tuple].  A re-iterable (list, tuple, deque, an object with only
   __iter__, a dict view, a list of lists) gives its rows on every traversal; a one-shot iterator (generator, iter(),
   zip of the columns, map, itertools.chain, an object with only __next__) gives them on the FIRST traversal and
   nothing afterwards. *)
Inductive itkind :=
| ItList | ItTuple | ItDeque | ItReiter | ItDictValues | ItRowLists
| ItGen | ItIter | ItZip | ItMap | ItChain | ItOnce.
Definition it_one_shot (k : itkind) : bool :=
  match k with ItGen | ItIter | ItZip | ItMap | ItChain | ItOnce => true | _ => false end.
(* what the (pre+1)-th traversal of the argument yields *)
Definition it_yield {A} (pre : nat) (one_shot : bool) (rows : list A) : list A :=
  match pre with O => rows | S _ => if one_shot then [] else rows end.
(* number of complete traversals of `tuples` the code makes BEFORE the transposing zip( *tuples): none — the argument is
   mentioned once in the body (Gen/C19.v gen_from_rows_argument_uses, Bridge b_from_rows_argument_uses) *)
Definition m_from_rows_argument_uses : Z := 1.
Definition m_from_rows_pre_traversals : nat := Z.to_nat (m_from_rows_argument_uses - 1).

(* from_entry_tuples on an argument handed over as `how`, by a body that makes `pre` complete traversals of it before
   the transposing zip( *tuples).  The code that exists is the instance pre = m_from_rows_pre_traversals. *)
Definition m_from_rows_via (pre : nat) (sch : schema) (how : itkind) (rows : list (list mcell)) : option ctable :=
  m_from_rows sch (it_yield pre (it_one_shot how) rows).

(* ---- programs ---- *)
Inductive op :=
| OTake (ix : list Z) | OMask (m : list bool) | OSlice (a b : option Z) (st : Z)
| OCatR | OCatL | OCatSelf | OCat3
| OSort (f : nat)
| OReplace (f : nat) (a : colarg)
| OAdd (name : list Z) (k : kind) (l : list mb)
| ORows (how : itkind) | ODict | OPandas
| OIndex (i : Z) | OIter
(* add_fields on the OTHER operand (whose schema sch1 the operation carries): the current table becomes t1 + field.
   Lets a program add a same-named field of another type to a second table of the same class. *)
| OAddT1 (sch1 : schema) (name : list Z) (k : kind) (l : list mb).

(* result of one step: a new current table, or a list of rows that was only looked at, or an exception *)
Inductive mres := MTab (sch : schema) (t : ctable) | MRows (rs : list (list mcell)) | MErr.
Definition of_opt (sch : schema) (o : option ctable) : mres := match o with Some t => MTab sch t | None => MErr end.
Definition m_step (sch : schema) (cur t1 : ctable) (o : op) : mres :=
  match o with
  | OTake ix => match take_indices (Z.of_nat (m_len cur)) ix with Some k => MTab sch (m_select k cur) | None => MErr end
  | OMask m => match mask_indices (m_len cur) m with Some k => MTab sch (m_select k cur) | None => MErr end
  | OSlice a b st => if st =? 0 then MErr else
      match take_indices (Z.of_nat (m_len cur)) (slice_indices (Z.of_nat (m_len cur)) a b st) with
      | Some k => MTab sch (m_select k cur) | None => MErr end
  | OCatR => of_opt sch (m_cat cur t1)
  | OCatL => of_opt sch (m_cat t1 cur)
  | OCatSelf => of_opt sch (m_cat cur cur)
  | OCat3 => match m_cat cur t1 with Some x => of_opt sch (m_cat x cur) | None => MErr end
  | OSort f => of_opt sch (m_sort_by f cur)
  | OReplace f a => of_opt sch (m_replace sch f a cur)
  | OAdd name k l => of_opt (sch ++ [(name, FB k)]) (m_add k l cur)
  | ORows how => of_opt sch (m_from_rows sch (it_yield m_from_rows_pre_traversals (it_one_shot how) (m_to_rows cur)))
  | ODict | OPandas => of_opt sch (m_from_dict sch (m_todict sch cur))
  | OIndex i => match s_index (m_to_rows cur) i with Some r => MRows [r] | None => MErr end
  | OIter => MRows (m_to_rows cur)
  | OAddT1 sch1 name k l => of_opt (sch1 ++ [(name, FB k)]) (m_add k l t1)
  end.
Fixpoint m_run (sch : schema) (cur t1 : ctable) (p : list op) : list mres :=
  match p with
  | [] => []
  | o :: r => let x := m_step sch cur t1 o in
              match x with
              | MTab sch' t' => x :: m_run sch' t' t1 r
              | _ => x :: m_run sch cur t1 r
              end
  end.

(* ---- the same programs on the list-of-rows specification ---- *)
(* the rows a constructor argument denotes *)
Definition arg_cells (a : colarg) : list mcell :=
  match a with
  | ABase l => map MB l | ANest cols => map MN (zip_rows cols)
  | AArr v | ABig v => map (fun z => MB (MZ DI z)) v
  end.
(* a python value is acceptable for a declared field type; anything else must make construction raise *)
Definition mb_ok (k : kind) (b : mb) : bool :=
  match k, b with
  | (KInt | KOpt | KFloat | KBool), MZ _ _ => true
  | (KStr | KId), MS s => forallb (fun c => (0 <? c) && (c <? 128)) s
  | KDna, MS s => forallb (fun c => existsb (Z.eqb c) dna_alphabet) s
  | KStrand, MS [c] => existsb (Z.eqb c) strand_alphabet
  | KList, ML _ _ => true
  | _, _ => false
  end.
Definition arg_ok (f : fk) (a : colarg) : bool :=
  match f, a with
  | FB k, ABase l => forallb (mb_ok k) l
  | FN ks, ANest cols =>
      Nat.eqb (length ks) (length cols) && negb (is_nil cols)
      && forallb (fun p => forallb (mb_ok (snd (fst p))) (snd p)) (combine ks cols)
      && forallb (fun c => Nat.eqb (length c) (length (hd [] cols))) cols
  | FB k, AArr v => is_int_kind k
  (* python ints: acceptable when one 64-bit integer type holds them all; otherwise construction must raise *)
  | FB k, ABig v =>
      let vs := map (fun q => q / 4) v in is_int_kind k && (forallb fits_i64 vs || forallb fits_u64 vs)
  | _, _ => false
  end.
Inductive sres := STab (t : table) | SSorted (f : nat) (t : table) | SRows (t : table) | SErr | SAny.
Definition sortable (sch : schema) (f : nat) : bool :=
  match nth_error sch f with
  | Some (_, FB KList) => false
  | Some (_, FB _) => true
  | _ => false
  end.
Definition s_opt (o : option table) : sres := match o with Some t => STab t | None => SErr end.
(* what the property demands of one step, given the rows of the current table and of the other operand.
   SAny: the statement does not fix the outcome (sorting by a list-valued or nested-table column). *)
Definition s_step (sch : schema) (cur t1 : table) (o : op) : sres :=
  match o with
  | OTake ix => s_opt (s_take cur ix)
  | OMask m => s_opt (s_mask cur m)
  | OSlice a b st => s_opt (s_slice cur a b st)
  | OCatR => STab (cur ++ t1)
  | OCatL => STab (t1 ++ cur)
  | OCatSelf => STab (cur ++ cur)
  | OCat3 => STab (cur ++ t1 ++ cur)
  | OSort f => if sortable sch f then SSorted f cur else SAny
  | OReplace f a =>
      match nth_error sch f with
      | Some fd =>
          if arg_ok (snd fd) a then
            (* a table with a single field is replaced wholesale: any number of rows is consistent *)
            match sch with
            | [_] => STab (map (fun c => [erase c]) (arg_cells a))
            | _ => s_opt (s_replace f (map erase (arg_cells a)) cur)
            end
          else SErr
      | None => SErr
      end
  | OAdd _ k l => if forallb (mb_ok k) l then s_opt (s_add (map (fun b => CB (erase_b b)) l) cur) else SErr
  | ORows _ | ODict | OPandas => STab cur         (* whatever the shape the rows are handed over in *)
  | OIndex i => match s_index cur i with Some r => SRows [r] | None => SErr end
  | OIter => SRows cur
  | OAddT1 _ _ k l => if forallb (mb_ok k) l then s_opt (s_add (map (fun b => CB (erase_b b)) l) t1) else SErr
  end.

(* ====================================================================== rules named for the translator bridge
   Each m_… below is the decision rule the model functions above follow, stated over the same flags as the
   definition translate/gen_c19.py regenerates from /repo (Gen/C19.v).  Bridge/C19.v proves gen_… = m_… and that the
   model functions really behave as these rules say. *)
Definition m_from_rows_transposes : bool := true.                         (* columns = zip( *tuples): zip_rows *)
Definition m_from_rows_empty_rule : bool := fix1_from_rows_empty.         (* no columns -> cls.empty() *)
(* which representation sort_by hands to argsort: 0 the column itself, 2 raw bytes of a StringArray,
   3 as_string_array(EncodedRaggedArray) and then its raw bytes *)
Definition m_sort_key_rule (fx4 is_era is_sa : bool) : Z :=
  if fx4 then (if is_era then 3 else if is_sa then 2 else 0) else 0.
Definition m_sort_stable : bool := fix4_sort_strings.                     (* argsort(kind='stable'); the model's argsort is stable *)
(* order of the type tests of _implicit_format_conversion and the conversion each applies *)
Definition m_dispatch : list (string * string) :=
  [("union_str", "as_encoded"); ("numeric", "asanyarray"); ("str", "as_encoded"); ("seqid", "as_string_array");
   ("encoding", "as_encoded_typed"); ("list_num", "ragged"); ("nested", "table")]%string.
(* the test a declared kind satisfies, and the conversion the model applies to it *)
Definition kind_test (k : kind) : string :=
  match k with
  | KInt | KOpt | KFloat | KBool => "numeric" | KStr => "str" | KId => "seqid"
  | KDna | KStrand => "encoding" | KList => "list_num"
  end%string.
Definition bcol_action (c : bcol) : string :=
  match c with
  | ColNum _ _ => "asanyarray" | ColRag RStr _ _ => "as_encoded" | ColRag RDna _ _ => "as_encoded_typed"
  | ColRag (RNum _) _ _ => "ragged" | ColPad _ _ => "as_string_array" | ColFlat _ => "as_encoded_typed"
  end%string.
Fixpoint first_action (d : list (string * string)) (test : string) : option string :=
  match d with [] => None | (t, a) :: r => if String.eqb t test then Some a else first_action r test end.
(* dtype rule for an empty numeric column: 0 keep float64, 1 cast to int, 2 cast to bool *)
Definition m_empty_dtype_rule (fx5 size0 is_f64 decl_int_or_bool decl_bool : bool) : Z :=
  if fx5 && (size0 && (is_f64 && decl_int_or_bool)) then (if decl_bool then 2 else 1) else 0.
(* python ints without a common NumPy integer type (fix-8): 1 hold as uint64, -1 OverflowError, 0 rule not applicable *)
Definition m_int_magnitude_rule (fx8 decl_int held_fO is_list nonempty all_ints min_nonneg max_lt : bool) : Z :=
  if fx8 && (decl_int && (held_fO && (is_list && (nonempty && all_ints)))) then (if min_nonneg && max_lt then 1 else (-1)) else 0.
Definition dt_of_rule (r : Z) : dt := if r =? 1 then DI else if r =? 2 then DB else DF.
Definition kind_int_or_bool (k : kind) : bool := match k with KInt | KOpt | KBool => true | _ => false end.
Definition kind_bool (k : kind) : bool := match k with KBool => true | _ => false end.
(* flat-alphabet field: raise when a ragged input has an entry that is not one symbol *)
Definition m_flat_check_raises (fx6 is_flat is_ragged some_len_not_1 : bool) : bool :=
  fx6 && (is_flat && (is_ragged && some_len_not_1)).
Definition m_nested_converts_rows : bool := fix2_from_rows_nested.
(* add_fields: names must be identifiers (so no '.'); an empty, explicitly typed column raises on the pinned code *)
Definition m_add_name_raises (is_identifier : bool) : bool := negb is_identifier.
Definition m_add_empty_typed_raises : bool := negb fix3_add_empty.
(* from_dict: split at the first '.', field name first *)
Definition m_dict_split : Z * Z * bool := (dot, 1, true).
(* StringArray: lengths = count_nonzero of the padded row; padding on the right; width from an encoded ragged array *)
Definition m_sa_length (row : list Z) : Z := len (filter (fun c => negb (c =? 0)) row).
Definition m_sa_pads_right : bool := true.
Definition m_sa_width_from_encoded (no_chars : bool) (longest : Z) : Z := if no_chars then 1 else longest.

(* Model/C05.v — lazy versus eager tables.
   (a) Spec: an eagerly parsed table is a list of rows (one value per dataclass field); the ten public
       operations of the property act on it in the obvious way; `resolve` is NumPy's meaning of an index.
   (b) Model: bionumpy/bnpdataclass/lazybnpdataclass.py — a lazily read table is three stores
         buffer (ItemGetter._buffer: the selected records, each with its raw bytes and raw field texts),
         _set_values (field -> replaced column), _computed_values (field -> cached parsed column)
       and every operation is written the way the class does it (keys taken from the FIRST operand in
       np.concatenate, __replace__ dropping the cache, get_data_object filling it, get_buffer passing raw
       bytes through when nothing is replaced ...).  Formats whose buffer has no `concatenate`
       (FASTQ, two-line FASTA) fall back to the eager objects.
   Executable definitions only; proofs are in Proofs/C05.v. *)
From Coq Require Import ZArith List Bool Arith.
From BNP Require Import Base.Prims.
Import ListNotations.
Open Scope Z_scope.

(* ---------------------------------------------------------------- values, formats *)
Inductive value := VI (z : Z) | VS (s : list Z).
Definition dv : value := VI 0.
Definition value_eqb (a b : value) : bool :=
  match a, b with VI x, VI y => x =? y | VS x, VS y => zlist_eqb x y | _, _ => false end.

(* KInt off: the parsed value is (decimal text) + off, the written text is decimal (value - off);
   off = -1 for the VCF position column (VCFBuffer._get_field_by_number / process_field_for_write). *)
Inductive kind := KStr | KInt (off : Z).
Inductive layout := LDelim | LSam | LFastq | LFasta2.
Record fmt := {
  f_kinds : list kind;        (* one per dataclass field *)
  f_layout : layout;
  f_concat : bool;            (* the buffer class has a `concatenate` method (DelimitedBuffer: yes, OneLineBuffer: no) *)
  f_nowrite : list nat;       (* fields whose presence in _set_values makes lazy get_buffer raise *)
  f_ragged : bool;            (* the dataclass has a ragged text column: row access t[i] on a lazily read table goes through
                                 npstructures' RaggedView2._get_row, which raises TypeError under NumPy 2 *)
  f_eager_write_fails : bool; (* the EAGER writer cannot serialise a table read from a file WITH header lines (VCF: the info
                                 column is then typed InfoDataclass and dump_csv.get_column raises KeyError) *)
  f_write_needs_context : bool; (* the writer's make_header reads the table's header context and raises KeyError without it
                                   (BAM): a materialised table — eager and derived, or the result of the concatenate
                                   fall-back — cannot be written *)
  f_default_hdr : list Z;     (* what the EAGER writer emits for a table without header context (VCF: a default header) *)
  f_sid : list nat            (* SequenceID fields: parsing one from a buffer with ZERO records raises
                                 (string_array of a 0x0 matrix); [] once notes/C05.fix-2.diff is applied *)
}.
Definition nfields (F : fmt) : nat := length (f_kinds F).
Definition kind_of (F : fmt) (f : nat) : kind := nth f (f_kinds F) KStr.

Definition digits_val (l : list Z) : Z := fold_left (fun a c => 10 * a + (c - 48)) l 0.
Definition parse_int (t : list Z) : Z :=
  match t with 45 :: r => - digits_val r | 43 :: r => digits_val r | _ => digits_val t end.
Fixpoint digits_fuel (fuel : nat) (n : Z) : list Z :=
  match fuel with
  | O => [63]                                       (* out of fuel: '?', never a digit string *)
  | S f => if n <? 10 then [48 + n] else digits_fuel f (n / 10) ++ [48 + n mod 10]
  end.
Definition print_nat (n : Z) : list Z := digits_fuel (S (Z.to_nat (Z.log2 n))) n.
Definition print_int (z : Z) : list Z := if z <? 0 then 45 :: print_nat (- z) else print_nat z.

Definition parse (k : kind) (t : list Z) : value :=
  match k with KStr => VS t | KInt off => VI (parse_int t + off) end.
Definition print (k : kind) (v : value) : list Z :=
  match k, v with
  | KStr, VS s => s
  | KInt off, VI z => print_int (z - off)
  | KStr, VI z => print_int z
  | KInt _, VS s => s
  end.

(* one record of the file: the text of each dataclass field and the raw bytes of the whole record *)
Record rawrec := { r_fields : list (list Z); r_raw : list Z }.
Definition dr : rawrec := {| r_fields := []; r_raw := [] |}.
Definition field (f : nat) (r : rawrec) : list Z := nth f (r_fields r) [].

(* how a buffer class lays out one record from the text of its fields.  Since 81bde1f the eager writer of every class
   (from_data / dump_csv; SAMBuffer.from_data = join_fields of the formatted columns) and the join of a modified lazy table
   (buffer_class.join_fields) are the same function.  SAM: the optional tags are one possibly empty field and no
   separator is written before an empty one (36989fd). *)
Definition render (L : layout) (cells : list (list Z)) : list Z :=
  match L with
  | LDelim => intercalate [9] cells ++ [10]
  | LSam => match rev cells with
            | [] :: r => intercalate [9] (rev r) ++ [10]
            | _ => intercalate [9] cells ++ [10] end
  | LFastq => match cells with
              | [n; s; q] => [64] ++ n ++ [10] ++ s ++ [10; 43; 10] ++ q ++ [10]
              | _ => [] end
  | LFasta2 => match cells with
               | [n; s] => [62] ++ n ++ [10] ++ s ++ [10]
               | _ => [] end
  end.
Definition join_fields (L : layout) (cells : list (list Z)) : list Z := render L cells.

(* ---------------------------------------------------------------- generic column/row helpers *)
Definition takeN {A} (d : A) (sel : list nat) (l : list A) : list A := map (fun j => nth j l d) sel.
(* n rows out of a list of columns *)
Definition rows_of_cols {A} (d : A) (n : nat) (cols : list (list A)) : list (list A) :=
  map (fun i => map (fun c => nth i c d) cols) (seq 0 n).
Fixpoint set_nth {A} (f : nat) (v : A) (l : list A) : list A :=
  match l, f with
  | [], _ => []
  | _ :: r, O => v :: r
  | x :: r, S f' => x :: set_nth f' v r
  end.
Fixpoint print_row (ks : list kind) (row : list value) : list (list Z) :=
  match ks, row with k :: ks', v :: row' => print k v :: print_row ks' row' | _, _ => [] end.

(* ---------------------------------------------------------------- NumPy index semantics (shared) *)
Inductive index :=
| ISlice (a b : option Z) (s : Z)
| IMask (m : list bool)
| ITake (l : list Z).

Definition slice_sel (n : Z) (a b : option Z) (s : Z) : list Z :=
  if 0 <? s then
    let start := match a with None => 0 | Some a => if a <? 0 then Z.max (a + n) 0 else Z.min a n end in
    let stop := match b with None => n | Some b => if b <? 0 then Z.max (b + n) 0 else Z.min b n end in
    let cnt := if start <? stop then (stop - start + s - 1) / s else 0 in
    map (fun k => start + k * s) (arange cnt)
  else
    let start := match a with None => n - 1 | Some a => if a <? 0 then Z.max (a + n) (-1) else Z.min a (n - 1) end in
    let stop := match b with None => -1 | Some b => if b <? 0 then Z.max (b + n) (-1) else Z.min b (n - 1) end in
    let cnt := if stop <? start then (start - stop + (- s) - 1) / (- s) else 0 in
    map (fun k => start + k * s) (arange cnt).

(* the list of selected positions, or None where NumPy raises IndexError *)
Definition resolve (n : nat) (ix : index) : option (list nat) :=
  let nz := Z.of_nat n in
  let raw : option (list Z) :=
    match ix with
    | ISlice a b s => if s =? 0 then None else Some (slice_sel nz a b s)
    | IMask m => if Nat.eqb (length m) n then Some (flatnonzero m) else None
    | ITake l => Some (map (fun i => if i <? 0 then i + nz else i) l)
    end in
  match raw with
  | None => None
  | Some sel => if forallb (fun j => (0 <=? j) && (j <? nz)) sel then Some (map Z.to_nat sel) else None
  end.

(* ---------------------------------------------------------------- Spec: the eager table *)
Definition rows := list (list value).

Definition s_get (f : nat) (t : rows) : list value := map (fun r => nth f r dv) t.
Definition s_index (sel : list nat) (t : rows) : rows := takeN [] sel t.
Definition s_replace (f : nat) (vals : list value) (t : rows) : rows :=
  map (fun p => set_nth f (nth (fst p) vals dv) (snd p)) (combine (seq 0 (length t)) t).
Definition s_write (F : fmt) (hdr : list Z) (t : rows) : list Z :=
  hdr ++ concat (map (fun r => render (f_layout F) (print_row (f_kinds F) r)) t).
(* the rows a file denotes *)
Fixpoint parse_row (ks : list kind) (cells : list (list Z)) : list value :=
  match ks, cells with k :: ks', c :: cells' => parse k c :: parse_row ks' cells' | _, _ => [] end.
Definition rows_of_file (F : fmt) (recs : list rawrec) : rows := map (fun r => parse_row (f_kinds F) (r_fields r)) recs.

(* ---------------------------------------------------------------- programs and observations *)
Inductive op :=
| OLen (r : nat)
| OGet (r f : nat)
| OIndex (r : nat) (ix : index)              (* r := r[ix] *)
| OAt (r : nat) (i : Z)                      (* observe r[i] *)
| OCat (r : nat) (srcs : list nat)           (* r := np.concatenate([srcs...]) *)
| ORep (r f : nat) (vals : list value)       (* r := bnp.replace(r, f=vals) *)
| OTolist (r : nat)
| OWrite (r : nat)
| OSel (dst src : nat) (ix : index)         (* dst := src[ix]: several selections of one parent table *)
| OWriteRead (r : nat).                     (* write r unmodified to a file, re-read and decode that file: its rows *)

Inductive obs :=
| XErr | XOk
| XLen (n : Z)
| XCol (c : list value)
| XRow (r : list value)
| XRows (rs : rows)
| XBytes (b : list Z).

Definition set_reg {A} (r : nat) (v : A) (regs : list A) : list A := set_nth r v regs.
Fixpoint get_regs {A} (regs : list A) (srcs : list nat) : option (list A) :=
  match srcs with
  | [] => Some []
  | s :: rest => match nth_error regs s, get_regs regs rest with
                 | Some t, Some ts => Some (t :: ts)
                 | _, _ => None end
  end.

Definition s_step (F : fmt) (hdr : list Z) (regs : list rows) (o : op) : list rows * obs :=
  match o with
  | OLen r => match nth_error regs r with Some t => (regs, XLen (len t)) | None => (regs, XErr) end
  | OGet r f => match nth_error regs r with Some t => (regs, XCol (s_get f t)) | None => (regs, XErr) end
  | OIndex r ix =>
      match nth_error regs r with
      | Some t => match resolve (length t) ix with
                  | Some sel => (set_reg r (s_index sel t) regs, XOk)
                  | None => (regs, XErr) end
      | None => (regs, XErr) end
  | OAt r i =>
      match nth_error regs r with
      | Some t => match resolve (length t) (ITake [i]) with
                  | Some sel => (regs, XRow (nth 0 (s_index sel t) []))
                  | None => (regs, XErr) end
      | None => (regs, XErr) end
  | OCat r srcs =>
      match nth_error regs r, get_regs regs srcs with
      | Some _, Some (t :: ts) => (set_reg r (concat (t :: ts)) regs, XOk)
      | _, _ => (regs, XErr) end
  | ORep r f vals =>
      match nth_error regs r with
      | Some t => (set_reg r (s_replace f vals t) regs, XOk)
      | None => (regs, XErr) end
  | OTolist r => match nth_error regs r with Some t => (regs, XRows t) | None => (regs, XErr) end
  | OWrite r => match nth_error regs r with Some t => (regs, XBytes (s_write F hdr t)) | None => (regs, XErr) end
  | OSel dst src ix =>
      match nth_error regs dst, nth_error regs src with
      | Some _, Some t => match resolve (length t) ix with
                          | Some sel => (set_reg dst (s_index sel t) regs, XOk)
                          | None => (regs, XErr) end
      | _, _ => (regs, XErr) end
  | OWriteRead r => match nth_error regs r with Some t => (regs, XRows t) | None => (regs, XErr) end
  end.

Fixpoint s_run (F : fmt) (hdr : list Z) (regs : list rows) (p : list op) : list obs :=
  match p with
  | [] => []
  | o :: p' => let '(regs', x) := s_step F hdr regs o in x :: s_run F hdr regs' p'
  end.

(* ---------------------------------------------------------------- Model: the lazy table *)
Definition store := list (nat * list value).
Fixpoint lookup (f : nat) (st : store) : option (list value) :=
  match st with
  | [] => None
  | (g, c) :: r => if Nat.eqb f g then Some c else lookup f r
  end.
Definition has (f : nat) (st : store) : bool := match lookup f st with Some _ => true | None => false end.
Fixpoint remove_key (f : nat) (st : store) : store :=
  match st with
  | [] => []
  | (g, c) :: r => if Nat.eqb f g then remove_key f r else (g, c) :: remove_key f r
  end.
Definition update (f : nat) (c : list value) (st : store) : store := (f, c) :: remove_key f st.
Definition keys (st : store) : list nat := map fst st.

Record lazy := { l_buf : list rawrec; l_set : store; l_comp : store }.
Inductive table := TLazy (l : lazy) | TEager (t : rows).

Definition fresh (recs : list rawrec) : lazy := {| l_buf := recs; l_set := []; l_comp := [] |}.

(* ItemGetter.__call__: parse one field of every record of the buffer *)
Definition parse_col (F : fmt) (f : nat) (buf : list rawrec) : list value :=
  map (fun r => parse (kind_of F f) (field f r)) buf.

(* __getattr__ without its caching side effect *)
Definition l_col (F : fmt) (l : lazy) (f : nat) : list value :=
  match lookup f (l_set l) with
  | Some c => c
  | None => match lookup f (l_comp l) with
            | Some c => c
            | None => parse_col F f (l_buf l) end
  end.
(* parsing field f from the buffer raises: a SequenceID field of an empty buffer *)
Definition sid_fail (F : fmt) (l : lazy) (f : nat) : bool :=
  match l_buf l with [] => existsb (Nat.eqb f) (f_sid F) | _ => false end.
(* __getattr__: _set_values first, then the cache, else parse and cache; None = the parser raised *)
Definition l_get (F : fmt) (f : nat) (l : lazy) : option (list value * lazy) :=
  match lookup f (l_set l) with
  | Some c => Some (c, l)
  | None => match lookup f (l_comp l) with
            | Some c => Some (c, l)
            | None => if sid_fail F l f then None else
                      let c := parse_col F f (l_buf l) in
                      Some (c, {| l_buf := l_buf l; l_set := l_set l; l_comp := l_comp l ++ [(f, c)] |}) end
  end.
(* __getitem__ (non-scalar): every store is indexed with the same idx *)
Definition l_index (sel : list nat) (l : lazy) : lazy :=
  {| l_buf := takeN dr sel (l_buf l);
     l_set := map (fun p => (fst p, takeN dv sel (snd p))) (l_set l);
     l_comp := map (fun p => (fst p, takeN dv sel (snd p))) (l_comp l) |}.
(* __replace__: new _set_values, the cache is dropped *)
Definition l_replace (f : nat) (vals : list value) (l : lazy) : lazy :=
  {| l_buf := l_buf l; l_set := update f vals (l_set l); l_comp := [] |}.
(* get_data_object: getattr on every field, in order (fills the cache); false = one of them raised
   (the fields before it stay cached) *)
Fixpoint l_fill (F : fmt) (fs : list nat) (l : lazy) : bool * lazy :=
  match fs with
  | [] => (true, l)
  | f :: r => match l_get F f l with
              | Some (_, l') => l_fill F r l'
              | None => (false, l) end
  end.
Definition all_fields (F : fmt) : list nat := seq 0 (nfields F).
Definition l_rows (F : fmt) (l : lazy) : rows :=
  rows_of_cols dv (length (l_buf l)) (map (l_col F l) (all_fields F)).

(* get_buffer: nothing replaced -> buffer.data.ravel() (raw bytes of the selected records);
   otherwise one text column per field (replaced: formatted, else the raw field text), joined by the buffer class *)
Definition text_col (F : fmt) (l : lazy) (f : nat) : list (list Z) :=
  match lookup f (l_set l) with
  | Some c => map (print (kind_of F f)) c
  | None => map (field f) (l_buf l)
  end.
Definition l_write (F : fmt) (hdr : list Z) (l : lazy) : option (list Z) :=
  match l_buf l with [] => Some hdr | _ =>          (* NpBufferedWriter.write: `if len(data) == 0: return` after the header *)
  if existsb (fun f => existsb (Nat.eqb f) (f_nowrite F)) (keys (l_set l)) then None
  else Some (hdr ++
    match l_set l with
    | [] => concat (map r_raw (l_buf l))
    | _ => concat (map (join_fields (f_layout F))
                       (rows_of_cols [] (length (l_buf l)) (map (text_col F l) (all_fields F))))
    end)
  end.
(* the modified write agrees with the eager layout on every row it writes (always, since 81bde1f; kept as an explicit
   check so that a future divergence of join_fields and the eager writer shows up in the guard) *)
Definition join_ok (F : fmt) (l : lazy) : bool :=
  match l_set l with
  | [] => true
  | _ => forallb (fun cells => zlist_eqb (join_fields (f_layout F) cells) (render (f_layout F) cells))
                 (rows_of_cols [] (length (l_buf l)) (map (text_col F l) (all_fields F)))
  end.

(* np.concatenate over lazy operands, buffer class with `concatenate`.
   PINNED = the code at /repo HEAD: the key sets of _set_values and _computed_values come from the first operand
   (`for name in self._set_values`), a missing key in another operand is a KeyError. *)
Fixpoint gather (f : nat) (sts : list store) : option (list value) :=
  match sts with
  | [] => Some []
  | st :: r => match lookup f st, gather f r with
               | Some c, Some cs => Some (c ++ cs)
               | _, _ => None end
  end.
Fixpoint gather_all (ks : list nat) (sts : list store) : option store :=
  match ks with
  | [] => Some []
  | f :: r => match gather f sts, gather_all r sts with
              | Some c, Some st => Some ((f, c) :: st)
              | _, _ => None end
  end.
Definition l_concat_pinned (F : fmt) (ls : list lazy) : option lazy :=
  match ls with
  | [] => None
  | first :: _ =>
      match gather_all (keys (l_set first)) (map l_set ls), gather_all (keys (l_comp first)) (map l_comp ls) with
      | Some s, Some c => Some {| l_buf := concat (map l_buf ls); l_set := s; l_comp := c |}
      | _, _ => None end
  end.
(* REPAIRED (notes/C05.fix-1.diff): a field replaced in ANY operand is materialised for all of them;
   the cache is kept only for fields cached in every operand. *)
(* a column that has to be parsed for the merge and whose parser raises (SequenceID of an empty buffer) *)
Definition concat_parse_fails (F : fmt) (ls : list lazy) : bool :=
  existsb (fun f => existsb (fun l => has f (l_set l)) ls
                    && existsb (fun l => negb (has f (l_set l)) && negb (has f (l_comp l)) && sid_fail F l f) ls)
          (all_fields F).
Definition l_concat (F : fmt) (ls : list lazy) : option lazy :=
  match ls with
  | [] => None
  | first :: _ =>
      if concat_parse_fails F ls then None else
      let sk := filter (fun f => existsb (fun l => has f (l_set l)) ls) (all_fields F) in
      let ck := filter (fun f => negb (existsb (fun l => has f (l_set l)) ls) && forallb (fun l => has f (l_comp l)) ls)
                       (keys (l_comp first)) in
      Some {| l_buf := concat (map l_buf ls);
              l_set := map (fun f => (f, concat (map (fun l => l_col F l f) ls))) sk;
              l_comp := map (fun f => (f, concat (map (fun l => l_col F l f) ls))) ck |}
  end.

Fixpoint all_lazy (ts : list table) : option (list lazy) :=
  match ts with
  | [] => Some []
  | TLazy l :: r => option_map (cons l) (all_lazy r)
  | TEager _ :: _ => None
  end.
Fixpoint all_eager (ts : list table) : option (list rows) :=
  match ts with
  | [] => Some []
  | TEager t :: r => option_map (cons t) (all_eager r)
  | TLazy _ :: _ => None
  end.
(* __array_function__: all operands lazy -> buffer concatenate or fall back to the data objects;
   none lazy -> the eager np.concatenate; a mixture trips the assert on `types` *)
Definition t_concat (cc : fmt -> list lazy -> option lazy) (F : fmt) (ts : list table) : option table :=
  match ts with
  | [] => None
  | _ =>
    match all_lazy ts with
    | Some ls => if f_concat F then option_map TLazy (cc F ls)
                 else if forallb (fun l => fst (l_fill F (all_fields F) l)) ls
                      then Some (TEager (concat (map (l_rows F) ls))) else None
    | None => match all_eager ts with
              | Some rs => Some (TEager (concat rs))
              | None => None end
    end
  end.

Definition t_len (t : table) : nat :=
  match t with TLazy l => length (l_buf l) | TEager t => length t end.

Definition m_step (cc : fmt -> list lazy -> option lazy) (F : fmt) (hdr : list Z)
           (regs : list table) (o : op) : list table * obs :=
  match o with
  | OLen r => match nth_error regs r with Some t => (regs, XLen (Z.of_nat (t_len t))) | None => (regs, XErr) end
  | OGet r f =>
      match nth_error regs r with
      | Some (TLazy l) => match l_get F f l with
                          | Some (c, l') => (set_reg r (TLazy l') regs, XCol c)
                          | None => (regs, XErr) end
      | Some (TEager t) => (regs, XCol (s_get f t))
      | None => (regs, XErr) end
  | OIndex r ix =>
      match nth_error regs r with
      | Some t => match resolve (t_len t) ix with
                  | Some sel => (set_reg r (match t with TLazy l => TLazy (l_index sel l)
                                                       | TEager t => TEager (s_index sel t) end) regs, XOk)
                  | None => (regs, XErr) end
      | None => (regs, XErr) end
  | OAt r i =>      (* self[[i]].get_data_object()[0] *)
      match nth_error regs r with
      | Some t => match resolve (t_len t) (ITake [i]) with
                  | Some sel => (regs, match t with
                                       | TLazy l => if f_ragged F then XErr       (* ...[0] on a RaggedView2 column raises *)
                                                    else XRow (nth 0 (l_rows F (l_index sel l)) [])
                                       | TEager t => XRow (nth 0 (s_index sel t) []) end)
                  | None => (regs, XErr) end
      | None => (regs, XErr) end
  | OCat r srcs =>
      match nth_error regs r, get_regs regs srcs with
      | Some _, Some ts => match t_concat cc F ts with
                           | Some t => (set_reg r t regs, XOk)
                           | None => (regs, XErr) end
      | _, _ => (regs, XErr) end
  | ORep r f vals =>
      match nth_error regs r with
      | Some (TLazy l) => (set_reg r (TLazy (l_replace f vals l)) regs, XOk)
      | Some (TEager t) => (set_reg r (TEager (s_replace f vals t)) regs, XOk)
      | None => (regs, XErr) end
  | OTolist r =>
      match nth_error regs r with
      | Some (TLazy l) => let '(ok, l') := l_fill F (all_fields F) l in
                          (set_reg r (TLazy l') regs, if ok then XRows (l_rows F l) else XErr)
      | Some (TEager t) => (regs, XRows t)
      | None => (regs, XErr) end
  | OWrite r =>
      match nth_error regs r with
      | Some (TLazy l) => (regs, match l_write F hdr l with Some b => XBytes b | None => XErr end)
      | Some (TEager t) => (regs, if f_write_needs_context F then XErr else XBytes (s_write F hdr t))
      | None => (regs, XErr) end
  | OSel dst src ix =>
      match nth_error regs dst, nth_error regs src with
      | Some _, Some t => match resolve (t_len t) ix with
                          | Some sel => (set_reg dst (match t with TLazy l => TLazy (l_index sel l)
                                                                 | TEager t => TEager (s_index sel t) end) regs, XOk)
                          | None => (regs, XErr) end
      | _, _ => (regs, XErr) end
  | OWriteRead r =>   (* get_buffer's pass-through of the selected records' raw bytes, decoded field by field; the table itself
                         is left as it was (0f67f4c: the extractor is no longer re-based in place); a table with replaced
                         columns is refused by writers without supports_modified_write (the only ones this is used for) *)
      match nth_error regs r with
      | Some (TLazy l) => (regs, match l_set l with
                                 | [] => XRows (rows_of_cols dv (length (l_buf l)) (map (fun f => parse_col F f (l_buf l)) (all_fields F)))
                                 | _ => XErr end)
      | Some (TEager t) => (regs, if f_write_needs_context F then XErr else XRows t)
      | None => (regs, XErr) end
  end.

Fixpoint m_run (cc : fmt -> list lazy -> option lazy) (F : fmt) (hdr : list Z) (regs : list table) (p : list op) : list obs :=
  match p with
  | [] => []
  | o :: p' => let '(regs', x) := m_step cc F hdr regs o in x :: m_run cc F hdr regs' p'
  end.

(* ---------------------------------------------------------------- Round 6: the code after notes/C05.fix-4/5/6.diff
   `l_write`, `t_concat`, `m_step` above are now PINNED history (the code before these repairs); the current code is:
   fix-4 (dump_csv.get_column formats a numeric encoding held as a plain RaggedArray): get_buffer formats EVERY replaced
         column, `f_nowrite` is no longer consulted — the write of a lazy table cannot fail;
   fix-5 (__array_function__ without the assert on `types`): np.concatenate of lazy and materialised operands takes the
         data object of every lazy operand (get_data_object: all fields read in order) and the materialised ones as they
         are; the result is a materialised table. *)
Definition l_write6 (F : fmt) (hdr : list Z) (l : lazy) : list Z :=
  match l_buf l with [] => hdr | _ =>          (* NpBufferedWriter.write: `if len(data) == 0: return` after the header *)
  hdr ++
    match l_set l with
    | [] => concat (map r_raw (l_buf l))
    | _ => concat (map (join_fields (f_layout F))
                       (rows_of_cols [] (length (l_buf l)) (map (text_col F l) (all_fields F))))
    end
  end.
(* get_data_object of one operand of the fall-back: a materialised operand is taken as it is *)
Definition t_fill_ok (F : fmt) (t : table) : bool :=
  match t with TLazy l => fst (l_fill F (all_fields F) l) | TEager _ => true end.
Definition t_rows (F : fmt) (t : table) : rows :=
  match t with TLazy l => l_rows F l | TEager r => r end.
(* __array_function__ after fix-5: every operand lazy AND the buffer class has `concatenate` -> stays lazy;
   otherwise (no `concatenate`, or some operand already materialised) the data objects are concatenated *)
Definition t_concat6 (cc : fmt -> list lazy -> option lazy) (F : fmt) (ts : list table) : option table :=
  match ts with
  | [] => None
  | _ =>
    match all_lazy ts with
    | Some ls => if f_concat F then option_map TLazy (cc F ls)
                 else if forallb (fun l => fst (l_fill F (all_fields F) l)) ls
                      then Some (TEager (concat (map (l_rows F) ls))) else None
    | None => if forallb (t_fill_ok F) ts then Some (TEager (concat (map (t_rows F) ts))) else None
    end
  end.
Definition m_step6 (cc : fmt -> list lazy -> option lazy) (F : fmt) (hdr : list Z)
           (regs : list table) (o : op) : list table * obs :=
  match o with
  | OCat r srcs =>
      match nth_error regs r, get_regs regs srcs with
      | Some _, Some ts => match t_concat6 cc F ts with
                           | Some t => (set_reg r t regs, XOk)
                           | None => (regs, XErr) end
      | _, _ => (regs, XErr) end
  | OWrite r =>
      match nth_error regs r with
      | Some (TLazy l) => (regs, XBytes (l_write6 F hdr l))
      | Some (TEager t) => (regs, if f_write_needs_context F then XErr else XBytes (s_write F hdr t))
      | None => (regs, XErr) end
  | _ => m_step cc F hdr regs o
  end.
Fixpoint m_run6 (cc : fmt -> list lazy -> option lazy) (F : fmt) (hdr : list Z) (regs : list table) (p : list op) : list obs :=
  match p with
  | [] => []
  | o :: p' => let '(regs', x) := m_step6 cc F hdr regs o in x :: m_run6 cc F hdr regs' p'
  end.

(* the variant that models /repo as it is now *)
Definition l_concat_cur := l_concat.
Definition m_run_cur := m_run6 l_concat.
Definition t_concat_cur := t_concat6 l_concat.

(* ---------------------------------------------------------------- guards used by the theorems *)
Definition subset (a b : list nat) : bool := forallb (fun x => existsb (Nat.eqb x) b) a.
(* concatenate is faithful only when every operand has the key sets of the first one *)
Definition cat_guard (ls : list lazy) : bool :=
  match ls with
  | [] => false
  | first :: _ => forallb (fun l => subset (keys (l_set first)) (keys (l_set l))
                                    && subset (keys (l_set l)) (keys (l_set first))
                                    && subset (keys (l_comp first)) (keys (l_comp l))) ls
  end.
Definition m_guard (F : fmt) (regs : list table) (o : op) : bool :=
  match o with
  | OCat r srcs =>
      match get_regs regs srcs with
      | Some ts => match all_lazy ts with
                   | Some ls => if f_concat F then cat_guard ls
                                else forallb (fun l => fst (l_fill F (all_fields F) l)) ls
                   | None => match all_eager ts with Some _ => true | None => false end end
      | None => true end
  | ORep r f vals =>
      match nth_error regs r with
      | Some t => Nat.eqb (length vals) (t_len t)
      | None => true end
  | OWrite r =>
      match nth_error regs r with
      | Some (TLazy l) => match l_write F [] l with Some _ => join_ok F l | None => false end
      | Some (TEager _) => negb (f_write_needs_context F)
      | None => true end
  | OGet r f =>
      match nth_error regs r with
      | Some (TLazy l) => (f <? nfields F)%nat && match l_get F f l with Some _ => true | None => false end
      | _ => true end
  | OTolist r =>
      match nth_error regs r with
      | Some (TLazy l) => fst (l_fill F (all_fields F) l)
      | _ => true end
  | OAt r i =>
      match nth_error regs r with
      | Some (TLazy l) => negb (f_ragged F)
      | _ => true end
  | OWriteRead r =>
      match nth_error regs r with
      | Some (TLazy l) => match l_set l with [] => true | _ => false end
      | Some (TEager _) => negb (f_write_needs_context F)
      | None => true end
  | _ => true
  end.
(* the guard evaluated along the model's own run *)
Fixpoint m_guard_run (cc : fmt -> list lazy -> option lazy) (F : fmt) (hdr : list Z) (regs : list table) (p : list op) : bool :=
  match p with
  | [] => true
  | o :: p' => m_guard F regs o && m_guard_run cc F hdr (fst (m_step cc F hdr regs o)) p'
  end.
(* the weaker guard that suffices for the repaired concatenate: operands only must not mix lazy and materialised *)
Definition m_guard_fixed (F : fmt) (regs : list table) (o : op) : bool :=
  match o with
  | OCat r srcs =>
      match get_regs regs srcs with
      | Some ts => match all_lazy ts with
                   | Some ls => if f_concat F then negb (concat_parse_fails F ls)
                                else forallb (fun l => fst (l_fill F (all_fields F) l)) ls
                   | None => match all_eager ts with Some _ => true | None => false end end
      | None => true end
  | _ => m_guard F regs o
  end.
Fixpoint m_guard_fixed_run (cc : fmt -> list lazy -> option lazy) (F : fmt) (hdr : list Z) (regs : list table) (p : list op) : bool :=
  match p with
  | [] => true
  | o :: p' => m_guard_fixed F regs o && m_guard_fixed_run cc F hdr (fst (m_step cc F hdr regs o)) p'
  end.

(* Round 6 guard: what is left after fix-4/5 — concatenate no longer needs unmixed operands (only that no operand's
   parser raises), a write of a lazy table needs nothing (no `f_nowrite`, and join_ok is a theorem: Proofs join_ok_true) *)
Definition m_guard6 (F : fmt) (regs : list table) (o : op) : bool :=
  match o with
  | OCat r srcs =>
      match get_regs regs srcs with
      | Some ts => match all_lazy ts with
                   | Some ls => if f_concat F then negb (concat_parse_fails F ls)
                                else forallb (fun l => fst (l_fill F (all_fields F) l)) ls
                   | None => forallb (t_fill_ok F) ts end
      | None => true end
  | OWrite r =>
      match nth_error regs r with
      | Some (TEager _) => negb (f_write_needs_context F)
      | _ => true end
  | _ => m_guard F regs o
  end.
Fixpoint m_guard6_run (cc : fmt -> list lazy -> option lazy) (F : fmt) (hdr : list Z) (regs : list table) (p : list op) : bool :=
  match p with
  | [] => true
  | o :: p' => m_guard6 F regs o && m_guard6_run cc F hdr (fst (m_step6 cc F hdr regs o)) p'
  end.

(* a record is canonically spelled when every field text is what the writer prints for its value and
   the record's bytes are the layout of those texts *)
Fixpoint cells_canon (ks : list kind) (cells : list (list Z)) : bool :=
  match ks, cells with
  | [], [] => true
  | k :: ks', c :: cells' => zlist_eqb (print k (parse k c)) c && cells_canon ks' cells'
  | _, _ => false
  end.
Definition rec_canon (F : fmt) (r : rawrec) : bool :=
  cells_canon (f_kinds F) (r_fields r) && zlist_eqb (r_raw r) (render (f_layout F) (r_fields r)).
(* write observations erased: what is compared on files that are not canonically spelled *)
Definition erase (x : obs) : obs := match x with XBytes _ => XBytes [] | _ => x end.

(* ---------------------------------------------------------------- the EAGER implementation, where it is not the Spec
   An eagerly read table is the row list of the Spec, plus whether it still carries the file's header context
   (npdataclass context: only the object returned by read() has it; every derived table — indexing, replace,
   concatenate, hence also a chunked read — has lost it).  Everything but `write` is the Spec's step. *)
Definition etable := (rows * bool)%type.
Definition e_write (F : fmt) (hdr : list Z) (t : etable) : obs :=
  let h := if snd t then hdr else f_default_hdr F in
  if f_write_needs_context F && negb (snd t) then XErr else
  match fst t, hdr with
  | _ :: _, _ :: _ => if f_eager_write_fails F then XErr else XBytes (s_write F h (fst t))
  | _, _ => XBytes (s_write F h (fst t))      (* an empty table: the header is written, then the writer returns *)
  end.
Definition e_step (F : fmt) (hdr : list Z) (regs : list etable) (o : op) : list etable * obs :=
  match o with
  | OWrite r => match nth_error regs r with Some t => (regs, e_write F hdr t) | None => (regs, XErr) end
  | OWriteRead r => match nth_error regs r with
                    | Some t => (regs, if f_write_needs_context F && negb (snd t) then XErr else XRows (fst t))
                    | None => (regs, XErr) end
  | _ => let '(rs, x) := s_step F hdr (map fst regs) o in
         (* the register an operation assigns holds a derived table: no header context *)
         let ctx := match o, x with
                    | OIndex r _, XOk | OCat r _, XOk | ORep r _ _, XOk | OSel r _ _, XOk => set_nth r false (map snd regs)
                    | _, _ => map snd regs end in
         (combine rs ctx, x)
  end.
Fixpoint e_run (F : fmt) (hdr : list Z) (regs : list etable) (p : list op) : list obs :=
  match p with
  | [] => []
  | o :: p' => let '(regs', x) := e_step F hdr regs o in x :: e_run F hdr regs' p'
  end.
(* the eager implementation is the Spec exactly when the file has no header lines and the writer has no default header *)
Definition eager_guard (F : fmt) (hdr : list Z) : bool :=
  negb (f_write_needs_context F) && match hdr, f_default_hdr F with [], [] => true | _, _ => false end.

(* Round 6 (notes/C05.fix-6.diff: VCFBuffer types the info column as text unless the header has ##INFO lines, and writes
   an info column parsed from ##INFO lines back as the text it was read from): the eager writer no longer refuses a table
   read from a file with header lines — `f_eager_write_fails` is not consulted any more; e_write/e_step/e_run above are
   PINNED history. *)
Definition e_write6 (F : fmt) (hdr : list Z) (t : etable) : obs :=
  let h := if snd t then hdr else f_default_hdr F in
  if f_write_needs_context F && negb (snd t) then XErr else XBytes (s_write F h (fst t)).
Definition e_step6 (F : fmt) (hdr : list Z) (regs : list etable) (o : op) : list etable * obs :=
  match o with
  | OWrite r => match nth_error regs r with Some t => (regs, e_write6 F hdr t) | None => (regs, XErr) end
  | _ => e_step F hdr regs o
  end.
Fixpoint e_run6 (F : fmt) (hdr : list Z) (regs : list etable) (p : list op) : list obs :=
  match p with
  | [] => []
  | o :: p' => let '(regs', x) := e_step6 F hdr regs o in x :: e_run6 F hdr regs' p'
  end.
Definition e_run_cur := e_run6.
(* the eager implementation is the Spec at a write step exactly when the table still has its header context (the table
   returned by read()), or there is no header to lose (what remains is C05-header-lost-on-derived-eager-table) *)
Definition e_guard6 (F : fmt) (hdr : list Z) (regs : list etable) (o : op) : bool :=
  match o with
  | OWrite r =>
      match nth_error regs r with
      | Some t => snd t || (negb (f_write_needs_context F) && match hdr, f_default_hdr F with [], [] => true | _, _ => false end)
      | None => true end
  | OWriteRead r =>
      match nth_error regs r with
      | Some t => snd t || negb (f_write_needs_context F)
      | None => true end
  | _ => true
  end.
Fixpoint e_guard6_run (F : fmt) (hdr : list Z) (regs : list etable) (p : list op) : bool :=
  match p with
  | [] => true
  | o :: p' => e_guard6 F hdr regs o && e_guard6_run F hdr (fst (e_step6 F hdr regs o)) p'
  end.

(* ---------------------------------------------------------------- Round 6, part 2: the program language extended
   xop = the ten operations above, plus
     XSortBy r f : r := r.sort_by(<field f>)   (BNPDataClass.sort_by, inherited by the lazy class:
                   key = getattr(self, name)  — on a lazy table __getattr__, which CACHES the parsed column —,
                   text keys compared as bytes (as_string_array(...).raw()), then self[np.argsort(key, kind='stable')]:
                   __getitem__ with an integer list, so all three stores are indexed, the freshly cached key included).
   The order on values is the one np.argsort uses on the key arrays: integers numerically, texts bytewise
   (a proper prefix first).  argsort is a STABLE insertion sort of (key, position) pairs. *)
Fixpoint lex_leb (a b : list Z) : bool :=
  match a, b with
  | [], _ => true
  | _ :: _, [] => false
  | x :: a', y :: b' => if x <? y then true else if y <? x then false else lex_leb a' b'
  end.
Definition value_leb (a b : value) : bool :=
  match a, b with
  | VI x, VI y => x <=? y
  | VS x, VS y => lex_leb x y
  | VI _, VS _ => true
  | VS _, VI _ => false
  end.
(* insert p (whose position is smaller than every position in l) in front of the first entry that is not smaller *)
Fixpoint ins_key (p : value * nat) (l : list (value * nat)) : list (value * nat) :=
  match l with
  | [] => [p]
  | q :: r => if value_leb (fst p) (fst q) then p :: q :: r else q :: ins_key p r
  end.
Definition argsort (col : list value) : list nat :=
  map snd (fold_right ins_key [] (combine col (seq 0 (length col)))).

Inductive xop := XB (o : op) | XSortBy (r f : nat).

Definition s_xstep (F : fmt) (hdr : list Z) (regs : list rows) (o : xop) : list rows * obs :=
  match o with
  | XB o => s_step F hdr regs o
  | XSortBy r f => match nth_error regs r with
                   | Some t => (set_reg r (s_index (argsort (s_get f t)) t) regs, XOk)
                   | None => (regs, XErr) end
  end.
Fixpoint s_xrun (F : fmt) (hdr : list Z) (regs : list rows) (p : list xop) : list obs :=
  match p with
  | [] => []
  | o :: p' => let '(regs', x) := s_xstep F hdr regs o in x :: s_xrun F hdr regs' p'
  end.

Definition m_xstep (cc : fmt -> list lazy -> option lazy) (F : fmt) (hdr : list Z)
           (regs : list table) (o : xop) : list table * obs :=
  match o with
  | XB o => m_step6 cc F hdr regs o
  | XSortBy r f =>
      match nth_error regs r with
      | Some (TLazy l) => match l_get F f l with
                          | Some (c, l') => (set_reg r (TLazy (l_index (argsort c) l')) regs, XOk)
                          | None => (regs, XErr) end
      | Some (TEager t) => (set_reg r (TEager (s_index (argsort (s_get f t)) t)) regs, XOk)
      | None => (regs, XErr) end
  end.
Fixpoint m_xrun (cc : fmt -> list lazy -> option lazy) (F : fmt) (hdr : list Z) (regs : list table) (p : list xop) : list obs :=
  match p with
  | [] => []
  | o :: p' => let '(regs', x) := m_xstep cc F hdr regs o in x :: m_xrun cc F hdr regs' p'
  end.
Definition m_xguard (F : fmt) (regs : list table) (o : xop) : bool :=
  match o with
  | XB o => m_guard6 F regs o
  | XSortBy r f => (f <? nfields F)%nat && m_guard F regs (OGet r f)     (* an existing field whose parser does not raise *)
  end.
Fixpoint m_xguard_run (cc : fmt -> list lazy -> option lazy) (F : fmt) (hdr : list Z) (regs : list table) (p : list xop) : bool :=
  match p with
  | [] => true
  | o :: p' => m_xguard F regs o && m_xguard_run cc F hdr (fst (m_xstep cc F hdr regs o)) p'
  end.

(* the eager implementation: the Spec's step; the sorted table is a derived one (no header context) *)
Definition e_xstep (F : fmt) (hdr : list Z) (regs : list etable) (o : xop) : list etable * obs :=
  match o with
  | XB o => e_step6 F hdr regs o
  | XSortBy r f => match nth_error regs r with
                   | Some t => (set_reg r (s_index (argsort (s_get f (fst t))) (fst t), false) regs, XOk)
                   | None => (regs, XErr) end
  end.
Fixpoint e_xrun (F : fmt) (hdr : list Z) (regs : list etable) (p : list xop) : list obs :=
  match p with
  | [] => []
  | o :: p' => let '(regs', x) := e_xstep F hdr regs o in x :: e_xrun F hdr regs' p'
  end.
Definition e_xguard (F : fmt) (hdr : list Z) (regs : list etable) (o : xop) : bool :=
  match o with XB o => e_guard6 F hdr regs o | XSortBy _ _ => true end.
Fixpoint e_xguard_run (F : fmt) (hdr : list Z) (regs : list etable) (p : list xop) : bool :=
  match p with
  | [] => true
  | o :: p' => e_xguard F hdr regs o && e_xguard_run F hdr (fst (e_xstep F hdr regs o)) p'
  end.

Definition m_xrun_cur := m_xrun l_concat.
Definition e_xrun_cur := e_xrun.

(* ---------------------------------------------------------------- decision rules, named
   Bridge/C05.v proves (a) that the rules regenerated from /repo on every run (Gen/C05.v, translate/gen_c05.py) are
   these, and (b) that the functions above follow them.  Codes for "where a column comes from":
   0 = _set_values, 1 = parsed from the buffer through the item getter, 2 = _computed_values, 3 = not a field. *)
Definition m_getattr_source (in_set is_field in_cache : bool) : Z :=
  if in_set then 0 else if is_field then (if in_cache then 2 else 1) else 3.
Definition m_get_field_parses_buffer : bool := true.
Definition m_getitem_indexes_buffer : bool := true.
Definition m_getitem_indexes_overlay : bool := true.
Definition m_getitem_indexes_cache : bool := true.
Definition m_getitem_scalar_row : Z := 0.
Definition m_itemgetter_getitem_resets_start_line : bool := true.   (* line numbers are C15's; no start line in this model *)
Definition m_replace_into_overlay : bool := true.
Definition m_replace_new_overrides_old : bool := true.
Definition m_replace_keeps_cache : bool := false.
Definition m_data_object_reads_all_fields_in_order : bool := true.
Definition m_concat_stays_lazy (all_operands_lazy has_concat : bool) : bool := all_operands_lazy && has_concat.
Definition m_concat_requires_all_lazy : bool := false.          (* fix-5: no assert on `types` any more *)
Definition m_concat_fallback_materialises_lazy_only : bool := true.
Definition m_concat_column_source (in_set in_cache : bool) : Z := if in_set then 0 else if in_cache then 2 else 1.
Definition m_concat_set_key (some_operand_replaced : bool) : bool := some_operand_replaced.
Definition m_concat_cache_key (some_operand_replaced every_operand_cached : bool) : bool :=
  negb some_operand_replaced && every_operand_cached.
(* get_buffer: 1 = serialise the data object, 2 = raw pass-through, 3 = refuse, 4 = join text columns *)
Definition m_get_buffer_path (has_text buffer_skips class_skips any_replaced same_class supports_modified : bool) : Z :=
  if negb has_text || (buffer_skips || class_skips) then 1
  else if negb any_replaced && same_class then 2
  else if negb supports_modified then 3 else 4.
Definition m_write_column_source (in_set : bool) : Z := if in_set then 0 else 1.
Definition m_write_columns_in_field_order : bool := true.
Definition m_should_be_lazy (config_lazy arg_none arg_false has_getter has_dataclass is_gtf : bool) : bool :=
  if (negb config_lazy && arg_none) || arg_false then false else (has_getter && has_dataclass) && negb is_gtf.
(* BNPDataClass.sort_by, not overridden by the lazy class *)
Definition m_sort_by_key_through_getattr : bool := true.
Definition m_sort_by_text_key_bytewise : bool := true.
Definition m_sort_by_stable : bool := true.
Definition m_sort_by_indexes_self : bool := true.

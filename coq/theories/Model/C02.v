(* Model/C02.v — text-format parsing: what the format says (Spec) and what bionumpy computes (Model).
   Spec  : records are lines, fields are split on TAB, numerals are read by Horner's rule, lists are split
           on ',', INFO items on ';' — no offsets, no tables.
   Model : the library's algorithms — delimiter-position table and reshape (delimited_buffers.py:52-83,279-294),
           carriage-return adjustment decided from the first row, right-aligned zero-filled digit matrix
           (file_buffers.py:21-31,355-376), signed ragged path and parse_with_missing (strops.py:69-123),
           list split (delimited_buffers.py:250-266), SAM rest-of-line (buffers/sam.py), interior-comment
           deletion (delimited_buffers.py:494-542), header skipping (file_buffers.py:134-166), FASTQ / FASTA
           line roles (one_line_buffer.py, multiline_buffer.py), INFO item table and key lookup
           (vcf_buffers.py:131-153, named_text_buffer.py), genotype codes (vcf_encoding.py).
   Executable definitions only; proofs live in Proofs/C02.v. *)
From Coq Require Import ZArith List Bool.
From BNP Require Import Base.Prims.
Import ListNotations.
Open Scope Z_scope.

(* ------------------------------------------------------------------ values *)
Inductive cell :=
| CBytes (b : list Z)          (* text, sequence, strand symbol *)
| CInt (z : Z)
| CRat (a b : Z)               (* the number a / b, b > 0 (observed doubles are exact dyadic rationals) *)
| CNan
| CInts (l : list Z)
| CRats (l : list (Z * Z))
| CBool (b : bool)
| CTexts (l : list (list Z)).     (* one text per sample: a row of the genotype string matrix *)
Inductive colres := ColErr | Col (c : list cell).
Inductive obs := ObsErr | Obs (n : Z) (cols : list colres) (eager_ok : bool).

Inductive itype := IInteger | IFloat | IFlag | IString.
Definition decls := list (list Z * itype * bool).        (* INFO key, declared type, list-valued *)

Inductive ctype := TStr | TSid | TInt | TIntM1 | TOptInt | TFloat | TStrand | TQual | TIntList | TRest.
Inductive format := Fbed3 | Fbed6 | Fbed12 | Fbdg | Fnpk | Fsizes | Fgtf | Fgff | Fwig | Fpairs | Fsam | Fgfa
                  | Fvcf | Fvcfgt | Fvcfph | Fvcfhap | Fvcf2 | Ffastq | Ffasta2 | Ffasta.

Definition bed3_cols := [(0, TSid); (1, TInt); (2, TInt)].
Definition bed6_cols := bed3_cols ++ [(3, TSid); (4, TOptInt); (5, TStrand)].
Definition gtf_cols := [(0, TSid); (1, TStr); (2, TSid); (3, TInt); (4, TInt); (5, TStr); (6, TStrand); (7, TStr); (8, TStr)].
Definition vcf_cols := [(0, TSid); (1, TIntM1); (2, TStr); (3, TStr); (4, TStr); (5, TStr); (6, TStr)].
(* which field of a record each dataclass column is read from, and how it is typed *)
Definition schema (f : format) : list (Z * ctype) :=
  match f with
  | Fbed3 => bed3_cols
  | Fbed6 => bed6_cols
  | Fbed12 => bed6_cols ++ [(6, TInt); (7, TInt); (8, TStr); (9, TInt); (10, TIntList); (11, TIntList)]
  | Fbdg | Fwig => bed3_cols ++ [(3, TFloat)]
  | Fnpk => bed6_cols ++ [(6, TFloat); (7, TFloat); (8, TFloat); (9, TInt)]
  | Fsizes => [(0, TStr); (1, TInt)]
  | Fgtf | Fgff => gtf_cols
  | Fpairs => [(0, TStr); (1, TSid); (2, TInt); (3, TSid); (4, TInt); (5, TStrand); (6, TStrand)]
  | Fsam => [(0, TSid); (1, TInt); (2, TSid); (3, TInt); (4, TInt); (5, TStr); (6, TStr); (7, TInt); (8, TInt);
             (9, TStr); (10, TStr); (11, TRest)]
  | Fgfa => [(1, TSid); (2, TStr)]
  | Fvcf | Fvcfgt | Fvcfph | Fvcfhap | Fvcf2 => vcf_cols
  (* names of FASTQ / FASTA entries become a string array through string_array(ragged text), which (since /repo
     b1580f3, 3ac7cac) accepts a column of only-empty names; the fixed-width matrix of get_padded_field (TSid) does not *)
  | Ffastq => [(0, TStr); (1, TStr); (3, TQual)]
  | Ffasta2 | Ffasta => [(0, TStr); (1, TStr)]
  end.
(* byte that marks the leading header block (FileBuffer.COMMENT); 0 = the format has none *)
Definition comment_byte (f : format) : Z :=
  match f with Fsam => 64 | Ffastq | Ffasta2 | Ffasta => 0 | _ => 35 end.
(* formats whose read() parses every column at once (GTF/GFF entries, wrapped FASTA): one failing column fails the read *)
Definition eager_format (f : format) : bool :=
  match f with Fgtf | Fgff | Ffasta => true | _ => false end.

Fixpoint mapM {A B} (f : A -> option B) (l : list A) : option (list B) :=
  match l with
  | [] => Some []
  | x :: r => match f x, mapM f r with Some y, Some ys => Some (y :: ys) | _, _ => None end
  end.
Definition hd0 (l : list Z) : Z := match l with x :: _ => x | [] => 0 end.
Definition is_digit (c : Z) : bool := (48 <=? c) && (c <=? 57).

(* ================================================================== SPEC *)
Fixpoint horner (acc : Z) (l : list Z) : option Z :=
  match l with
  | [] => Some acc
  | c :: r => if is_digit c then horner (10 * acc + (c - 48)) r else None
  end.
Definition uint_of_text (l : list Z) : option Z := match l with [] => None | _ => horner 0 l end.
Definition int_of_text (l : list Z) : option Z :=
  match l with
  | [] => None
  | c :: r => if c =? 45 then option_map Z.opp (uint_of_text r)
              else if c =? 43 then uint_of_text r else uint_of_text l
  end.
Fixpoint split_first (c : Z) (l : list Z) : list Z * option (list Z) :=
  match l with
  | [] => ([], None)
  | x :: r => if x =? c then ([], Some r) else let '(a, b) := split_first c r in (x :: a, b)
  end.
(* decimal numeral [+-]?(d+[.d*]?|.d+)(e[+-]?d+)? as an exact rational *)
Definition dec_of_text (l : list Z) : option (Z * Z) :=
  let '(mant, ex) := split_first 101 l in
  let neg := hd0 mant =? 45 in
  let body := if neg || (hd0 mant =? 43) then tl mant else mant in
  let '(ip, fp) := split_first 46 body in
  let fp := match fp with Some x => x | None => [] end in
  match uint_of_text (ip ++ fp), (match ex with None => Some 0 | Some e => int_of_text e end) with
  | Some n, Some e =>
      let n := if neg then - n else n in
      let k := len fp in
      Some (if k <=? e then (n * 10 ^ (e - k), 1) else (n, 10 ^ (k - e)))
  | _, _ => None
  end.
(* "a,b,c" or "a,b,c," -> [a;b;c] *)
Definition list_items (l : list Z) : list (list Z) :=
  let parts := split_on 44 l in
  match rev parts with [] :: r => rev r | _ => parts end.

Definition is_strand (c : Z) : bool := (c =? 43) || (c =? 45) || (c =? 46).
Definition field (r : list (list Z)) (j : Z) : list Z := nth (Z.to_nat j) r [].

Definition spec_cell (t : ctype) (r : list (list Z)) (j : Z) : option cell :=
  let f := field r j in
  match t with
  | TStr | TSid => Some (CBytes f)
  | TInt => option_map CInt (int_of_text f)
  | TIntM1 => option_map (fun v => CInt (v - 1)) (int_of_text f)
  | TOptInt => if zlist_eqb f [46] then Some (CInt 0) else option_map CInt (int_of_text f)
  | TFloat => option_map (fun '(a, b) => CRat a b) (dec_of_text f)
  | TStrand => match f with [c] => if is_strand c then Some (CBytes f) else None | _ => None end
  | TQual => Some (CInts (map (fun c => c - 33) f))
  | TIntList => option_map CInts (mapM int_of_text (list_items f))
  | TRest => Some (CBytes (intercalate [9] (skipn (Z.to_nat j) r)))
  end.
Definition spec_col (recs : list (list (list Z))) (jt : Z * ctype) : colres :=
  match mapM (fun r => spec_cell (snd jt) r (fst jt)) recs with Some c => Col c | None => ColErr end.

(* ---- INFO: items separated by ';', "." = no item; key=value or bare flag ---- *)
Definition info_items (txt : list Z) : list (list Z) := if zlist_eqb txt [46] then [] else split_on 59 txt.
Fixpoint strip_prefix (p l : list Z) : option (list Z) :=
  match p, l with
  | [], _ => Some l
  | a :: p', b :: l' => if a =? b then strip_prefix p' l' else None
  | _ :: _, [] => None
  end.
Fixpoint info_value (key : list Z) (items : list (list Z)) : option (list Z) :=
  match items with
  | [] => None
  | it :: r => match strip_prefix (key ++ [61]) it with Some v => Some v | None => info_value key r end
  end.
Definition rat_cell (p : Z * Z) : cell := CRat (fst p) (snd p).
Definition spec_info_cell (d : list Z * itype * bool) (txt : list Z) : option cell :=
  let '(key, ty, lst) := d in
  let items := info_items txt in
  let v := info_value key items in
  match ty with
  | IFlag => Some (CBool (existsb (zlist_eqb key) items))
  | IString => Some (CBytes (match v with Some x => x | None => [] end))
  | IInteger =>
      match v with
      | None => Some (if lst then CInts [] else CInt 0)
      | Some x => if lst then option_map CInts (mapM int_of_text (list_items x))
                  else if zlist_eqb x [46] then Some (CInt 0) else option_map CInt (int_of_text x)
      end
  | IFloat =>
      match v with
      | None => Some (if lst then CRats [] else CNan)
      | Some x => if lst then option_map CRats (mapM dec_of_text (list_items x))
                  else if zlist_eqb x [46] then Some CNan else option_map rat_cell (dec_of_text x)
      end
  end.
Definition spec_info_col (recs : list (list (list Z))) (d : list Z * itype * bool) : colres :=
  match mapM (fun r => spec_info_cell d (field r 7)) recs with Some c => Col c | None => ColErr end.

(* ---- genotype symbols -> codes (the encodings' own definition) ---- *)
Definition gt_idx (c : Z) : Z :=
  if c =? 48 then 0 else if c =? 49 then 1 else if c =? 50 then 2 else if c =? 46 then 3
  else if c =? 124 then 4 else if c =? 47 then 5 else 0.
Definition int8 (z : Z) : Z := let m := z mod 256 in if 128 <=? m then m - 256 else m.
Definition hap_idx (c : Z) : Z := if (48 <=? c) && (c <=? 52) then c - 48 else if c =? 46 then 5 else 0.
Definition geno_codes (f : format) (gt : list Z) : list Z :=
  let a := nthZ gt 0 in let s := nthZ gt 1 in let b := nthZ gt 2 in
  match f with
  | Fvcfgt => [int8 (36 * gt_idx a + 6 * gt_idx s + gt_idx b)]
  | Fvcfph => [(if a =? 49 then 2 else 0) + (if b =? 49 then 1 else 0)]
  | Fvcfhap => [hap_idx a; hap_idx b]
  | _ => []
  end.
Definition has_geno (f : format) : bool := match f with Fvcfgt | Fvcfph | Fvcfhap => true | _ => false end.
Definition spec_geno_col (f : format) (recs : list (list (list Z))) : colres :=
  Col (map (fun r => CInts (concat (map (fun smp => geno_codes f (firstn 3 smp)) (skipn 9 r)))) recs).

(* VCFBuffer2: the genotype column is, per record, the GT sub-field (the text before the first ':') of every sample cell *)
Definition gt_subfield (cell : list Z) : list Z := fst (split_first 58 cell).
Definition spec_geno2_col (recs : list (list (list Z))) : colres :=
  Col (map (fun r => CTexts (map gt_subfield (skipn 9 r))) recs).
Definition has_geno2 (f : format) : bool := match f with Fvcf2 => true | _ => false end.

Definition spec_cols (f : format) (d : option decls) (recs : list (list (list Z))) : list colres :=
  map (spec_col recs) (schema f)
  ++ (match f with
      | Fvcf | Fvcfgt | Fvcfph | Fvcfhap | Fvcf2 =>
          match d with None => [spec_col recs (7, TStr)] | Some ds => map (spec_info_col recs) ds end
      | _ => [] end)
  ++ (if has_geno f then [spec_geno_col f recs] else [])
  ++ (if has_geno2 f then [spec_geno2_col recs] else []).

(* ---- layout: how the records are written in the file ---- *)
Definition eol_of (crlf : bool) : list Z := if crlf then [13; 10] else [10].
Definition rec_lines (f : format) (w : Z) (r : list (list Z)) : list (list Z) :=
  match f with
  | Ffastq => [64 :: field r 0; field r 1; 43 :: field r 2; field r 3]
  | Ffasta2 => [62 :: field r 0; field r 1]
  | Ffasta => (62 :: field r 0) :: chunks_of (Z.to_nat w) (field r 1)
  | _ => [intercalate [9] r]
  end.
Fixpoint body_lines (f : format) (w : Z) (recs : list (list (list Z))) (comments : list (list (list Z))) : list (list Z) :=
  match recs with
  | [] => concat comments
  | r :: rs => match comments with
               | c :: cs => c ++ rec_lines f w r ++ body_lines f w rs cs
               | [] => rec_lines f w r ++ body_lines f w rs []
               end
  end.
Definition lay (e : list Z) (ls : list (list Z)) : list Z := concat (map (fun l => l ++ e) ls).
(* [final] = the file ends with a line break.  When it does not, the reader appends a bare LF (parser.py,
   __add_newline_to_end), also to a CRLF file. *)
Definition spec_file (f : format) (w : Z) (crlf final : bool) (header : list (list Z)) recs comments : list Z :=
  let full := lay (eol_of crlf) (header ++ body_lines f w recs comments) in
  if final || negb crlf then full else firstn (length full - 2) full ++ [10].

(* ---- vocabulary of the theorems ---- *)
(* a field text: no TAB, no line feed, no carriage return *)
Definition clean (f : list Z) : Prop := forall c, In c f -> c <> 9 /\ c <> 10 /\ c <> 13.
(* a decimal numeral with optional sign *)
Definition all_digits (l : list Z) : bool := forallb is_digit l.
Definition numeral (l : list Z) : bool :=
  match l with
  | [] => false
  | c :: r => if (c =? 45) || (c =? 43) then negb (len r =? 0) && all_digits r else all_digits l
  end.

(* ================================================================== MODEL *)
(* data[i] with Python's wrap-around for negative i *)
Definition py_get (data : list Z) (i : Z) : Z := if i <? 0 then nthZ data (len data + i) else nthZ data i.

(* FileBuffer.read_header: consume leading lines whose first byte is the comment byte *)
Fixpoint skip_hdr (c : Z) (in_comment : bool) (l : list Z) {struct l} : list Z :=
  match l with
  | [] => []
  | x :: r => if in_comment then skip_hdr c (negb (x =? 10)) r
              else if x =? c then skip_hdr c true r else l
  end.
Definition skip_header (c : Z) (file : list Z) : list Z := if c =? 0 then file else skip_hdr c false file.

Record table := { t_data : list Z; t_starts : list (list Z); t_ends : list (list Z); t_eends : list Z }.

Definition reshape (n : Z) (l : list Z) : option (list (list Z)) :=
  if (0 <? n) && (len l mod n =? 0) then Some (chunks_of (Z.to_nat n) l) else None.
Definition lastz (l : list Z) : Z := last l 0.
Definition set_last (l : list Z) (v : Z) : list Z := removelast l ++ [v].

(* ---- the index / offset formulas of the code, by name.  Gen/C02.v regenerates each of them from /repo on every
   run and Bridge/C02.v proves the regenerated formula equal to the one used here (theorem C02_source_tie). ---- *)
Definition m_n_fields (e0 : Z) : Z := e0 + 1.                 (* _get_n_fields: entry_ends[0] + 1 *)
Definition m_size (d_last : Z) : Z := d_last + 1.             (* from_raw_buffer: delimiters[entry_ends[-1]] + 1 *)
Definition m_keep (e_last : Z) : Z := e_last + 1.             (* delimiters[:entry_ends[-1] + 1] *)
Definition m_sentinel : Z := -1.                              (* np.insert(..., 0, -1) *)
Definition m_start : Z -> Z := Z.add 1.                       (* starts = delimiters[:-1] + 1 *)
Definition m_entry_end (e_last : Z) : Z := e_last + 1.        (* entry_ends = ends[:, -1] + 1, taken BEFORE the CR adjustment *)
Definition m_entry_ends_before_cr : bool := true.
Definition m_cr_probe (e : Z) : Z := e - 1.                   (* data[ends[.., -1] - 1] *)
Definition m_cr_byte : Z := 13.
Definition m_cr_adjust (e c : Z) : Z := e - (if c =? m_cr_byte then 1 else 0).   (* ends[:, -1] -= data[...] == '\r' *)
Definition m_mida_n_fill (s e mx : Z) : Z := mx - (e - s).    (* max_chars - (ends - starts) cells get the fill value *)
Definition m_mida_index (e mx j : Z) : Z := e - mx + j.       (* (ends - max_chars) + arange(max_chars) *)
Definition m_keep_end (e : Z) : Z := e + 1.                   (* keep_sep: lens + 1 *)
Definition m_pos_shift (v : Z) : Z := v - 1.                  (* VCF: val -= 1 for column 1 *)
Definition m_pos_shift_col : Z := 1.
Definition m_extra_start (e10 : Z) : Z := e10 + 1.            (* SAM: field_starts[:, -1] + field_lens[:, -1] + 1 *)
Definition m_extra_end0 (ee : Z) : Z := ee - 1.                 (* the line break *)
Definition m_extra_probe (e : Z) : Z := Z.max (e - 1) 0.       (* data[np.maximum(ends - 1, 0)] *)
Definition m_extra_end (e c : Z) : Z := e - (if c =? m_cr_byte then 1 else 0).   (* a CR before the line break is not part of the tags *)
Definition m_extra_len (en st : Z) : Z := Z.max (en - st) 0.
Definition m_line_len (k : Z) : Z := k + 1.                   (* has_field_mask: len(name) + 1 *)
Definition m_ignored (s k size : Z) : bool := s + m_line_len k >=? size.
Definition m_flag_len_match (l k : Z) : bool := l =? k.        (* has_field_name: only items exactly as long as the key are compared *)
Definition m_value_start (s k : Z) : Z := s + m_line_len k.
Definition m_value_len (l k : Z) (keep : bool) : Z := l - m_line_len k + (if keep then 1 else 0).

(* DelimitedBuffer._modify_for_carriage_return: decided from the first row, applied to every row *)
Definition cr_adjust (data : list Z) (ends : list (list Z)) : list (list Z) :=
  match ends with
  | [] => ends
  | r0 :: _ =>
      let e0 := lastz r0 in
      if (len data =? 0) || (e0 =? 0) then ends
      else if nthZ data (m_cr_probe e0) =? m_cr_byte
           then map (fun r => let e := lastz r in set_last r (m_cr_adjust e (py_get data (m_cr_probe e)))) ends
           else ends
  end.

Definition is_delim (sep c : Z) : bool := (c =? 10) || (c =? sep).
Definition delim_positions (sep : Z) (data : list Z) : list Z := flatnonzero (map (is_delim sep) data).
Definition nl_indices (data delims : list Z) : list Z := flatnonzero (map (fun d => nthZ data d =? 10) delims).

(* DelimitedBuffer.from_raw_buffer + _get_buffer_extractor *)
Definition delim_table (sep : Z) (chunk : list Z) : option table :=
  let delims := delim_positions sep chunk in
  let ee := nl_indices chunk delims in
  match ee with
  | [] => None
  | e0 :: _ =>
      let n := m_n_fields e0 in
      let laste := lastz ee in
      let size := m_size (nthZ delims laste) in
      let delims' := m_sentinel :: firstn (Z.to_nat (m_keep laste)) delims in
      let data := firstn (Z.to_nat size) chunk in
      match reshape n (map m_start (removelast delims')), reshape n (tl delims') with
      | Some s, Some e =>
          let e' := cr_adjust data e in
          Some {| t_data := data; t_starts := s; t_ends := e';
                  t_eends := map (fun r => m_entry_end (lastz r)) (if m_entry_ends_before_cr then e else e') |}
      | _, _ => None
      end
  end.

Fixpoint split_by (lens : list Z) (l : list Z) : list (list Z) :=
  match lens with
  | [] => []
  | n :: r => firstn (Z.to_nat n) l :: split_by r (skipn (Z.to_nat n) l)
  end.
(* SAMBuffer: rows have different numbers of delimiters; the first 11 fields form the table, the rest of the
   line is one more field. *)
Definition sam_table (chunk : list Z) : option table :=
  let delims := delim_positions 9 chunk in
  let ee := nl_indices chunk delims in
  match ee with
  | [] => None
  | e0 :: _ =>
      let counts := (e0 + 1) :: diff ee in
      let laste := lastz ee in
      let size := nthZ delims laste + 1 in
      let delims' := (-1) :: firstn (Z.to_nat (laste + 1)) delims in
      let data := firstn (Z.to_nat size) chunk in
      let s := split_by counts (map (Z.add 1) (removelast delims')) in
      let e := split_by counts (tl delims') in
      (* /repo 6bbd290: SAMBuffer._modify_for_carriage_return on the ragged field ends — decided from the first row,
         the last end of every row moves before a CR; entry_ends are taken before that *)
      let e' := cr_adjust data e in
      if forallb (fun r => 11 <=? len r) s then
        Some {| t_data := data; t_starts := map (firstn 11) s; t_ends := map (firstn 11) e';
                t_eends := map (fun r => m_entry_end (lastz r)) e |}
      else None
  end.

Fixpoint find_index (p : Z -> bool) (i : Z) (l : list Z) : option Z :=
  match l with [] => None | x :: r => if p x then Some i else find_index p (i + 1) r end.
(* >>> proposed repairs of the two open findings; the model follows /repo HEAD (both false).
   after notes/C02.fix-4.diff is applied: ic_cr_adjusts := true   (GFF3 / wig: the CR is removed from the last column)
   after notes/C02.fix-5.diff is applied: ic_comment_tabs_ignored := true   (a TAB inside a comment line is no delimiter) <<< *)
Definition ic_cr_adjusts : bool := true. 
Definition ic_comment_tabs_ignored : bool := true. 
Fixpoint ic_scan (i : Z) (at_start in_comment : bool) (l : list Z) : list Z :=
  match l with
  | [] => []
  | c :: r => let inc := if at_start then c =? 35 else in_comment in
              (if (c =? 10) || ((c =? 9) && negb inc) then [i] else []) ++ ic_scan (i + 1) (c =? 10) inc r
  end.
Definition ic_delims (data : list Z) : list Z :=
  if ic_comment_tabs_ignored then ic_scan 0 true false data else delim_positions 9 data.
(* the index formulas of DelimitedBufferWithInernalComments, by name (regenerated from /repo into Gen/C02.v, bridged) *)
Definition m_ic_probe (d : Z) : Z := d + 1.          (* data[delimiters[:-1] + 1] == COMMENT *)
Definition m_ic_end_del : Z -> Z := Z.add 1.         (* np.delete(delimiters, comment_mask + 1) *)
Definition m_ic_sentinel : Z := -1.                  (* np.insert(start_delimiters, 0, -1) *)
Definition m_ic_start : Z -> Z := Z.add 1.           (* return start_delimiters + 1, ... *)
Definition m_ic_n_fields (i : Z) : Z := i + 1.       (* next(i for i, d in enumerate(ends) if data[d] == '\n') + 1 *)
(* DelimitedBufferWithInernalComments: delimiters that open / close a comment line are deleted *)
Definition ic_table (chunk : list Z) : option table :=
  match rev (positions 10 chunk) with
  | [] => None
  | lastnl :: _ =>
      let data := firstn (Z.to_nat (lastnl + 1)) chunk in
      let delims := ic_delims data in
      let cm := flatnonzero (map (fun d => (nthZ data d =? 10) && (nthZ data (m_ic_probe d) =? 35)) (removelast delims)) in
      let sd := removelast (np_delete delims cm) in
      let ed := np_delete delims (map m_ic_end_del cm) in
      let sd' := if nthZ data 0 =? 35 then sd else m_ic_sentinel :: sd in
      let ed' := if nthZ data 0 =? 35 then tl ed else ed in
      match find_index (fun e => nthZ data e =? 10) 0 ed' with
      | None => None
      | Some i =>
          match reshape (m_ic_n_fields i) (map m_ic_start sd'), reshape (m_ic_n_fields i) ed' with
          | Some s, Some e => Some {| t_data := data; t_starts := s; t_ends := if ic_cr_adjusts then cr_adjust data e else e;
                                      t_eends := map (fun r => lastz r + 1) e |}
          | _, _ => None
          end
      end
  end.

(* OneLineBuffer (FASTQ: 4 lines, two-line FASTA: 2 lines): line k of an entry is field k; the first
   line loses its marker byte; CR removal is decided from the header lines of the first entries *)
Definition oneline_table (n : Z) (marker : Z) (plus : bool) (chunk : list Z) : option table :=
  let nls0 := positions 10 chunk in
  let k := len nls0 in
  if k <? n then None else
  let nls := firstn (Z.to_nat (k - k mod n)) nls0 in
  let data := firstn (Z.to_nat (lastz nls + 1)) chunk in
  let tmp := map (Z.add 1) ((-1) :: nls) in
  match reshape n nls, reshape n (removelast tmp) with
  | Some e, Some s0 =>
      let s := map (fun r => match r with a :: t => (a + 1) :: t | [] => [] end) s0 in
      (* _validate: every entry starts with the marker; FASTQ: third line starts with '+' *)
      if negb (forallb (fun r => nthZ data (hd0 r) =? marker) s0) then None
      else if plus && negb (forallb (fun r => nthZ data (nthZ r 2) =? 43) s0) then None
      else
      let e' := if hd0 (hd [] e) <? 1 then e
                else if existsb (fun r => nthZ data (hd0 r - 1) =? 13) (firstn (Z.to_nat n) e)
                     then map (map (fun x => x - (if py_get data (x - 1) =? 13 then 1 else 0))) e
                     else e in
      Some {| t_data := data; t_starts := s; t_ends := e'; t_eends := map (fun r => lastz r + 1) e |}
  | _, _ => None
  end.

(* the texts a table denotes, row by row *)
Definition table_fields (t : table) : list (list (list Z)) :=
  map (fun se => map (fun p => slice (fst p) (snd p) (t_data t)) (combine (fst se) (snd se))) (combine (t_starts t) (t_ends t)).

(* ---------- column extraction ---------- *)
Definition col (rows : list (list Z)) (j : Z) : list Z := map (fun r => nthZ r j) rows.
Definition bounds (t : table) (j : Z) : list (Z * Z) := combine (col (t_starts t) j) (col (t_ends t) j).
Definition text_at (data : list Z) (se : Z * Z) : list Z := slice (fst se) (snd se) data.
Definition texts (t : table) (j : Z) : list (list Z) := map (text_at (t_data t)) (bounds t j).
(* keep_sep=True: one more byte *)
Definition texts_sep (t : table) (j : Z) : list (list Z) := map (fun se => slice (fst se) (m_keep_end (snd se)) (t_data t)) (bounds t j).

(* AlphabetEncoding("0123456789") as used by strops: the lower-case table is alphabet+32, so 'P'..'Y' also pass *)
Definition digit_val (c : Z) : option Z :=
  if is_digit c then Some (c - 48) else if (80 <=? c) && (c <=? 89) then Some (c - 80) else None.
Definition digits_of (l : list Z) : option (list Z) := mapM digit_val l.
(* digits . (10 ** arange(n)[::-1]) *)
Definition dot_pow (ds : list Z) : Z :=
  sumZ (map (fun dp => fst dp * 10 ^ snd dp) (combine ds (rev (arange (len ds))))).

(* move_intervals_to_digit_array: rows right-aligned to the widest field; indices may run before the field
   (even wrap around the buffer); the cells left of the field are then overwritten with '0' *)
Definition max_len (bs : list (Z * Z)) : Z := fold_right Z.max 0 (map (fun se => snd se - fst se) bs).
Definition digit_matrix (data : list Z) (bs : list (Z * Z)) : list (list Z) :=
  let mx := max_len bs in
  map (fun se => map (fun j => if j <? m_mida_n_fill (fst se) (snd se) mx then 48 else py_get data (m_mida_index (snd se) mx j)) (arange mx)) bs.

(* str_to_int on ragged text: a flagged first byte is overwritten with '0' *)
Definition str_to_int_core (neg pos : bool) (txt : list Z) : option Z :=
  let txt' := if neg || pos then match txt with [] => [] | _ :: r => 48 :: r end else txt in
  option_map (fun ds => (if neg then -1 else 1) * dot_pow ds) (digits_of txt').
Definition str_to_int_flag (neg pos : bool) (txt : list Z) : option Z :=
  (* /repo 4a1f4c0, 0fc128f: an empty text, and a sign without digits, are not numbers *)
  if (len txt =? 0) || ((neg || pos) && (len txt =? 1)) then None else str_to_int_core neg pos txt.
Definition str_to_int_auto (txt : list Z) : option Z := str_to_int_flag (hd0 txt =? 45) (hd0 txt =? 43) txt.

(* TextBufferExtractor.get_digit_array + str_to_int *)
Definition parse_int_col (data : list Z) (bs : list (Z * Z)) : option (list Z) :=
  let signs := map (fun se => nthZ data (fst se)) bs in
  if existsb (fun c => (c =? 45) || (c =? 43)) signs
  then mapM (fun se => str_to_int_flag (nthZ data (fst se) =? 45) (nthZ data (fst se) =? 43) (text_at data se)) bs
  else mapM (fun row => option_map dot_pow (digits_of row)) (digit_matrix data bs).

(* strops.parse_with_missing: the placeholder is recognised only when EVERY row is "." *)
Definition parse_with_missing {A} (missing : A) (parser : list Z -> option A) (txts : list (list Z)) : option (list A) :=
  if forallb (fun t => len t =? 1) txts && forallb (fun t => zlist_eqb t [46]) txts
  then Some (map (fun _ => missing) txts)
  else mapM (fun t => if 0 <? len t then parser t else Some missing) txts.
(* proposed repair (notes/C02.fix-1.diff): "." and empty rows are missing, row by row *)
Definition parse_with_missing_fixed {A} (missing : A) (parser : list Z -> option A) (txts : list (list Z)) : option (list A) :=
  mapM (fun t => if (len t =? 0) || zlist_eqb t [46] then Some missing else parser t) txts.

(* >>> the model follows /repo HEAD; after notes/C02.fix-1.diff is applied, change the right-hand side to
   @parse_with_missing_fixed A <<< *)
Definition parse_with_missing_cur {A} := @parse_with_missing_fixed A.

Definition count_eq (c : Z) (l : list Z) : Z := len (filter (Z.eqb c) l).
(* strops._decimal_str_to_float / _scientific_str_to_float, as exact rationals *)
Definition dec_to_rat (txt : list Z) : option (Z * Z) :=
  match txt with
  | [] => None
  | _ =>
    let neg := hd0 txt =? 45 in
    let signed := neg || (hd0 txt =? 43) in
    let t := if signed then 48 :: tl txt else txt in
    let n_dots := count_eq 46 txt in
    (* /repo 4a1f4c0: more than one decimal point, or no digit at all, is not a number *)
    if (1 <? n_dots) || (len txt - n_dots - (if signed then 1 else 0) <=? 0) then None else
    let '(ip, fp) := split_first 46 t in
    let fp := match fp with Some x => x | None => [] end in
    option_map (fun ds => ((if neg then -1 else 1) * dot_pow ds, 10 ^ len fp)) (digits_of (ip ++ fp))
  end.
Definition str_to_float1 (txt : list Z) : option (Z * Z) :=
  if existsb (Z.eqb 101) txt then
    if negb (count_eq 101 txt =? 1) then None else          (* /repo 0fc128f: exactly one exponent *)
    let '(m, e) := split_first 101 txt in
    match dec_to_rat m, str_to_int_auto (match e with Some x => x | None => [] end) with
    | Some (a, b), Some p => Some (if 0 <=? p then (a * 10 ^ p, b) else (a, b * 10 ^ (- p)))
    | _, _ => None
    end
  else dec_to_rat txt.

(* FlatAlphabetEncoding("+-."): symbol of the code; the lower-case table also admits K, M, N *)
Definition strand_sym (c : Z) : option Z :=
  if (c =? 43) || (c =? 75) then Some 43 else if (c =? 45) || (c =? 77) then Some 45
  else if (c =? 46) || (c =? 78) then Some 46 else None.

(* DelimitedBuffer._parse_split_fields: the byte after each field becomes ',', the whole column is split at
   once, empty strings are dropped, and the row lengths are the numbers of ',' per row *)
Definition parse_split {A} (parser : list Z -> option A) (rows_sep : list (list Z)) : option (list (list A)) :=
  let rows' := map (fun r => match r with [] => [] | _ => set_last r 44 end) rows_sep in
  let flat := removelast (concat rows') in
  let strs := split_on 44 flat in
  let lens := map (count_eq 44) rows' in
  let strs' := if existsb (fun s => len s =? 0) strs then filter (fun s => negb (len s =? 0)) strs else strs in
  match mapM parser strs' with
  | None => None
  | Some vals =>
      Some ((fix go (ls : list Z) (off : Z) : list (list A) :=
               match ls with [] => [] | n :: r => firstn (Z.to_nat n) (skipn (Z.to_nat off) vals) :: go r (off + n) end) lens 0)
  end.
(* proposed repair (notes/C02.fix-2.diff): the row lengths count the non-empty items *)
Definition parse_split_fixed {A} (parser : list Z -> option A) (rows_sep : list (list Z)) : option (list (list A)) :=
  mapM (fun r => mapM parser (filter (fun s => negb (len s =? 0)) (split_on 44 (removelast r)))) rows_sep.

(* >>> after notes/C02.fix-2.diff is applied, change the right-hand side to @parse_split_fixed A <<< *)
Definition parse_split_cur {A} := @parse_split_fixed A.

(* a SequenceID column is moved into a fixed-width matrix; width 0 (every text empty) cannot be reshaped *)
Definition sid_col_pinned (txts : list (list Z)) : colres :=
  if forallb (fun t => len t =? 0) txts then ColErr else Col (map CBytes txts).
(* since /repo 58b75b9 (reshape((lens.size, max_chars))) a column of only-empty identifiers is read as empty strings *)
Definition sid_col (txts : list (list Z)) : colres := Col (map CBytes txts).
Definition opt_col {A} (f : A -> cell) (o : option (list A)) : colres :=
  match o with Some l => Col (map f l) | None => ColErr end.

Definition typed_col (t : table) (j : Z) (ty : ctype) : colres :=
  let data := t_data t in
  match ty with
  | TStr => Col (map CBytes (texts t j))
  | TSid => sid_col (texts t j)
  | TInt => opt_col CInt (parse_int_col data (bounds t j))
  | TIntM1 => opt_col (fun v => CInt (m_pos_shift v)) (parse_int_col data (bounds t j))
  | TOptInt => opt_col CInt (parse_with_missing_cur 0 str_to_int_auto (texts t j))
  | TFloat => opt_col rat_cell (mapM str_to_float1 (texts t j))
  | TStrand => opt_col CBytes (mapM (mapM strand_sym) (texts t j))
  | TQual => Col (map (fun x => CInts (map (fun c => c - 33) x)) (texts t j))
  | TIntList => opt_col CInts (parse_split_cur str_to_int_auto (texts_sep t j))
  | TRest =>   (* SAMBufferExctractor._get_extra_field *)
      Col (map (fun '(se, ee) => let st := m_extra_start (snd se) in
                                 let e0 := m_extra_end0 ee in
                                 let en := m_extra_end e0 (nthZ data (m_extra_probe e0)) in
                                 CBytes (slice st (st + m_extra_len en st) data))
               (combine (bounds t 10) (t_eends t)))
  end.

(* ---------- INFO: VCFBuffer._get_dataclass_field + NamedBufferExtractor ---------- *)
(* item table of one row: (start, length) of every ';'-separated item, in coordinates of the flattened column *)
Fixpoint items_from (start : Z) (cur : Z) (l : list Z) : list (Z * Z) :=
  match l with
  | [] => []
  | [_] => [(start, cur - start)]                           (* the byte kept after the field closes the last item *)
  | x :: r => if x =? 59 then (start, cur - start) :: items_from (cur + 1) (cur + 1) r else items_from start (cur + 1) r
  end.
Fixpoint item_table (off : Z) (rows : list (list Z)) : list (list (Z * Z)) :=
  match rows with [] => [] | r :: rs => items_from off off r :: item_table (off + len r) rs end.
Definition key_mask (flat : list Z) (key : list Z) (it : Z * Z) : bool :=
  let L := m_line_len (len key) in
  negb (m_ignored (fst it) (len key) (len flat)) && zlist_eqb (slice (fst it) (fst it + L) flat) (key ++ [61]).
(* has_field_mask walks back from the last item while start+L >= size; when it runs out of items it raises *)
Definition all_ignored (flat : list Z) (key : list Z) (tab : list (list (Z * Z))) : bool :=
  forallb (fun it => m_ignored (fst it) (len key) (len flat)) (concat tab).
(* >>> after notes/C02.fix-3.diff is applied, change to false <<< *)
Definition short_buffer_raises : bool := false.
Definition info_texts (keep_sep : bool) (flat key : list Z) (tab : list (list (Z * Z))) : option (list (list Z)) :=
  if short_buffer_raises && all_ignored flat key tab then None
  else if existsb (fun row => 1 <? len (filter (key_mask flat key) row)) tab then None   (* key twice in a row *)
  else Some (map (fun row =>
         match filter (key_mask flat key) row with
         | it :: _ => let st := m_value_start (fst it) (len key) in
                      slice st (st + m_value_len (snd it) (len key) keep_sep) flat
         | [] => []
         end) tab).
Definition has_flag (flat key : list Z) (tab : list (list (Z * Z))) : list bool :=
  map (existsb (fun it => m_flag_len_match (snd it) (len key) && zlist_eqb (slice (fst it) (fst it + len key) flat) key)) tab.
Definition opt_bind {A B} (o : option A) (f : A -> option B) : option B := match o with Some x => f x | None => None end.
Definition info_col (flat : list Z) (tab : list (list (Z * Z))) (d : list Z * itype * bool) : colres :=
  let '(key, ty, lst) := d in
  match ty with
  | IFlag => Col (map CBool (has_flag flat key tab))
  | IString => opt_col CBytes (info_texts false flat key tab)
  | IInteger =>
      if lst then opt_col CInts (opt_bind (info_texts true flat key tab) (parse_split_cur str_to_int_auto))
      else opt_col CInt (opt_bind (info_texts false flat key tab) (parse_with_missing_cur 0 str_to_int_auto))
  | IFloat =>
      if lst then opt_col CRats (opt_bind (info_texts true flat key tab) (parse_split_cur str_to_float1))
      else match opt_bind (info_texts false flat key tab) (parse_with_missing_cur None (fun t => option_map Some (str_to_float1 t))) with
           | Some l => Col (map (fun o => match o with Some p => rat_cell p | None => CNan end) l)
           | None => ColErr
           end
  end.

(* ---------- genotype matrix: three bytes from the start of every sample column ---------- *)
Definition geno_col (f : format) (t : table) : colres :=
  Col (map (fun srow => CInts (concat (map (fun s => geno_codes f (slice s (s + 3) (t_data t))) (skipn 9 srow)))) (t_starts t)).

(* ---------- genotype string matrix: VCFBuffer._extract_genotypes = get_padded_field(slice(9, None), stop_at=':')
   (file_buffers.move_intervals_to_right_padded_array).  Every sample cell of the FILE is read through a window as wide
   as the widest cell of the file (clamped at the end of the buffer); np.argmax finds the first ':' in the window (0 when
   there is none — or when the window starts with it); the cell is cut there only if that ':' lies inside the cell
   (np.minimum(lens, new_lens)); the rest of the row of the matrix is NUL and the |S view drops trailing NULs. ---------- *)
Fixpoint argmax_eq (c : Z) (i : Z) (l : list Z) : Z :=
  match l with [] => 0 | x :: r => if x =? c then i else argmax_eq c (i + 1) r end.
Fixpoint drop_nul_front (l : list Z) : list Z := match l with 0 :: r => drop_nul_front r | _ => l end.
Definition strip_nul (l : list Z) : list Z := rev (drop_nul_front (rev l)).
Definition m_stop_len (l p : Z) : Z := if p >? 0 then Z.min l p else l.        (* np.where(new_lens > 0, np.minimum(lens, new_lens), lens) *)
Definition padded_cell (data : list Z) (mx : Z) (se : Z * Z) : list Z :=
  let s := fst se in
  let window := map (fun j => nthZ data (Z.min (s + j) (len data - 1))) (arange mx) in
  let l' := m_stop_len (snd se - s) (argmax_eq 58 0 window) in
  strip_nul (firstn (Z.to_nat l') window).
Definition sample_bounds (t : table) : list (list (Z * Z)) :=
  map (fun se => combine (skipn 9 (fst se)) (skipn 9 (snd se))) (combine (t_starts t) (t_ends t)).
Definition geno2_col (t : table) : colres :=
  let bs := sample_bounds t in
  let mx := max_len (concat bs) in
  Col (map (fun row => CTexts (map (padded_cell (t_data t) mx) row)) bs).

(* ---------- wrapped FASTA: MultiLineFastaBuffer.from_raw_buffer + get_data ---------- *)
Fixpoint group_by (counts : list Z) (ls : list (list Z)) : list (list Z) :=
  match counts with [] => [] | n :: r => concat (firstn (Z.to_nat n) ls) :: group_by r (skipn (Z.to_nat n) ls) end.
(* the index formulas of MultiLineFastaBuffer, by name (regenerated from /repo into Gen/C02.v, bridged in Bridge/C02.v) *)
Definition m_fa_next (p : Z) : Z := p + 1.            (* from_raw_buffer: chunk[new_lines + 1] == '>' *)
Definition m_fa_cut (p : Z) : Z := p + 1.             (* entry_starts = new_lines[new_entries] + 1; chunk[:entry_starts[-1]] *)
Definition m_fa_line_start (p : Z) : Z := p + 1.      (* get_data: line_starts = np.insert(new_lines + 1, 0, 0) *)
Definition m_fa_last_end (size : Z) : Z := size - 1.  (* line_ends = np.append(new_lines, data.size - 1) *)
Definition m_fa_cr_window : Z := 10.                  (* _modify_ends_for_carriage_returns looks at line_ends[:10] *)
Definition m_fa_entry_line (i : Z) : Z := i + 1.      (* new_entries = np.insert(new_entries + 1, 0, 0) *)
Definition m_fa_n_lines (d : Z) : Z := d - 1.         (* n_lines_per_entry = np.diff(...) - 1 *)
Definition m_fa_total (nl : Z) : Z := nl + 1.         (* ... np.append(new_entries, new_lines.size + 1) *)
Definition m_fa_name_from : Z := 1.                   (* headers = data[new_entries, 1:] *)
Definition fasta_cols (file : list Z) : option (Z * list colres) :=
  let chunk := file ++ [62] in                       (* the reader appends the new-entry marker at end of file *)
  if negb (nthZ chunk 0 =? 62) then None else
  let nls := positions 10 (removelast chunk) in
  let ne := flatnonzero (map (fun p => nthZ chunk (m_fa_next p) =? 62) nls) in
  match rev ne with
  | [] => None
  | lastne :: _ =>
      let data := firstn (Z.to_nat (m_fa_cut (nthZ nls lastne))) chunk in
      let new_lines := firstn (Z.to_nat lastne) nls in
      let new_entries := removelast ne in
      let line_starts := 0 :: map m_fa_line_start new_lines in
      let line_ends0 := new_lines ++ [m_fa_last_end (len data)] in
      let line_ends := if existsb (fun e => py_get data (m_cr_probe e) =? m_cr_byte) (firstn (Z.to_nat m_fa_cr_window) line_ends0)
                       then map (fun e => m_cr_adjust e (py_get data (m_cr_probe e))) line_ends0 else line_ends0 in
      let lines := map (text_at data) (combine line_starts line_ends) in
      let hdr := 0 :: map m_fa_entry_line new_entries in
      let counts := map m_fa_n_lines (diff (hdr ++ [m_fa_total (len new_lines)])) in
      let headers := map (fun i => skipn (Z.to_nat m_fa_name_from) (nth (Z.to_nat i) lines [])) hdr in
      let seqlines := map snd (filter (fun p => negb (existsb (Z.eqb (fst p)) hdr)) (combine (arange (len lines)) lines)) in
      Some (len hdr, [Col (map CBytes headers); Col (map CBytes (group_by counts seqlines))])
  end.

(* ---------- one read ---------- *)
Definition run_cols (f : format) (d : option decls) (t : table) : list colres :=
  map (fun jt => typed_col t (fst jt) (snd jt)) (schema f)
  ++ (match f with
      | Fvcf | Fvcfgt | Fvcfph | Fvcfhap | Fvcf2 =>
          match d with
          | None => [typed_col t 7 TStr]
          | Some ds => let rows := texts_sep t 7 in map (info_col (concat rows) (item_table 0 rows)) ds
          end
      | _ => [] end)
  ++ (if has_geno f then [geno_col f t] else [])
  ++ (if has_geno2 f then [geno2_col t] else []).

Definition table_of (f : format) (body : list Z) : option table :=
  match f with
  | Fsam => sam_table body
  | Fgff | Fwig => ic_table body
  | Ffastq => oneline_table 4 64 true body
  | Ffasta2 => oneline_table 2 62 false body
  | _ => delim_table 9 body
  end.
Definition is_err (c : colres) : bool := match c with ColErr => true | _ => false end.
Definition run (f : format) (d : option decls) (file : list Z) : obs :=
  let body := skip_header (comment_byte f) file in
  match f with
  | Ffasta => match fasta_cols body with
              | Some (n, cols) => if existsb is_err cols then ObsErr else Obs n cols true
              | None => ObsErr end
  | _ => match table_of f body with
         | None => ObsErr
         | Some t => let cols := run_cols f d t in
                     if eager_format f && existsb is_err cols then ObsErr else Obs (len (t_starts t)) cols true
         end
  end.

(* ---------- a row subset taken BEFORE the first parse (TextThroughputExtractor.__getitem__ / the lazily read table's
   __getitem__): the buffer is kept, the rows of the start / end tables and the record ends are selected (any order, repeats
   allowed; boolean masks, slices and negative indices are normalised to an index list by NumPy's own rules), and only
   then are the columns parsed.  Eagerly parsed formats (wrapped FASTA) select the parsed rows. ---------- *)
Definition take_rows {A} (d : A) (l : list A) (idx : list Z) : list A := map (fun i => nth (Z.to_nat i) l d) idx.
Definition table_select (idx : list Z) (t : table) : table :=
  {| t_data := t_data t; t_starts := take_rows [] (t_starts t) idx; t_ends := take_rows [] (t_ends t) idx;
     t_eends := take_rows 0 (t_eends t) idx |}.
Definition colres_select (idx : list Z) (c : colres) : colres :=
  match c with ColErr => ColErr | Col l => Col (take_rows (CInt 0) l idx) end.
Definition run_sel (f : format) (d : option decls) (file : list Z) (idx : list Z) : obs :=
  let body := skip_header (comment_byte f) file in
  match f with
  | Ffasta => match fasta_cols body with
              | Some (n, cols) => if existsb is_err cols then ObsErr else Obs (len idx) (map (colres_select idx) cols) true
              | None => ObsErr end
  | _ => match table_of f body with
         | None => ObsErr
         | Some t => if eager_format f
                     then (if existsb is_err (run_cols f d t) then ObsErr
                           else Obs (len idx) (map (colres_select idx) (run_cols f d t)) true)   (* read() parsed every column already *)
                     else Obs (len idx) (run_cols f d (table_select idx t)) true
         end
  end.

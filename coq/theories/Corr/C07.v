(* Corr/C07.v — correspondence case type and the two verdicts evaluated per case.
   A case is a program: initial text + encoding, then steps.  For every step the harness supplies the
   operation, what the implementation returned (decoded text, raw codes, encoding, masks, strings, or the
   exception class) and what Python's own list/str semantics give for the same step (k_expect).
     spec_ok  = (the Spec's result equals Python's own result: validates Spec + generator)
                && the implementation's decoded result, encoding and kind equal the Spec's, step by step;
     model_ok = the implementation's raw codes / masks / strings / exceptions equal the Model's. *)
From Coq Require Import ZArith List Bool.
From BNP Require Export Base.Prims Model.C07.
Import ListNotations.
Open Scope Z_scope.

(* which variant of the code the model describes: [pinned] = /repo HEAD.  ONE-LINE SWITCH: after
   notes/C07.fix-1.diff (scalar assignment) and fix-3.diff (string_array of empty strings) are committed,
   set the corresponding flag to false (both: [repaired]). *)
Definition current : variant := repaired.

Inductive iobs :=
| IV (kind encid : Z) (txt raw : list (list Z))    (* kind 0 ragged / 1 flat / 2 character; flat+char as one row *)
| IM (kind : Z) (m : list (list bool))              (* 0 ragged mask / 1 flat mask (one row) *)
| IS (kind : Z) (l : list (list Z))                 (* 0 list of strings / 1 one string (one row) *)
| IErr (code : Z)                                   (* 0 EncodingError / 1 any other exception *)
| IQ                                                (* deliberately NOT observed: touching a lazily gathered view would
                                                       materialise it and change what later steps exercise *)
| IX.                                               (* anything the harness could not classify *)

Record istep := {
  i_op : op;
  i_writable : bool;                   (* numpy writeable flag of the current buffer before the step *)
  i_obs : iobs;                        (* implementation *)
  i_orig : option (list (list Z));     (* text of the object copy() was called on, re-read after this step *)
  i_root : option (list (list Z));     (* text of the INITIAL array re-read after this step, when the program only
                                          assigns into an independent copy (it must still be the initial text) *)
  i_exp : iobs                         (* Python's own list/str semantics (raw field unused) *)
}.
Record case := {
  k_encid : Z;
  k_alpha : option (list Z);           (* None = base encoding; Some alphabet (upper-cased codes) *)
  k_ragged : bool;
  k_init : list (list Z);              (* the strings handed to as_encoded_array (one row if not ragged) *)
  k_init_obs : iobs;
  k_steps : list istep
}.

Definition enc_of_case (c : case) : enc := match k_alpha c with None => Base | Some al => Alpha al end.

Definition bll_eqb (a b : list (list bool)) : bool := list_eqb (list_eqb Bool.eqb) a b.

Definition value_rows (v : value) : Z * list (list Z) :=
  match v with VR _ r => (0, r) | VF _ s => (1, [s]) | VC _ c => (2, [[c]]) end.

(* Spec-side observation (characters) against an observation record; [raw] says whether to compare the
   record's raw field (model side) or its text field *)
Definition obs_matches (encid : Z) (useraw : bool) (o : obs) (i : iobs) : bool :=
  match o, i with
  | OV v, IV k eid txt raw =>
      let '(k', r) := value_rows v in
      (k =? k') && (eid =? encid) && zll_eqb (if useraw then raw else txt) r
  | OMR m, IM 0 m' => bll_eqb m m'
  | OMF m, IM 1 [m'] => list_eqb Bool.eqb m m'
  | OS l, IS 0 l' => zll_eqb l l'
  | OS1 s, IS 1 [s'] => zlist_eqb s s'
  | OErr, IErr 0 => true
  | ORaise, IErr 1 => true
  | _, IQ => true
  | _, _ => false
  end.
Definition saved_matches (dec : value -> value) (saved : option value) (orig : option (list (list Z))) : bool :=
  match saved, orig with
  | None, None => true
  | Some v, Some t => zll_eqb (snd (value_rows (dec v))) t
  | _, _ => false
  end.

Definition is_quiet (i : iobs) : bool := match i with IQ => true | _ => false end.

Definition init_value (P : prims) (c : case) : option value :=
  if k_ragged c then init_rows P (enc_of_case c) (k_init c)
  else match k_init c with [s] => init_flat P (enc_of_case c) s | _ => None end.

Fixpoint all2 {A B} (f : A -> B -> bool) (a : list A) (b : list B) : bool :=
  match a, b with
  | [], [] => true
  | x :: a', y :: b' => f x y && all2 f a' b'
  | _, _ => false
  end.

(* ---------------- spec_ok ---------------- *)
(* one step: the implementation's decoded result / mask / strings / exception equal the Spec's, the object copy()
   was taken from still reads as the Spec says, the initial array (when watched) still reads as the initial text *)
Definition step_impl_ok (encid : Z) (v0 : value) (so : obs * option value) (st : istep) : bool :=
  obs_matches encid false (fst so) (i_obs st)
  && (is_quiet (i_obs st) || saved_matches (fun v => v) (snd so) (i_orig st))
  && match i_root st with None => true | Some t => zll_eqb (snd (value_rows v0)) t end.
(* the implementation satisfies the Spec (the part of spec_ok that Proofs/C07_link.v derives from model_ok) *)
Definition impl_spec_ok (c : case) : bool :=
  match init_value spec_prims c with
  | None => false
  | Some v0 =>
      obs_matches (k_encid c) false (OV v0) (k_init_obs c)
      && all2 (step_impl_ok (k_encid c) v0) (s_run v0 None (map i_op (k_steps c))) (k_steps c)
  end.
(* the Spec agrees with Python's own list/str semantics on this program (validates Spec + generator) *)
Definition ref_ok (c : case) : bool :=
  match init_value spec_prims c with
  | None => false
  | Some v0 => all2 (fun (so : obs * option value) (st : istep) => obs_matches (k_encid c) false (fst so) (i_exp st))
                    (s_run v0 None (map i_op (k_steps c))) (k_steps c)
  end.
Definition spec_ok (c : case) : bool :=
  match init_value spec_prims c with
  | None => false
  | Some v0 =>
      obs_matches (k_encid c) false (OV v0) (k_init_obs c)
      && all2 (fun (so : obs * option value) (st : istep) =>
                 obs_matches (k_encid c) false (fst so) (i_exp st)        (* Spec = Python's own semantics *)
                 && step_impl_ok (k_encid c) v0 so st)                    (* implementation = Spec *)
              (s_run v0 None (map i_op (k_steps c))) (k_steps c)
  end.

(* ---------------- model_ok ---------------- *)
(* Steps the model deliberately does not describe: a column slice with negative step and an explicit
   non-negative start applied to an EMPTY row — npstructures (external) returns one character of a
   neighbouring row or raises IndexError there, depending on the buffer layout (finding C07-nps-negstep-empty-row).
   The model is compared up to (excluding) the first such step. *)
Definition negstart (a s : option Z) : bool :=
  match a, s with Some a', Some s' => (0 <=? a') && (s' <? 0) | _, _ => false end.
Definition has_empty (rows : list (list Z)) : bool := existsb (fun r => len r =? 0) rows.
Definition unmodelled (v : value) (o : op) : bool :=
  match v, o with
  | VR _ rows, ColSlice a _ s => negstart a s && has_empty rows
  | VR _ rows, RC rs a _ s =>
      negstart a s && match sel_pos (len rows) rs with Some pos => has_empty (gather rows pos) | None => false end
  | VR _ rows, SetRC rs a _ s _ =>
      negstart a s && match sel_pos (len rows) rs with Some pos => has_empty (gather rows pos) | None => false end
  | _, _ => false
  end.

Fixpoint model_steps (encid : Z) (root : list (list Z)) (v : value) (saved : option value) (steps : list istep) : bool :=
  match steps with
  | [] => true
  | st :: r =>
      if unmodelled v (i_op st) then true else
      let '(v', ob) := m_step_v current (i_writable st) v (i_op st) in
      let saved' := match i_op st with Copy => Some v | _ => saved end in
      obs_matches encid true ob (i_obs st)                  (* raw codes, masks, strings, exception class *)
      && obs_matches encid false (dec_obs ob) (i_obs st)    (* and the decoded text *)
      && match i_op st with Copy => true | _ => is_quiet (i_obs st) || saved_matches dec_value saved (i_orig st) end
      && match i_root st with None => true | Some t => zll_eqb root t end
      && match ob with
         | ORaise => true      (* the code at HEAD raised (a finding): the remaining steps were generated for the
                                  state the step should have produced, they are not defined for the actual one *)
         | _ => model_steps encid root v' saved' r
         end
  end.

Definition model_core (c : case) : bool :=
  match init_value (model_prims_with m_prep current) c with
  | None => false
  | Some v0 =>
      obs_matches (k_encid c) true (OV v0) (k_init_obs c)
      && obs_matches (k_encid c) false (OV (dec_value v0)) (k_init_obs c)
      && model_steps (k_encid c) (snd (value_rows (dec_value v0))) v0 None (k_steps c)
  end.

(* The view model of npstructures (Model/C07.v section 5) against the implementation: while a program only
   selects rows / slices columns, the (buffer, starts, lengths, step) view is carried along — through steps that
   are not observed too — and the rows it denotes must be the raw rows the implementation shows; after any other
   step the array is a fresh contiguous one.  (Proofs/C07_view.v proves the same views denote the list semantics.) *)
Fixpoint view_steps (v : value) (vw : option rview) (steps : list istep) : bool :=
  match steps with
  | [] => true
  | st :: r =>
      if unmodelled v (i_op st) then true else
      let '(v', ob) := m_step_v current (i_writable st) v (i_op st) in
      match ob with
      | ORaise => true
      | _ =>
          let vw' := match vw with Some w => v_step w (i_op st) | None => None end in
          let check := match vw', i_obs st with
                       | Some w', IV 0 _ _ raw => zll_eqb (rv_rows w') raw
                       | _, _ => true
                       end in
          let next := match vw' with
                      | Some w' => Some w'
                      | None => match v' with VR _ rows' => Some (rv_of_rows rows') | _ => None end
                      end in
          check && view_steps v' next r
      end
  end.
Definition view_ok (c : case) : bool :=
  match init_value (model_prims_with m_prep current) c with
  | Some (VR e rows) => view_steps (VR e rows) (Some (rv_of_rows rows)) (k_steps c)
  | _ => true
  end.

Definition model_ok (c : case) : bool := model_core c && view_ok c.

(* Corr/C03.v — correspondence case for C03 and the two verdicts.
   spec_ok : the bytes the library wrote ARE the canonical serialisation of the concatenated table with
             the header exactly once, nothing raised, and reading the file back gives an equal table
             (floats to printing precision);
   model_ok: the library's bytes / error equal the Model's, and its reader agrees with the reference
             reader on the written bytes. *)
From Coq Require Import ZArith List Bool.
From BNP Require Export Base.Prims Model.C03.
Import ListNotations.
Open Scope Z_scope.

Record case := {
  k_fmt : fmt;
  k_schema : list Z;            (* column kinds, for reading back *)
  k_header : list Z;            (* the header this table carries / the format prescribes ([] if none) *)
  k_gz : bool;                  (* gzip target (bytes below are the decompressed content) *)
  k_hist : list session;        (* the writing history (ground truth rows inside) *)
  k_err : Z;                    (* 0 = ok; 1 AssertionError; 2 KeyError; 8 the caller's table was modified by the write; 9 other *)
  k_written : list Z;           (* file content after the history *)
  k_read_ok : bool;             (* bnp.open(path).read() succeeded *)
  k_read : list row;            (* ... and returned these rows *)
  (* an alternative spelling of the same table, written by the harness (SAM-standard: no TAB before absent tags),
     and what bnp.open(...).read() returned for it; [] = not applicable *)
  k_alt_file : list Z;
  k_alt_read_ok : bool;
  k_alt_read : list row
}.

(* floats: |a - b| <= 10^-12 |a| on exact rationals *)
Definition close (n1 d1 n2 d2 : Z) : bool :=
  (0 <? d1) && (0 <? d2) && (Z.abs (n1 * d2 - n2 * d1) * 10 ^ 12 <=? Z.abs n1 * d2).
Definition fld_eqb (strict : bool) (a b : fld) : bool :=
  match a, b with
  | FS x, FS y => zlist_eqb x y
  | FI x, FI y => x =? y
  | FL x, FL y => zlist_eqb x y
  | FQ x, FQ y => zlist_eqb x y
  | FF _ n1 d1, FF _ n2 d2 => if strict then close n1 d1 n2 d2 else true
  | _, _ => false
  end.
Definition row_eqb (strict : bool) := list_eqb (fld_eqb strict).
Definition rows_eqb (strict : bool) := list_eqb (row_eqb strict).

Definition spec_ok (c : case) : bool :=
  (k_err c =? 0)
  && zlist_eqb (k_written c) (spec_file (k_fmt c) (k_header c) (k_hist c))
  && k_read_ok c
  && rows_eqb true (rows_of_hist (k_hist c)) (k_read c)
  && (match k_alt_file c with
      | [] => true
      | _ => k_alt_read_ok c && rows_eqb true (rows_of_hist (k_hist c)) (k_alt_read c)
      end).

Definition model_ok (c : case) : bool :=
  let '(e, out) := run_hist (k_fmt c) (k_header c) (k_gz c) (k_hist c) in
  (e =? k_err c)
  && zlist_eqb out (k_written c)
  && (negb (e =? 0) ||
      match parse_file (k_fmt c) (k_schema c) (k_written c) with
      | Some rs => k_read_ok c && rows_eqb false rs (k_read c)
      | None => negb (k_read_ok c)
      end)
  && (match k_alt_file c with
      | [] => true
      | _ => match parse_file (k_fmt c) (k_schema c) (k_alt_file c) with
             | Some rs => k_alt_read_ok c && rows_eqb false rs (k_alt_read c)
             | None => negb (k_alt_read_ok c)
             end
      end).

(* Corr/C05.v — correspondence case and the two verdicts.
   model_ok: what the library did in LAZY mode, step by step, is what the lazy state machine of Model/C05.v does;
   spec_ok : the property itself — the lazy and the eager run of the same program agree at every step (both fail,
             or equal values; written bytes compared on canonically spelled files only), and whatever value the
             eager run produced is the value the row-list Spec gives for the generator's ground truth. *)
From Coq Require Import ZArith List Bool Arith.
From BNP Require Export Base.Prims Model.C05.
Import ListNotations.
Open Scope Z_scope.

Record case := {
  k_fmt : Z;                       (* 0 bed3, 1 bed6, 2 fastq, 3 two-line fasta, 4 vcf, 5 sam *)
  k_header : list Z;               (* comment/header lines in front of the records *)
  k_recs : list rawrec;            (* ground truth: field texts and raw bytes of every record *)
  k_file : list Z;                 (* the bytes that were written to disk *)
  k_chunked : bool;
  k_chunks : list (list Z);        (* chunked read: entries per chunk for each register, lazy run *)
  k_chunks_eager : list (list Z);  (* the same for the eager run *)
  k_prog : list xop;                (* the ten operations (XB o) and sort_by *)
  k_lazy : list obs;               (* one observation per program step, lazy=True *)
  k_eager : list obs               (* ... lazy=False *)
}.

(* SequenceID columns whose parse from an EMPTY buffer raises at /repo HEAD (string_array of a 0x0 matrix);
   one-line switch: `:= []` once notes/C05.fix-2.diff is applied *)
Definition sid_fields (l : list nat) : list nat := [].
(* "##fileformat=VCFv4.1\n#CHROM\tPOS\tID\tREF\tALT\tQUAL\tFILTER\tINFO\tFORMAT\n" (VCFBuffer.make_header without context) *)
Definition vcf_default_header : list Z :=
  [35; 35; 102; 105; 108; 101; 102; 111; 114; 109; 97; 116; 61; 86; 67; 70; 118; 52; 46; 49; 10; 35; 67; 72; 82; 79; 77; 9; 80; 79; 83; 9; 73; 68; 9; 82; 69; 70; 9; 65; 76; 84; 9; 81; 85; 65; 76; 9; 70; 73; 76; 84; 69; 82; 9; 73; 78; 70; 79; 9; 70; 79; 82; 77; 65; 84; 10].
(* 0 bed3, 1 bed6, 2 fastq, 3 two-line fasta, 4 vcf, 5 sam, 6 bam (read-only: field texts are the canonical texts of
   the decoded values, r_raw the binary record) *)
Definition fmt_of (tag : Z) : fmt :=
  match tag with
  | 6 => {| f_kinds := [KStr; KStr; KInt 0; KInt 0; KInt 0; KStr; KStr; KStr; KStr]; f_layout := LDelim; f_concat := false;
            f_nowrite := []; f_ragged := false (* t[i] sometimes works on a lazily read BAM table: left to the tolerance *);
            f_eager_write_fails := false; f_write_needs_context := true; f_default_hdr := []; f_sid := [] |}
  | 0 => {| f_kinds := [KStr; KInt 0; KInt 0]; f_layout := LDelim; f_concat := true; f_nowrite := []; f_ragged := false; f_eager_write_fails := false; f_write_needs_context := false; f_default_hdr := []; f_sid := sid_fields [0%nat] |}
  | 1 => {| f_kinds := [KStr; KInt 0; KInt 0; KStr; KInt 0; KStr]; f_layout := LDelim; f_concat := true; f_nowrite := []; f_ragged := false; f_eager_write_fails := false; f_write_needs_context := false; f_default_hdr := []; f_sid := sid_fields [0%nat; 3%nat] |}
  | 2 => {| f_kinds := [KStr; KStr; KStr]; f_layout := LFastq; f_concat := false; f_nowrite := [2%nat]; f_ragged := true; f_eager_write_fails := false; f_write_needs_context := false; f_default_hdr := []; f_sid := sid_fields [] |}
  | 3 => {| f_kinds := [KStr; KStr]; f_layout := LFasta2; f_concat := false; f_nowrite := []; f_ragged := true; f_eager_write_fails := false; f_write_needs_context := false; f_default_hdr := []; f_sid := sid_fields [] |}
  | 4 => {| f_kinds := [KStr; KInt (-1); KStr; KStr; KStr; KStr; KStr; KStr]; f_layout := LDelim; f_concat := true;
            f_nowrite := []; f_ragged := true; f_eager_write_fails := true; f_write_needs_context := false; f_default_hdr := vcf_default_header; f_sid := sid_fields [0%nat] |}
  | _ => {| f_kinds := [KStr; KInt 0; KStr; KInt 0; KInt 0; KStr; KStr; KInt 0; KInt 0; KStr; KStr; KStr];
            f_layout := LSam; f_concat := true; f_nowrite := []; f_ragged := true; f_eager_write_fails := false; f_write_needs_context := false; f_default_hdr := []; f_sid := sid_fields [0%nat; 2%nat] |}
  end.
(* formats with a ragged `str` column: row access t[i] goes through npstructures' RaggedView2._get_row, which
   raises under NumPy 2 — the model says what the code intends (the row); an error is tolerated there *)
Definition ragged_of (tag : Z) : bool := negb ((tag =? 0) || (tag =? 1)).

Definition value_list_eqb := list_eqb value_eqb.
Definition obs_eqb (a b : obs) : bool :=
  match a, b with
  | XErr, XErr => true
  | XOk, XOk => true
  | XLen x, XLen y => x =? y
  | XCol x, XCol y => value_list_eqb x y
  | XRow x, XRow y => value_list_eqb x y
  | XRows x, XRows y => list_eqb value_list_eqb x y
  | XBytes x, XBytes y => zlist_eqb x y
  | _, _ => false
  end.

Fixpoint split_by {A} (lens : list Z) (l : list A) : list (list A) :=
  match lens with
  | [] => []
  | n :: r => firstn (Z.to_nat n) l :: split_by r (skipn (Z.to_nat n) l)
  end.

(* how a register is initialised: read(), or np.concatenate(list(read_chunks(...))) *)
Definition init_reg (F : fmt) (c : case) (k : nat) : option table :=
  if k_chunked c then
    t_concat_cur F (map (fun rs => TLazy (fresh rs)) (split_by (nth k (k_chunks c) []) (k_recs c)))
  else Some (TLazy (fresh (k_recs c))).
Definition init_regs (F : fmt) (c : case) : option (list table) :=
  match init_reg F c 0, init_reg F c 1 with
  | Some a, Some b => Some [a; b]
  | _, _ => None end.

Fixpoint zip_all {A B} (f : A -> B -> bool) (a : list A) (b : list B) : bool :=
  match a, b with
  | [], [] => true
  | x :: a', y :: b' => f x y && zip_all f a' b'
  | _, _ => false
  end.

(* model says a row, the implementation raised: tolerated for t[i] on a MATERIALISED table of a format with ragged
   columns (the row access works only once npstructures has made the column contiguous); a lazily read table of such
   a format is modelled exactly (always raises) *)
Definition tol (c : case) (m o : obs) : bool :=
  obs_eqb m o || (ragged_of (k_fmt c) && match m, o with XRow _, XErr => true | _, _ => false end).
Definition lazy_ok (c : case) : bool :=
  let F := fmt_of (k_fmt c) in
  match init_regs F c with
  | None => false
  | Some regs => zip_all (tol c) (m_xrun_cur F (k_header c) regs (k_prog c)) (k_lazy c)
  end.
(* the eager run is the eager implementation model: the Spec's rows, header context lost on derived tables.
   Round 6: m_run_cur = m_run6 l_concat, e_run_cur = e_run6 (Model/C05.v) — the code after notes/C05.fix-4/5/6.diff; the
   descriptor fields f_nowrite and f_eager_write_fails below are consulted by the PINNED models only (history). *)
Definition eager_ok (c : case) : bool :=
  let F := fmt_of (k_fmt c) in
  (* an eagerly read BAM table never has the header context its writer needs (BamBuffer.get_data sets none) *)
  let t0 := (rows_of_file F (k_recs c), negb (k_chunked c) && negb (k_fmt c =? 6)) in
  zip_all (tol c) (e_xrun_cur F (k_header c) [t0; t0] (k_prog c)) (k_eager c).
Definition model_ok (c : case) : bool := lazy_ok c && eager_ok c.

Definition file_ok (c : case) : bool :=
  zlist_eqb (k_file c) (k_header c ++ concat (map r_raw (k_recs c))).
Definition chunks_ok (c : case) : bool :=
  if k_chunked c then
    list_eqb zlist_eqb (k_chunks c) (k_chunks_eager c)
    && Nat.eqb (length (k_chunks c)) 2
    && forallb (fun ls => (sumZ ls =? len (k_recs c)) && forallb (fun n => 0 <? n) ls) (k_chunks c)
  else true.
Definition canonical_file (c : case) : bool := forallb (rec_canon (fmt_of (k_fmt c))) (k_recs c).

(* lazy vs eager at one step *)
Definition rel (canon : bool) (a b : obs) : bool :=
  match a, b with
  | XBytes x, XBytes y => if canon then zlist_eqb x y else true
  | _, _ => obs_eqb a b
  end.
(* eager vs Spec at one step: a produced value must be the Spec's value *)
Definition anchor (e s : obs) : bool :=
  match e with
  | XErr => true
  | XBytes _ => true
  | _ => obs_eqb e s
  end.

Definition spec_ok (c : case) : bool :=
  let F := fmt_of (k_fmt c) in
  let t0 := rows_of_file F (k_recs c) in
  file_ok c && chunks_ok c
  && Nat.eqb (length (k_lazy c)) (length (k_prog c))
  && zip_all (rel (canonical_file c)) (k_lazy c) (k_eager c)
  && zip_all anchor (k_eager c) (s_xrun F (k_header c) [t0; t0] (k_prog c)).

(* Corr/C02.v — correspondence case and the two verdicts evaluated inside Coq per generated file:
   spec_ok  = what the library returned is what the format assigns to the generator's records
              (and the file really is the layout of those records);
   model_ok = what the library returned is what Model.C02.run computes from the file bytes. *)
From Coq Require Import ZArith List Bool.
From BNP Require Export Base.Prims Model.C02.
Import ListNotations.
Open Scope Z_scope.

Record case := {
  k_fmt : format;  k_crlf : bool;  k_final : bool;   (* line end; does the file end with one *)
  k_header : list (list Z);                  (* leading header / comment lines, without line end *)
  k_recs : list (list (list Z));             (* records as lists of field texts *)
  k_comments : list (list (list Z));         (* interior comment lines before record i; last entry: after the last record *)
  k_decl : option decls;                     (* VCF: declared INFO keys *)
  k_width : Z;                               (* wrapped FASTA: bases per line *)
  k_file : list Z;                           (* the bytes given to the library (final line break normalised) *)
  k_obs : obs;                               (* what bnp.open(...).read() returned, column by column *)
  k_sel : option (list Z * obs)              (* a row subset taken BEFORE the first parse (record numbers, NumPy-normalised) and
                                                the columns then parsed from it (table[sel] / buffer[sel].get_data()) *)
}.

(* expected value e against observed value o; doubles within relative 2^-50 of the exact value *)
Definition rat_close (a b c d : Z) : bool :=
  (0 <? b) && (0 <? d) && (Z.abs (c * b - a * d) * 2 ^ 50 <=? Z.abs (a * d)).
Definition cell_match (e o : cell) : bool :=
  match e, o with
  | CBytes a, CBytes b => zlist_eqb a b
  | CInt a, CInt b => a =? b
  | CRat a b, CRat c d => rat_close a b c d
  | CNan, CNan => true
  | CInts a, CInts b => zlist_eqb a b
  | CRats a, CRats b => list_eqb (fun p q => rat_close (fst p) (snd p) (fst q) (snd q)) a b
  | CBool a, CBool b => Bool.eqb a b
  | CTexts a, CTexts b => zll_eqb a b
  | _, _ => false
  end.
Definition col_match (e o : colres) : bool :=
  match e, o with
  | Col a, Col b => list_eqb cell_match a b
  | _, _ => false
  end.
(* the model also predicts failures *)
Definition col_same (m o : colres) : bool :=
  match m, o with
  | ColErr, ColErr => true
  | _, _ => col_match m o
  end.

Definition file_ok (c : case) : bool :=
  zlist_eqb (spec_file (k_fmt c) (k_width c) (k_crlf c) (k_final c) (k_header c) (k_recs c) (k_comments c)) (k_file c).

Definition spec_ok (c : case) : bool :=
  file_ok c &&
  match k_obs c with
  | ObsErr => false
  | Obs n cols eager => (n =? len (k_recs c)) && eager
                        && list_eqb col_match (spec_cols (k_fmt c) (k_decl c) (k_recs c)) cols
  end.

Definition obs_same (m o : obs) : bool :=
  match m, o with
  | ObsErr, ObsErr => true
  | Obs n cols _, Obs n' cols' _ => (n =? n') && list_eqb col_same cols cols'
  | _, _ => false
  end.
(* the subset-then-parse route: Model.run_sel on the same record numbers *)
Definition sel_ok (c : case) : bool :=
  match k_sel c with
  | None => true
  | Some (idx, o) => obs_same (run_sel (k_fmt c) (k_decl c) (k_file c) idx) o
  end.
Definition model_ok (c : case) : bool :=
  obs_same (run (k_fmt c) (k_decl c) (k_file c)) (k_obs c) && sel_ok c.

(* Corr/C04.v — correspondence case type and the two decidable verdicts evaluated per case:
   model_ok = what the writer produced equals the model's output on the same file and program;
   spec_ok  = what the writer produced satisfies the property (from the generator's records only). *)
From Coq Require Import ZArith List Bool.
From BNP Require Export Base.Prims Model.C04.
Import ListNotations.
Open Scope Z_scope.

(* One case = one file + one SESSION: several tables are derived from the table that was read (a derived table may be
   built from an earlier one), and some of them — the source and intermediate tables included — are written, each to its
   own file, after all of them have been derived.  Every written table is given by its program with the references to
   earlier tables expanded (the model is functional: deriving a table never changes the tables it was derived from, so a
   reference and its definition denote the same table; the implementation must agree — this is what catches aliasing). *)
Record case := {
  k_fmt : fmt;
  k_recs : list grec;            (* ground truth: the records the file was laid out from *)
  k_header : list Z;             (* '#'/'@' header lines (text formats) — copied by the writer *)
  k_file : list Z;               (* the bytes after the header, as written to disk by the harness *)
  k_runs : list (prog * option (list Z))
     (* per written table: its program (index expressions resolved by NumPy on arange) and the whole output file
        (BAM: decompressed); None = exception *)
}.

(* the generator's file really is the layout of its records *)
Definition file_ok (c : case) : bool := zlist_eqb (layout (k_fmt c) (k_recs c)) (k_file c).

Definition strip_header (c : case) (out : option (list Z)) : option (option (list Z)) :=   (* None = header not reproduced *)
  match out with
  | None => Some None
  | Some o => match is_prefix (k_header c) o with Some body => Some (Some body) | None => None end
  end.

Definition spec_ok (c : case) : bool :=
  file_ok c &&
  forallb (fun po => match strip_header c (snd po) with
                     | None => false
                     | Some body => spec_out_ok (k_fmt c) (k_recs c) (fst po) body
                     end) (k_runs c).

Definition opt_eqb (a b : option (list Z)) : bool :=
  match a, b with Some x, Some y => zlist_eqb x y | None, None => true | _, _ => false end.

(* The hypotheses of the theorems C04_program_write / C04_selection_meets_spec, CHECKED on this case's file:
   the extractor the model builds from the raw bytes is well-formed (Inv), wide enough, and its abstraction is
   the one the generator's records define (gview).  With them the theorems cover EVERY program on this file.
   Not checked for CRLF delimited files while [v_crlf current = false]: there the extractor of the code at HEAD is not well-formed (a record
   stops before its '\n' — finding C04-crlf-delimited-selection-drops-newline), and not for GTF (read eagerly). *)
Definition is_lf (r : grec) : bool := match g_eol r with [] => true | [10] => true | _ => false end.
Definition hyp_ok (c : case) : bool :=
  let f := k_fmt c in
  match f with
  | FGtf => true
  | _ =>
      match f, forallb is_lf (k_recs c) || v_crlf current with
      | FDelim _, false => true
      | FVcf _, false => true
      | _, _ =>
          match read current f (k_file c) with
          | Some (SLazy x _) =>
              inv_b x && width_b f (view x) && list_eqb arow_eqb (view x) (map (gview f) (k_recs c))
          | Some (SEager _) => false
          | None => true                       (* unreadable (SAM with CRLF): model_out is None as well *)
          end
      end
  end.

Definition model_ok (c : case) : bool :=
  hyp_ok c &&
  forallb (fun po => match strip_header c (snd po) with
                     | None => false
                     | Some body => opt_eqb body (model_out (k_fmt c) (k_file c) (fst po))
                     end) (k_runs c).

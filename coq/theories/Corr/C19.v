(* Corr/C19.v — correspondence case type and the two decidable verdicts evaluated per case:
   model_ok = what the implementation returned (column representation, rows, dict keys, errors) equals the
              columnar model's output, step by step;
   spec_ok  = what the implementation returned satisfies the property, judged against the list-of-rows
              specification only (never the columnar model). *)
From Coq Require Import ZArith List Bool.
From BNP Require Export Base.Prims Model.C19.
Import ListNotations.
Open Scope Z_scope.

(* what was observed of a table: its columns as stored, its rows via tolist(), the keys of todict() *)
Inductive obs :=
| OTab (cols : ctable) (rows : list (list mcell)) (keys : list (list Z))
| ORowsO (rows : list (list mcell))
| OErrO.

Record case := {
  k_sch : schema;
  k_a0 : list colarg;  k_a1 : list colarg;      (* constructor arguments of the two operand tables *)
  k_prog : list op;
  k_t0 : obs;  k_t1 : obs;                        (* the operands right after construction *)
  k_steps : list obs;                             (* one observation per operation *)
  k_t0_after : obs;  k_t1_after : obs;            (* the operands re-observed after the whole program *)
  k_unchanged : bool;                             (* every intermediate table re-observed identical at the end *)
  (* the same program run a second time WITHOUT looking at any intermediate table (no tolist / len / column access
     between two operations — lazily indexed views stay unmaterialised): the final table and which steps raised *)
  k_lazy : obs;  k_lazy_errs : list bool
}.

(* ---------- equality on observations ---------- *)
Definition dt_tag_eqb := dt_eqb.
Definition rtag_eqb (a b : rtag) : bool :=
  match a, b with RStr, RStr | RDna, RDna => true | RNum x, RNum y => dt_eqb x y | _, _ => false end.
Definition bcol_eqb (a b : bcol) : bool :=
  match a, b with
  | ColNum d v, ColNum d' v' => dt_eqb d d' && zlist_eqb v v'
  | ColRag t x l, ColRag t' x' l' => rtag_eqb t t' && zlist_eqb x x' && zlist_eqb l l'
  | ColPad w m, ColPad w' m' => (w =? w') && zll_eqb m m'
  | ColFlat v, ColFlat v' => zlist_eqb v v'
  | _, _ => false
  end.
Definition col_eqb (a b : col) : bool :=
  match a, b with
  | CBase x, CBase y => bcol_eqb x y
  | CNest x, CNest y => list_eqb bcol_eqb x y
  | _, _ => false
  end.
Definition ctable_eqb : ctable -> ctable -> bool := list_eqb col_eqb.
Definition mb_eqb (a b : mb) : bool :=
  match a, b with
  | MZ d z, MZ d' z' => dt_eqb d d' && (z =? z')
  | MS s, MS s' => zlist_eqb s s'
  | ML d l, ML d' l' => (is_nil l && is_nil l' || dt_eqb d d') && zlist_eqb l l'
  | _, _ => false
  end.
Definition mcell_eqb (a b : mcell) : bool :=
  match a, b with
  | MB x, MB y => mb_eqb x y
  | MN x, MN y => list_eqb mb_eqb x y
  | _, _ => false
  end.
Definition mrows_eqb : list (list mcell) -> list (list mcell) -> bool := list_eqb (list_eqb mcell_eqb).

Definition obs_rows (o : obs) : option table :=
  match o with OTab _ r _ => Some (erase_rows r) | _ => None end.
Definition obs_eqb (a b : obs) : bool :=
  match a, b with
  | OTab c r k, OTab c' r' k' => ctable_eqb c c' && mrows_eqb r r' && zll_eqb k k'
  | ORowsO r, ORowsO r' => mrows_eqb r r'
  | OErrO, OErrO => true
  | _, _ => false
  end.

(* ---------- spec_ok ---------- *)
(* the rows a list of constructor arguments denotes, if every argument is acceptable and all have one length *)
Definition args_rows (sch : schema) (args : list colarg) : option table :=
  if Nat.eqb (length sch) (length args) && negb (is_nil args)
     && forallb (fun p => arg_ok (snd (fst p)) (snd p)) (combine sch args)
     && forallb (fun a => Nat.eqb (length (arg_cells a)) (length (arg_cells (hd (ABase []) args)))) args
  then Some (match arg_cells (hd (ABase []) args) with
             | [] => []
             | _ => erase_rows (zip_rows (map arg_cells args))
             end)
  else None.
(* property part 1: all columns of equal length, and tolist has that many rows *)
Definition tab_aligned (cols : ctable) (rows : list (list mcell)) : bool :=
  aligned cols && Nat.eqb (m_len cols) (length rows).
Definition construct_ok (sch : schema) (args : list colarg) (o : obs) : bool :=
  match args_rows sch args, o with
  | Some t, OTab cols rows _ => tab_aligned cols rows && table_eqb (erase_rows rows) t
  | None, OErrO => true
  | _, _ => false
  end.
Definition check_step (want : sres) (o : obs) : bool :=
  match want, o with
  | STab t, OTab cols rows _ => tab_aligned cols rows && table_eqb (erase_rows rows) t
  | SSorted f t, OTab cols rows _ =>
      (* exactly the stable sort of the row list (as sorted() on the list-of-tuples model): rows with equal key keep
         their order — for every table size *)
      tab_aligned cols rows && table_eqb (erase_rows rows) (s_sort_by f t)
  | SRows t, ORowsO rows => table_eqb (erase_rows rows) t
  | SErr, OErrO => true
  | SAny, OTab cols rows _ => tab_aligned cols rows
  | SAny, _ => true
  | _, _ => false
  end.
Definition sch_after (sch : schema) (o : op) (ob : obs) : schema :=
  match o, ob with
  | OAdd name k _, OTab _ _ _ => sch ++ [(name, FB k)]
  | OAddT1 sch1 name k _, OTab _ _ _ => sch1 ++ [(name, FB k)]
  | _, _ => sch
  end.
Fixpoint steps_ok (sch : schema) (cur t1 : table) (p : list op) (os : list obs) : bool :=
  match p, os with
  | [], [] => true
  | o :: p', ob :: os' =>
      check_step (s_step sch cur t1 o) ob
      && steps_ok (sch_after sch o ob) (match obs_rows ob with Some t => t | None => cur end) t1 p' os'
  | _, _ => false
  end.
Definition same_rows (a b : obs) : bool :=
  match obs_rows a, obs_rows b with Some x, Some y => table_eqb x y | None, None => true | _, _ => false end.
Definition final_obs (t0 : obs) (steps : list obs) : obs :=
  fold_left (fun acc o => match o with OTab _ _ _ => o | _ => acc end) steps t0.
Definition step_errs (steps : list obs) : list bool := map (fun o => match o with OErrO => true | _ => false end) steps.
Definition spec_ok (c : case) : bool :=
  construct_ok (k_sch c) (k_a0 c) (k_t0 c)
  && construct_ok (k_sch c) (k_a1 c) (k_t1 c)
  && match obs_rows (k_t0 c), obs_rows (k_t1 c) with
     | Some r0, Some r1 => steps_ok (k_sch c) r0 r1 (k_prog c) (k_steps c)
     | _, _ => is_nil (k_prog c)
     end
  && same_rows (k_t0 c) (k_t0_after c) && same_rows (k_t1 c) (k_t1_after c) && k_unchanged c
  && same_rows (final_obs (k_t0 c) (k_steps c)) (k_lazy c)
  && list_eqb Bool.eqb (step_errs (k_steps c)) (k_lazy_errs c).

(* ---------- model_ok ---------- *)
Definition mres_eqb (sch0 : schema) (m : mres) (o : obs) : bool :=
  match m, o with
  | MTab sch t, OTab cols rows keys =>
      ctable_eqb t cols && mrows_eqb (m_to_rows t) rows && zll_eqb (map fst (m_todict sch t)) keys
  | MRows r, ORowsO r' => mrows_eqb r r'
  | MErr, OErrO => true
  | _, _ => false
  end.
Definition mopt_eqb (sch : schema) (m : option ctable) (o : obs) : bool :=
  mres_eqb sch (match m with Some t => MTab sch t | None => MErr end) o.
Fixpoint all2 {A B} (f : A -> B -> bool) (a : list A) (b : list B) : bool :=
  match a, b with
  | [], [] => true
  | x :: a', y :: b' => f x y && all2 f a' b'
  | _, _ => false
  end.
(* One step of the model is run from the table the implementation actually holds (equal to the model's own table
   whenever the previous step agreed).  The comparison is exact for every operation, sort_by included: the code sorts
   with np.argsort(kind='stable') and the model's argsort is the stable insertion sort. *)
Definition obs_tab (o : obs) : option ctable := match o with OTab c _ _ => Some c | _ => None end.
Definition mstep_ok (sch : schema) (cur t1 : ctable) (o : op) (ob : obs) : bool :=
  mres_eqb sch (m_step sch cur t1 o) ob.
Fixpoint msteps_ok (sch : schema) (cur t1 : ctable) (p : list op) (os : list obs) : bool :=
  match p, os with
  | [], [] => true
  | o :: p', ob :: os' =>
      mstep_ok sch cur t1 o ob
      && msteps_ok (sch_after sch o ob) (match obs_tab ob with Some c => c | None => cur end) t1 p' os'
  | _, _ => false
  end.
(* The second, unobserved run and the OPEN finding C19-single-index-of-unmaterialised-ragged-view: a ragged column of a
   table just produced by indexing / masking / slicing / sort_by is a lazily indexed view; it stays one through replace
   of ANOTHER column and add_fields, and is rebuilt by concatenate, the row / dict / pandas round trips and replace of
   that column.  While some column is such a view, table[i] raises (TypeError) on the pinned code.  The model predicts
   the error positions of the unobserved run from that per-column state; fix9_lazy_index = true switches the effect off. *)
Definition bcol_ragged (b : bcol) : bool := match b with ColRag _ _ _ => true | _ => false end.
Definition col_ragged (c : col) : bool := match c with CBase b => bcol_ragged b | CNest cs => existsb bcol_ragged cs end.
Fixpoint set_false (k : nat) (l : list bool) : list bool :=
  match k, l with
  | O, _ :: r => false :: r
  | S k', x :: r => x :: set_false k' r
  | _, [] => []
  end.
Definition next_views (o : op) (views : list bool) (cols : ctable) : list bool :=
  match o with
  | OTake _ | OMask _ | OSlice _ _ _ | OSort _ => map col_ragged cols
  | OReplace f _ => set_false f views
  | OAdd _ _ _ => views ++ [false]
  | _ => map (fun _ => false) cols
  end.
Definition is_err (o : obs) : bool := match o with OErrO => true | _ => false end.
(* a sort_by that raises because its key is a List[int] column (np.argsort has no implementation for a RaggedArray)
   has nevertheless flattened that one column of its operand: it is no longer a view *)
Definition views_after_error (o : op) (views : list bool) (cur : ctable) : list bool :=
  match o with
  | OSort f => match nth_error cur f with
               | Some (CBase (ColRag (RNum _) _ _)) => set_false f views
               | _ => views
               end
  | _ => views
  end.
Fixpoint lazy_pred (views : list bool) (cur : ctable) (p : list op) (os : list obs) : list bool :=
  match p, os with
  | o :: p', ob :: os' =>
      match o with
      | OIndex _ => (is_err ob || (existsb (fun b => b) views && negb fix9_lazy_index)) :: lazy_pred views cur p' os'
      | _ => is_err ob ::
             match ob with
             | OTab cols _ _ => lazy_pred (next_views o views cols) cols p' os'
             | OErrO => lazy_pred (views_after_error o views cur) cur p' os'
             | _ => lazy_pred views cur p' os'
             end
      end
  | _, _ => []
  end.
Definition obs_cols (o : obs) : ctable := match o with OTab c _ _ => c | _ => [] end.
Definition model_ok (c : case) : bool :=
  let m0 := m_construct (k_sch c) (k_a0 c) in
  let m1 := m_construct (k_sch c) (k_a1 c) in
  mopt_eqb (k_sch c) m0 (k_t0 c) && mopt_eqb (k_sch c) m1 (k_t1 c)
  && match m0, m1 with
     | Some t0, Some t1 => msteps_ok (k_sch c) t0 t1 (k_prog c) (k_steps c)
     | _, _ => is_nil (k_prog c)
     end
  && obs_eqb (k_t0 c) (k_t0_after c) && obs_eqb (k_t1 c) (k_t1_after c) && k_unchanged c
  && obs_eqb (final_obs (k_t0 c) (k_steps c)) (k_lazy c)
  && list_eqb Bool.eqb (lazy_pred (map (fun _ => false) (k_sch c)) (obs_cols (k_t0 c)) (k_prog c) (k_steps c)) (k_lazy_errs c).

(* Corr/C20.v — correspondence case type and the two verdicts evaluated inside Coq for every case.
   Four kinds of case (k_kind):
     0 call   one registered public function applied twice to generated arguments
     1 chunk  a lazily read file chunk whose fields were inspected, and its untouched twin
     2 site   the effect program of an in-place-writing site extracted from the current source
     3 probe  run-time probes (np.shares_memory & co.) of the aliasing classes the extractor relies on
   spec_ok  = the property on what the implementation did (inputs unchanged, same result twice, bytes written
              unchanged; for a site: the checker accepts the extracted program);
   model_ok = the observation equals what the model predicts; for a site: the extraction made in the observing
              sub-process equals the one made through the translator's code path for the same tree, and that one is
              safe.  (Corr does not import Gen/C20.v: case files are evaluated after the build lock is released, and a
              concurrent run against another tree may have regenerated Gen/C20.v by then.  Gen/C20.v itself is proved
              safe in Bridge/C20.v inside the lock — C20_source_tie.) *)
From Coq Require Import ZArith List Bool Arith.
From BNP Require Export Base.Prims Model.C20.
Import ListNotations.
Open Scope Z_scope.

Record case := {
  k_kind : Z;
  k_site : Z;                 (* call: 14 for the genotype row encodings, else 0;  site: the site id *)
  k_cow : bool;               (* call: the argument was a view-shaped (non-contiguous) ragged array *)
  k_target : Z;               (* call: which observed buffer holds the argument's text *)
  k_before : list (list Z);   (* every buffer reachable from the arguments / the chunk, before ... *)
  k_after : list (list Z);    (* ... and after (the same array objects, held by reference) *)
  k_log_before : list Z;      (* digest of the canonical logical content of the arguments, before / after *)
  k_log_after : list Z;
  k_res1 : list Z;            (* digest of the canonical result of the first / second application *)
  k_res2 : list Z;
  k_w_ref : list Z;           (* chunk: bytes written by the untouched twin / by the inspected chunk *)
  k_w_got : list Z;
  k_np : Z;                   (* site: number of parameters and extracted program *)
  k_prog : list instr;
  k_prog2 : list instr;       (* site: the same site extracted again through the translator's code path (translate/gen_c20.py)
                                 in the harness's main process — what Gen/C20.v holds for this tree *)
  k_flags : list bool         (* probe: each expectation held *)
}.

Definition observed_unchanged (c : case) : bool :=
  zll_eqb (k_before c) (k_after c) && zlist_eqb (k_log_before c) (k_log_after c) && zlist_eqb (k_res1 c) (k_res2 c).

Definition spec_ok (c : case) : bool :=
  if k_kind c =? 0 then observed_unchanged c
  else if k_kind c =? 1 then observed_unchanged c && zlist_eqb (k_w_ref c) (k_w_got c)
  else if k_kind c =? 2 then safe_prog (Z.to_nat (k_np c)) (k_prog c)
  else forallb (fun b => b) (k_flags c).

Definition model_call_ok (c : case) : bool :=
  let tgt := Z.to_nat (k_target c) in
  let s0 := call_init (k_before c) tgt (k_cow c) in
  let s1 := run (model_prog_sel (k_site c) (nth tgt (k_before c) [])) s0 in
  zll_eqb (firstn (length (k_before c)) (s_blocks s1)) (k_after c)
  && Bool.eqb (zll_eqb (content s1 (get_reg s1 0%nat)) (content s0 (get_reg s0 0%nat)))
              (zlist_eqb (k_log_before c) (k_log_after c))
  && zlist_eqb (k_res1 c) (k_res2 c).

Definition model_ok (c : case) : bool :=
  if k_kind c =? 0 then model_call_ok c
  else if k_kind c =? 1 then observed_unchanged c && zlist_eqb (k_w_ref c) (k_w_got c)
  else if k_kind c =? 2 then
    prog_eqb (k_prog c) (k_prog2 c) && safe_prog (Z.to_nat (k_np c)) (k_prog2 c)
  else forallb (fun b => b) (k_flags c).

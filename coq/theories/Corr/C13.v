(* Corr/C13.v — correspondence case type and the two verdicts, evaluated inside Coq per case:
   model_ok = what the implementation returned equals the model's output on the same input;
   spec_ok  = what the implementation returned is the property's value, computed from the Spec
              definitions (windows of each row alone, little-endian value) and the generator's input only. *)
From Coq Require Import ZArith List Bool.
From BNP Require Export Base.Prims.
From BNP Require Export Model.C13.
Import ListNotations.
Open Scope Z_scope.

(* one case = one call of one public function
   op 0 get_kmers(rows, w)                 out = k-mer codes per row;  k_labels = str() of every returned k-mer, row-major
      1 get_minimizers(rows, k, w)         out = minimizers per row (k_err: the call raised ValueError)
      2 match_string(rows, pat)            out = 0/1 per window per row            (w = |pat|)
      3 get_motif_scores(rows, PWM(cols))  out = integer scores per row            (w = |cols|)
      4 count_kmers(rows, w)               out = [counts];  k_labels = the counts' labels
      5 count_kmers(rows, w, axis=-1)      out = counts per row; k_labels likewise
      6 KmerEncoding(enc, w): for every window of every row (in order)  out row = encode(text) :: to_string(that code)
      7 get_motif_scores(rows, PWM.from_counts(..)) with a REAL-valued matrix, compared with a tolerance:
        k_cols = round(matrix * 2^20), out = round(scores * 2^20), tolerance w + 1 units (labelled float test)
      8 count_encoded(get_kmers(rows, w).ravel(), weights=k_pat)   out = [weighted counts] (one integer weight per k-mer)
      9 count_kmers(rows, 1) where row_i = k_rows_i repeated k_pat_i times (more than 10^6 letters in total; only the
        patterns and repetition numbers are handed to Coq)            out = [counts]
   k_kind: 0 = a ragged collection (fresh array, non-contiguous view, or one sequence as a 1-d array);
           2 = equal-length sequences as a dense 2-d EncodedArray with the alphabet encoding;
           3 = the same, un-encoded (ASCII) *)
Record case := {
  k_op : Z;
  k_kind : Z;
  k_alpha : list Z;                 (* the alphabet's letters (bytes); its length is |A| *)
  k_rows : list (list Z);           (* the sequences as letter codes 0..|A|-1 *)
  k_w : Z;                          (* window length (for op 1: the minimizer window) *)
  k_k : Z;                          (* op 1: k-mer length inside the minimizer window; otherwise = k_w *)
  k_pat : list Z;                   (* op 2 *)
  k_cols : list (list Z);           (* op 3: PWM columns, each |A| integer scores *)
  k_err : bool;                     (* the call raised (ValueError) *)
  k_out : list (list Z);
  k_labels : list (list Z)
}.
Definition nA (c : case) : Z := len (k_alpha c).
Definition wn (c : case) : nat := Z.to_nat (k_w c).

(* input inside the property's quantifier: an alphabet of distinct letters, letters in range, 1 <= w, total letters >= w, |A|^w < 2^63 *)
Fixpoint nodupb (l : list Z) : bool :=
  match l with [] => true | x :: r => negb (existsb (Z.eqb x) r) && nodupb r end.
(* a dense 2-d input has rows of one length *)
Definition kind_ok (c : case) : bool :=
  (k_kind c =? 0)
  || (((k_kind c =? 2) || (k_kind c =? 3))
      && match k_rows c with [] => false | r :: rs => forallb (fun r' => len r' =? len r) rs end).
(* the rows the library actually works on, for the two routes that lose the row structure of a dense input *)
Definition motif_rows (c : case) : list (list Z) :=
  if k_kind c =? 0 then k_rows c else motif_dense_rows (k_rows c).
Definition kmers_rows (c : case) : list (list Z) :=
  if k_kind c =? 3 then kmers_unencoded_dense_rows (k_rows c) else k_rows c.
(* same shape and every entry within tol *)
Definition rows_close (tol : Z) (a b : list (list Z)) : bool :=
  (len a =? len b)
  && all_true (map (fun '(x, y) => (len x =? len y)
                                   && all_true (map (fun '(u, v) => Z.abs (u - v) <=? tol) (combine x y)))
                   (combine a b)).
Definition all_windows (c : case) : list (list Z) := concat (map (windows (wn c)) (k_rows c)).
Definition in_domain (c : case) : bool :=
  (2 <=? nA c) && nodupb (k_alpha c) && forallb (forallb (fun x => (0 <=? x) && (x <? nA c))) (k_rows c)
  && (1 <=? k_k c) && (k_k c <=? k_w c) && (k_w c <=? 31) && (k_w c <=? len (concat (k_rows c)))
  && (nA c ^ k_k c <? 2 ^ 63)
  && match k_op c with
     | 2 => len (k_pat c) =? k_w c
     | 3 | 7 => (len (k_cols c) =? k_w c) && forallb (fun col => len col =? nA c) (k_cols c)
     | 1 => true
     | 8 => (k_k c =? k_w c) && (len (k_pat c) =? len (all_windows c))
     | 9 => (k_k c =? k_w c) && (k_w c =? 1) && (len (k_pat c) =? len (k_rows c)) && forallb (fun r => 0 <=? r) (k_pat c)
     | _ => k_k c =? k_w c
     end
  && kind_ok c.

(* a label is right when it has k letters of the alphabet whose little-endian value is its index *)
Definition index_in (alpha : list Z) (b : Z) : Z :=
  match positions b alpha with i :: _ => i | [] => -1 end.
Definition labels_ok (c : case) : bool :=
  (len (k_labels c) =? nA c ^ k_w c)
  && all_true (map (fun '(i, lab) => (len lab =? k_w c)
                                  && forallb (fun b => 0 <=? index_in (k_alpha c) b) lab
                                  && (le_value (nA c) (map (index_in (k_alpha c)) lab) =? i))
                   (combine (arange (len (k_labels c))) (k_labels c))).

Definition spec_ok (c : case) : bool :=
  in_domain c && negb (k_err c) &&
  match k_op c with
  | 0 => zll_eqb (k_out c) (spec_kmers (nA c) (wn c) (k_rows c))
         && zll_eqb (k_labels c) (map (text_of (k_alpha c)) (all_windows c))
  | 1 => zll_eqb (k_out c) (spec_minimizers (nA c) (Z.to_nat (k_k c)) (wn c) (k_rows c))
  | 2 => zll_eqb (k_out c) (spec_match (k_pat c) (k_rows c))
  | 3 => zll_eqb (k_out c) (spec_motif (k_cols c) (k_rows c))
  | 4 => zll_eqb (k_out c) [bincount (nA c ^ k_w c) (concat (spec_kmers (nA c) (wn c) (k_rows c)))] && labels_ok c
  | 5 => zll_eqb (k_out c) (map (bincount (nA c ^ k_w c)) (spec_kmers (nA c) (wn c) (k_rows c))) && labels_ok c
  | 6 => zll_eqb (k_out c) (map (fun win => le_value (nA c) win :: text_of (k_alpha c) win) (all_windows c))
  | 7 => rows_close (k_w c + 1) (k_out c) (spec_motif (k_cols c) (k_rows c))
  | 8 => zll_eqb (k_out c) [wbincount (nA c ^ k_w c) (concat (spec_kmers (nA c) (wn c) (k_rows c))) (k_pat c)] && labels_ok c
  | 9 => zll_eqb (k_out c) [big_counts (nA c) (k_rows c) (k_pat c)] && labels_ok c
  | _ => false
  end.

Definition model_ok (c : case) : bool :=
  let n := nA c in
  match k_op c with
  | 0 => negb (k_err c) && zll_eqb (k_out c) (get_kmers n (k_w c) (kmers_rows c))
         && zll_eqb (k_labels c) (map (to_string (k_alpha c) n (k_w c)) (concat (get_kmers n (k_w c) (kmers_rows c))))
  | 1 => match get_minimizers n (k_k c) (k_w c) (k_rows c) with
         | None => k_err c
         | Some m => negb (k_err c) && zll_eqb (k_out c) m
         end
  | 2 => negb (k_err c) && zll_eqb (k_out c) (match_string (k_pat c) (k_rows c))
  | 3 => negb (k_err c) && zll_eqb (k_out c) (get_motif_scores (k_cols c) (motif_rows c))
  | 4 => negb (k_err c) && zll_eqb (k_out c) [count_kmers_flat n (k_w c) (k_rows c)]
         && zll_eqb (k_labels c) (labels (k_alpha c) n (k_w c))
  | 5 => negb (k_err c) && zll_eqb (k_out c) (count_kmers_rows n (k_w c) (k_rows c))
         && zll_eqb (k_labels c) (labels (k_alpha c) n (k_w c))
  | 6 => negb (k_err c)
         && zll_eqb (k_out c) (map (fun win => let h := encode_kmer n (k_w c) win in
                                               h :: to_string (k_alpha c) n (k_w c) h) (all_windows c))
  | 7 => negb (k_err c) && rows_close (k_w c + 1) (k_out c) (get_motif_scores (k_cols c) (motif_rows c))
  | 8 => negb (k_err c) && zll_eqb (k_out c) [count_weighted n (k_w c) (k_rows c) (k_pat c)]
         && zll_eqb (k_labels c) (labels (k_alpha c) n (k_w c))
  | 9 => negb (k_err c) && zll_eqb (k_out c) [big_counts n (k_rows c) (k_pat c)]
         && zll_eqb (k_labels c) (labels (k_alpha c) n (k_w c))
  | _ => false
  end.

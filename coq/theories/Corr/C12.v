(* Corr/C12.v — correspondence case type and the two decidable verdicts evaluated per case:
   model_ok = every observation of the implementation equals the model's output on the same chunk stream;
   spec_ok  = every observation satisfies the property, computed from the generator's ground truth (the
              groups) and the Spec definitions (spec_sync / meets) only. *)
From Coq Require Import ZArith List Bool.
From BNP Require Export Base.Prims Model.C12.
Import ListNotations.
Open Scope Z_scope.

Record case := {
  k_route : Z;                               (* 0 Genome API (iter_chromosomes), 1 MultiStream, 2 left_join *)
  k_genome : list bname;                     (* contig names in the order of the sizes dict *)
  k_keepall : bool;                          (* filter_function: keep-all (Genome.from_dict default) / ignore_underscores *)
  k_extra : list bname;                      (* with_ignored_added(...) *)
  k_groups : list (bname * ids);             (* ground truth: the data as groups (name, entry ids), names distinct *)
  k_chunks : list (list (bname * Z));        (* the same entries as the chunk stream handed to the library *)
  k_rows : list (res (list (bname * Z)));    (* compute(track.get_data()) / compute(pileup.get_data()): (label, entry id) *)
  k_flat : list (res (list Z));              (* compute((gi.start, gi.stop)): delivered entry ids in order *)
  k_sum : list (res Z);                      (* compute(pileup.sum()), also through read_intervals(file, stream=True) *)
  k_mslist : list (res (list ids));          (* list(MultiStream(sizes, a=stream).a) *)
  k_mszip : list (res (list ids));           (* second stream of zip(ms.a, ms.b, ms.lengths), a = reference data *)
  k_ct : list (res (Z * Z));                 (* get_contingency_table(ms.a, ms.b, ms.lengths): (#a only, #b only) *)
  k_mslist_tab : list (res (list ids));      (* the same three with the data handed over as ONE TABLE IN MEMORY: list(ms.a), *)
  k_mszip_tab : list (res (list ids));       (*   the data as first stream of the zip run to its end (in k_mslist_tab), as second stream, *)
  k_ct_tab : list (res (Z * Z));             (*   and the contingency table / forbes / jaccard with the table as second argument *)
  k_lj : list (res (list (bname * Z * option ids)))   (* list(left_join(sizes.items(), groupby(stream))) *)
}.

(* ---------- equality on observations ---------- *)
Definition res_eqb {A} (eqb : A -> A -> bool) (a b : res A) : bool :=
  match a, b with
  | Done x, Done y => eqb x y
  | Err c, Err d => c =? d
  | _, _ => false
  end.
Definition row_eqb (a b : bname * Z) : bool := zlist_eqb (fst a) (fst b) && (snd a =? snd b).
Definition rows_eqb := list_eqb row_eqb.
Definition opt_eqb {A} (eqb : A -> A -> bool) (a b : option A) : bool :=
  match a, b with Some x, Some y => eqb x y | None, None => true | _, _ => false end.
Definition lj_eqb := list_eqb (fun a b : bname * Z * option ids =>
  zlist_eqb (fst (fst a)) (fst (fst b)) && (snd (fst a) =? snd (fst b)) && opt_eqb zlist_eqb (snd a) (snd b)).
Definition zz_eqb (a b : Z * Z) : bool := (fst a =? fst b) && (snd a =? snd b).
Definition all_ok {A} (f : A -> bool) (l : list A) : bool := negb (match l with [] => true | _ => false end) && forallb f l.
Definition none_expected {A} (l : list A) : bool := match l with [] => true | _ => false end.

(* ---------- the generator's data really is what it claims (precondition of the property) ---------- *)
Fixpoint nodup_b (l : list bname) : bool :=
  match l with [] => true | x :: r => negb (existsb (zlist_eqb x) r) && nodup_b r end.
Definition entries_of (D : list (bname * ids)) : list (bname * Z) := flat_map (fun '(n, l) => map (pair n) l) D.
Definition gen_ok (c : case) : bool :=
  rows_eqb (concat (k_chunks c)) (entries_of (k_groups c))
  && nodup_b (map fst (k_groups c))                                   (* entries of one contig are contiguous *)
  && nodup_b (k_genome c)
  && forallb (fun g => negb (match snd g with [] => true | _ => false end)) (k_groups c)
  && forallb (fun ch => negb (match ch with [] => true | _ => false end)) (k_chunks c).

Definition sizes_of (G : list bname) : list (bname * Z) := combine G (arange (len G)).

(* ---------- spec_ok ---------- *)
Definition spec_ok (c : case) : bool :=
  gen_ok c &&
  if k_route c =? 0 then
    let G := ctx_included bname zlist_eqb has_underscore (k_keepall c) (k_genome c) (k_extra c) in
    let I := ctx_ignored bname has_underscore (k_keepall c) (k_genome c) (k_extra c) in
    let exp := spec_sync bname zlist_eqb ids [] G I (k_groups c) in
    all_ok (meets rows_eqb (option_map (labelled G) exp)) (k_rows c)
    && all_ok (meets zlist_eqb (option_map (@concat Z) exp)) (k_flat c)
    && all_ok (meets Z.eqb (option_map (fun a => len (concat a)) exp)) (k_sum c)
  else if k_route c =? 1 then
    let exp := spec_sync bname zlist_eqb ids [] (k_genome c) [] (k_groups c) in
    all_ok (meets zll_eqb exp) (k_mslist c)
    && all_ok (meets zll_eqb exp) (k_mszip c)
    && all_ok (meets zz_eqb (option_map (fun a => (len (k_genome c), len (concat a))) exp)) (k_ct c)
    && all_ok (meets zll_eqb exp) (k_mslist_tab c)
    && all_ok (meets zll_eqb exp) (k_mszip_tab c)
    && all_ok (meets zz_eqb (option_map (fun a => (len (k_genome c), len (concat a))) exp)) (k_ct_tab c)
  else
    let D := map (fun g => (fst g, Some (snd g))) (k_groups c) in
    let exp := spec_sync bname zlist_eqb (option ids) None (k_genome c) [] D in
    all_ok (meets lj_eqb (option_map (fun a => combine (sizes_of (k_genome c)) a) exp)) (k_lj c).

(* ---------- model_ok ---------- *)
Definition model_ok (c : case) : bool :=
  if k_route c =? 0 then
    let t := genome_trace_head (k_keepall c) (k_genome c) (k_extra c) (k_chunks c) in
    let labels := ctx_included bname zlist_eqb has_underscore (k_keepall c) (k_genome c) (k_extra c) in
    all_ok (res_eqb rows_eqb (api_rows bname labels t)) (k_rows c)
    && all_ok (res_eqb zlist_eqb (api_flat t)) (k_flat c)
    && all_ok (res_eqb Z.eqb (api_sum t)) (k_sum c)
    && none_expected (k_mslist c) && none_expected (k_mszip c) && none_expected (k_ct c) && none_expected (k_lj c)
    && none_expected (k_mslist_tab c) && none_expected (k_mszip_tab c) && none_expected (k_ct_tab c)
  else if k_route c =? 1 then
    let t := multistream_trace (k_genome c) (k_chunks c) in
    let zipb := pull_n (length (k_genome c)) t in
    let tt := multistream_table_trace (k_genome c) (k_chunks c) in
    let zipt := pull_n (length (k_genome c)) tt in
    all_ok (res_eqb zll_eqb (pull_all t)) (k_mslist c)
    && all_ok (res_eqb zll_eqb zipb) (k_mszip c)
    && all_ok (res_eqb zz_eqb (res_map (fun a => (len (k_genome c), len (concat a))) zipb)) (k_ct c)
    && none_expected (k_rows c) && none_expected (k_flat c) && none_expected (k_sum c) && none_expected (k_lj c)
    && all_ok (res_eqb zll_eqb (pull_all tt)) (k_mslist_tab c)
    && all_ok (res_eqb zll_eqb zipt) (k_mszip_tab c)
    && all_ok (res_eqb zz_eqb (res_map (fun a => (len (k_genome c), len (concat a))) zipt)) (k_ct_tab c)
  else
    let t := left_join bname zlist_eqb Z ids (sizes_of (k_genome c)) (grouped bname zlist_eqb (k_chunks c)) in
    all_ok (res_eqb lj_eqb (pull_all t)) (k_lj c)
    && none_expected (k_rows c) && none_expected (k_flat c) && none_expected (k_sum c)
    && none_expected (k_mslist c) && none_expected (k_mszip c) && none_expected (k_ct c)
    && none_expected (k_mslist_tab c) && none_expected (k_mszip_tab c) && none_expected (k_ct_tab c).

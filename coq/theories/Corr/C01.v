(* Corr/C01.v — correspondence cases for the chunked reader. *)
From Coq Require Import ZArith List Bool Arith.
From BNP Require Export Base.Prims Model.C01.
Import ListNotations.
Open Scope Z_scope.

Inductive obs :=
| ODone (chunks : list (list Z))     (* bytes of every delivered buffer, in order *)
| OFormat (line : Z)                 (* FormatException(line_number) *)
| OError.                            (* any other exception *)

Inductive case :=
| CReader (f : fmt) (m : mode) (k : Z) (file : list Z) (max_entry : Z) (o : obs)
    (* NumpyFileReader(BytesIO(file), buffer)[.set_prepend_mode()].read_chunks(k) *)
| CE2E (chunked whole : list Z) (errc errw : bool) (k max_entry : Z).
    (* bnp.open(path).read_chunks(k) vs .read(): canonical serialisation of the entries *)

Definition ends_nl_c (l : list Z) : bool := last l 0 =? 10.
Definition chunk_shape_ok (f : fmt) (c : list Z) : bool :=
  match f with
  | Delim _ => ends_nl_c c
  | OneLine n _ _ => ends_nl_c c && ((count_nl c mod n =? 0)%nat)
  | MultiFasta => ends_nl_c c && (nthZ c 0 =? 62)
  end.
(* the file with a final line break (markers are never part of delivered buffers) *)
Definition norm_text (file : list Z) : list Z :=
  match file with [] => [] | _ => if ends_nl_c file then file else file ++ [10] end.

Definition spec_ok (c : case) : bool :=
  match c with
  | CReader f m k file max_entry o =>
      match o with
      | ODone chunks => zlist_eqb (concat chunks) (norm_text file) && all_true (map (chunk_shape_ok f) chunks)
                        && all_true (map (fun c => negb (zlist_eqb c [])) chunks)
      | _ => k <? max_entry      (* only a chunk size too small to hold one entry may raise *)
      end
  | CE2E chunked whole errc errw k max_entry =>
      negb errw && (if errc then k <? max_entry else zlist_eqb chunked whole)
  end.

Definition model_ok (c : case) : bool :=
  match c with
  | CReader f m k file _ o =>
      match read_chunks true f m (Z.to_nat k) file, o with
      | Done chunks _ _ _, ODone ochunks => zll_eqb chunks ochunks
      | FormatError l _, OFormat ol => Z.of_nat l =? ol
      | OtherError _, OError => true
      | _, _ => false
      end
  | CE2E _ _ _ _ _ _ => true
  end.

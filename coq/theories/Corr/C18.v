(* Corr/C18.v — correspondence case type and the two decidable verdicts evaluated per case.
   A case is one batch of input rows of one kind plus a list of runs; a run names a route through the
   public API, the sub-batch (indices into the rows, any order) that was converted, and what came back.
     kind 0  format integers      row = [n]            out = text
     kind 1  parse integers       row = text           out = [value]
     kind 2  format integer lists row = [n1;..;nk]     out = text
     kind 3  parse integer lists  row = text           out = [v1;..;vk]
     kind 4  parse floats         row = text           out = [bits of the double]
     kind 5  format floats        row = [bits]         out = bits of the re-parsed double :: text
     kind 7  parse integers, some rows malformed   row = text    out = [value] / exception (k_errs)
     kind 8  parse floats, some rows malformed     row = text    out = [bits]  / exception (k_errs)
     kind 6  digit matrix         row 0 = the buffer, row i = [start; end]   out = the matrix row
             (move_intervals_to_digit_array(data, starts, ends, '0') on the selected intervals)
   k_pow is the platform's 10.**k observed in the same process, as (k, bit pattern), for every k the float
   cases of this case need (assumption E3 of Model/C18.v).
   spec_ok : every output row satisfies the property for ITS input row alone (this is both the
             correctness and the row-independence clause), judged with the Spec definitions only;
   model_ok: every run returned what the model of the code returns for that sub-batch
             (floats: within the tolerance of the model's exact rational). *)
From Coq Require Import ZArith List Bool.
From BNP Require Export Base.Prims Model.C18.
Import ListNotations.
Open Scope Z_scope.

(* ---- the one-line switch between the code as pinned and the proposed repair (notes/C18.fix-1.diff) ---- *)
Definition fmt_ints : list Z -> list (list Z) := ints_to_strings.
Definition fmt_int_lists : Z -> list (list Z) -> list (list Z) := int_lists_to_strings.
(* ---- the same for notes/C18.fix-2.diff (leading '+' on float texts) ---- *)
Definition parse_floats : list (list Z) -> option (list (bool * Z * Z * Z)) := str_to_float_rows.
(* ---- list column: /repo commit 8a5819c (= notes/C02.fix-2.diff, rows regrouped by non-empty items) is in;
        before it the code was parse_split_ints_pinned ---- *)
Definition parse_lists : Z -> list (list Z) -> option (list (list Z)) := parse_split_ints.

(* ---- which exception, at which row, for malformed texts: the code as in /repo now; after notes/C18.fix-3.diff
        set these to str_to_int_res_fixed / str_to_float_err_fixed ---- *)
Definition int_outcome : list (list Z) -> pres (list Z) := str_to_int_res_fixed.
Definition float_outcome : list (list Z) -> pres unit := str_to_float_err_fixed.
Definition float_plus : bool := true.     (* which variant of the float parser the double model follows *)
Definition parse_tol : Z := 8.     (* float parsing tolerance in half-ulps: 4 ulp *)

Definition run := (Z * list Z * option (list (list Z)))%type.   (* route, indices, outputs (None = exception) *)
(* k_errs: per run, (class, row) of the exception it raised: (0,_) none, (1,row) EncodingError reported at that row of
   the sub-batch, (2,_) any other exception.  k_after: the input rows as they are AFTER all runs (the same array object
   is parsed by every direct run), None when not observed. *)
Record case := { k_kind : Z; k_rows : list (list Z); k_runs : list run; k_pow : list (Z * Z);
                 k_errs : list (Z * Z); k_after : option (list (list Z)) }.

Definition select (rows : list (list Z)) (idx : list Z) : list (list Z) :=
  map (fun i => nth (Z.to_nat i) rows []) idx.
Definition hd0 (l : list Z) : Z := match l with x :: _ => x | [] => 0 end.
Fixpoint forall2b {A B} (f : A -> B -> bool) (a : list A) (b : list B) : bool :=
  match a, b with
  | [], [] => true
  | x :: a', y :: b' => f x y && forall2b f a' b'
  | _, _ => false
  end.
Definition opt_eqb {A} (eqb : A -> A -> bool) (a b : option A) : bool :=
  match a, b with Some x, Some y => eqb x y | None, None => true | _, _ => false end.

(* ---------- the property, per row ---------- *)
(* plain decimal texts whose digits form an integer below 2^53, at most 22 digits after the point, at most 23
   characters: one correctly rounded division (C18_float_short_decimal_partial) — required to be the NEAREST double *)
Definition short_class (t : list Z) : bool :=
  negb (has_e t) && (len t <=? 23)
  && match float_text_value t with Some (_, N, E) => (N <? 2 ^ 53) && (-22 <=? E) | None => false end.
Definition tol_of (t : list Z) : Z := if short_class t then 1 else 8.     (* half-ulps: 1/2 ulp, else 4 ulp *)
Definition float_ok (h : Z) (t : list Z) (bits : Z) : bool :=
  match float_text_value t with
  | Some (neg, N, E) => let '(num, den) := frac_of neg N E in within_half_ulps h bits neg num den
  | None => false
  end.
Definition row_spec (kind : Z) (row out : list Z) : bool :=
  if kind =? 0 then is_decimal_of (hd0 row) out
  else if kind =? 1 then
    match out with [v] => opt_eqb Z.eqb (text_value row) (Some v) | _ => false end
  else if kind =? 2 then
    match row with
    | [] => match out with [] => true | _ => false end
    | _ => forall2b is_decimal_of row (split_on 44 out)
    end
  else if kind =? 3 then
    match row with
    | [] => match out with [] => true | _ => false end
    | _ => forall2b (fun piece v => opt_eqb Z.eqb (text_value piece) (Some v)) (split_on 44 row) out
    end
  else if kind =? 4 then
    match out with [bits] => float_ok (tol_of row) row bits | _ => false end
  else if kind =? 5 then
    match row, out with
    | [x], b :: t => float_ok 1 t x && (b =? x)
    | _, _ => false
    end
  else false.
(* kind 6: every row is its field, left-padded with '0' to the widest field of the sub-batch *)
Definition iv_of (r : list Z) : Z * Z := (nthZ r 0, nthZ r 1).
Definition lpad (w : Z) (t : list Z) : list Z := repeat 48 (Z.to_nat (w - len t)) ++ t.
Definition matrix_spec (data : list Z) (ivs : list (Z * Z)) (outs : list (list Z)) : bool :=
  let fields := map (fun iv => slice (fst iv) (snd iv) data) ivs in
  let w := fold_right Z.max 0 (map len fields) in
  zll_eqb outs (map (lpad w) fields).
Definition run_spec (c : case) (r : run) : bool :=
  let '(route, idx, out) := r in
  match out with
  | None => false
  | Some outs =>
      if k_kind c =? 6 then matrix_spec (nth 0 (k_rows c) []) (map iv_of (select (k_rows c) idx)) outs
      else forall2b (row_spec (k_kind c)) (select (k_rows c) idx) outs
  end.
(* kinds 7 and 8: a sub-batch without a malformed row converts as usual (the malformed rows of the case do not matter:
   row independence); a sub-batch with one must raise the parse error, reported at its FIRST malformed row *)
Definition malformed (kind : Z) (t : list Z) : bool :=
  if kind =? 7 then match text_value t with None => true | Some _ => false end
  else match float_text_value t with None => true | Some _ => false end.
Definition mal_spec (c : case) (re : run * (Z * Z)) : bool :=
  let '((route, idx, out), (cls, row)) := re in
  let sel := select (k_rows c) idx in
  match find_index (malformed (k_kind c)) sel 0 with
  | Some k => match out with None => (cls =? 1) && (row =? k) | Some _ => false end
  | None => match out with
            | Some outs => forall2b (row_spec (if k_kind c =? 7 then 1 else 4)) sel outs
            | None => false
            end
  end.
Definition is_mal_kind (c : case) : bool := (k_kind c =? 7) || (k_kind c =? 8).
Definition inputs_unchanged (c : case) : bool :=
  match k_after c with Some a => zll_eqb a (k_rows c) | None => true end.
(* row independence, observed directly: whatever sub-batch and order a row was converted in, the result for it is
   the same byte for byte / bit for bit (kinds 0-5; for kind 6 the padding width legitimately follows the sub-batch) *)
Definition run_pairs (r : run) : list (Z * list Z) :=
  let '(_, idx, out) := r in match out with Some outs => combine idx outs | None => [] end.
Definition consistent (c : case) : bool :=
  let pairs := flat_map run_pairs (k_runs c) in
  (k_kind c =? 6)
  || forallb (fun p => match find (fun q => fst q =? fst p) pairs with
                       | Some q => zlist_eqb (snd q) (snd p)
                       | None => true
                       end) pairs.
Definition spec_ok (c : case) : bool :=
  (if is_mal_kind c then (len (k_errs c) =? len (k_runs c)) && forallb (mal_spec c) (combine (k_runs c) (k_errs c))
   else forallb (run_spec c) (k_runs c))
  && consistent c && inputs_unchanged c.

(* ---------- the model, per run ---------- *)
Definition float_rows_ok (texts : list (list Z)) (bits : list Z) : bool :=
  match parse_floats texts with
  | None => false
  | Some rs => forall2b (fun tr b => let '(ng, _, _, _) := snd tr in let '(num, den) := model_frac (snd tr) in
                                     within_half_ulps (tol_of (fst tr)) b ng num den) (combine texts rs) bits
  end.
(* the observed power table is plausible: every entry within one ulp of 10^k, exact for 0 <= k <= 22 *)
Definition pow_entry_ok (kv : Z * Z) : bool :=
  let '(k, bits) := kv in
  let '(num, den) := frac_of false 1 k in
  within_half_ulps (if (0 <=? k) && (k <=? 22) then 0 else 2) bits false num den.
Definition pow_table_ok (c : case) : bool := forallb pow_entry_ok (k_pow c).
(* bit-for-bit agreement with the modelled double evaluation *)
Definition float_bits_ok (c : case) (texts : list (list Z)) (bits : list Z) : bool :=
  match str_to_float_double (pow_of_table (k_pow c)) float_plus texts with
  | Some rs => forall2b dbl_matches bits rs
  | None => false
  end.
Definition run_model (c : case) (r : run) : bool :=
  let '(route, idx, out) := r in
  let sel := select (k_rows c) idx in
  let kind := k_kind c in
  if kind =? 0 then opt_eqb zll_eqb out (Some (fmt_ints (map hd0 sel)))
  else if kind =? 1 then
    opt_eqb zll_eqb out
      (option_map (map (fun v => [v])) (if (route =? 1) || (route =? 4) then int_column sel else str_to_int_rows sel))
  else if kind =? 2 then opt_eqb zll_eqb out (Some (fmt_int_lists 44 sel))
  else if kind =? 3 then opt_eqb zll_eqb out (parse_lists 44 sel)
  else if kind =? 4 then
    match out with
    | Some outs => forallb (fun o => len o =? 1) outs && float_rows_ok sel (map hd0 outs) && float_bits_ok c sel (map hd0 outs)
    | None => match parse_floats sel with None => true | Some _ => false end
    end
  else if kind =? 5 then
    match out with
    | Some outs => float_rows_ok (map (@tl Z) outs) (map hd0 outs) && float_bits_ok c (map (@tl Z) outs) (map hd0 outs)
    | None => false
    end
  else if kind =? 6 then
    opt_eqb zll_eqb out (Some (digit_matrix (nth 0 (k_rows c) []) (map iv_of sel) 48))
  else false.
(* kinds 7 and 8: the model's outcome (values / EncodingError at a row / other exception) against the observed one *)
Definition as_kind (k : Z) (c : case) : case :=
  {| k_kind := k; k_rows := k_rows c; k_runs := k_runs c; k_pow := k_pow c; k_errs := k_errs c; k_after := k_after c |}.
Definition mal_model (c : case) (re : run * (Z * Z)) : bool :=
  let '((route, idx, out), (cls, row)) := re in
  let sel := select (k_rows c) idx in
  let res := if k_kind c =? 7 then (match int_outcome sel with POk _ => POk tt | PEnc r => PEnc r | POther => POther end)
             else float_outcome sel in
  match res with
  | POk _ => run_model (as_kind (if k_kind c =? 7 then 1 else 4) c) (route, idx, out)
  | PEnc r => match out with None => (cls =? 1) && (row =? r) | Some _ => false end
  | POther => match out with None => cls =? 2 | Some _ => false end
  end.
Definition model_ok (c : case) : bool :=
  (if is_mal_kind c then (len (k_errs c) =? len (k_runs c)) && forallb (mal_model c) (combine (k_runs c) (k_errs c))
   else forallb (run_model c) (k_runs c))
  && pow_table_ok c && inputs_unchanged c.

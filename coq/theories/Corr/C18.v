(* Corr/C18.v — correspondence case type and the two decidable verdicts evaluated per case.
   A case is one batch of input rows of one kind plus a list of runs; a run names a route through the
   public API, the sub-batch (indices into the rows, any order) that was converted, and what came back.
     kind 0  format integers      row = [n]            out = text
     kind 1  parse integers       row = text           out = [value]
     kind 2  format integer lists row = [n1;..;nk]     out = text
     kind 3  parse integer lists  row = text           out = [v1;..;vk]
     kind 4  parse floats         row = text           out = [bits of the double]
     kind 5  format floats        row = [bits]         out = bits of the re-parsed double :: text
   spec_ok : every output row satisfies the property for ITS input row alone (this is both the
             correctness and the row-independence clause), judged with the Spec definitions only;
   model_ok: every run returned what the model of the code returns for that sub-batch
             (floats: within the tolerance of the model's exact rational). *)
From Coq Require Import ZArith List Bool.
From BNP Require Export Base.Prims Model.C18.
Import ListNotations.
Open Scope Z_scope.

(* ---- the one-line switch between the code as pinned and the proposed repair (notes/C18.fix-1.diff) ---- *)
Definition fmt_ints : list Z -> list (list Z) := ints_to_strings.
Definition fmt_int_lists : Z -> list (list Z) -> list (list Z) := int_lists_to_strings.
(* ---- the same for notes/C18.fix-2.diff (leading '+' on float texts) ---- *)
Definition parse_floats : list (list Z) -> option (list (bool * Z * Z * Z)) := str_to_float_rows.
(* ---- list column: /repo commit 8a5819c (= notes/C02.fix-2.diff, rows regrouped by non-empty items) is in;
        before it the code was parse_split_ints_pinned ---- *)
Definition parse_lists : Z -> list (list Z) -> option (list (list Z)) := parse_split_ints.

Definition parse_tol : Z := 8.     (* float parsing tolerance in half-ulps: 4 ulp *)

Definition run := (Z * list Z * option (list (list Z)))%type.   (* route, indices, outputs (None = exception) *)
Record case := { k_kind : Z; k_rows : list (list Z); k_runs : list run }.

Definition select (rows : list (list Z)) (idx : list Z) : list (list Z) :=
  map (fun i => nth (Z.to_nat i) rows []) idx.
Definition hd0 (l : list Z) : Z := match l with x :: _ => x | [] => 0 end.
Fixpoint forall2b {A B} (f : A -> B -> bool) (a : list A) (b : list B) : bool :=
  match a, b with
  | [], [] => true
  | x :: a', y :: b' => f x y && forall2b f a' b'
  | _, _ => false
  end.
Definition opt_eqb {A} (eqb : A -> A -> bool) (a b : option A) : bool :=
  match a, b with Some x, Some y => eqb x y | None, None => true | _, _ => false end.

(* ---------- the property, per row ---------- *)
Definition float_ok (h : Z) (t : list Z) (bits : Z) : bool :=
  match float_text_value t with
  | Some (neg, N, E) => let '(num, den) := frac_of neg N E in within_half_ulps h bits neg num den
  | None => false
  end.
Definition row_spec (kind : Z) (row out : list Z) : bool :=
  if kind =? 0 then is_decimal_of (hd0 row) out
  else if kind =? 1 then
    match out with [v] => opt_eqb Z.eqb (text_value row) (Some v) | _ => false end
  else if kind =? 2 then
    match row with
    | [] => match out with [] => true | _ => false end
    | _ => forall2b is_decimal_of row (split_on 44 out)
    end
  else if kind =? 3 then
    match row with
    | [] => match out with [] => true | _ => false end
    | _ => forall2b (fun piece v => opt_eqb Z.eqb (text_value piece) (Some v)) (split_on 44 row) out
    end
  else if kind =? 4 then
    match out with [bits] => float_ok parse_tol row bits | _ => false end
  else if kind =? 5 then
    match row, out with
    | [x], b :: t => float_ok 1 t x && (b =? x)
    | _, _ => false
    end
  else false.
Definition run_spec (c : case) (r : run) : bool :=
  let '(route, idx, out) := r in
  match out with
  | None => false
  | Some outs => forall2b (row_spec (k_kind c)) (select (k_rows c) idx) outs
  end.
Definition spec_ok (c : case) : bool := forallb (run_spec c) (k_runs c).

(* ---------- the model, per run ---------- *)
Definition float_rows_ok (texts : list (list Z)) (bits : list Z) : bool :=
  match parse_floats texts with
  | None => false
  | Some rs => forall2b (fun r b => let '(ng, _, _, _) := r in let '(num, den) := model_frac r in
                                    within_half_ulps parse_tol b ng num den) rs bits
  end.
Definition run_model (c : case) (r : run) : bool :=
  let '(route, idx, out) := r in
  let sel := select (k_rows c) idx in
  let kind := k_kind c in
  if kind =? 0 then opt_eqb zll_eqb out (Some (fmt_ints (map hd0 sel)))
  else if kind =? 1 then
    opt_eqb zll_eqb out
      (option_map (map (fun v => [v])) (if route =? 1 then int_column sel else str_to_int_rows sel))
  else if kind =? 2 then opt_eqb zll_eqb out (Some (fmt_int_lists 44 sel))
  else if kind =? 3 then opt_eqb zll_eqb out (parse_lists 44 sel)
  else if kind =? 4 then
    match out with
    | Some outs => float_rows_ok sel (map hd0 outs)
    | None => match parse_floats sel with None => true | Some _ => false end
    end
  else if kind =? 5 then
    match out with
    | Some outs => float_rows_ok (map (@tl Z) outs) (map hd0 outs)
    | None => false
    end
  else false.
Definition model_ok (c : case) : bool := forallb (run_model c) (k_runs c).

(* Corr/C17.v — correspondence case type and the two decidable verdicts evaluated per case:
   model_ok = the implementation's observation equals the model's output;
   spec_ok  = the observation satisfies the property (computed from the generator's ground truth). *)
From Coq Require Import ZArith List Bool.
From BNP Require Export Base.Prims Model.C17.
From BNP Require Model.C01.
Import ListNotations.
Open Scope Z_scope.

Definition obs_idx := (list Z * Z * Z * Z * Z)%type.   (* name, rlen, offset, lenc, lenb *)
Record case := {
  k_recs : list rec;  k_crlf : bool;  k_file : list Z;          (* ground truth and actual bytes *)
  k_supplied : bool;                                             (* index supplied faidx-style by the harness *)
  k_index : list obs_idx;                                        (* the .fai the library wrote *)
  k_lengths : list Z;                                            (* get_contig_lengths() in index order *)
  k_contigs : list (list Z);                                     (* idx[name] for every record *)
  k_fetch : list (Z * Z * Z * list Z);                           (* (record number, a, b, returned bytes) *)
  k_genome : list (Z * list Z);       (* Genome.from_file(..).read_sequence()[whole contig]: upper-cased by its DNA encoding *)
  (* Genome route, sub-intervals handed over in shuffled order: (record number, a, b, returned bytes) *)
  k_genome_iv : list (Z * Z * Z * list Z);
  (* the same PATH rewritten with the records in reverse order and opened again in the same process:
     get_contig_lengths() and the whole contigs of the second file, in its own record order (empty: not exercised) *)
  k_reopen_lengths : list Z;  k_reopen_contigs : list (list Z);
  (* create_index with the reader asked for chunks of k_chunk bytes (0: not exercised) on the raw file bytes *)
  k_chunk : Z;  k_chunk_raw : list Z;  k_chunk_err : bool;  k_chunk_index : list obs_idx;
  (* a file too large to hand over: the shapes of its records and the .fai the library wrote with its own chunking *)
  k_big_eollen : Z;  k_big_shapes : list shape;  k_big_index : list obs_idx
}.
Definition eol_of (c : case) : list Z := if k_crlf c then [13; 10] else [10].
Definition idx_eqb (o : obs_idx) (i : idx) : bool :=
  let '(n, rl, off, lc, lb) := o in
  zlist_eqb n (i_name i) && (rl =? i_rlen i) && (off =? i_offset i) && (lc =? i_lenc i) && (lb =? i_lenb i).
Fixpoint idxs_eqb (os : list obs_idx) (is_ : list idx) : bool :=
  match os, is_ with
  | [], [] => true
  | o :: os', i :: is' => idx_eqb o i && idxs_eqb os' is'
  | _, _ => false
  end.
Definition to_idx (o : obs_idx) : idx :=
  let '(n, rl, off, lc, lb) := o in
  {| i_name := n; i_rlen := rl; i_offset := off; i_lenc := lc; i_lenb := lb |}.
Definition dummy_idx := {| i_name := []; i_rlen := 0; i_offset := 0; i_lenc := 1; i_lenb := 2 |}.
Definition dummy_rec := {| r_name := []; r_seq := []; r_width := 1 |}.

(* the generator's file really is the layout of its records (validates generator against Spec) *)
Definition file_ok (c : case) : bool := zlist_eqb (layout (eol_of c) (k_recs c)) (k_file c).

Definition spec_ok (c : case) : bool :=
  file_ok c
  && (k_supplied c || idxs_eqb (k_index c) (spec_index (eol_of c) (k_recs c)))
  && zlist_eqb (k_lengths c) (map (fun r => len (r_seq r)) (k_recs c))
  && zll_eqb (k_contigs c) (map r_seq (k_recs c))
  && all_true (map (fun '(n, a, b, got) =>
        zlist_eqb got (slice a b (r_seq (nth (Z.to_nat n) (k_recs c) dummy_rec)))) (k_fetch c))
  && all_true (map (fun '(n, got) =>
        zlist_eqb got (map upper (r_seq (nth (Z.to_nat n) (k_recs c) dummy_rec)))) (k_genome c))
  && all_true (map (fun '(n, a, b, got) =>
        zlist_eqb got (map upper (slice a b (r_seq (nth (Z.to_nat n) (k_recs c) dummy_rec))))) (k_genome_iv c))
  && (match k_reopen_lengths c with
      | [] => true
      | ls => zlist_eqb ls (map (fun r => len (r_seq r)) (rev (k_recs c)))
              && zll_eqb (k_reopen_contigs c) (map r_seq (rev (k_recs c)))
      end)
  (* the index built over a chunked read is the index of the file, however the reader chunked it (an error is
     tolerated only as "chunk size too small", which the model must then predict as well) *)
  && ((k_chunk c =? 0) || k_chunk_err c || idxs_eqb (k_chunk_index c) (spec_index (eol_of c) (k_recs c)))
  && (match k_big_shapes c with
      | [] => true
      | ss => idxs_eqb (k_big_index c) (spec_index_shapes_from 0 (k_big_eollen c) ss)
              && all_true (map (fun s => s_bytes s =? shape_bytes (k_big_eollen c) s) ss)
      end).

Definition model_ok (c : case) : bool :=
  let mi := map to_idx (k_index c) in      (* random access uses the index file as it is on disk *)
  (k_supplied c || idxs_eqb (k_index c) (model_index (k_file c)))
  && zlist_eqb (k_lengths c) (map contig_length mi)
  && zll_eqb (k_contigs c) (map (fun ix => fetch_contig (repeat 0 (Z.to_nat (i_lenb ix))) ix (k_file c)) mi)
  && all_true (map (fun '(n, a, b, got) =>
        zlist_eqb got (fetch_interval (nth (Z.to_nat n) mi dummy_idx) (k_file c) a b)) (k_fetch c))
  && all_true (map (fun '(n, got) =>
        let ix := nth (Z.to_nat n) mi dummy_idx in
        zlist_eqb got (map upper (fetch_interval ix (k_file c) 0 (i_rlen ix)))) (k_genome c))
  && all_true (map (fun '(n, a, b, got) =>
        zlist_eqb got (map upper (fetch_interval (nth (Z.to_nat n) mi dummy_idx) (k_file c) a b))) (k_genome_iv c))
  (* create_index: chunk the raw bytes with the reader model of C01 (wrapped FASTA, seekable file), index every
     chunk, shift by the accumulated sizes *)
  && ((k_chunk c =? 0)
      || match Model.C01.read_chunks true Model.C01.MultiFasta Model.C01.Seek (Z.to_nat (k_chunk c)) (k_chunk_raw c) with
         | Model.C01.Done chunks _ _ _ => negb (k_chunk_err c) && idxs_eqb (k_chunk_index c) (model_index_chunks chunks)
         | _ => k_chunk_err c
         end).

(* Corr/C15.v — correspondence cases for malformed-input reporting. *)
From Coq Require Import ZArith List Bool Arith.
From BNP Require Export Base.Prims Model.C01 Model.C15.
Import ListNotations.
Open Scope Z_scope.

Inductive obs := ONoError | OFormat (line : Z) | OOther.

Inductive case :=
| CDelim (tys : list coltype) (m : mode) (k : Z) (file : list Z) (o : obs)      (* k = 0: whole-file read() *)
| COneLine (f : fmt) (m : mode) (k : Z) (file : list Z) (o : obs)
| CSpecOnly (expected : Z) (o : obs)    (* classes the model does not cover (column count): error required *)
| CBigLine (expected : Z) (o : obs).   (* a file too large to hand over (more than 2^16 records): one diagnosed violation at a
                                          known record; the reported line must be exactly that record's line *)

Definition text_of (file : list Z) : list Z :=
  match file with [] => [] | _ => if last file 0 =? 10 then file else file ++ [10] end.
Definition eff_k (k : Z) (file : list Z) : nat := if k =? 0 then S (length file) else Z.to_nat k.

Definition obs_matches (o : obs) (r : outcome) : bool :=
  match o, r with
  | ONoError, NoError => true
  | OFormat l, FormatAt l' => l =? Z.of_nat l'
  | OOther, Other => true
  | _, _ => false
  end.
Definition obs_spec (o : obs) (expected : option nat) : bool :=
  match expected with
  | None => match o with ONoError => true | _ => false end
  | Some l => match o with ONoError => false | OFormat l' => l' =? Z.of_nat l | OOther => true end
  end.

Definition spec_ok (c : case) : bool :=
  match c with
  | CDelim tys m k file o => obs_spec o (spec_line tys (text_of file))
  | COneLine f m k file o => obs_spec o (spec_oneline f (text_of file))
  | CBigLine e o => match o with OFormat l => l =? e | _ => false end
  | CSpecOnly e o => match o with ONoError => false | _ => true end
      (* column-count violations are not diagnosed as such by the library: an error of any kind is required,
         the line clause of the property applies to the diagnosed classes only *)
  end.
Definition model_ok (c : case) : bool :=
  match c with
  | CDelim tys m k file o => obs_matches o (model_delim tys m (eff_k k file) file)
  | COneLine f m k file o =>
      (* read() (k = 0) hands the whole text to from_raw_buffer once: a text without one complete record raises
         IncompleteEntryException there, while read_chunks ends the stream at end of file *)
      match k =? 0, cut f (text_of file) with
      | true, CutIncomplete => match o with OOther => true | _ => false end
      | _, _ => obs_matches o (model_oneline f m (eff_k k file) file)
      end
  | CSpecOnly _ _ => true
  | CBigLine _ _ => true
  end.

(* Corr/C03T.v — the C03 correspondence case, extended with BIG tables (round 6).

   A big table (tens of thousands of rows handed to ONE write call) cannot be evaluated row by row inside Coq.
   It is described in run-length form: a table / a file / a read-back table is a list of segments
   (block, count) standing for the block repeated count times (`expand`).  The property is decided segment by
   segment: the Spec of the expanded table IS the run-length form below (theorems `C03_big_*` in Props/C03.v:
   serialise is a homomorphism for ++ / repeat, and segment-wise equality implies equality of the expansions).

   `case` = Plain (the case of Corr/C03.v, verdicts unchanged) | Big (run-length case). *)
From Coq Require Import ZArith List Bool.
From BNP Require Export Base.Prims Model.C03 Corr.C03.
Import ListNotations.
Open Scope Z_scope.

Definition rle (A : Type) := list (list A * Z).
Definition tile {A} (blk : list A) (n : Z) : list A := concat (repeat blk (Z.to_nat n)).
Definition expand {A} (r : rle A) : list A := concat (map (fun p => tile (fst p) (snd p)) r).
(* segments that stand for nothing are dropped *)
Definition live {A} (p : list A * Z) : bool := (0 <? snd p) && nonempty (fst p).
Definition norm {A} (r : rle A) : rle A := filter live r.
Definition seg_eqb {A} (eqb : A -> A -> bool) (p q : list A * Z) : bool :=
  list_eqb eqb (fst p) (fst q) && (snd p =? snd q).
Definition rle_eqb {A} (eqb : A -> A -> bool) (x y : rle A) : bool := list_eqb (seg_eqb eqb) (norm x) (norm y).
(* every repeated block once: the period-reduced sequence *)
Definition once {A} (r : rle A) : list A := concat (map fst (norm r)).

Record bcall := { bc_stream : bool; bc_chunks : list (rle row) }.
Record bsession := { bs_append : bool; bs_calls : list bcall }.

Record bcase := {
  b_fmt : fmt;
  b_schema : list Z;
  b_header : list Z;
  b_gz : bool;
  b_hist : list bsession;       (* the history; every chunk (table handed over) in run-length form *)
  b_err : Z;
  b_written : rle Z;            (* the file content, run-length form (lossless; produced by the harness) *)
  b_read_ok : bool;
  b_read : rle row              (* what bnp.open(path).read() returned, run-length form *)
}.

(* the history the case stands for, and its period-reduced skeleton (every block once) *)
Definition full_call (c : bcall) : call := {| c_stream := bc_stream c; c_chunks := map expand (bc_chunks c) |}.
Definition full_session (s : bsession) : session := {| s_append := bs_append s; s_calls := map full_call (bs_calls s) |}.
Definition full_hist (h : list bsession) : list session := map full_session h.
Definition skel_call (c : bcall) : call := {| c_stream := bc_stream c; c_chunks := map once (bc_chunks c) |}.
Definition skel_session (s : bsession) : session := {| s_append := bs_append s; s_calls := map skel_call (bs_calls s) |}.
Definition skel_hist (h : list bsession) : list session := map skel_session h.
Definition segs_of_hist (h : list bsession) : rle row :=
  concat (map (fun s => concat (map (fun c => concat (bc_chunks c)) (bs_calls s))) h).

(* the Spec of the big table in run-length form: header once, then every block's canonical bytes, same counts *)
Definition spec_rle (f : fmt) (header : list Z) (h : list bsession) : rle Z :=
  (spec_header header (skel_hist h), 1) :: map (fun p => (serialise f (fst p), snd p)) (segs_of_hist h).

Definition spec_ok_big (b : bcase) : bool :=
  (b_err b =? 0)
  && rle_eqb Z.eqb (b_written b) (spec_rle (b_fmt b) (b_header b) (b_hist b))
  && b_read_ok b
  && rle_eqb (row_eqb true) (segs_of_hist (b_hist b)) (b_read b).

(* the Model on a big table: the writer state machine (header logic, error) is run on the period-reduced history;
   every repeated block is what from_data writes for its rows, with the same count; the reference reader agrees with
   the library's reader on the period-reduced file *)
Definition model_rle (f : fmt) (hdr : list Z) (h : list bsession) : rle Z :=
  (hdr, 1) :: map (fun p => (snd (from_data f (fst p)), snd p)) (segs_of_hist h).

Definition model_ok_big (b : bcase) : bool :=
  let '(e, out) := run_hist (b_fmt b) (b_header b) (b_gz b) (skel_hist (b_hist b)) in
  let body := concat (map (fun p => snd (from_data (b_fmt b) (fst p))) (norm (segs_of_hist (b_hist b)))) in
  let hdr := firstn (length out - length body) out in
  (e =? b_err b)
  && (negb (e =? 0) ||
      (zlist_eqb out (once (b_written b))
       && rle_eqb Z.eqb (b_written b) (model_rle (b_fmt b) hdr (b_hist b))
       && match parse_file (b_fmt b) (b_schema b) out with
          | Some rs => b_read_ok b && rows_eqb false rs (once (b_read b))
          | None => negb (b_read_ok b)
          end)).

Inductive case := Plain (c : C03.case) | Big (b : bcase).
Definition spec_ok (c : case) : bool := match c with Plain c => C03.spec_ok c | Big b => spec_ok_big b end.
Definition model_ok (c : case) : bool := match c with Plain c => C03.model_ok c | Big b => model_ok_big b end.

(* Corr/C14.v — correspondence case type and the two decidable verdicts evaluated per case:
   model_ok = the implementation's observation equals the model's output;
   spec_ok  = the observation satisfies the property (computed from the Spec definitions and the
              generator's ground truth only), and Biopython agrees with the Spec tables. *)
From Coq Require Import ZArith List Bool.
From BNP Require Export Base.Prims Model.C14.
Import ListNotations.
Open Scope Z_scope.

(* an observation: (error code, rows as text).  code 0 = returned normally; otherwise the codes of Model.C14.result,
   9 = any other exception *)
Definition obs := (Z * list (list Z))%type.
Definition obs_eqb (o : obs) (r : result (list (list Z))) : bool :=
  match r with
  | Ok rows => (fst o =? 0) && zll_eqb (snd o) rows
  | Err c => fst o =? c
  end.
Definition obs_is (o : obs) (rows : list (list Z)) : bool := (fst o =? 0) && zll_eqb (snd o) rows.

Inductive case :=
  (* get_reverse_complement on as_encoded_array(rows, enc): every route observed once (ragged array — possibly
     handed over as a not yet materialised view built by prior indexing, in which case [rows] are the rows that
     view denotes —, SequenceEntry dataclass, each row as a flat array), then applied twice (without touching the
     intermediate result, and with a materialised intermediate); Biopython's answer per row *)
| CRev (enc : Z) (rows : list (list Z)) (once : list obs) (twice : list obs) (bio : list (list Z))
  (* strand-aware extraction.  route 0 = get_strand_specific_sequences(as_encoded_array(ref, enc), ivs),
     1 = GenomicSequence.from_dict(..).extract_intervals(ivs, stranded=True),
     2 = Genome.from_file(fasta).read_sequence()[stranded intervals]  (both ACGTN);
     bio = Biopython's forward / reverse-complemented slices of the raw text *)
| CStr (route enc : Z) (ref : list Z) (ivs : list (Z * Z * Z)) (o : obs) (bio : list (list Z))
  (* translate_dna_to_protein on a list of strings; Biopython's translation per row *)
| CTr (rows : list (list Z)) (outs : list obs) (bio : list (list Z))
  (* genes.get_transcript_sequences on in-memory exon entries: transcripts = (exons in order, strand); output is text *)
| CGen (ref : list Z) (txs : list transcript) (o : obs) (bio : list (list Z))
  (* several calls on the SAME objects: x = the encoded rows (a ragged array or the sequence column of a SequenceEntry,
     built once), r = a kept get_reverse_complement(x).  Each step is (kind, observation):
     0 = x read again, 1 = translate(x), 2 = get_reverse_complement(x) or r read again, 3 = translate(r),
     4 = get_reverse_complement(r), 5 / 6 = get_reverse_complement / translate of ANOTHER object b holding the same rows in
     reverse order (same encoding, same total size; results of earlier calls are kept across these).  The property: operands are unchanged, every result is the result on a fresh copy. *)
| CSeq (rows : list (list Z)) (steps : list (Z * obs))
  (* round 6 — the indexed-FASTA backend on a wrapped multi-record FASTA: recs = (name, sequence, line width) per record,
     nl_end = the file ends in a line break, fsize = size of the file on disk, fai = the .fai index on disk (given or
     written by the library), calls = the calls made ONE AFTER THE OTHER on the same GenomicSequence object:
     (intervals in call order, stranded?, observation).  The property: every row of every call is the forward
     subsequence ('+' / unstranded) or its reverse complement ('-'), whatever was fetched before it. *)
| CFa (recs : list fa_rec) (nl_end : bool) (fsize : Z) (fai : list fa_idx) (calls : list (list iv4 * bool * obs)).

Definition strand_known (iv : Z * Z * Z) : bool := (iv_strand iv =? 43) || (iv_strand iv =? 45).
(* rows compared only where the property speaks (strand '+' or '-') *)
Fixpoint rows_ok (ivs : list (Z * Z * Z)) (got want : list (list Z)) : bool :=
  match ivs, got, want with
  | [], [], [] => true
  | iv :: ivs', g :: got', w :: want' => (negb (strand_known iv) || zlist_eqb g w) && rows_ok ivs' got' want'
  | _, _, _ => false
  end.

Definition seq_model (rows : list (list Z)) (k : Z) : result (list (list Z)) :=
  if k =? 0 then Ok rows
  else if k =? 1 then model_translate rows
  else if k =? 2 then model_revcomp complements 0 rows
  else if k =? 3 then match model_revcomp complements 0 rows with Ok r => model_translate r | Err c => Err c end
  else if k =? 5 then model_revcomp complements 0 (rev rows)
  else if k =? 6 then model_translate (rev rows)
  else model_revcomp2 complements 0 rows.
Definition seq_spec (rows : list (list Z)) (k : Z) : list (list Z) :=
  if k =? 0 then rows
  else if k =? 1 then map spec_translate rows
  else if k =? 2 then map spec_revcomp rows
  else if k =? 3 then map spec_translate (map spec_revcomp rows)
  else if k =? 5 then map spec_revcomp (rev rows)
  else if k =? 6 then map spec_translate (rev rows)
  else rows.

(* Biopython (second oracle) agrees with the Spec tables on this case's input *)
Definition bio_ok (c : case) : bool :=
  match c with
  | CRev e rows _ _ bio => zll_eqb bio (map spec_revcomp rows)
  | CStr _ _ ref ivs _ bio => rows_ok ivs bio (map (spec_stranded ref) ivs)
  | CTr rows _ bio => negb (tr_wellformed rows) || zll_eqb bio (map spec_translate rows)
  | CGen ref txs _ bio => zll_eqb bio (map (spec_transcript ref) txs)
  | CSeq _ _ => true
  | CFa _ _ _ _ _ => true
  end.
(* the property itself, on what the implementation returned *)
Definition prop_ok (c : case) : bool :=
  match c with
  | CRev e rows once twice _ =>
      let want := map (fun r => spec_revcomp (map (canon e) r)) rows in
      all_true (map (fun o => obs_is o want) once)
      && zlist_eqb (map len want) (map len rows)
      && all_true (map (fun o => obs_is o (map (map (canon e)) rows)) twice)
  | CStr route e ref ivs o _ =>
      let e' := if route =? 0 then e else 2 in
      (fst o =? 0) && rows_ok ivs (snd o) (map (spec_stranded (map (canon e') ref)) ivs)
  | CTr rows outs _ =>
      if tr_wellformed rows then all_true (map (fun o => obs_is o (map spec_translate rows)) outs)
      else all_true (map (fun o : obs => negb (fst o =? 0)) outs)      (* N / bad length: must raise *)
  | CGen ref txs o _ => obs_is o (map (spec_transcript (map (canon 2) ref)) txs)
  | CSeq rows steps => all_true (map (fun p : Z * obs => obs_is (snd p) (seq_spec rows (fst p))) steps)
  | CFa recs _ _ _ calls =>
      all_true (map (fun cl : list iv4 * bool * obs =>
                       obs_is (snd cl) (map (fa_want recs (snd (fst cl))) (fst (fst cl)))) calls)
  end.
Definition spec_ok (c : case) : bool := bio_ok c && prop_ok c.

Definition model_ok (c : case) : bool :=
  match c with
  | CRev e rows once twice _ =>
      all_true (map (fun o => obs_eqb o (model_revcomp complements e rows)) once)
      && all_true (map (fun o => obs_eqb o (model_revcomp2 complements e rows)) twice)
  | CStr route e ref ivs o _ =>
      obs_eqb o (if route =? 0 then model_stranded complements where_rows true e ref ivs
                 else model_stranded complements where_rows false 2 ref ivs)
  | CTr rows outs _ => all_true (map (fun o => obs_eqb o (model_translate rows)) outs)
  | CGen ref txs o _ => obs_eqb o (model_transcripts complements where_rows ref txs)
  | CSeq rows steps => all_true (map (fun p : Z * obs => obs_eqb (snd p) (seq_model rows (fst p))) steps)
  | CFa recs nl_end fsize fai calls =>
      let file := fa_file recs nl_end in
      (len file =? fsize)
      && all_true (map (fun cl : list iv4 * bool * obs =>
                          obs_eqb (snd cl) (model_fa_call complements where_rows file fai (snd (fst cl)) (fst (fst cl)))) calls)
  end.

(* Corr/C06.v — correspondence case type and the two verdicts for C06 (alphabet encodings).
   model_ok = the implementation's observation equals the model's output (current variant);
   spec_ok  = the observation satisfies the property, computed from the generator's ground truth
              with the Spec definitions of Model/C06.v only (member, text_ok, spec_decode). *)
From Coq Require Import ZArith List Bool.
From BNP Require Export Base.Prims Model.C06.
Import ListNotations.
Open Scope Z_scope.

Inductive outcome :=
  | OOk (codes text : list (list Z))   (* rows of raw codes (.raw()), rows of text (.to_string()/.tolist()) *)
  | OEncErr (off : Z)                  (* bionumpy EncodingError, with its offset *)
  | OEncExc                            (* EncodingException *)
  | OUnicode                           (* UnicodeEncodeError *)
  | OUndec                             (* data was returned but .to_string()/.tolist()/enc.decode raise on it *)
  | OOther.                            (* any other exception *)

Record case := {
  k_kind : Z;              (* 0 encode text | 1 as_encoded_array on encoded data | 2 change_encoding | 3 byte table
                              4 numeric offset encoding (k_alpha = [min_code]) | 5 StringEncoding (k_alpha = [number of labels];
                              k_rows = labels ++ queries) | 6 KmerEncoding (k_alpha = [k]; k_rows = the k-mer texts) *)
  k_route : Z;             (* input route, see Model.C06.encode_rows *)
  k_src : enc;             (* kinds 1,2: encoding of the data presented *)
  k_dst : enc;             (* the (target) encoding *)
  k_rows : list (list Z);  (* kind 0: the text, row by row (a single string = one row); kinds 1,2: the codes *)
  k_out : outcome;
  k_table : list Z;        (* kind 3: for b = 0,1,2.. the code of the one-byte text b; 255 = EncodingError; -1 = other *)
  k_alpha : list Z         (* kind 3: enc.get_alphabet() *)
}.

Definition outcome_eqb (a b : outcome) : bool :=
  match a, b with
  | OOk c t, OOk c' t' => zll_eqb c c' && zll_eqb t t'
  | OEncErr o, OEncErr o' => o =? o'
  | OEncExc, OEncExc | OUnicode, OUnicode | OOther, OOther | OUndec, OUndec => true
  | _, _ => false
  end.
Definition is_error (o : outcome) : bool := match o with OOk _ _ => false | _ => true end.
Definition alpha_of_enc (e : enc) : list Z := match e with Base => [] | Alpha raw => map upper raw end.

(* ---------------------------------------------------------------- model side *)
Definition to_outcome (dst : enc) (r : res) (lens : list nat) : outcome :=
  match r with
  | Ok codes => match decode_enc dst codes with
                | Some txt => OOk (unflatten lens codes) (unflatten lens txt)
                | None => OUndec            (* .to_string() would raise IndexError *)
                end
  | EncErr o => OEncErr o
  | EncExc => OEncExc
  | Unicode => OUnicode
  | Crash => OOther
  end.
Definition model_out_with (L : list Z -> list Z) (ru : rule) (c : case) : outcome :=
  let flat := concat (k_rows c) in
  let lens := lens_of (k_rows c) in
  if k_kind c =? 0 then
    match k_dst c with
    | Alpha raw => let '(r, _) := encode_rows L (k_route c) (alphabet_of raw) (k_rows c) in
                   to_outcome (k_dst c) r lens
    | Base => OOther
    end
  else if k_kind c =? 1 then to_outcome (k_dst c) (retarget ru (k_src c) (k_dst c) flat) lens
  else to_outcome (k_dst c) (change L (k_src c) (k_dst c) flat) lens.
(* kinds 4,5,6 *)
Definition opt_rows_out (codes : list Z) (t : option (list (list Z))) : outcome :=
  match t with Some rows => OOk [codes] rows | None => OUndec end.
Definition model_out_ext (L : list Z -> list Z) (verify : bool) (c : case) : outcome :=
  let p := nthZ (k_alpha c) 0 in
  if k_kind c =? 4 then
    let '(r, codes, back) := num_rows (k_route c) p (k_rows c) in
    match r with Unicode => OUnicode | _ => OOk codes back end
  else if k_kind c =? 5 then
    let labels := firstn (Z.to_nat p) (k_rows c) in
    let queries := skipn (Z.to_nat p) (k_rows c) in
    match str_encode verify labels queries with
    | Ok idx => opt_rows_out idx (str_decode labels idx)
    | EncErr o => OEncErr o
    | _ => OOther
    end
  else
    match k_dst c with
    | Alpha raw =>
        let A := alphabet_of raw in
        match kmer_encode_rows L (k_route c) A p (k_rows c) with
        | Ok hs => opt_rows_out hs (all_some (map (kmer_to_string A p) hs))
        | EncErr o => OEncErr o
        | Unicode => OUnicode
        | _ => OOther
        end
    | Base => OOther
    end.
Definition model_out (c : case) : outcome :=
  if (4 <=? k_kind c) then model_out_ext cur_lower cur_str_verify c else model_out_with cur_lower cur_rule c.
Definition model_ok (c : case) : bool :=
  if k_kind c =? 3 then
    match k_dst c with
    | Alpha raw => zlist_eqb (k_alpha c) (alphabet_of raw)
                   && zlist_eqb (k_table c) (map (byte_code cur_lower (alphabet_of raw)) (arange (len (k_table c))))
    | Base => false
    end
  else outcome_eqb (k_out c) (model_out c).

(* ---------------------------------------------------------------- property side *)
Definition opt_rows_eqb (a : option (list (list Z))) (b : list (list Z)) : bool :=
  match a with Some x => zll_eqb x b | None => false end.
(* the rows of codes decode, in encoding e, to the rows of text t *)
Definition decodes_to (e : enc) (codes t : list (list Z)) : bool :=
  match e with
  | Base => zll_eqb codes t
  | Alpha raw => opt_rows_eqb (spec_decode_rows (map upper raw) codes) t
  end.
Fixpoint list_eqb2 {A B} (f : A -> B -> bool) (a : list A) (b : list B) : bool :=
  match a, b with
  | [], [] => true
  | x :: a', y :: b' => f x y && list_eqb2 f a' b'
  | _, _ => false
  end.
(* position of a row in a list of rows *)
Fixpoint find_pos (q : list Z) (ls : list (list Z)) (i : Z) : option Z :=
  match ls with [] => None | l :: r => if zlist_eqb l q then Some i else find_pos q r (i + 1) end.
Definition spec_ok (c : case) : bool :=
  if k_kind c =? 0 then
    (* encoding succeeds exactly when every character belongs to the alphabet, else an encoding error;
       the result decodes to the upper-cased text, element for element and row for row *)
    let A := alpha_of_enc (k_dst c) in
    let want := map (map upper) (k_rows c) in
    if forallb (text_ok A) (k_rows c) then
      match k_out c with
      | OOk codes text => zll_eqb text want && decodes_to (k_dst c) codes want
      | _ => false
      end
    else match k_out c with OEncErr _ | OUnicode => true | _ => false end
  else if k_kind c =? 3 then
    let A := alpha_of_enc (k_dst c) in
    zlist_eqb (k_alpha c) A &&
    all_true (map (fun '(b, code) =>
                     if member A b then (0 <=? code) && (code <? len A) && (nthZ A code =? upper b)
                     else code =? 255)
                  (combine (arange (len (k_table c))) (k_table c)))
  else if k_kind c =? 4 then
    (* numeric offset encodings accept every byte; decoding gives the text back, element for element and row for
       row; a byte at or above min_code is encoded as its distance from min_code *)
    let mc := nthZ (k_alpha c) 0 in
    if k_route c =? 9 then
      match k_out c with
      | OOk codes text => zll_eqb codes (k_rows c) && zll_eqb text (map (map (fun d => d + mc)) (k_rows c))
      | _ => false
      end
    else if is_str_route (k_route c) && existsb (fun b => 128 <=? b) (concat (k_rows c)) then
      match k_out c with OUnicode => true | _ => false end
    else
      match k_out c with
      | OOk codes text =>
          zll_eqb text (k_rows c) && zlist_eqb (map len codes) (map len (k_rows c))
          && all_true (map (fun '(b, code) => (0 <=? code) && (code <? 256) && (if mc <=? b then code =? b - mc else true))
                           (combine (concat (k_rows c)) (concat codes)))
      | _ => false
      end
  else if k_kind c =? 5 then
    (* StringEncoding: succeeds exactly when every query is one of the labels, the codes are the labels' positions
       and decode to the queries; otherwise an encoding error *)
    let n := Z.to_nat (nthZ (k_alpha c) 0) in
    let labels := firstn n (k_rows c) in
    let queries := skipn n (k_rows c) in
    let pos q := find_pos q labels 0 in
    if forallb (fun q => match pos q with Some _ => true | None => false end) queries then
      match k_out c with
      | OOk [codes] text => zll_eqb text queries
                            && list_eqb2 (fun a b => match b with Some j => a =? j | None => false end) codes (map pos queries)
      | _ => false
      end
    else match k_out c with OEncErr _ => true | _ => false end
  else if k_kind c =? 6 then
    (* KmerEncoding: a k-letter text over the alphabet gets the little-endian base-n number of its letters and
       reads back as the upper-cased text; anything else raises *)
    let A := alpha_of_enc (k_dst c) in
    let k := nthZ (k_alpha c) 0 in
    let want := map (map upper) (k_rows c) in
    if forallb (fun r => (len r =? k) && text_ok A r) (k_rows c) then
      match k_out c with
      | OOk [hs] text =>
          zll_eqb text want
          && list_eqb2 (fun h w => match all_some (map (fun ch => find_pos [ch] (map (fun a => [a]) A) 0) w) with
                                  | Some ds => h =? kmer_hash (len A) ds | None => false end) hs want
      | _ => false
      end
    else is_error (k_out c) && match k_out c with OUndec => false | _ => true end
  else
    (* already encoded data presented to another encoding (kind 1) or changed to it (kind 2):
       either the result decodes to the same text, or it raises *)
    match k_out c with
    | OOk codes text =>
        match spec_decode_rows (alpha_of_enc (k_src c)) (k_rows c) with
        | Some t => zll_eqb text t && decodes_to (k_dst c) codes t
        | None => false              (* generator error: codes outside the source alphabet *)
        end
    | OUndec => false                (* data that does not decode at all is not "the same text" *)
    | _ => true
    end.

(* the case with another observation in it (used to state: the model's own output satisfies spec_ok) *)
Definition set_out (c : case) (o : outcome) : case :=
  {| k_kind := k_kind c; k_route := k_route c; k_src := k_src c; k_dst := k_dst c; k_rows := k_rows c;
     k_out := o; k_table := k_table c; k_alpha := k_alpha c |}.

(* Corr/C10.v — correspondence case type and the two decidable verdicts evaluated per case:
   model_ok = the implementation's observation equals the model's output;
   spec_ok  = the observation satisfies the property (computed from the generator's ground truth and the
              Spec part of Model/C10.v only). *)
From Coq Require Import ZArith List Bool.
From BNP Require Export Base.Prims Model.C10.
Import ListNotations.
Open Scope Z_scope.

Record case := {
  k_genome : list chrom;          (* the chrom-size dict, in dict order *)
  k_filter : filt;
  k_added : list (list (list Z));   (* names handed to successive Genome.with_ignored_added calls *)
  k_entries : list entry;         (* e_chr = index into k_genome; for locations e_start is the position *)
  k_vals : list (list Z);         (* per chromosome of k_genome: array values / sequence bytes (extract, seq) *)
  k_op : op;
  k_obs : res                     (* chromosomes reported as indices into k_genome *)
}.

Definition pair_eqb (a b : Z * Z) : bool := (fst a =? fst b) && (snd a =? snd b).
Definition triple_eqb (a b : Z * Z * Z) : bool :=
  let '(a1, a2, a3) := a in let '(b1, b2, b3) := b in (a1 =? b1) && (a2 =? b2) && (a3 =? b3).
Definition res_eqb (a b : res) : bool :=
  match a, b with
  | RErr x, RErr y => x =? y
  | RArrays x, RArrays y => zll_eqb x y
  | RIvs x, RIvs y => list_eqb triple_eqb x y
  | RPos x, RPos y => list_eqb pair_eqb x y
  | RRows x, RRows y => zll_eqb x y
  | RCoords f1 b1 r1, RCoords f2 b2 r2 => zlist_eqb f1 f2 && list_eqb pair_eqb b1 b2 && list_eqb Bool.eqb r1 r2
  | _, _ => false
  end.
Definition is_err (r : res) : bool := match r with RErr _ => true | _ => false end.

(* the context the operation runs on: from_dict, then the with_ignored_added steps; k_entries index into its dict *)
Definition fctx (c : case) : gctx := ctx_steps (k_filter c) (k_genome c) (k_added c).
Definition flags (c : case) : list bool := incl_flags (gx_keep (fctx c)) (gx_dict (fctx c)).
Definition szs (c : case) : list Z := ctx_sizes (gx_keep (fctx c)) (gx_dict (fctx c)).
Definition is_geo (o : op) : bool :=
  match o with
  | OPileup g | OMask g | OMerged g _ | OClip g | OExtend g _ | OSorted g => g
  | _ => false
  end.
(* Genome.get_intervals / get_locations mask the data; Geometry does not (an ignored name has no size) *)
Definition all_included (c : case) : bool := forallb (fun e => nthd false (flags c) (e_chr e)) (k_entries c).
Definition ves (c : case) : list entry := visible (flags c) (k_entries c).
Definition cvals (c : case) : list (list Z) := mask_select (flags c) (k_vals c).

(* results are computed with chromosome codes; report them as indices into k_genome *)
Definition uncode_res (fl : list bool) (r : res) : res :=
  match r with
  | RIvs l => RIvs (map (fun '(c, s, t) => (uncode fl c, s, t)) l)
  | RPos l => RPos (map (fun '(c, p) => (uncode fl c, p)) l)
  | RCoords f b rj => RCoords f (map (fun '(c, p) => (uncode fl c, p)) b) rj
  | _ => r
  end.

(* ------------------------------------------------------------------ the model's answer *)
Definition model_run (c : case) : res :=
  let s := szs c in let es := ves c in let us := ctx_us (gx_keep (fctx c)) (gx_dict (fctx c)) in
  if is_geo (k_op c) && negb (all_included c) then RErr E_INDEX else
  match k_op c with
  | OCoords => model_coords s
  | OPileup _ => model_pileup s es
  | OMask _ => model_mask s es
  | OMerged false d => model_merged s us d es
  | OMerged true d => model_geo_merge s d es
  | OClip false => RIvs (map triple (model_clip s es))
  | OClip true => RIvs (map triple (model_geo_clip s es))
  | OExtend _ n => RIvs (map triple (model_extend s n es))
  | OSorted false => RIvs (map triple (model_sorted es))
  | OSorted true => model_geo_sort s es
  | OLocation st w => RPos (map (fun e => (e_chr e, model_location st w e)) es)
  | OWindows l r => RIvs (map triple (model_windows s l r es))
  | OLocSorted => RPos (map (fun e => (e_chr e, e_start e)) (model_loc_sorted es))
  | OExtract st => model_extract s (cvals c) st es
  | OSeq st => model_seq (cvals c) st es
  | OProg st ps k => model_prog s (cvals c) st es ps k
  | ORuns k => model_runs k s es
  | OUnder neg sq => model_under neg sq s (cvals c) es
  end.
Definition model_ok (c : case) : bool := res_eqb (k_obs c) (uncode_res (flags c) (model_run c)).

(* ------------------------------------------------------------------ the property *)
Inductive expect := MustErr | MustBe (r : res) | Either (r : res) | Rel (p : res -> bool).
Definition placed (c : case) (r : res) : expect :=
  let s := szs c in let es := ves c in
  if is_geo (k_op c) && negb (all_included c) then Either r
  else if forallb (entry_good s) es then MustBe r
  else if existsb (entry_bad s) es then MustErr
  else Either r.
Definition chr_start_sorted (es : list entry) : bool := sorted_by (fun e => (e_chr e, e_start e, 0)) es.
Definition spec_run (c : case) : expect :=
  let s := szs c in let es := ves c in let fl := flags c in
  match k_op c with
  | OCoords => MustBe (RCoords (arange (total s)) (enum_positions s) (map (fun _ => true) s))
  | OPileup _ => placed c (RArrays (spec_pileup s es))
  | OMask _ => placed c (RArrays (spec_mask s es))
  | OMerged geo d =>
      (* merging needs sorted input; the streamed route places nothing on a global array, so it need not
         refuse an interval that reaches outside its chromosome *)
      if chr_start_sorted es && (0 <=? d) && (geo || forallb (entry_good s) es)
      then placed c (RIvs (map triple (spec_merged s d es)))
      else Either (RIvs (map triple (spec_merged s d es)))
  | OClip _ => MustBe (RIvs (map triple (spec_clip s es)))
  | OExtend _ n => MustBe (RIvs (map triple (spec_extend s n es)))
  | OSorted false => Rel (fun r => match r with RIvs l => spec_sorted_ok true (map triple es) l | _ => false end)
  | OSorted true =>
      match placed c (RIvs []) with
      | MustErr => MustErr
      | MustBe _ => Rel (fun r => match r with RIvs l => spec_sorted_ok true (map triple es) l | _ => false end)
      | _ => Rel (fun r => is_err r || match r with RIvs l => spec_sorted_ok true (map triple es) l | _ => false end)
      end
  | OLocation st w => MustBe (RPos (map (fun e => (e_chr e, spec_location st w e)) es))
  | OWindows l r => MustBe (RIvs (map triple (spec_windows s l r es)))
  | OLocSorted => Rel (fun r => match r with
                                | RPos l => spec_sorted_ok false (map (fun e => (e_chr e, e_start e, 0)) es)
                                                           (map (fun '(ch, p) => (ch, p, 0)) l)
                                | _ => false end)
  | OExtract st => placed c (RRows (spec_extract (cvals c) st es))
  | OSeq st => placed c (RRows (spec_seq (cvals c) st es))
  | OProg st ps k => match spec_prog s (cvals c) st es ps k with
                     | Some r => MustBe r
                     | None => Rel (fun _ => true)
                     end
  | ORuns k => placed c (RRows (spec_runs k s es))
  | OUnder neg sq => placed c (RRows [spec_under neg s (cvals c) es])
  end.
(* Rel predicates look at code-space rows: bring the observation's chromosome indices back to codes *)
Definition code_res (fl : list bool) (r : res) : res :=
  match r with
  | RIvs l => RIvs (map (fun '(c, s, t) => (if nthd false fl c then code_of fl c else -1 - c, s, t)) l)
  | RPos l => RPos (map (fun '(c, p) => (if nthd false fl c then code_of fl c else -1 - c, p)) l)
  | _ => r
  end.
Definition spec_ok (c : case) : bool :=
  match spec_run c with
  | MustErr => is_err (k_obs c)
  | MustBe r => res_eqb (k_obs c) (uncode_res (flags c) r)
  | Either r => is_err (k_obs c) || res_eqb (k_obs c) (uncode_res (flags c) r)
  | Rel p => p (code_res (flags c) (k_obs c))
  end.

(* Corr/C09.v — correspondence case type and the two decidable verdicts evaluated per case:
   model_ok = what the library returned equals the model's output on the same input;
   spec_ok  = what the library returned satisfies the property, computed from the generator's ground
              truth (records, chromosome sizes, expression tree, dense NumPy evaluation) and the Spec
              definitions of Model/C09.v only. *)
From Coq Require Import ZArith List Bool.
From BNP Require Export Base.Prims Model.C09 Model.C09_pileup.
Import ListNotations.
Open Scope Z_scope.

(* how a leaf array is built.  tag 0: Genome.get_track(bedGraph); 1: get_intervals(..).get_mask();
   2: get_intervals(..).get_pileup(); 3 / 4: GenomicArray.from_global_data(GenomicRunLengthArray.
   from_intervals(starts, ends, total, values = scalar / array, default_value), ctx) — for 3 and 4 the
   records are on the flat genome axis (chromosome field 0), every record carries its value. *)
Record leaf := { lf_tag : Z; lf_kind : kind; lf_recs : list grec; lf_value : val; lf_default : val }.
(* one observed genomic array: did the call succeed, dtype kind, to_dict() per chromosome, get_data()
   rows (chromosome index, start, stop, value; value 1 for the rows of a Boolean array) *)
Record obs := { o_ok : bool; o_kind : kind; o_dense : list (list val); o_data : list grec }.
Record case := {
  k_sizes : list Z;
  k_leaves : list leaf;  k_lobs : list obs;
  k_expr : expr;         k_res : obs;
  k_np_kind : kind;      k_np : list val;       (* the same expression evaluated by NumPy on dense arrays (flat genome) *)
  k_sum : val;           k_np_sum : val;        (* np.sum(result) ; np.sum(dense) *)
  (* np.histogram in the case's calling convention (positional / keyword / mixed bins, range, explicit edges, default):
     k_edges, k_np_hist = edges and counts NumPy returns on the dense array; k_obs_edges, k_hist = on the genomic array *)
  k_edges : list val;    k_obs_edges : list val;    k_hist : list Z;  k_np_hist : list Z;
  (* repeated observation of the SAME objects after the caller edited, in place, every array earlier observations handed out
     (to_dict() arrays, get_data() columns, track[name] / track[intervals] expansions, ufunc results, histogram outputs):
     k_lreps, k_lreps2 = every leaf array twice more (same route both times), k_rreps = the result array three more times
     (routes A, B, A) — each through one of the routes
     to_dict() / the second of two to_dict() results / track[name].to_array() / track[whole-chromosome intervals] / (track + 0 or
     track & True).to_dict() / str = np.asarray (parsed; bool and int), always with a fresh get_data(); then np.sum and
     np.histogram of the result once more.  The genomic array never changes: every one must again be the lossless view of the
     dense array the records describe. *)
  k_lreps : list obs;    k_lreps2 : list obs;   k_rreps : list obs;
  k_sum2 : val;          k_obs_edges2 : list val;   k_hist2 : list Z
}.

Definition grec_eqb (a b : grec) : bool :=
  let '(c1, s1, e1, v1) := a in let '(c2, s2, e2, v2) := b in
  (c1 =? c2) && (s1 =? s2) && (e1 =? e2) && veqb v1 v2.
Definition flat_recs (l : leaf) : list rec1 := map (fun '(_, s, e, v) => (s, e, v)) (lf_recs l).
Definition total (c : case) : Z := total_size (k_sizes c).

(* ---------- specification side ---------- *)
(* the dense array (flat genome) and dtype kind the leaf's records describe *)
Definition spec_leaf (sizes : list Z) (l : leaf) : kind * list val :=
  match lf_tag l with
  | 0 => (lf_kind l, concat (spec_track vzero sizes (lf_recs l)))
  | 1 => (KB, concat (spec_mask sizes (lf_recs l)))
  | 2 => (KI, concat (spec_pileup sizes (lf_recs l)))
  | _ => (lf_kind l, dense_of (lf_default l) (flat_recs l) (total_size sizes))
  end.
(* an observed genomic array is a lossless view of the dense array [d] of kind [k] *)
Definition view_ok (sizes : list Z) (check_kind : bool) (k : kind) (d : list val) (o : obs) : bool :=
  o_ok o
  && (negb check_kind || kind_eqb (o_kind o) k)
  && zlist_eqb (map len (o_dense o)) sizes                       (* length = contig sizes *)
  && vlist_eqb (concat (o_dense o)) d                            (* expands to exactly the dense array *)
  && records_describe vzero sizes (o_data o) (o_dense o).        (* back-conversion is lossless *)
Definition leaf_ok (sizes : list Z) (l : leaf) (o : obs) : bool :=
  let '(k, d) := spec_leaf sizes l in
  (* an empty bedGraph carries no dtype: any zero array is right *)
  view_ok sizes (negb ((lf_tag l =? 0) && match lf_recs l with [] => true | _ => false end)) k d o.
Fixpoint all2 {A B} (f : A -> B -> bool) (a : list A) (b : list B) : bool :=
  match a, b with
  | [], [] => true
  | x :: a', y :: b' => f x y && all2 f a' b'
  | _, _ => false
  end.
Definition spec_ok (c : case) : bool :=
  let sizes := k_sizes c in
  all2 (leaf_ok sizes) (k_leaves c) (k_lobs c)
  && match spec_eval (map (spec_leaf sizes) (k_leaves c)) (k_expr c) with
     | None => false                                             (* the generator only emits well-typed trees *)
     | Some (k, d) =>
         (* the Spec's reading of the operators is NumPy's (validates Spec and generator) *)
         kind_eqb k (k_np_kind c) && vlist_eqb d (k_np c)
         && veqb (vsum d) (k_np_sum c) && zlist_eqb (spec_hist (k_edges c) d) (k_np_hist c)
         (* the property *)
         && view_ok sizes true k d (k_res c)
         && veqb (k_sum c) (vsum d)
         && vlist_eqb (k_obs_edges c) (k_edges c)
         && zlist_eqb (k_hist c) (spec_hist (k_edges c) d)
         (* the same objects observed again after in-place edits of everything handed out before *)
         && all2 (leaf_ok sizes) (k_leaves c) (k_lreps c) && all2 (leaf_ok sizes) (k_leaves c) (k_lreps2 c)
         && (len (k_rreps c) =? 3) && forallb (view_ok sizes true k d) (k_rreps c)
         && veqb (k_sum2 c) (vsum d)
         && vlist_eqb (k_obs_edges2 c) (k_edges c)
         && zlist_eqb (k_hist2 c) (spec_hist (k_edges c) d)
     end.

(* ---------- model side ---------- *)
Definition model_leaf (sizes : list Z) (l : leaf) : option (kind * rle) :=
  let tot := total_size sizes in
  match lf_tag l with
  | 0 => match to_global sizes (lf_recs l) with Some g => from_bedgraph (lf_kind l) g tot | None => None end
  | 1 => match to_global sizes (lf_recs l) with Some g => boolean_mask g tot | None => None end
  (* the code's event pipeline (Model/C09_pileup.v pileup_events) up to pileup_row_limit rows, the abstract coverage model beyond *)
  | 2 => match to_global sizes (lf_recs l) with Some g => pileup_in_force g tot | None => None end
  | 3 => from_intervals_scalar (map (fun r => fst (fst r)) (flat_recs l)) (map (fun r => snd (fst r)) (flat_recs l))
                               tot (lf_kind l) (lf_value l) (lf_default l)
  | _ => from_intervals_array (map (fun r => fst (fst r)) (flat_recs l)) (map (fun r => snd (fst r)) (flat_recs l))
                              tot (lf_kind l) (map snd (flat_recs l)) (lf_default l)
  end.
Definition obs_matches (sizes : list Z) (m : option (kind * rle)) (o : obs) : bool :=
  match m with
  | None => negb (o_ok o)
  | Some (k, r) =>
      o_ok o && kind_eqb (o_kind o) k
      && vll_eqb (o_dense o) (model_to_dict sizes r)
      && list_eqb grec_eqb (o_data o) (model_get_data sizes k r)
  end.
Fixpoint sequence {A} (l : list (option A)) : option (list A) :=
  match l with
  | [] => Some []
  | Some x :: r => match sequence r with Some t => Some (x :: t) | None => None end
  | None :: _ => None
  end.
Definition model_ok (c : case) : bool :=
  let sizes := k_sizes c in
  let ml := map (model_leaf sizes) (k_leaves c) in
  all2 (obs_matches sizes) ml (k_lobs c)
  && match sequence ml with
     | None => negb (o_ok (k_res c))            (* a leaf could not be built: nothing to evaluate *)
     | Some leaves =>
         match model_eval leaves (k_expr c) with
         | None => negb (o_ok (k_res c))
         | Some (k, r) =>
             obs_matches sizes (Some (k, r)) (k_res c)
             && veqb (k_sum c) (model_sum r)
             (* the bin edges depend on bins / range / min / max of the values only: the run values have the dense min / max *)
             && vlist_eqb (k_obs_edges c) (k_edges c)
             && zlist_eqb (k_hist c) (model_hist (k_edges c) r)
             (* the model has no state: a repeated observation is the same function of the same run-length array *)
             && all2 (obs_matches sizes) ml (k_lreps c) && all2 (obs_matches sizes) ml (k_lreps2 c)
             && forallb (obs_matches sizes (Some (k, r))) (k_rreps c)
             && veqb (k_sum2 c) (model_sum r)
             && vlist_eqb (k_obs_edges2 c) (k_edges c)
             && zlist_eqb (k_hist2 c) (model_hist (k_edges c) r)
         end
     end.

(* Corr/C08.v — correspondence case type and the two decidable verdicts evaluated per case:
   model_ok = the implementation's observation equals the model's output;
   spec_ok  = the observation satisfies the property (computed from the per-base Spec only). *)
From Coq Require Import ZArith List Bool.
From BNP Require Export Base.Prims Model.C08.
Import ListNotations.
Open Scope Z_scope.

(* one case = one operation on one input.  Operation codes:
    1 get_pileup            2 bedgraph.get_pileup     3 get_boolean_mask       4 merge_intervals (distance k_d)
    5 sort_intervals (key / sort_order route)         6 sort_intervals (StringEncoding, lexsort route)
    7 Geometry.sort (unstable argsort on the start: checked relationally)
    8 count_overlap         9 intersect              10 unique_intersect       11 jaccard     12 forbes   (15 Geometry.jaccard)
   13 clip                 14 extend_to_size (fragment length k_d; tag 1 = '+', 0 = '-')
   Geometry routes on chromosome number k_rank of a genome with chromosome sizes k_sizes:
   16 Geometry.get_pileup  17 Geometry.get_mask      18 Geometry.merge_intervals   7 Geometry.sort (tags = ranks)
   15 Geometry.jaccard
   21 get_pileup / 22 get_boolean_mask / 23 merge_intervals / 24 count_overlap on a deep multiset given with
      multiplicities (tag of a row = number of copies of that interval; more than 2^15 intervals in all)
   19 jaccard / 20 forbes on a genome with several contigs (tags of k_a, k_b = contig rank, k_sizes = contig sizes) *)
Record case := {
  k_op : Z; k_size : Z; k_d : Z;
  k_sizes : list Z; k_rank : Z;            (* Geometry routes: chromosome sizes of the genome, rank of the contig *)
  k_a : list tiv; k_b : list tiv;          (* inputs; tag = chromosome rank (sort) / strand (extend) / 0 *)
  k_err : Z;                               (* 0 = returned, 1 = AssertionError, 2 = another exception *)
  k_dense : list Z;                        (* per-base output (pileup; mask as 0/1) *)
  k_ivs : list tiv;                        (* interval output *)
  k_num : Z; k_den : Z; k_kind : Z         (* number output: integer k_num (k_den = 1), or the float as the exact
                                              fraction k_num/k_den; k_kind 0 = finite, 1 = nan, 2 = inf *)
}.
Definition A (c : case) : list iv := map untag (k_a c).
Definition B (c : case) : list iv := map untag (k_b c).
Definition out_ivs (c : case) : list iv := map untag (k_ivs c).
Definition ivs_eqb := list_eqb iv_eqb.
Definition tivs_eqb := list_eqb tiv_eqb.
Definition bools_as_z (l : list bool) : list Z := map b2z l.

(* the input lies in the property's domain *)
Definition wf (size : Z) (I : list iv) : bool := forallb (inside size) I.
Definition nonempty (I : list iv) : bool := forallb (fun i => fst i <? snd i) I.
Definition genome_ok (c : case) : bool :=
  forallb (fun z => 1 <=? z) (k_sizes c) && (0 <=? k_rank c) && (k_rank c <? len (k_sizes c))
  && (gsize (k_sizes c) (k_rank c) =? k_size c) && forallb (fun i => fst i <? k_size c) (A c).
Definition sort_row_ok (sizes : list Z) (t : tiv) : bool :=
  (0 <=? t_tag t) && (t_tag t <? len sizes) && (0 <=? t_start t) && (t_start t <? gsize sizes (t_tag t))
  && (t_start t <=? t_stop t) && (t_stop t <=? gsize sizes (t_tag t)).
Definition on_contig (r : Z) (l : list tiv) : list iv := map untag (filter (fun t => t_tag t =? r) l).
Definition genome_of (c : case) : list contig :=
  map (fun r => (gsize (k_sizes c) r, on_contig r (k_a c), on_contig r (k_b c))) (arange (len (k_sizes c))).
Definition genome_row_ok (sizes : list Z) (t : tiv) : bool :=
  (0 <=? t_tag t) && (t_tag t <? len sizes) && (0 <=? t_start t) && (t_start t <=? t_stop t) && (t_stop t <=? gsize sizes (t_tag t)).
Definition row_w_ok (s : Z) (t : tiv) : bool := (1 <=? t_tag t) && inside s (untag t).
Definition domain (c : case) : bool :=
  let s := k_size c in
  (1 <=? s) &&
  match k_op c with
  | 16 | 17 => wf s (A c) && genome_ok c
  | 18 => wf s (A c) && nonempty (A c) && sortedb Z.leb (map fst (A c)) && (0 <=? k_d c) && genome_ok c
  | 7 => forallb (fun z => 1 <=? z) (k_sizes c) && forallb (sort_row_ok (k_sizes c)) (k_a c)
  | 21 | 22 => forallb (row_w_ok s) (k_a c)
  | 23 => forallb (row_w_ok s) (k_a c) && nonempty (A c) && sortedb Z.leb (map fst (A c)) && (0 <=? k_d c)
  | 24 => forallb (row_w_ok s) (k_a c) && forallb (row_w_ok s) (k_b c)
  | 19 | 20 => forallb (fun z => 1 <=? z) (k_sizes c) && forallb (genome_row_ok (k_sizes c)) (k_a c)
               && forallb (genome_row_ok (k_sizes c)) (k_b c)
  | 1 | 2 | 3 => wf s (A c)
  | 4 => wf s (A c) && nonempty (A c) && sortedb Z.leb (map fst (A c)) && (0 <=? k_d c)
  | 5 | 6 => wf s (A c)
  | 8 | 9 | 10 | 11 | 12 => wf s (A c) && wf s (B c)
  | 15 => wf s (A c) && wf s (B c) && genome_ok c && forallb (fun i => fst i <? k_size c) (B c)
  | 13 => forallb (fun i => fst i <=? snd i) (A c)
  | 14 => wf s (A c) && (0 <=? k_d c) && forallb (fun t => (t_tag t =? 0) || (t_tag t =? 1)) (k_a c)
  | _ => false
  end.

(* |num/den - n/m| <= 1e-12, all in integers.  When the denominator is 0 (empty union for Jaccard, an empty marginal
   for Forbes) the per-base value is undefined; the numerator is then 0 too, and the library's NumPy division 0/0 gives
   nan: the Spec asks for exactly that (nan for 0/0, inf for n/0 with n <> 0), never a finite number. *)
Definition frac_close (c : case) (nm : Z * Z) : bool :=
  let '(n, m) := nm in
  if m =? 0 then (if n =? 0 then k_kind c =? 1 else k_kind c =? 2)
  else (k_kind c =? 0) && (0 <? k_den c)
       && (Z.abs (k_num c * m - n * k_den c) * 1000000000000 <=? k_den c * Z.abs m).

Definition spec_ok (c : case) : bool :=
  let s := k_size c in
  domain c && (k_err c =? 0) &&
  match k_op c with
  | 1 | 2 | 16 => zlist_eqb (k_dense c) (pileup_spec (A c) s)
  | 3 | 17 => zlist_eqb (k_dense c) (bools_as_z (mask_spec (A c) s))
  | 4 | 18 => ivs_eqb (out_ivs c) (merge_spec (k_d c) (A c) s) && ivs_eqb (out_ivs c) (merge_spec2 (k_d c) (A c) s)
  | 5 | 6 | 7 => sort_spec_ok (k_a c) (k_ivs c)
  | 8 => (k_num c =? overlap_spec (A c) (B c) s) && (k_den c =? 1)
         && (negb (disjointb (A c) s && disjointb (B c) s) || (k_num c =? overlap_sets_spec (A c) (B c) s))
  | 9 => intersect_spec_ok (A c) (B c) (out_ivs c) s
  (* rows of A without bases (start = stop) are outside the property: only the rows with bases are compared, and a
     returned row without bases must be one of the input rows *)
  | 10 => ivs_eqb (filter (fun i => fst i <? snd i) (out_ivs c)) (unique_intersect_spec (A c) (B c))
          && forallb (fun o => (fst o <? snd o) || existsb (iv_eqb o) (A c)) (out_ivs c)
  | 11 | 15 => frac_close c (jaccard_spec (A c) (B c) s)
  | 12 => frac_close c (forbes_spec (A c) (B c) s)
  | 21 => zlist_eqb (k_dense c) (pileup_w_spec (k_a c) s)
  | 22 => zlist_eqb (k_dense c) (bools_as_z (mask_w_spec (k_a c) s))
  | 23 => ivs_eqb (out_ivs c) (merge_w_spec (k_d c) (k_a c) s)
  | 24 => (k_num c =? overlap_w_spec (k_a c) (k_b c) s) && (k_den c =? 1)
  | 19 => frac_close c (jaccard_genome_spec (genome_of c))
  | 20 => frac_close c (forbes_genome_spec (genome_of c))
  | 13 => clip_spec_ok s (A c) (out_ivs c)
  | 14 => extend_spec_ok s (k_d c) (k_a c) (k_ivs c)
  | _ => false
  end.

Definition opt_ok {T} (c : case) (m : option T) (eqb : T -> bool) : bool :=
  match m with
  | None => k_err c =? 1
  | Some v => (k_err c =? 0) && eqb v
  end.

Definition res_ok {T} (c : case) (m : result T) (eqb : T -> bool) : bool :=
  match m with
  | Raise code => k_err c =? code
  | Ret v => (k_err c =? 0) && eqb v
  end.

Definition model_ok (c : case) : bool :=
  let s := k_size c in
  match k_op c with
  | 1 => (k_err c =? 0) && zlist_eqb (k_dense c) (pileup_model (A c) s)
  | 2 => opt_ok c (bg_pileup_model (A c) s) (zlist_eqb (k_dense c))
  | 3 => opt_ok c (mask_model (A c) s) (fun m => zlist_eqb (k_dense c) (bools_as_z m))
  | 4 => opt_ok c (merge_model (k_d c) (A c)) (ivs_eqb (out_ivs c))
  | 5 => (k_err c =? 0) && tivs_eqb (k_ivs c) (sort_full_model (k_a c))
  | 6 => (k_err c =? 0) && tivs_eqb (k_ivs c) (sort_lex_model (k_a c))
  | 7 => (k_err c =? 0) && tivs_eqb (k_ivs c) (geom_sort_model (k_sizes c) (k_a c))
  | 16 => (k_err c =? 0) && zlist_eqb (k_dense c) (geom_pileup_model (k_sizes c) (k_rank c) (A c))
  | 17 => opt_ok c (geom_mask_model (k_sizes c) (k_rank c) (A c)) (fun m => zlist_eqb (k_dense c) (bools_as_z m))
  | 18 => opt_ok c (geom_merge_model (k_sizes c) (k_rank c) (k_d c) (A c)) (ivs_eqb (out_ivs c))
  | 8 => (k_err c =? 0) && (k_num c =? count_overlap_model (A c) (B c)) && (k_den c =? 1)
  | 9 => (k_err c =? 0) && ivs_eqb (out_ivs c) (intersect_model (A c) (B c))
  | 10 => opt_ok c (unique_intersect_model (A c) (B c) s) (ivs_eqb (out_ivs c))
  | 11 => res_ok c (jaccard_stream_model (A c) (B c) s) (frac_close c)
  | 12 => res_ok c (forbes_stream_model (A c) (B c) s) (frac_close c)
  | 21 => (k_err c =? 0) && zlist_eqb (k_dense c) (pileup_big_model (k_a c) s)
  | 22 => (k_err c =? 0) && zlist_eqb (k_dense c) (bools_as_z (mask_big_model (k_a c) s))
  | 23 => (k_err c =? 0) && ivs_eqb (out_ivs c) (merge_big_model (k_d c) (k_a c) s)
  | 24 => (k_err c =? 0) && (k_num c =? count_overlap_big_model (k_a c) (k_b c) s) && (k_den c =? 1)
  | 19 => res_ok c (jaccard_genome_model (genome_of c)) (frac_close c)
  | 20 => res_ok c (forbes_genome_model (genome_of c)) (frac_close c)
  | 15 => opt_ok c (geom_jaccard_model (k_sizes c) (k_rank c) (A c) (B c)) (frac_close c)
  | 13 => (k_err c =? 0) && ivs_eqb (out_ivs c) (clip_model s (A c))
  | 14 => (k_err c =? 0) && tivs_eqb (k_ivs c) (extend_model s (k_d c) (k_a c))
  | _ => false
  end.

(* Corr/C11.v — correspondence case type and the two decidable verdicts.
   spec_ok  = what the library returned for the STREAMED evaluation is the Spec value of the concatenated data
              (and, where an in-memory observation is carried, that one is the Spec value too);
   model_ok = what the library returned equals the Model's output on the same chunking. *)
From Coq Require Import ZArith List Bool.
From BNP Require Export Base.Prims Model.C11.
Import ListNotations.
Open Scope Z_scope.

Definition entry := (Z * Z * list Z)%type.          (* group id, start, DNA sequence (0..3) *)
Definition e_gid (e : entry) : Z := fst (fst e).
Definition e_start (e : entry) : Z := snd (fst e).
Definition e_seq (e : entry) : list Z := snd e.
Definition ratio := (Z * Z)%type.                   (* a float as numerator / positive denominator *)

Record flat := {
  f_chunks : list (list entry);                     (* the chunking; the data set is its concatenation *)
  f_sum_n : Z * Z;                                  (* streams.reductions.sum_and_n(stream.start) *)
  f_mean : ratio;  f_mean_mem : ratio;              (* bnp.mean(stream.start), np.mean(all.start) *)
  f_bincount : list Z;                              (* bnp.bincount(stream.start) *)
  f_hist : list (Z * Z * Z * list Z * list ratio);  (* bins, lo, hi, counts, edges of bnp.histogram(stream.start, ..) *)
  f_kmers : list (Z * list Z);                      (* k, count_kmers(stream.sequence, k).counts *)
  f_revcomp : list (list (list Z));                 (* get_reverse_complement(stream.sequence): one list of rows per chunk *)
  f_groups : list (bool * list (Z * list Z))        (* per key kind: fast-path kind?, groupby(stream, key) *)
}.

(* re-chunking is observed on its own cases: entries are numbered 0.. in order, only the chunk sizes matter *)
Record rechunk := {
  r_sizes : list Z;                                 (* sizes of the incoming chunks *)
  r_entries : list (Z * list (list Z));             (* n_entries, chunk_entries(stream, n) as lists of entry numbers *)
  r_lines : list (Z * list (list Z))                (* n_lines, chunk_lines(chunks, n) as lists of entry numbers *)
}.

Inductive pobs :=
| OTrack (rows : list (Z * Z * Z * Z))      (* chromosome number, start, stop, value : BedGraph rows *)
| OMask (rows : list (Z * Z * Z))           (* chromosome number, start, stop : Interval rows *)
| OSum (z : Z)
| OHist (counts : list Z)
| OHistSum (counts : list Z) (z : Z)
| OValues (rows : list (list Z))
| OMean0 (cols : list ratio)
| OIvs (rows : list (Z * Z * Z))            (* chromosome number, start, stop : interval rows, compared exactly *)
| OList (l : list Z)                       (* row sums / column sums of the values under the windows *)
| OError.

Record gen := {
  g_sizes : list Z;                                 (* chromosome k of the genome has number k *)
  g_a : list (list (Z * iv));                       (* chunks of (chromosome number, (start, stop)): the intervals *)
  g_b : list (list (Z * iv));                       (* chunks of the windows whose values are extracted *)
  g_runs : list (pipeline * pobs * pobs);           (* pipeline, streamed observation, in-memory observation *)
  g_w : list (list (Z * swin));                     (* chunks of stranded windows (chromosome, ((start, stop), strand)) *)
  g_sruns : list (spipeline * pobs * pobs);         (* values under the stranded windows / their mean(axis=0) *)
  g_eruns : list (texpr * query * pobs * pobs);     (* arithmetic expression on the pileup, query, streamed, in-memory *)
  g_wruns : list (warg * wquery * pobs * pobs)      (* windows around the interval starts: keyword form, query, streamed, in-memory *)
}.

(* one data set with a chunk of more than max_block k-mers (k = 1): reads are run-length encoded *)
Record big := {
  b_chunks : list (list runs_t);                    (* chunks of reads; a read is a list of (letter, run length) *)
  b_stream : list Z;                                (* count_kmers(stream.sequence, 1).counts for this chunking *)
  b_single : list Z;                                (* the same data as ONE chunk *)
  b_mem : list Z                                    (* count_kmers(table.sequence, 1).counts *)
}.
(* keyword forms of streamed operations: streamed and in-memory observation, compared with each other only *)
Definition kwcase := list (list (list Z) * list (list Z)).

Inductive case := CFlat (f : flat) | CRechunk (r : rechunk) | CGen (g : gen) | CBig (b : big) | CKw (k : kwcase).

(* ---------- helpers ---------- *)
Fixpoint number_chunks {A} (from : Z) (cs : list (list A)) : list (list Z) :=
  match cs with
  | [] => []
  | c :: r => arange_from from (length c) :: number_chunks (from + len c) r
  end.
Definition pair_eqb (a b : Z * Z) : bool := (fst a =? fst b) && (snd a =? snd b).
Definition group_eqb (a b : Z * list Z) : bool := (fst a =? fst b) && zlist_eqb (snd a) (snd b).
Definition opt_zl_eqb (o : option (list Z)) (l : list Z) : bool :=
  match o with Some x => zlist_eqb x l | None => zlist_eqb l [-1] end.
Definition opt_zll_eqb (o : option (list (list Z))) (l : list (list Z)) : bool :=
  match o with Some x => zll_eqb x l | None => zll_eqb l [[-1]] end.
(* float p/q is the double nearest to s/n (n > 0): relative error at most 2^-52 *)
Definition close_to (r : ratio) (s n : Z) : bool :=
  let '(p, q) := r in
  (0 <? q) && (0 <? n) && (Z.abs (p * n - s * q) * 2 ^ 52 <=? Z.abs (s * q)).
Definition exact_ratio (r : ratio) (num den : Z) : bool :=
  let '(p, q) := r in (0 <? q) && (p * den =? num * q).

(* ---------- flat cases ---------- *)
Definition f_data (f : flat) : list entry := concat (f_chunks f).
Definition f_starts (f : flat) := map (map e_start) (f_chunks f).
Definition f_keyed (f : flat) : list (list (Z * Z)) :=
  let cs := f_chunks f in
  map (fun '(c, ids) => combine (map e_gid c) ids) (combine cs (number_chunks 0 cs)).

(* at least one chunk and at least one entry; single chunks may be empty (an empty table is a legal stream element) *)
Definition chunks_wellformed (f : flat) : bool :=
  negb (len (f_chunks f) =? 0) && negb (len (f_data f) =? 0).

Definition hist_edges_ok (k lo hi : Z) (edges : list ratio) : bool :=
  (len edges =? k + 1)
  && all_true (map (fun '(i, e) => exact_ratio e (lo * k + i * (hi - lo)) k) (combine (arange (k + 1)) edges)).

Definition flat_spec_ok (f : flat) : bool :=
  let data := f_data f in
  let ids := arange (len data) in
  let starts := map e_start data in
  chunks_wellformed f
  && pair_eqb (f_sum_n f) (spec_sum_n starts)
  && pair_eqb (f_mean f) (f_mean_mem f) && close_to (f_mean f) (sumZ starts) (len starts)
  && zlist_eqb (f_bincount f) (spec_bincount starts)
  && all_true (map (fun '(k, lo, hi, counts, edges) =>
        zlist_eqb counts (spec_hist k lo hi starts) && hist_edges_ok k lo hi edges) (f_hist f))
  && all_true (map (fun '(k, counts) => zlist_eqb counts (spec_kmer_counts (Z.to_nat k) (map e_seq data))) (f_kmers f))
  && zll_eqb (concat (f_revcomp f)) (spec_revcomp (map e_seq data))
  && zlist_eqb (map len (f_revcomp f)) (map len (f_chunks f))
  && all_true (map (fun '(_, gs) => list_eqb group_eqb gs (runs (combine (map e_gid data) ids))) (f_groups f)).

Definition flat_model_ok (f : flat) : bool :=
  let cs := f_chunks f in
  let idc := number_chunks 0 cs in
  let sn := stream_sum_n (f_starts f) in
  pair_eqb (f_sum_n f) sn
  && close_to (f_mean f) (fst sn) (snd sn)
  && opt_zl_eqb (stream_bincount (f_starts f)) (f_bincount f)
  && all_true (map (fun '(k, lo, hi, counts, edges) => opt_zl_eqb (stream_hist k lo hi (f_starts f)) counts) (f_hist f))
  && all_true (map (fun '(k, counts) =>
        opt_zl_eqb (stream_kmer_counts (Z.to_nat k) (map (map e_seq) cs)) counts) (f_kmers f))
  && list_eqb zll_eqb (f_revcomp f) (stream_map spec_revcomp (map (map e_seq) cs))
  && all_true (map (fun '(fast, gs) => list_eqb group_eqb gs (stream_groupby fast (f_keyed f))) (f_groups f)).

(* ---------- re-chunking cases ---------- *)
Fixpoint ids_of_sizes (from : Z) (sizes : list Z) : list (list Z) :=
  match sizes with
  | [] => []
  | s :: r => arange_from from (Z.to_nat s) :: ids_of_sizes (from + s) r
  end.
Definition rechunk_wellformed (r : rechunk) : bool :=
  negb (len (r_sizes r) =? 0) && forallb (fun s => 0 <=? s) (r_sizes r)
  && forallb (fun '(n, _) => 1 <=? n) (r_entries r) && forallb (fun '(n, _) => 1 <=? n) (r_lines r).
Definition rechunk_spec_ok (r : rechunk) : bool :=
  let ids := arange (sumZ (r_sizes r)) in
  rechunk_wellformed r
  && all_true (map (fun '(n, out) => rechunk_ok 1 n ids out) (r_entries r))
  && all_true (map (fun '(n, out) => rechunk_ok 0 n ids out) (r_lines r)).
Definition rechunk_model_ok (r : rechunk) : bool :=
  let idc := ids_of_sizes 0 (r_sizes r) in
  all_true (map (fun '(n, out) => opt_zll_eqb (chunk_entries (Z.to_nat n) idc) out) (r_entries r))
  && all_true (map (fun '(n, out) => opt_zll_eqb (chunk_lines n idc) out) (r_lines r)).

(* ---------- genome cases ---------- *)
Definition dense_of_rows (size : Z) (rows : list (Z * Z * Z)) : list Z :=     (* (start, stop, value) *)
  map (fun p => sumZ (map (fun '(s, e, v) => if (s <=? p) && (p <? e) then v else 0) rows)) (arange size).
Fixpoint tiles (from size : Z) (rows : list (Z * Z * Z)) : bool :=
  match rows with
  | [] => from =? size
  | (s, e, _) :: r => (s =? from) && (s <? e) && tiles e size r
  end.
Definition rows_of_chrom4 (c : Z) (rows : list (Z * Z * Z * Z)) : list (Z * Z * Z) :=
  map (fun '(_, s, e, v) => (s, e, v)) (filter (fun '(ch, _, _, _) => ch =? c) rows).
Definition rows_of_chrom3 (c : Z) (rows : list (Z * Z * Z)) : list (Z * Z * Z) :=
  map (fun '(_, s, e) => (s, e, 1)) (filter (fun '(ch, _, _) => ch =? c) rows).
Fixpoint nondecreasing (l : list Z) : bool :=
  match l with a :: ((b :: _) as r) => (a <=? b) && nondecreasing r | _ => true end.

Definition gl_eqb (v : gval) (l : list Z) : bool := match v with GL x => zlist_eqb x l | _ => false end.
Fixpoint tracks_match (vs : list gval) (c : Z) (sizes : list Z) (dense_of : Z -> Z -> list Z) : bool :=
  match vs, sizes with
  | [], [] => true
  | v :: vs', s :: sizes' => gl_eqb v (dense_of c s) && tracks_match vs' (c + 1) sizes' dense_of
  | _, _ => false
  end.

Definition obs_matches (sizes : list Z) (expected : gval) (o : pobs) : bool :=
  match o, expected with
  | OTrack rows, GT vs =>
      nondecreasing (map (fun '(ch, _, _, _) => ch) rows)
      && all_true (map (fun '(c, s) => tiles 0 s (rows_of_chrom4 c rows)) (combine (arange (len sizes)) sizes))
      && tracks_match vs 0 sizes (fun c s => dense_of_rows s (rows_of_chrom4 c rows))
  | OMask rows, GT vs =>
      nondecreasing (map (fun '(ch, _, _) => ch) rows)
      && tracks_match vs 0 sizes (fun c s => dense_of_rows s (rows_of_chrom3 c rows))
  | OSum z, GZ x => z =? x
  | OHist counts, GL x => zlist_eqb counts x
  | OHistSum counts z, GT [GL x; GZ y] => zlist_eqb counts x && (z =? y)
  | OValues rows, GR x => zll_eqb rows x
  | OMean0 cols, GSN sn =>
      (len cols =? len sn) && all_true (map (fun '(r, (s, n)) => close_to r s n) (combine cols sn))
  | OIvs rows, GT vs =>
      nondecreasing (map (fun '(ch, _, _) => ch) rows)
      && (len vs =? len sizes)
      && all_true (map (fun '(c, v) =>
            match v with
            | GIv l => list_eqb pair_eqb (map (fun '(_, s, e) => (s, e)) (filter (fun '(ch, _, _) => ch =? c) rows)) l
            | _ => false
            end) (combine (arange (len vs)) vs))
  | OList l, GL x => zlist_eqb l x
  | OError, GErr => true
  | _, _ => false
  end.

Definition gen_wellformed (g : gen) : bool :=
  forallb (fun c => negb (len c =? 0)) (g_a g) && forallb (fun c => negb (len c =? 0)) (g_b g)
  && negb (len (g_a g) =? 0) && negb (len (g_b g) =? 0) && negb (len (g_sizes g) =? 0).

Definition gen_extra_spec_ok (g : gen) : bool :=
  let order := arange (len (g_sizes g)) in
  forallb (fun c => negb (len c =? 0)) (g_w g)
  && all_true (map (fun '(p, streamed, mem) =>
        let expected := spec_stranded p order (g_sizes g) (concat (g_a g)) (concat (g_w g)) in
        obs_matches (g_sizes g) expected mem && obs_matches (g_sizes g) expected streamed) (g_sruns g))
  && all_true (map (fun '(e, q, streamed, mem) =>
        let expected := spec_expr e q order (g_sizes g) (concat (g_a g)) (concat (g_b g)) in
        obs_matches (g_sizes g) expected mem && obs_matches (g_sizes g) expected streamed) (g_eruns g))
  && all_true (map (fun '(a, q, streamed, mem) =>
        let expected := spec_windows a q order (g_sizes g) (concat (g_a g)) in
        obs_matches (g_sizes g) expected mem && obs_matches (g_sizes g) expected streamed) (g_wruns g)).
Definition gen_extra_model_ok (g : gen) : bool :=
  let order := arange (len (g_sizes g)) in
  all_true (map (fun '(p, streamed, mem) =>
        match run_stranded p order (g_sizes g) (g_a g) (g_w g) with
        | Some v => obs_matches (g_sizes g) v streamed
        | None => false
        end) (g_sruns g))
  && all_true (map (fun '(e, q, streamed, mem) =>
        match run_expr e q order (g_sizes g) (g_a g) (g_b g) with
        | Some v => obs_matches (g_sizes g) v streamed
        | None => false
        end) (g_eruns g))
  && all_true (map (fun '(a, q, streamed, mem) =>
        match run_windows a q order (g_sizes g) (g_a g) with
        | Some v => obs_matches (g_sizes g) v streamed
        | None => false
        end) (g_wruns g)).

Definition gen_spec_ok (g : gen) : bool :=
  let order := arange (len (g_sizes g)) in
  gen_wellformed g
  && all_true (map (fun '(p, streamed, mem) =>
        let expected := spec_pipeline p order (g_sizes g) (concat (g_a g)) (concat (g_b g)) in
        obs_matches (g_sizes g) expected mem && obs_matches (g_sizes g) expected streamed) (g_runs g)).

Definition gen_model_ok (g : gen) : bool :=
  let order := arange (len (g_sizes g)) in
  all_true (map (fun '(p, streamed, mem) =>
        match run_pipeline p order (g_sizes g) (g_a g) (g_b g) with
        | Some v => obs_matches (g_sizes g) v streamed
        | None => false
        end) (g_runs g)).

Definition big_spec_ok (b : big) : bool :=
  let want := spec_big_counts 4 (b_chunks b) in
  negb (len (b_chunks b) =? 0) && zlist_eqb (b_stream b) want && zlist_eqb (b_single b) want && zlist_eqb (b_mem b) want.
Definition big_model_ok (b : big) : bool :=
  opt_zl_eqb (stream_big_counts max_block 4 (b_chunks b)) (b_stream b)
  && opt_zl_eqb (stream_big_counts max_block 4 [concat (b_chunks b)]) (b_single b).
Definition kw_spec_ok (k : kwcase) : bool := all_true (map (fun '(s, m) => zll_eqb s m) k).

Definition spec_ok (c : case) : bool :=
  match c with
  | CFlat f => flat_spec_ok f | CRechunk r => rechunk_spec_ok r | CGen g => gen_spec_ok g && gen_extra_spec_ok g
  | CBig b => big_spec_ok b | CKw k => kw_spec_ok k
  end.
Definition model_ok (c : case) : bool :=
  match c with
  | CFlat f => flat_model_ok f | CRechunk r => rechunk_model_ok r | CGen g => gen_model_ok g && gen_extra_model_ok g
  | CBig b => big_model_ok b
  | CKw _ => true          (* keyword forms whose semantics belong to other properties: observation equality only *)
  end.

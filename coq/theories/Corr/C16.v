(* Corr/C16.v — correspondence case type and the two decidable verdicts evaluated per case:
   model_ok = what the implementation returned equals the model's output on the same bytes;
   spec_ok  = what the implementation returned is what the BAM specification defines for the
              generator's ground-truth records (computed from the Spec half of Model/C16.v only). *)
From Coq Require Import ZArith List Bool.
From BNP Require Export Base.Prims Model.C16.
Import ListNotations.
Open Scope Z_scope.

Record wobs := {                 (* one write of a lazily read file followed by re-reading the result *)
  w_mode : Z;                    (* 0 = whole object, 1 = data[idx] (filtered or reordered), 2 = stream of chunks of size w_k *)
  w_k : Z;
  w_idx : list Z;                (* record numbers written, in order *)
  w_eof : bool;                  (* the file on disk ends with the 28-byte BGZF EOF block *)
  w_stream : list Z;             (* gunzip of the written file *)
  w_reread : list orec;          (* bnp.open(written).read() *)
  w_post : list orec             (* the fields of the written object itself, read AFTER the write (some of them were
                                    already read before it, in another order); for a stream write: the source re-read *)
}.
Record case := {
  k_text : list Z;  k_refs : list (list Z * Z);  k_recs : list brec;      (* ground truth *)
  k_stream : list Z;             (* decompressed bytes of the file made by the harness's Python spec encoder *)
  k_whole : list orec;           (* bnp.open(p).read() *)
  k_ivs : list oiv;              (* bnp.open(p, buffer_type=BamIntervalBuffer).read() *)
  k_ivs2 : option (list oiv);    (* alignment_to_interval(bnp.open(p).read()); None = the call raises *)
  k_after_iv : list orec;        (* the SAME entries read again after alignment_to_interval(entries) was called on them *)
  k_sess : list (list orec);     (* two-file sessions: this file's records, read while ANOTHER BAM file with a different
                                    reference dictionary is open in the same process, one entry per interleaving
                                    (opened first / last, whole reads, chunked reads taken in turn) *)
  k_sess_iv : list (list oiv);   (* the same for BamIntervalBuffer / alignment_to_interval *)
  k_chunked : list (Z * list Z * list orec);   (* chunk size, records per chunk, all records in order *)
  k_writes : list wobs
}.

Definition oz_eqb (a b : option (list Z)) : bool :=
  match a, b with Some x, Some y => zlist_eqb x y | None, None => true | _, _ => false end.
Definition orec_eqb (a b : orec) : bool :=
  oz_eqb (o_chrom a) (o_chrom b) && zlist_eqb (o_name a) (o_name b) && (o_flag a =? o_flag b)
  && (o_pos a =? o_pos b) && (o_mapq a =? o_mapq b) && oz_eqb (o_ops a) (o_ops b)
  && zlist_eqb (o_lens a) (o_lens b) && zlist_eqb (o_seq a) (o_seq b) && zlist_eqb (o_qual a) (o_qual b).
Definition oiv_eqb (a b : oiv) : bool :=
  oz_eqb (i_chrom a) (i_chrom b) && (i_start a =? i_start b) && (i_stop a =? i_stop b)
  && zlist_eqb (i_name a) (i_name b) && (i_score a =? i_score b) && (i_strand a =? i_strand b).

(* ---------------------------------------------------------------- the property *)
(* "none" for an unmapped record: the library has no null for a name column; the SAM spelling of
   "no reference" ('*') or the empty name is accepted, a real reference name is not. *)
Definition chrom_ok (refs : list (list Z * Z)) (r : brec) (got : option (list Z)) : bool :=
  match spec_chrom refs r with
  | Some n => oz_eqb got (Some n)
  | None => if b_ref r <? 0 then oz_eqb got (Some [42]) || oz_eqb got (Some []) else false
  end.
Definition rec_matches (refs : list (list Z * Z)) (r : brec) (o : orec) : bool :=
  chrom_ok refs r (o_chrom o) && zlist_eqb (o_name o) (b_name r) && (o_flag o =? b_flag r)
  && (o_pos o =? b_pos r) && (o_mapq o =? b_mapq r) && oz_eqb (o_ops o) (Some (spec_ops r))
  && zlist_eqb (o_lens o) (spec_lens r) && zlist_eqb (o_seq o) (spec_letters r) && zlist_eqb (o_qual o) (b_qual r).
Definition iv_matches (refs : list (list Z * Z)) (r : brec) (o : oiv) : bool :=
  chrom_ok refs r (i_chrom o) && (i_start o =? b_pos r) && (i_stop o =? b_pos r + spec_reflen r)
  && zlist_eqb (i_name o) (b_name r) && (i_score o =? b_mapq r) && (i_strand o =? spec_strand r).
Fixpoint all2 {A B} (f : A -> B -> bool) (a : list A) (b : list B) : bool :=
  match a, b with
  | [], [] => true
  | x :: a', y :: b' => f x y && all2 f a' b'
  | _, _ => false
  end.

(* generator and Coq spec encoder agree, and the ground truth is a valid BAM *)
Definition file_ok (c : case) : bool :=
  zlist_eqb (encode_file (k_text c) (k_refs c) (k_recs c)) (k_stream c)
  && forallb (rec_okb (len (k_refs c))) (k_recs c)
  && forallb (fun nl => in_range 1 255 (len (fst nl)) && forallb (in_range 1 256) (fst nl)
                        && in_range 0 2147483648 (snd nl)) (k_refs c).

Definition spec_ok (c : case) : bool :=
  let refs := k_refs c in let rs := k_recs c in
  file_ok c
  && all2 (rec_matches refs) rs (k_whole c)
  && all2 (iv_matches refs) rs (k_ivs c)
  && match k_ivs2 c with Some l => all2 (iv_matches refs) rs l | None => false end
  && all2 (rec_matches refs) rs (k_after_iv c)
  && forallb (all2 (rec_matches refs) rs) (k_sess c)           (* a file's records depend on that file only *)
  && forallb (all2 (iv_matches refs) rs) (k_sess_iv c)
  && forallb (fun '(k, counts, got) => all2 (rec_matches refs) rs got && (sumZ counts =? len rs)) (k_chunked c)
  && forallb (fun w =>
        let sel := select rs (w_idx w) in
        w_eof w && (len sel =? len (w_idx w))
        && zlist_eqb (w_stream w) (encode_file (k_text c) refs sel)
        && all2 (rec_matches refs) sel (w_reread w)
        && all2 (rec_matches refs) sel (w_post w)) (k_writes c).

(* ---------------------------------------------------------------- implementation = model *)
Definition model_read := read_file.
Definition model_ok (c : case) : bool :=
  match model_read (k_stream c) with
  | None => false
  | Some (names, hdr, b) =>
      let body := skipn (length hdr) (k_stream c) in
      all2 orec_eqb (decode_buf current names b) (k_whole c)
      && all2 oiv_eqb (intervals_buf current names b) (k_ivs c)
      && (let m := intervals_buf current names b in     (* a column that raises makes the whole call raise *)
          match k_ivs2 c with
          | Some l => forallb (fun i => match i_chrom i with Some _ => true | None => false end) m && all2 oiv_eqb m l
          | None => existsb (fun i => match i_chrom i with Some _ => false | None => true end) m
          end)
      && all2 orec_eqb (decode_buf current names b) (k_after_iv c)
      && forallb (all2 orec_eqb (decode_buf current names b)) (k_sess c)       (* the model has no state shared between files *)
      && forallb (all2 oiv_eqb (intervals_buf current names b)) (k_sess_iv c)
      && forallb (fun '(k, counts, got) =>
            match read_chunks k body with
            | None => false
            | Some bs => zlist_eqb counts (map (fun b => len (bf_starts b)) bs)
                         && all2 orec_eqb (flat_map (decode_buf current names) bs) got
            end) (k_chunked c)
      && forallb (fun w =>
            let written :=
              if w_mode w =? 0 then Some (write_whole hdr b)
              else if w_mode w =? 1 then write_selected hdr b (w_idx w)
              else match read_chunks (w_k w) body with
                   | Some bs => Some (hdr ++ concat (map bf_data bs))
                   | None => None
                   end in
            match written with
            | None => false
            | Some wb =>
                zlist_eqb (w_stream w) wb
                && match model_read wb with
                   | Some (names2, _, b2) => all2 orec_eqb (decode_buf current names2 b2) (w_reread w)
                   | None => false
                   end
                && match (if w_mode w =? 1 then decode_selected current names b (w_idx w)
                          else Some (decode_buf current names b)) with
                   | Some m => all2 orec_eqb m (w_post w)
                   | None => false
                   end
            end) (k_writes c)
  end.

(* Props/C19.v — the property theorems for C19 (tables of entries behave like column-aligned records).
   Only statements, `exact <lemma>` and Print Assumptions live here.
   Spec  = list of rows (Model/C19.v, first part);  Model = list of typed columns as bionumpy stores them.
   Guards used below are defined in Proofs/C19.v:
     int_ok z      : z is an integer (multiple of 4 quarter units) with |z| < 2^53
     bcol_wf/col_wf: stored column is well formed (ragged lengths consume the data exactly, StringArray rows have
                     the dtype width, int64 values satisfy int_ok)
     mb_small      : python ints handed to a constructor satisfy int_ok
   and in Proofs/C19_rows.v:
     mb_good k b   : b is acceptable for declared kind k (mb_ok) and mb_small
     cell_good f c : cell c is acceptable for field f (nested: a row of acceptable cells for a non-empty sub-schema)
     arg_good f a  : constructor argument a (python list, or Inner( *columns)) holds acceptable values for field f *)
From Coq Require Import String ZArith List Bool Permutation.
From BNP Require Import Base.Prims Model.C19 Corr.C19 Proofs.C19 Proofs.C19_rows Proofs.C19_prog Proofs.C19_link Proofs.C19_example Proofs.C19_iter Gen.C19 Bridge.C19.
Import ListNotations.
Open Scope Z_scope.

(* T1: every table any program of the listed operations produces has all columns of equal length — for every
   program, schema and pair of aligned operands (whatever the fix switches are set to). *)
Theorem C19_aligned_program :
  forall p sch cur t1, aligned cur = true -> aligned t1 = true ->
    Forall (fun r => match r with MTab _ t => aligned t = true | _ => True end) (m_run sch cur t1 p).
Proof. exact m_run_aligned. Qed.
Print Assumptions C19_aligned_program.

(* T2 (selection): selecting positions column by column — numeric, ragged, NUL-padded string, flat encoded and
   nested-table columns alike — yields exactly the selected rows, for every index list. *)
Theorem C19_select_rows :
  forall ix t, aligned t = true ->
    aligned (m_select ix t) = true /\ m_to_rows (m_select ix t) = sel ix (m_to_rows t).
Proof. exact (fun ix t H => conj (aligned_select ix t H) (m_to_rows_select ix t H)). Qed.
Print Assumptions C19_select_rows.

(* T2 (integer-array index): same rows as walking the index list over the list of rows (negative indices count
   from the end), and an error exactly when some index is out of range. *)
Theorem C19_take :
  forall ix t, aligned t = true ->
    match take_indices (Z.of_nat (m_len t)) ix with
    | Some k => s_take (m_to_rows t) ix = Some (m_to_rows (m_select k t))
    | None => s_take (m_to_rows t) ix = None
    end.
Proof. exact take_refines. Qed.
Print Assumptions C19_take.

(* T2 (boolean mask) *)
Theorem C19_mask :
  forall m t, aligned t = true ->
    match mask_indices (m_len t) m with
    | Some k => s_mask (m_to_rows t) m = Some (m_to_rows (m_select k t))
    | None => s_mask (m_to_rows t) m = None
    end.
Proof. exact mask_refines. Qed.
Print Assumptions C19_mask.

(* T2 (slice with any non-zero step), and a slice never raises *)
Theorem C19_slice :
  forall a b st t, aligned t = true -> st <> 0 ->
    match take_indices (Z.of_nat (m_len t)) (slice_indices (Z.of_nat (m_len t)) a b st) with
    | Some k => s_slice (m_to_rows t) a b st = Some (m_to_rows (m_select k t))
    | None => s_slice (m_to_rows t) a b st = None
    end.
Proof. exact slice_refines. Qed.
Print Assumptions C19_slice.
Theorem C19_slice_never_raises :
  forall a b st t, take_indices (Z.of_nat (m_len t)) (slice_indices (Z.of_nat (m_len t)) a b st) <> None.
Proof. exact slice_never_raises. Qed.
Print Assumptions C19_slice_never_raises.

(* T2 (concatenation), _partial: the rows of np.concatenate([a, b]) are the rows of a followed by the rows of b,
   including StringArray columns of different widths and dtype promotion, provided int64 values are below 2^53. *)
Theorem C19_concat_rows_partial :
  forall a b t, m_cat a b = Some t -> aligned a = true -> aligned b = true -> Forall col_wf a -> Forall col_wf b ->
    aligned t = true /\ erase_rows (m_to_rows t) = erase_rows (m_to_rows a) ++ erase_rows (m_to_rows b).
Proof. exact cat_rows_partial. Qed.
Print Assumptions C19_concat_rows_partial.
(* ... and without that guard the statement is false of the code as it is (int column next to a float64 one,
   e.g. the empty column the constructor makes from []): 2^53+1 comes back as 2^53. *)
Theorem C19_concat_rows_refuted :
  exists a b t, m_cat a b = Some t /\ aligned a = true /\ aligned b = true
    /\ erase_rows (m_to_rows t) <> erase_rows (m_to_rows a) ++ erase_rows (m_to_rows b).
Proof. exact cat_rows_refuted. Qed.
Print Assumptions C19_concat_rows_refuted.

(* T4: the specification's sort_by is a permutation, ordered by the key, and stable *)
Theorem C19_sort_spec :
  forall (key : row -> Z) (rs : table),
    let srt := isort_by (fun a b => key a <=? key b) rs in
    Permutation srt rs
    /\ sorted_b (fun a b => key a <=? key b) srt = true
    /\ forall k, filter (fun r => key r =? k) srt = filter (fun r => key r =? k) rs.
Proof. exact (@sort_spec row). Qed.
Print Assumptions C19_sort_spec.
(* T4/T2: sort_by on a numeric column (self[np.argsort(column)]) is that stable sort of the rows *)
Theorem C19_sort_by_model :
  forall f d v t, aligned t = true -> nth_error t f = Some (CBase (ColNum d v)) ->
    exists t', m_sort_by_gen false f t = Some t' /\ aligned t' = true
      /\ m_to_rows t' = isort_by (fun a b => rowkey f a <=? rowkey f b) (m_to_rows t).
Proof. exact sort_by_refines. Qed.
Print Assumptions C19_sort_by_model.

(* T5: StringArray — the strings of a NUL-padded fixed-width matrix built from NUL-free strings are those strings *)
Theorem C19_string_array_pad :
  forall ss, Forall (Forall (fun c => c <> 0)) ss -> bcol_cells (pad_all ss) = map MS ss.
Proof. exact pad_all_cells. Qed.
Print Assumptions C19_string_array_pad.

(* T3 (per column): converting a python list by its declared field type keeps every value (strings, identifiers,
   encoded strings, int lists, numbers), for acceptable values with ints below 2^53 *)
Theorem C19_column_roundtrip :
  forall fx5 fx6 k l c,
    bcol_of_cells_gen fx5 fx6 k l = Some c -> Forall (fun b => mb_ok k b = true) l -> Forall mb_small l ->
    map erase_b (bcol_cells c) = map erase_b l /\ bcol_len c = length l.
Proof. exact column_roundtrip. Qed.
Print Assumptions C19_column_roundtrip.
(* T3 (rows <-> columns): zip( *zip( *rows)) = rows for a non-empty rectangular list of non-empty rows *)
Theorem C19_transpose_involutive :
  forall (M : list (list mcell)) k, M <> [] -> (0 < k)%nat -> Forall (fun r => length r = k) M ->
    zip_rows (zip_rows M) = M.
Proof. exact (@zip_rows_involutive mcell). Qed.
Print Assumptions C19_transpose_involutive.

(* T3 (table level): from_entry_tuples(rows).tolist() = rows — at least one row, any schema over the nine column
   kinds and nested tables, acceptable cells.  (m_from_rows_nonempty is the algorithm of the code with fix-2;
   it is also the pinned algorithm when there is no nested-table field, next theorem.) *)
Theorem C19_from_rows_roundtrip :
  forall sch rows t, rows <> [] -> sch <> [] -> Forall (fun r => Forall2 cell_good sch r) rows ->
    m_from_rows_nonempty sch rows = Some t ->
    aligned t = true /\ erase_rows (m_to_rows t) = erase_rows rows.
Proof. exact from_rows_roundtrip. Qed.
Print Assumptions C19_from_rows_roundtrip.
Theorem C19_from_rows_roundtrip_pinned_partial :
  forall fx1 fx5 sch rows t, rows <> [] -> sch <> [] -> has_nested sch = false ->
    Forall (fun r => Forall2 cell_good sch r) rows ->
    m_from_rows_gen fx1 false fx5 sch rows = Some t ->
    aligned t = true /\ erase_rows (m_to_rows t) = erase_rows rows.
Proof. exact from_rows_roundtrip_pinned_partial. Qed.
Print Assumptions C19_from_rows_roundtrip_pinned_partial.
(* the pinned from_entry_tuples fails outside that guard: zero rows; a nested-table field *)
Theorem C19_from_rows_pinned_refuted :
  (exists sch, sch <> [] /\ m_from_rows_gen false false false sch [] = None)
  /\ (exists sch rows, rows <> [] /\ Forall (fun r => Forall2 cell_good sch r) rows
        /\ m_from_rows_gen false false false sch rows = None).
Proof. exact from_rows_pinned_refuted. Qed.
Print Assumptions C19_from_rows_pinned_refuted.

(* T2 (add_fields): the result is aligned and its rows are the rows with the new cell appended *)
Theorem C19_add_rows :
  forall fx3 k l t t', t <> [] -> aligned t = true -> Forall (fun b => mb_ok k b = true) l -> Forall mb_small l ->
    m_add_gen fx3 k l t = Some t' ->
    aligned t' = true
    /\ s_add (map (fun b => CB (erase_b b)) l) (erase_rows (m_to_rows t)) = Some (erase_rows (m_to_rows t')).
Proof. exact add_rows. Qed.
Print Assumptions C19_add_rows.
(* T2 (replace): the result is aligned, and when the row count is kept (always, unless the replaced field is the
   only one) its rows are the rows with cell f replaced by the new column's cell *)
Theorem C19_replace_rows :
  forall sch f a t t' fd, aligned t = true -> nth_error sch f = Some fd -> arg_good (snd fd) a ->
    m_replace sch f a t = Some t' ->
    aligned t' = true
    /\ (m_len t' = m_len t ->
        s_replace f (map erase (arg_cells a)) (erase_rows (m_to_rows t)) = Some (erase_rows (m_to_rows t'))).
Proof. exact replace_rows. Qed.
Print Assumptions C19_replace_rows.

(* T5 (dict flattening, names only): for a field name without '.', from_dict's split of a flattened key recovers
   (field, sub-field), and the sub-dictionary it builds for the nested field is exactly what todict emitted *)
Theorem C19_dict_names :
  forall name, ~ In dot name ->
    (forall sub, split_dot (name ++ [dot] ++ sub) = (name, Some sub))
    /\ split_dot name = (name, None)
    /\ forall entries : list (list Z * dval),
         sub_dict name (map (fun q => (name ++ [dot] ++ fst q, snd q)) entries) = entries.
Proof.
  exact (fun name H => conj (fun sub => split_dot_join name sub H)
                            (conj (split_dot_nodot name H) (fun entries => sub_dict_of_todict name entries H))).
Qed.
Print Assumptions C19_dict_names.

(* Source tie: the decision rules regenerated from /repo on this run (Gen/C19.v, by translate/gen_c19.py from
   bnpdataclass.py and string_array.py) are the rules Model/C19.v names — from_entry_tuples (zip( *tuples), empty()
   for zero columns), the sort_by key representation and kind='stable', the ORDER of the type tests of the implicit
   conversion and the conversion each branch applies, the empty-column dtype rule, the one-symbol check of flat
   encodings, the nested-table row conversion, add_fields' name check and empty-column rule, the dotted-name join and
   split of todict/from_dict, and StringArray's lengths / padding side / width from an encoded array. *)
Theorem C19_source_tie :
  gen_from_rows_transposes = m_from_rows_transposes
  /\ gen_from_rows_empty_rule = m_from_rows_empty_rule
  /\ (forall is_era is_sa, gen_sort_key_rule is_era is_sa = m_sort_key_rule fix4_sort_strings is_era is_sa)
  /\ gen_sort_stable = m_sort_stable
  /\ gen_dispatch = m_dispatch
  /\ (forall a b c d, gen_empty_dtype_rule a b c d = m_empty_dtype_rule fix5_empty_dtype a b c d)
  /\ (forall a b c d e f g, gen_int_magnitude_rule a b c d e f g = m_int_magnitude_rule fix8_int_magnitude a b c d e f g)
  /\ (forall a b c, gen_flat_check_raises a b c = m_flat_check_raises fix6_flat_cells a b c)
  /\ gen_nested_converts_rows = m_nested_converts_rows
  /\ (forall a, gen_add_name_raises a = m_add_name_raises a)
  /\ gen_add_empty_typed_raises = m_add_empty_typed_raises
  /\ (forall name sub, gen_dict_join name sub = m_dict_join name sub)
  /\ gen_dict_split = m_dict_split
  /\ (forall row, gen_sa_length row = m_sa_length row)
  /\ gen_sa_pads_right = m_sa_pads_right
  /\ (forall a w, gen_sa_width_from_encoded a w = m_sa_width_from_encoded a w).
Proof.
  exact (conj b_from_rows_transposes (conj b_from_rows_empty_rule (conj b_sort_key_rule (conj b_sort_stable
        (conj b_dispatch (conj b_empty_dtype_rule (conj b_int_magnitude_rule (conj b_flat_check_raises (conj b_nested_converts_rows
        (conj b_add_name_raises (conj b_add_empty_typed_raises (conj b_dict_join (conj b_dict_split
        (conj b_sa_length (conj b_sa_pads_right b_sa_width_from_encoded))))))))))))))).
Qed.
Print Assumptions C19_source_tie.
(* ... and the model functions the theorems above are about follow those named rules *)
Theorem C19_model_follows_rules :
  (forall sch r rows,
      m_from_rows sch [] = (if m_from_rows_empty_rule then m_empty fix5_empty_dtype sch else None)
      /\ m_from_rows sch (r :: rows)
         = (if has_nested sch && negb m_nested_converts_rows then None else m_from_rows_nonempty sch (r :: rows)))
  /\ (forall fx4 f t b, nth_error t f = Some (CBase b) -> sort_key_pinned (CBase b) = None ->
        if m_sort_key_rule fx4 (is_era b) (is_sa b) =? 0 then m_sort_by_gen fx4 f t = None
        else exists ks, str_keys b = Some ks /\ m_sort_by_gen fx4 f t = Some (m_select (argsort_by lex_leb [] ks) t))
  /\ (forall fx5 fx6 k l c, bcol_of_cells_gen fx5 fx6 k l = Some c ->
        first_action m_dispatch (kind_test k) = Some (bcol_action c))
  /\ (forall fx5 k, kind_test k = "numeric"%string ->
        num_dt fx5 k [] = dt_of_rule (m_empty_dtype_rule fx5 true true (kind_int_or_bool k) (kind_bool k)))
  /\ (forall k q qs, is_int_kind k = true ->
        let vs := map (fun z => z / 4) (q :: qs) in
        forallb fits_i64 vs = false -> forallb (fun v => (2 ^ 63 <=? v) && (v <? 2 ^ 64)) vs = false ->
        int_list_col true k (q :: qs)
        = if m_int_magnitude_rule true true true true true true (forallb (fun v => 0 <=? v) vs) (forallb (fun v => v <? 2 ^ 64) vs) =? 1
          then Some (ColNum DI (q :: qs)) else None)
  /\ (forall fx5 fx6 ss,
        m_flat_check_raises fx6 true true (negb (forallb (fun s => Nat.eqb (length s) 1) ss)) = true ->
        bcol_of_cells_gen fx5 fx6 KStrand (map MS ss) = None)
  /\ (forall fx3 k t, negb fx3 = true -> m_add_gen fx3 k [] t = None)
  /\ (forall name sub, ~ In dot name -> split_dot (m_dict_join name sub) = (name, Some sub))
  /\ (forall w s, Forall (fun c => c <> 0) s -> len s <= w ->
        m_sa_length (pad w s) = len s /\ m_sa_length (pad w s) = len (strip_nul (pad w s))).
Proof.
  exact (conj from_rows_follows_rules (conj sort_follows_key_rule (conj conversion_follows_dispatch
        (conj empty_dtype_follows_rule (conj int_list_follows_magnitude_rule (conj flat_check_follows_rule (conj add_follows_empty_rule
        (conj dict_split_inverts_join sa_length_of_padded)))))))).
Qed.
Print Assumptions C19_model_follows_rules.

(* ====================================================================== phase 3: whole programs
   Inv sch t      : t is a stored table of schema sch — every column has the representation of its declared kind
                    (Proofs/C19_prog.v: bcol_typed — ragged lengths consume the data, StringArray rows are NUL-padded
                    ASCII strings of the dtype width, codes lie in the alphabet, int64/bool values are integers below
                    2^53) — and all columns have one length.
   arg_nice f a   : a constructor argument holds acceptable values for field f (mb_ok) with ints below 2^53.
   names_ok sch   : field names are pairwise different and contain no '.', sub-field names are pairwise different.
   op_good        : concatenation with the other operand needs equal schemas; replace / add_fields need arg_nice
                    arguments; the dict and pandas round trips need names_ok.  Nothing is asked of index lists, masks,
                    slices, sort columns, lengths of replacement columns: those cases are covered, errors included.
   sres_ok want m : the model's step result m is what the specification's s_step demands: a table with exactly the
                    demanded rows (for sort_by: exactly the STABLE sort), rows only, or an error exactly where an
                    error is demanded. *)

(* T2 for every operation at once, one step: for any stored tables and any operation of the property's list the
   columnar model does what the list-of-rows specification demands, and its result is again a stored table *)
Theorem C19_step_refines :
  forall sch sch1 cur t1 o, Inv sch cur -> Inv sch1 t1 -> op_good sch sch1 o ->
    sres_ok (s_step sch (E cur) (E t1) o) (m_step sch cur t1 o)
    /\ match m_step sch cur t1 o with MTab sch' t' => Inv sch' t' | _ => True end.
Proof. exact step_refines. Qed.
Print Assumptions C19_step_refines.

(* ... and over every finite program (induction over the operation list, the invariant carried along) *)
Theorem C19_program_refines :
  forall p sch sch1 cur t1, Inv sch cur -> Inv sch1 t1 -> run_good sch sch1 cur t1 p -> run_refines sch cur t1 p.
Proof. exact program_refines. Qed.
Print Assumptions C19_program_refines.

(* construction converts each column to its declared type or raises: acceptable arguments of one length give a
   stored table whose rows are the argument rows; acceptable arguments of different lengths raise *)
Theorem C19_construct :
  forall sch args, sch <> [] -> args_nice sch args ->
    let same := forallb (fun a => Nat.eqb (length (arg_cells a)) (length (arg_cells (hd (ABase []) args)))) args in
    match m_construct sch args with
    | Some t => Inv sch t /\ same = true /\ E t = erase_rows (zip_rows (map arg_cells args))
    | None => same = false
    end.
Proof. exact construct_refines. Qed.
Print Assumptions C19_construct.

(* T4, all sortable kinds (numbers, bools, strand symbols, strings, identifiers, encoded strings), repaired code:
   sort_by never raises and its rows are exactly the specification's stable sort *)
Theorem C19_sort_by_stable :
  forall sch f t name k, Inv sch t -> nth_error sch f = Some (name, FB k) -> k <> KList ->
    exists t', m_sort_by_gen true f t = Some t' /\ Inv sch t'
      /\ erase_rows (m_to_rows t') = s_sort_by f (erase_rows (m_to_rows t)).
Proof. exact sort_step. Qed.
Print Assumptions C19_sort_by_stable.

(* concatenation of two stored tables of one schema never raises (and C19_concat_rows_partial gives its rows) *)
Theorem C19_concat_total :
  forall sch a b, Inv sch a -> Inv sch b -> exists t, m_cat a b = Some t /\ Inv sch t.
Proof. exact cat_total. Qed.
Print Assumptions C19_concat_total.

(* T3 on stored tables: from_entry_tuples(t.tolist()) gives the rows of t again, for every stored table with at
   least one row (zero rows: C19_step_refines, operation ORows, through cls.empty()) *)
Theorem C19_rows_roundtrip_stored :
  forall sch t, Inv sch t -> (0 < m_len t)%nat ->
    exists t', m_from_rows_nonempty sch (m_to_rows t) = Some t' /\ Inv sch t'
      /\ erase_rows (m_to_rows t') = erase_rows (m_to_rows t) /\ m_to_rows t <> [].
Proof. exact rebuild_from_rows. Qed.
Print Assumptions C19_rows_roundtrip_stored.

(* T5, value level: from_dict(todict t) has the rows of t — every column kind, nested tables through their dotted
   keys.  The pandas round trip is the same theorem under the modelling assumption that
   DataFrame(d).to_dict('series') returns d's keys with the same column values (ASSUMPTIONS in the evidence). *)
Theorem C19_dict_roundtrip :
  forall sch t, Inv sch t -> names_ok sch ->
    exists t', m_from_dict sch (m_todict sch t) = Some t' /\ Inv sch t'
      /\ erase_rows (m_to_rows t') = erase_rows (m_to_rows t).
Proof. exact dict_roundtrip. Qed.
Print Assumptions C19_dict_roundtrip.

(* replace and add_fields, exact: with an acceptable argument the result has the demanded rows when the length fits
   (or the table has that single field), and raises exactly when the length does not fit *)
Theorem C19_replace_exact :
  forall sch f a t fd, Inv sch t -> nth_error sch f = Some fd -> arg_nice (snd fd) a ->
    match m_replace sch f a t with
    | Some t' => Inv sch t' /\ replace_want sch f a (E t) = STab (E t')
    | None => replace_want sch f a (E t) = SErr
    end.
Proof. exact replace_step. Qed.
Print Assumptions C19_replace_exact.
Theorem C19_add_exact :
  forall sch name k l t, Inv sch t -> Forall (mb_nice k) l ->
    match m_add_gen true k l t with
    | Some t' => Inv (sch ++ [(name, FB k)]) t' /\ s_add (map (fun b => CB (erase_b b)) l) (E t) = Some (E t')
    | None => s_add (map (fun b => CB (erase_b b)) l) (E t) = None
    end.
Proof. exact add_step. Qed.
Print Assumptions C19_add_exact.

(* the link between the two verdicts of the correspondence: on the guarded class of cases (acceptable constructor
   arguments, op_good operations) an implementation that agrees with the columnar model satisfies the property as
   judged against the list-of-rows specification *)
Theorem C19_model_ok_implies_spec_ok :
  forall c, case_good c -> model_ok c = true -> spec_ok c = true.
Proof. exact model_ok_spec_ok. Qed.
Print Assumptions C19_model_ok_implies_spec_ok.

(* "the operands are unchanged": the model is functional — no operation can alter cur or t1, m_step returns new
   values — so the statement is about the observations: agreement with the model includes that the operands and
   every intermediate table, re-observed after the whole program, still show the same columns and rows *)
Theorem C19_operands_unchanged :
  forall c, model_ok c = true ->
    same_rows (k_t0 c) (k_t0_after c) = true /\ same_rows (k_t1 c) (k_t1_after c) = true /\ k_unchanged c = true.
Proof. exact operands_unchanged. Qed.
Print Assumptions C19_operands_unchanged.

(* non-vacuity: a 3-row table with an identifier (width 4), a ragged int-list, an int and a nested column; reversing
   it, masking it and concatenating it with a table whose identifier column is wider give the expected rows *)
Theorem C19_nonvacuous :
  aligned ex_t = true /\ Forall col_wf ex_t /\ Forall col_wf ex_u
  /\ m_to_rows (m_select [2%nat; 0%nat] ex_t) = sel [2%nat; 0%nat] (m_to_rows ex_t)
  /\ (exists t, m_cat ex_t ex_u = Some t /\ length (m_to_rows t) = 4%nat
        /\ nth 0 t (CNest []) = CBase (ColPad 6 [unhex "616200000000"%string; unhex "630000000000"%string; unhex "646566670000"%string; unhex "787878787878"%string]))
  /\ (exists t', m_sort_by_gen false 2 ex_t = Some t'
        /\ map (rowkey 2) (m_to_rows t') = [12; 16; 20]).
Proof. exact nonvacuous1. Qed.
Print Assumptions C19_nonvacuous.

(* non-vacuity of the phase-3 hypotheses (Proofs/C19_example.v): a schema with identifier, int, strand and nested-table
   fields, two operand tables built from acceptable arguments (Inv by C19_construct), and a 16-step program using
   every kind of operation — erroneous ones included: a replacement column of the wrong length, indices out of
   range — that meets run_good; exp_trace lists the model's row counts (100+n: rows only, -1: error) per step *)
Theorem C19_program_nonvacuous :
  m_construct exp_sch exp_a0 = Some exp_t0 /\ m_construct exp_sch exp_a1 = Some exp_t1
  /\ args_nice exp_sch exp_a0 /\ args_nice exp_sch exp_a1
  /\ Inv exp_sch exp_t0 /\ Inv exp_sch exp_t1 /\ run_good exp_sch exp_sch exp_t0 exp_t1 exp_prog
  /\ exp_trace = [3; 3; 3; 3; 3; 3; 2; 2; 2; -1; 101; -1; -1; 4; 4; 104].
Proof. exact program_nonvacuous. Qed.
Print Assumptions C19_program_nonvacuous.

(* ====================================================================== round 6: the shape a sequence argument is handed over in
   from_entry_tuples is declared Iterable[tuple].  itkind names the shapes (re-iterable: list, tuple, deque, an object
   with only __iter__, a dict view, rows as lists; one-shot: generator, iter(), zip of the columns, map, chain, an
   object with only __next__); it_yield pre one_shot rows is what the (pre+1)-th traversal yields; the operation
   ORows how of a program is from_entry_tuples(<cur.tolist() handed over as how>). *)

(* the source tie of this route: the body mentions its argument once, i.e. no traversal before zip( *tuples) *)
Theorem C19_from_rows_argument_uses_tie :
  gen_from_rows_argument_uses = m_from_rows_argument_uses
  /\ m_from_rows_pre_traversals = Z.to_nat (gen_from_rows_argument_uses - 1) /\ m_from_rows_pre_traversals = 0%nat.
Proof. exact (conj b_from_rows_argument_uses b_from_rows_no_pre_traversal). Qed.
Print Assumptions C19_from_rows_argument_uses_tie.

(* the table built does not depend on the shape: for every schema, every shape and every list of rows (any length),
   the code that exists builds from a generator / iterator / zip / map exactly what it builds from the list *)
Theorem C19_from_rows_any_iterable :
  forall sch how rows, m_from_rows_via m_from_rows_pre_traversals sch how rows = m_from_rows sch rows.
Proof. exact from_rows_any_iterable. Qed.
Print Assumptions C19_from_rows_any_iterable.

(* building a table from rows and converting it to rows are inverse — for every stored table (0..N rows, every column
   kind, nested tables) and EVERY hand-over shape: the result is a stored table of the same schema with exactly the
   rows of the operand *)
Theorem C19_rows_roundtrip_any_iterable :
  forall sch sch1 cur t1 how, Inv sch cur -> Inv sch1 t1 ->
    exists t', m_step sch cur t1 (ORows how) = MTab sch t' /\ Inv sch t' /\ E t' = E cur.
Proof. exact rows_step_any_iterable. Qed.
Print Assumptions C19_rows_roundtrip_any_iterable.

(* why the library's tests (lists everywhere) cannot see a change of the traversal count, and what such a change does:
   a re-iterable argument is immune to any number of earlier traversals; a one-shot argument after ONE earlier
   traversal yields the table of zero rows, whatever rows it held *)
Theorem C19_from_rows_reiterable_any_traversals :
  forall pre sch how rows, it_one_shot how = false -> m_from_rows_via pre sch how rows = m_from_rows sch rows.
Proof. exact from_rows_reiterable_any_pre. Qed.
Print Assumptions C19_from_rows_reiterable_any_traversals.
Theorem C19_from_rows_one_shot_pretraversal_loses_rows :
  forall pre sch how rows, (0 < pre)%nat -> it_one_shot how = true ->
    m_from_rows_via pre sch how rows = m_from_rows sch [].
Proof. exact from_rows_one_shot_pre. Qed.
Print Assumptions C19_from_rows_one_shot_pretraversal_loses_rows.
Theorem C19_from_rows_iterable_nonvacuous :
  option_map m_len (m_from_rows_via 1 it_sch ItGen it_rows) = Some 0%nat
  /\ option_map m_len (m_from_rows_via 1 it_sch ItList it_rows) = Some 2%nat
  /\ option_map m_len (m_from_rows_via m_from_rows_pre_traversals it_sch ItGen it_rows) = Some 2%nat
  /\ option_map m_to_rows (m_from_rows_via m_from_rows_pre_traversals it_sch ItGen it_rows) = Some it_rows.
Proof. exact from_rows_pretraversal_example. Qed.
Print Assumptions C19_from_rows_iterable_nonvacuous.

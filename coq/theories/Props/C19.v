(* Props/C19.v — the property theorems for C19 (tables of entries behave like column-aligned records).
   Only statements, `exact <lemma>` and Print Assumptions live here.
   Spec  = list of rows (Model/C19.v, first part);  Model = list of typed columns as bionumpy stores them.
   Guards used below are defined in Proofs/C19.v:
     int_ok z      : z is an integer (multiple of 4 quarter units) with |z| < 2^53
     bcol_wf/col_wf: stored column is well formed (ragged lengths consume the data exactly, StringArray rows have
                     the dtype width, int64 values satisfy int_ok)
     mb_small      : python ints handed to a constructor satisfy int_ok *)
From Coq Require Import String ZArith List Bool Permutation.
From BNP Require Import Base.Prims Model.C19 Proofs.C19.
Import ListNotations.
Open Scope Z_scope.

(* T1: every table any program of the listed operations produces has all columns of equal length — for every
   program, schema and pair of aligned operands (whatever the fix switches are set to). *)
Theorem C19_aligned_program :
  forall p sch cur t1, aligned cur = true -> aligned t1 = true ->
    Forall (fun r => match r with MTab _ t => aligned t = true | _ => True end) (m_run sch cur t1 p).
Proof. exact m_run_aligned. Qed.
Print Assumptions C19_aligned_program.

(* T2 (selection): selecting positions column by column — numeric, ragged, NUL-padded string, flat encoded and
   nested-table columns alike — yields exactly the selected rows, for every index list. *)
Theorem C19_select_rows :
  forall ix t, aligned t = true ->
    aligned (m_select ix t) = true /\ m_to_rows (m_select ix t) = sel ix (m_to_rows t).
Proof. intros ix t H. split; [exact (aligned_select ix t H)|exact (m_to_rows_select ix t H)]. Qed.
Print Assumptions C19_select_rows.

(* T2 (integer-array index): same rows as walking the index list over the list of rows (negative indices count
   from the end), and an error exactly when some index is out of range. *)
Theorem C19_take :
  forall ix t, aligned t = true ->
    match take_indices (Z.of_nat (m_len t)) ix with
    | Some k => s_take (m_to_rows t) ix = Some (m_to_rows (m_select k t))
    | None => s_take (m_to_rows t) ix = None
    end.
Proof. exact take_refines. Qed.
Print Assumptions C19_take.

(* T2 (boolean mask) *)
Theorem C19_mask :
  forall m t, aligned t = true ->
    match mask_indices (m_len t) m with
    | Some k => s_mask (m_to_rows t) m = Some (m_to_rows (m_select k t))
    | None => s_mask (m_to_rows t) m = None
    end.
Proof. exact mask_refines. Qed.
Print Assumptions C19_mask.

(* T2 (slice with any non-zero step), and a slice never raises *)
Theorem C19_slice :
  forall a b st t, aligned t = true -> st <> 0 ->
    match take_indices (Z.of_nat (m_len t)) (slice_indices (Z.of_nat (m_len t)) a b st) with
    | Some k => s_slice (m_to_rows t) a b st = Some (m_to_rows (m_select k t))
    | None => s_slice (m_to_rows t) a b st = None
    end.
Proof. exact slice_refines. Qed.
Print Assumptions C19_slice.
Theorem C19_slice_never_raises :
  forall a b st t, take_indices (Z.of_nat (m_len t)) (slice_indices (Z.of_nat (m_len t)) a b st) <> None.
Proof. exact slice_never_raises. Qed.
Print Assumptions C19_slice_never_raises.

(* T2 (concatenation), _partial: the rows of np.concatenate([a, b]) are the rows of a followed by the rows of b,
   including StringArray columns of different widths and dtype promotion, provided int64 values are below 2^53. *)
Theorem C19_concat_rows_partial :
  forall a b t, m_cat a b = Some t -> aligned a = true -> aligned b = true -> Forall col_wf a -> Forall col_wf b ->
    aligned t = true /\ erase_rows (m_to_rows t) = erase_rows (m_to_rows a) ++ erase_rows (m_to_rows b).
Proof. exact cat_rows_partial. Qed.
Print Assumptions C19_concat_rows_partial.
(* ... and without that guard the statement is false of the code as it is (int column next to a float64 one,
   e.g. the empty column the constructor makes from []): 2^53+1 comes back as 2^53. *)
Theorem C19_concat_rows_refuted :
  exists a b t, m_cat a b = Some t /\ aligned a = true /\ aligned b = true
    /\ erase_rows (m_to_rows t) <> erase_rows (m_to_rows a) ++ erase_rows (m_to_rows b).
Proof. exact cat_rows_refuted. Qed.
Print Assumptions C19_concat_rows_refuted.

(* T4: the specification's sort_by is a permutation, ordered by the key, and stable *)
Theorem C19_sort_spec :
  forall (key : row -> Z) (rs : table),
    let srt := isort_by (fun a b => key a <=? key b) rs in
    Permutation srt rs
    /\ sorted_b (fun a b => key a <=? key b) srt = true
    /\ forall k, filter (fun r => key r =? k) srt = filter (fun r => key r =? k) rs.
Proof. exact (@sort_spec row). Qed.
Print Assumptions C19_sort_spec.
(* T4/T2: sort_by on a numeric column (self[np.argsort(column)]) is that stable sort of the rows *)
Theorem C19_sort_by_model :
  forall f d v t, aligned t = true -> nth_error t f = Some (CBase (ColNum d v)) ->
    exists t', m_sort_by_gen false f t = Some t' /\ aligned t' = true
      /\ m_to_rows t' = isort_by (fun a b => rowkey f a <=? rowkey f b) (m_to_rows t).
Proof. exact sort_by_refines. Qed.
Print Assumptions C19_sort_by_model.

(* T5: StringArray — the strings of a NUL-padded fixed-width matrix built from NUL-free strings are those strings *)
Theorem C19_string_array_pad :
  forall ss, Forall (Forall (fun c => c <> 0)) ss -> bcol_cells (pad_all ss) = map MS ss.
Proof. exact pad_all_cells. Qed.
Print Assumptions C19_string_array_pad.

(* T3 (per column): converting a python list by its declared field type keeps every value (strings, identifiers,
   encoded strings, int lists, numbers), for acceptable values with ints below 2^53 *)
Theorem C19_column_roundtrip :
  forall fx5 k l c,
    bcol_of_cells_gen fx5 k l = Some c -> Forall (fun b => mb_ok k b = true) l -> Forall mb_small l ->
    map erase_b (bcol_cells c) = map erase_b l /\ bcol_len c = length l.
Proof. exact column_roundtrip. Qed.
Print Assumptions C19_column_roundtrip.
(* T3 (rows <-> columns): zip( *zip( *rows)) = rows for a non-empty rectangular list of non-empty rows *)
Theorem C19_transpose_involutive :
  forall (M : list (list mcell)) k, M <> [] -> (0 < k)%nat -> Forall (fun r => length r = k) M ->
    zip_rows (zip_rows M) = M.
Proof. exact (@zip_rows_involutive mcell). Qed.
Print Assumptions C19_transpose_involutive.

(* non-vacuity: a 3-row table with an identifier (width 4), a ragged int-list, an int and a nested column; reversing
   it, masking it and concatenating it with a table whose identifier column is wider give the expected rows *)
Definition ex_t : ctable :=
  [CBase (ColPad 4 [unhex "61620000"%string; unhex "63000000"%string; unhex "64656667"%string]);
   CBase (ColRag (RNum DI) [4; 8; 12] [2; 0; 1]);
   CBase (ColNum DI [20; 12; 16]);
   CNest [ColNum DI [4; 8; 12]; ColRag RStr [113; 114; 115] [1; 0; 2]]].
Definition ex_u : ctable :=
  [CBase (ColPad 6 [unhex "787878787878"%string]); CBase (ColRag (RNum DF) [] [0]); CBase (ColNum DI [4]);
   CNest [ColNum DI [28]; ColRag RStr [] [0]]].
Example C19_nonvacuous :
  aligned ex_t = true /\ Forall col_wf ex_t /\ Forall col_wf ex_u
  /\ m_to_rows (m_select [2%nat; 0%nat] ex_t) = sel [2%nat; 0%nat] (m_to_rows ex_t)
  /\ (exists t, m_cat ex_t ex_u = Some t /\ length (m_to_rows t) = 4%nat
        /\ nth 0 t (CNest []) = CBase (ColPad 6 [unhex "616200000000"%string; unhex "630000000000"%string; unhex "646566670000"%string; unhex "787878787878"%string]))
  /\ (exists t', m_sort_by_gen false 2 ex_t = Some t'
        /\ map (rowkey 2) (m_to_rows t') = [12; 16; 20]).
Proof.
  split; [reflexivity|]. split.
  { repeat constructor; vm_compute; try reflexivity; repeat constructor; intros H; discriminate H. }
  split.
  { repeat constructor; vm_compute; try reflexivity; repeat constructor; intros H; discriminate H. }
  split; [vm_compute; reflexivity|]. split.
  - eexists. split; [vm_compute; reflexivity|]. split; vm_compute; reflexivity.
  - eexists. split; [vm_compute; reflexivity|]. vm_compute. reflexivity.
Qed.

(* Props/C03.v — the property theorems for C03. *)
From Coq Require Import ZArith List Bool String.
From BNP Require Import Base.Prims Model.C03 Proofs.C03.
Import ListNotations.
Open Scope Z_scope.

Theorem C03_serialise_app : forall f a b, serialise f (a ++ b) = serialise f a ++ serialise f b.
Proof. exact serialise_app. Qed.
Print Assumptions C03_serialise_app.

(* Props/C03.v — the property theorems for C03 (write then read returns the same table; writing is
   canonical and composable).  Only statements, `exact <lemma>` and Print Assumptions live here.
   "as it is" = the model of the code in /repo (its, run_hist, parse_file); "repaired" = the one-line
   switches named in Model/C03.v (its_fixed, run_hist_fixed). *)
From Coq Require Import ZArith List Bool String.
From BNP Require Import Base.Prims Model.C03 Corr.C03.
From BNP Require Import Proofs.C03 Proofs.C03_int Proofs.C03_scatter Proofs.C03_fasta Proofs.C03_sam Proofs.C03_read Proofs.C03_main.
From BNP Require Import Gen.C03 Bridge.C03.
Import ListNotations.
Open Scope Z_scope.

(* ---- integers ---- *)
(* the canonical numeral of every integer reads back as that integer *)
Theorem C03_int_text_roundtrip : forall n : Z, parse_int (dec n) = Some n.
Proof. exact parse_int_dec. Qed.
Print Assumptions C03_int_text_roundtrip.

(* ints_to_strings (digit matrix over a power array, '-' stored over position 0) prints the canonical
   numeral — code as it is: for |n| < 10^15 - 2 *)
Theorem C03_int_text_partial : forall n : Z, Z.abs n < 10 ^ 15 - 2 -> its_pinned n = dec n.
Proof. exact its_pinned_dec_small. Qed.
Print Assumptions C03_int_text_partial.

(* ... and not beyond: float log10 gives one digit too many just below 10^15, and |-2^63| wraps *)
Theorem C03_int_text_refuted : exists n : Z, - 2 ^ 63 <= n < 2 ^ 63 /\ its_pinned n <> dec n.
Proof. exists (10 ^ 15 - 1). split; [vm_compute; split; [discriminate|reflexivity]|exact its_leading_zero]. Qed.
Print Assumptions C03_int_text_refuted.
Theorem C03_int_min_refuted : its_pinned (- 2 ^ 63) = [45; 50].
Proof. exact (proj1 its_int64_min). Qed.
Print Assumptions C03_int_min_refuted.

(* repaired width (exact digit count, true |n|): every integer *)
Theorem C03_int_text_fixed : forall n : Z, its_fixed n = dec n.
Proof. exact its_fixed_dec. Qed.
Print Assumptions C03_int_text_fixed.

(* the code at /repo HEAD (since 70440c1 the switch [its] selects the repaired printer): every cell of every
   column type is written as its canonical text — no size guard *)
Theorem C03_cell_text_current : forall f : fld, col_text f = print_fld f.
Proof. exact col_text_fixed_print. Qed.
Print Assumptions C03_cell_text_current.

(* ---- T1: the strided scatter of dump_csv.join_columns is the tab/newline layout — every table of n >= 1
   columns, any number of rows (0 included), any cell lengths (0 included) ---- *)
Theorem C03_join_columns_canonical :
  forall (n : nat) (rows : list (list (list Z))),
    (1 <= n)%nat -> Forall (fun r => List.length r = n) rows ->
    join_columns (columns n rows) (List.length rows) = List.concat (map (fun r => intercalate [9] r ++ [10]) rows).
Proof. exact join_columns_rows. Qed.
Print Assumptions C03_join_columns_canonical.

(* FastQBuffer.join_fields: '@' name LF sequence LF '+' LF qualities LF for every record *)
Theorem C03_fastq_layout :
  forall rows : list (list (list Z)),
    Forall (fun r => exists nm s q, r = [nm; s; [43]; q]) rows ->
    List.concat (map (set_last 10) (map_stride (set_first 64) 0 4 (scatter [1%nat; O; O; O] (columns 4 rows) (List.length rows))))
    = List.concat (map (fun r => [64] ++ nth 0 r [] ++ [10] ++ nth 1 r [] ++ [10; 43; 10] ++ nth 3 r [] ++ [10]) rows).
Proof. exact fastq_join_rows. Qed.
Print Assumptions C03_fastq_layout.

(* ---- T2: MultiLineFastaBuffer.from_data, every width w >= 1 and every table of non-empty sequences:
   header line, then the sequence in lines of w (last line (L-1) mod w + 1 characters) ---- *)
Theorem C03_fasta_partial :
  forall (w : Z) (es : list (list Z * list Z)),
    1 <= w -> Forall (fun e => snd e <> []) es ->
    fasta_from_data_pinned w es = Some (List.concat (map (fun e => [62] ++ fst e ++ [10] ++ wrap w (snd e)) es)).
Proof. exact fasta_layout_all. Qed.
Print Assumptions C03_fasta_partial.
(* the repaired from_data (last-line length stored only for entries that have lines): full strength —
   every width w >= 1 and EVERY table; an empty sequence is written as a bare header line *)
Theorem C03_fasta_fixed :
  forall (w : Z) (es : list (list Z * list Z)),
    1 <= w ->
    fasta_from_data_fixed w es = Some (List.concat (map (fun e => [62] ++ fst e ++ [10] ++ wrap w (snd e)) es)).
Proof. exact fasta_fixed_layout_all. Qed.
Print Assumptions C03_fasta_fixed.

(* an empty sequence trips the shape assertion: (0-1)//w + 1 = 0 lines *)
Theorem C03_fasta_refuted : exists (w : Z) (es : list (list Z * list Z)), 1 <= w /\ fasta_from_data_pinned w es = None.
Proof. exists 80, [([97], [])]. split; [discriminate|exact fasta_empty_sequence_fails]. Qed.
Print Assumptions C03_fasta_refuted.

(* ---- one from_data call writes the canonical serialisation of its table (all formats) ---- *)
Theorem C03_from_data_canonical_partial :
  forall (f : fmt) (rows : list row), rows <> [] -> table_ok f rows -> from_data f rows = (0, serialise f rows).
Proof. exact from_data_canonical. Qed.
Print Assumptions C03_from_data_canonical_partial.

(* ---- T4: pieces = whole, header exactly once.  Any history (sessions x calls x stream chunks, empty
   pieces included) over tables in the domain above; code as it is: not a gzip target with a header that
   is appended to, and the first session must hand over some table outside an all-empty stream ---- *)
Theorem C03_write_pieces_partial :
  forall (f : fmt) (header : list Z) (gz : bool) (h : list session),
    hist_ok f h -> tail_appends h -> (header = [] \/ has_header f = true) ->
    (gz = false \/ header = []) ->
    match h with s :: _ => first_session_sees s | [] => True end ->
    run_hist_pinned f header gz h = (0, spec_file f header h).
Proof. exact write_history_partial. Qed.
Print Assumptions C03_write_pieces_partial.

Theorem C03_write_pieces_gzip_append_refuted :
  exists h, hist_ok Vcf h /\ tail_appends h /\ run_hist_pinned Vcf [35; 10] true h <> (0, spec_file Vcf [35; 10] h).
Proof. exact gzip_append_header_refuted. Qed.
Print Assumptions C03_write_pieces_gzip_append_refuted.
Theorem C03_write_pieces_empty_stream_refuted :
  exists h, hist_ok Vcf h /\ tail_appends h /\ run_hist_pinned Vcf [35; 10] false h <> (0, spec_file Vcf [35; 10] h).
Proof. exact stream_of_empty_chunks_refuted. Qed.
Print Assumptions C03_write_pieces_empty_stream_refuted.

(* repaired writer (append flag instead of file_obj.mode; empty stream chunks reach the header logic):
   every history, plain or gzip *)
Theorem C03_write_pieces_fixed_writer :
  forall (f : fmt) (header : list Z) (gz : bool) (h : list session),
    hist_ok f h -> tail_appends h -> (header = [] \/ has_header f = true) ->
    run_hist_fixed f header gz h = (0, spec_file f header h).
Proof. exact write_history_fixed_writer. Qed.
Print Assumptions C03_write_pieces_fixed_writer.

(* ---- T3: reading back.  The reference reader (parameterised by how float text is read: [pf]) returns the table
   from its canonical serialisation ---- *)
(* delimited formats: typed cells (text without TAB/LF, int, int list, float under pf), optionally followed by a
   rest-of-line text column that may contain TABs (SAM optional tags) *)
Theorem C03_parse_serialise_delim :
  forall (pf : list Z -> option (Z * Z)) (schema : list Z) (rows : list row),
    Forall (row_ok pf schema) rows -> parse_raw_with pf Delim schema (serialise Delim rows) = Some rows.
Proof. exact parse_serialise_delim_rows. Qed.
Print Assumptions C03_parse_serialise_delim.
(* the instance the correspondence uses *)
Theorem C03_parse_file_serialise_delim :
  forall (schema : list Z) (rows : list row),
    Forall (row_ok no_float_value schema) rows ->
    parse_file Delim schema (serialise Delim rows) = Some rows.
Proof. exact parse_file_serialise_delim. Qed.
Print Assumptions C03_parse_file_serialise_delim.
(* SAM, no optional tags: the canonical line (Spec [ser_sam], both write paths since /repo 81bde1f) is the SAM-standard
   one, without a TAB before the empty tags cell.  The READER also accepts the old eager spelling (12 columns, trailing
   TAB) and returns the same row *)
Theorem C03_sam_empty_tags_spellings :
  forall (pf : list Z -> option (Z * Z)) (ks : list Z) (fs : row), ks <> [] -> Forall2 (cell_ok pf) ks fs ->
    parse_line_with pf (ks ++ [5]) (line_of fs) = Some (fs ++ [FS []])
    /\ parse_line_with pf (ks ++ [5]) (line_of (fs ++ [FS []])) = Some (fs ++ [FS []]).
Proof. exact parse_line_empty_rest_spellings. Qed.
Print Assumptions C03_sam_empty_tags_spellings.
(* a whole file in the SAM-standard spelling (TAB before the tags only when there are tags) reads back as the table *)
Theorem C03_parse_sam_standard_spelling :
  forall (pf : list Z -> option (Z * Z)) (ks : list Z) (recs : list (row * list Z)),
    ks <> [] -> Forall (fun p => Forall2 (cell_ok pf) ks (fst p) /\ ~ In 10 (snd p)) recs ->
    parse_raw_with pf Delim (ks ++ [5]) (List.concat (map (fun p => sam_std_line (fst p) (snd p) ++ [10]) recs))
    = Some (map (fun p => fst p ++ [FS (snd p)]) recs).
Proof. exact parse_sam_std. Qed.
Print Assumptions C03_parse_sam_standard_spelling.
(* SAMBuffer.join_fields: join_columns, then the separator before every empty last cell is masked out through the
   cumulative cell ends — for every table of n >= 2 columns the result is the SAM-standard lines *)
Theorem C03_sam_join_fields_canonical :
  forall (n : nat) (rows : list (list (list Z))),
    (2 <= n)%nat -> Forall (fun r => List.length r = n) rows ->
    sam_join_fields (columns n rows) (List.length rows) = List.concat (map sam_text_line rows).
Proof. exact sam_join_fields_rows. Qed.
Print Assumptions C03_sam_join_fields_canonical.
(* SAM tables: typed cells + the tags cell; reader o canonical serialisation = id *)
Theorem C03_parse_serialise_sam :
  forall (pf : list Z -> option (Z * Z)) (ks : list Z) (rows : list row),
    ks <> [] -> Forall (sam_row_ok pf ks) rows ->
    parse_raw_with pf Sam (ks ++ [5]) (serialise Sam rows) = Some rows.
Proof. exact parse_serialise_sam. Qed.
Print Assumptions C03_parse_serialise_sam.
(* float columns: for ANY printer pr and reader pf of float text such that pf inverts pr (round-trip hypothesis,
   A-FLOAT: Python str(float) / the library's str_to_float) and pr emits no TAB/LF, tables whose float cells carry
   pr's text are read back unchanged *)
Theorem C03_parse_serialise_floats :
  forall (pr : Z -> Z -> list Z) (pf : list Z -> option (Z * Z)),
    (forall n d, pf (pr n d) = Some (n, d)) ->
    (forall n d, ~ In 9 (pr n d) /\ ~ In 10 (pr n d)) ->
    forall (schema : list Z) (rows : list row), schema <> [] ->
      Forall (Forall2 (cell_ok_printer pr pf) schema) rows ->
      parse_raw_with pf Delim schema (serialise Delim rows) = Some rows.
Proof. exact parse_serialise_floats. Qed.
Print Assumptions C03_parse_serialise_floats.
(* VCF: '#' header lines are skipped and POS, written +1, is read back -1 *)
Theorem C03_parse_serialise_vcf :
  forall (pf : list Z -> option (Z * Z)) (schema : list Z) (hls : list (list Z)) (rows : list row),
    Forall header_line_ok hls -> Forall (vcf_row_ok pf schema) rows ->
    parse_raw_with pf Vcf schema (header_of hls ++ serialise Vcf rows) = Some rows.
Proof. exact parse_serialise_vcf. Qed.
Print Assumptions C03_parse_serialise_vcf.
(* FASTA: every width, wrapped sequences are glued back; empty sequences included (reader as repaired in /repo) *)
Theorem C03_parse_serialise_fasta :
  forall (w : Z) (schema : list Z) (rows : list row), 1 <= w -> Forall fasta_row_ok rows ->
    parse_raw (Fasta w) schema (serialise (Fasta w) rows) = Some rows.
Proof. exact parse_serialise_fasta. Qed.
Print Assumptions C03_parse_serialise_fasta.
Theorem C03_parse_serialise_fastq :
  forall (schema : list Z) (rows : list row), Forall fastq_row_ok rows ->
    parse_raw Fastq schema (serialise Fastq rows) = Some rows.
Proof. exact parse_serialise_fastq. Qed.
Print Assumptions C03_parse_serialise_fastq.

(* ---- the writer at /repo HEAD, per format: pieces = whole, header exactly once (VCF), no guard ---- *)
Theorem C03_write_pieces_head :
  forall (f : fmt) (header : list Z) (gz : bool) (h : list session),
    hist_ok f h -> tail_appends h -> (header = [] \/ has_header f = true) ->
    run_hist f header gz h = (0, spec_file f header h).
Proof. exact write_history_head. Qed.
Print Assumptions C03_write_pieces_head.
Theorem C03_write_pieces_vcf :
  forall (hls : list (list Z)) (gz : bool) (h : list session), hist_ok Vcf h -> tail_appends h ->
    run_hist Vcf (header_of hls) gz h = (0, spec_header (header_of hls) h ++ serialise Vcf (rows_of_hist h)).
Proof. exact write_pieces_vcf. Qed.
Print Assumptions C03_write_pieces_vcf.
(* BED3/6/12, BedGraph, NarrowPeak, GTF, SAM written from memory carry no header: the file is the rows *)
Theorem C03_write_pieces_delim :
  forall (gz : bool) (h : list session), hist_ok Delim h -> tail_appends h ->
    run_hist Delim [] gz h = (0, serialise Delim (rows_of_hist h)).
Proof. exact write_pieces_delim. Qed.
Print Assumptions C03_write_pieces_delim.
Theorem C03_write_pieces_sam :
  forall (gz : bool) (h : list session), hist_ok Sam h -> tail_appends h ->
    run_hist Sam [] gz h = (0, serialise Sam (rows_of_hist h)).
Proof. exact write_pieces_sam. Qed.
Print Assumptions C03_write_pieces_sam.
Theorem C03_write_pieces_fasta :
  forall (w : Z) (gz : bool) (h : list session), hist_ok (Fasta w) h -> tail_appends h ->
    run_hist (Fasta w) [] gz h = (0, serialise (Fasta w) (rows_of_hist h)).
Proof. exact write_pieces_fasta. Qed.
Print Assumptions C03_write_pieces_fasta.
Theorem C03_write_pieces_fastq :
  forall (gz : bool) (h : list session), hist_ok Fastq h -> tail_appends h ->
    run_hist Fastq [] gz h = (0, serialise Fastq (rows_of_hist h)).
Proof. exact write_pieces_fastq. Qed.
Print Assumptions C03_write_pieces_fastq.

(* ---- write then read returns the same table: the reader on what the writer produced, any history ---- *)
Theorem C03_roundtrip_delim :
  forall pf (schema : list Z) (gz : bool) (h : list session),
    hist_ok Delim h -> tail_appends h -> Forall (row_ok pf schema) (rows_of_hist h) ->
    parse_raw_with pf Delim schema (snd (run_hist Delim [] gz h)) = Some (rows_of_hist h).
Proof. exact roundtrip_delim. Qed.
Print Assumptions C03_roundtrip_delim.
Theorem C03_roundtrip_sam :
  forall pf (ks : list Z) (gz : bool) (h : list session),
    ks <> [] -> hist_ok Sam h -> tail_appends h -> Forall (sam_row_ok pf ks) (rows_of_hist h) ->
    parse_raw_with pf Sam (ks ++ [5]) (snd (run_hist Sam [] gz h)) = Some (rows_of_hist h).
Proof. exact roundtrip_sam. Qed.
Print Assumptions C03_roundtrip_sam.
Theorem C03_roundtrip_vcf :
  forall pf (schema : list Z) (hls : list (list Z)) (gz : bool) (h : list session),
    hist_ok Vcf h -> tail_appends h -> Forall header_line_ok hls -> Forall (vcf_row_ok pf schema) (rows_of_hist h) ->
    parse_raw_with pf Vcf schema (snd (run_hist Vcf (header_of hls) gz h)) = Some (rows_of_hist h).
Proof. exact roundtrip_vcf. Qed.
Print Assumptions C03_roundtrip_vcf.
Theorem C03_roundtrip_fasta :
  forall (w : Z) (schema : list Z) (gz : bool) (h : list session),
    1 <= w -> hist_ok (Fasta w) h -> tail_appends h -> Forall fasta_row_ok (rows_of_hist h) ->
    parse_raw (Fasta w) schema (snd (run_hist (Fasta w) [] gz h)) = Some (rows_of_hist h).
Proof. exact roundtrip_fasta. Qed.
Print Assumptions C03_roundtrip_fasta.
Theorem C03_roundtrip_fastq :
  forall (schema : list Z) (gz : bool) (h : list session),
    hist_ok Fastq h -> tail_appends h -> Forall fastq_row_ok (rows_of_hist h) ->
    parse_raw Fastq schema (snd (run_hist Fastq [] gz h)) = Some (rows_of_hist h).
Proof. exact roundtrip_fastq. Qed.
Print Assumptions C03_roundtrip_fastq.

(* ---- VCF POS: the eager path (from_data) and the lazy path with a replaced POS column (process_field_for_write)
   write the same, canonical, bytes; the +1 of both is tied to the source by C03_source_tie ---- *)
Theorem C03_vcf_pos_paths_agree :
  (forall rows, from_data_lazy_pos rows = snd (from_data Vcf rows))
  /\ (forall rows, rows <> [] -> table_ok Vcf rows -> from_data_lazy_pos rows = serialise Vcf rows)
  /\ (forall p, gen_vcf_pos_eager p = gen_vcf_pos_lazy p /\ gen_vcf_pos_eager p = p + 1).
Proof.
  exact (conj vcf_pos_paths_agree (conj vcf_lazy_pos_canonical
         (fun p => conj (eq_trans (b_vcf_pos_eager p) (eq_sym (b_vcf_pos_lazy p))) (b_vcf_pos_eager p)))).
Qed.
Print Assumptions C03_vcf_pos_paths_agree.

(* ---- model agrees => property holds (byte half of spec_ok) ---- *)
Theorem C03_model_ok_written :
  forall c : case,
    hist_ok (k_fmt c) (k_hist c) -> tail_appends (k_hist c) ->
    (k_header c = [] \/ has_header (k_fmt c) = true) -> (k_gz c = false \/ k_header c = []) ->
    match k_hist c with s :: _ => first_session_sees s | [] => True end ->
    model_ok c = true ->
    k_err c = 0 /\ k_written c = spec_file (k_fmt c) (k_header c) (k_hist c).
Proof. exact model_ok_written. Qed.
Print Assumptions C03_model_ok_written.

(* the whole property on a case: agreement with the model implies spec_ok (bytes canonical, nothing raised, the
   table read back equal) whenever the reference reader returns the table from the canonical file — which the
   read-back theorems give per format (instances below; float-free tables, floats are compared to printing
   precision by spec_ok itself) *)
Theorem C03_model_ok_spec_ok :
  forall c : case,
    hist_ok (k_fmt c) (k_hist c) -> tail_appends (k_hist c) ->
    (k_header c = [] \/ has_header (k_fmt c) = true) ->
    parse_file (k_fmt c) (k_schema c) (spec_file (k_fmt c) (k_header c) (k_hist c)) = Some (rows_of_hist (k_hist c)) ->
    (k_alt_file c = [] \/ parse_file (k_fmt c) (k_schema c) (k_alt_file c) = Some (rows_of_hist (k_hist c))) ->
    forallb float_free_row (rows_of_hist (k_hist c)) = true ->
    model_ok c = true -> spec_ok c = true.
Proof. exact model_ok_spec_ok. Qed.
Print Assumptions C03_model_ok_spec_ok.
Theorem C03_model_ok_spec_ok_delim :
  forall c : case,
    k_fmt c = Delim -> k_header c = [] -> k_alt_file c = [] -> hist_ok Delim (k_hist c) -> tail_appends (k_hist c) ->
    Forall (row_ok no_float_value (k_schema c)) (rows_of_hist (k_hist c)) ->
    forallb float_free_row (rows_of_hist (k_hist c)) = true ->
    model_ok c = true -> spec_ok c = true.
Proof. exact model_ok_spec_ok_delim. Qed.
Print Assumptions C03_model_ok_spec_ok_delim.
(* SAM cases: k_alt_file holds the OLD eager spelling of the same table (harness-written), which must read back equal *)
Theorem C03_model_ok_spec_ok_sam :
  forall (c : case) (ks : list Z),
    k_fmt c = Sam -> k_header c = [] -> k_schema c = ks ++ [5] -> ks <> [] ->
    (k_alt_file c = [] \/ k_alt_file c = sam_old_spelling (rows_of_hist (k_hist c))) ->
    hist_ok Sam (k_hist c) -> tail_appends (k_hist c) ->
    Forall (sam_row_ok no_float_value ks) (rows_of_hist (k_hist c)) ->
    forallb float_free_row (rows_of_hist (k_hist c)) = true ->
    model_ok c = true -> spec_ok c = true.
Proof. exact model_ok_spec_ok_sam. Qed.
Print Assumptions C03_model_ok_spec_ok_sam.
Theorem C03_model_ok_spec_ok_vcf :
  forall (c : case) (hls : list (list Z)),
    k_fmt c = Vcf -> k_header c = header_of hls -> k_alt_file c = [] -> Forall header_line_ok hls ->
    hist_ok Vcf (k_hist c) -> tail_appends (k_hist c) ->
    Forall (vcf_row_ok no_float_value (k_schema c)) (rows_of_hist (k_hist c)) ->
    forallb float_free_row (rows_of_hist (k_hist c)) = true ->
    model_ok c = true -> spec_ok c = true.
Proof. exact model_ok_spec_ok_vcf. Qed.
Print Assumptions C03_model_ok_spec_ok_vcf.
Theorem C03_model_ok_spec_ok_fasta :
  forall (c : case) (w : Z),
    k_fmt c = Fasta w -> k_header c = [] -> k_alt_file c = [] -> 1 <= w -> hist_ok (Fasta w) (k_hist c) -> tail_appends (k_hist c) ->
    Forall fasta_row_ok (rows_of_hist (k_hist c)) -> model_ok c = true -> spec_ok c = true.
Proof. exact model_ok_spec_ok_fasta. Qed.
Print Assumptions C03_model_ok_spec_ok_fasta.
Theorem C03_model_ok_spec_ok_fastq :
  forall c : case,
    k_fmt c = Fastq -> k_header c = [] -> k_alt_file c = [] -> hist_ok Fastq (k_hist c) -> tail_appends (k_hist c) ->
    Forall fastq_row_ok (rows_of_hist (k_hist c)) -> model_ok c = true -> spec_ok c = true.
Proof. exact model_ok_spec_ok_fastq. Qed.
Print Assumptions C03_model_ok_spec_ok_fastq.

(* ---- Source tie: the formulas, constants, strides and conditions regenerated from /repo on this run (Gen/C03.v,
   written by translate/run.py through translate/gen_c03.py) are the ones the model — and therefore every theorem
   above — is built from: FASTA line arithmetic (multiline_buffer.from_data), the scatter of join_columns /
   join_fields, the FASTQ record constants, VCF POS+1 on both write paths, the writer's header condition, the
   stream loop and the append flag of files._get_buffered_file. ---- *)
Theorem C03_source_tie :
  (forall L w s c n l,
      gen_fasta_n_lines L w = m_fasta_n_lines L w /\ gen_fasta_last_length L w = m_fasta_last_length L w
      /\ gen_fasta_total s c = m_fasta_total s c /\ gen_fasta_fill w = m_fasta_fill w
      /\ gen_fasta_entry_step n = m_fasta_entry_step n /\ gen_fasta_first_start = m_fasta_first_start
      /\ gen_fasta_has_lines n = m_fasta_has_lines n
      /\ gen_fasta_last_index s = m_fasta_last_index s /\ gen_fasta_last_value l = m_fasta_last_value l
      /\ gen_fasta_hdr_index s = s /\ gen_fasta_hdr_value n = m_fasta_hdr_value n
      /\ gen_fasta_assign_order = m_fasta_last_before_header /\ gen_fasta_body_len l = m_fasta_body_len l)
  /\ (forall c i n (k : nat),
      gen_join_cell_len c = m_line_len c 0 /\ gen_join_stride_start i n = i /\ gen_join_stride_step i n = n
      /\ ((1 <= k)%nat -> gen_join_nl_start (Z.of_nat k) = Z.of_nat (m_join_nl_start k)) /\ gen_join_nl_step n = n
      /\ gen_join_newline = m_newline /\ gen_delimiter = m_sep)
  /\ (forall f o n,
      gen_olb_line_len f o = m_line_len f o /\ gen_olb_stride_step n = n /\ gen_olb_body_start o = o
      /\ gen_olb_hdr_row_start = 0 /\ gen_olb_hdr_col = 0 /\ gen_olb_newline = m_newline)
  /\ (gen_fastq_offsets = map Z.of_nat m_fastq_offsets /\ gen_fastq_n_lines = Z.of_nat m_fastq_n_lines
      /\ gen_fastq_header = m_fastq_header /\ gen_fastq_plus = m_fastq_plus
      /\ gen_fastq_plus_position = Z.of_nat m_fastq_plus_position
      /\ forall n s q, fastq_texts [n; s; q]
            = firstn (Z.to_nat gen_fastq_plus_position) [col_text n; col_text s; col_text q] ++ [[gen_fastq_plus]]
              ++ skipn (Z.to_nat gen_fastq_plus_position) [col_text n; col_text s; col_text q])
  /\ (forall p, gen_vcf_pos_eager p = p + m_vcf_pos_delta /\ gen_vcf_pos_lazy p = p + m_vcf_pos_delta)
  /\ gen_vcf_pos_field = "position"%string
  /\ (forall hh ab hw gz,
      gen_write_emits_header hh ab hw = m_emits_header hh ab hw /\ gen_stream_skips_empty = m_stream_skips_empty
      /\ gen_append_flag_a = mode_is_ab_fixed true gz /\ gen_append_flag_w = mode_is_ab_fixed false gz)
  /\ (forall (k : nat) n l c r,
      gen_sam_from_data_joins_fields = m_sam_eager_joins_fields
      /\ ((1 <= k)%nat -> gen_sam_tags_start (Z.of_nat k) = Z.of_nat (m_join_nl_start k)) /\ gen_sam_tags_step n = n
      /\ gen_sam_no_tags l = m_sam_no_tags l /\ gen_sam_cell_end c = m_sam_cell_end c
      /\ gen_sam_drop_index r n = m_sam_drop_index r n).
Proof.
  repeat split; intros;
    first [ apply b_fasta_n_lines | apply b_fasta_last_length | apply b_fasta_total | apply b_fasta_fill
          | apply b_fasta_entry_step | apply b_fasta_first_start | apply b_fasta_has_lines | apply b_fasta_last_index
          | apply b_fasta_last_value | apply b_fasta_hdr_index | apply b_fasta_hdr_value | apply b_fasta_assign_order
          | apply b_fasta_body_len | apply b_join_cell_len | apply b_join_stride_start | apply b_join_stride_step
          | apply b_join_nl_start; assumption | apply b_join_nl_step | apply b_join_newline | apply b_delimiter
          | apply b_olb_line_len | apply b_olb_stride_step | apply b_olb_body_start | apply b_olb_hdr_row_start
          | apply b_olb_hdr_col | apply b_olb_newline | apply b_fastq_offsets | apply b_fastq_n_lines
          | apply b_fastq_header | apply b_fastq_plus | apply b_fastq_plus_position | apply b_fastq_texts
          | apply b_vcf_pos_eager | apply b_vcf_pos_lazy | apply b_vcf_pos_field | apply b_write_emits_header
          | apply b_stream_skips_empty | apply b_append_flag_a | apply b_append_flag_w
          | apply b_sam_from_data | apply b_sam_tags_start; assumption | apply b_sam_tags_step | apply b_sam_no_tags
          | apply b_sam_cell_end | apply b_sam_drop_index ].
Qed.
Print Assumptions C03_source_tie.

(* ---- non-vacuity: concrete non-trivial inputs meeting the hypotheses, evaluated by the executable model ---- *)
Definition ex_r1 : row := [FS (unhex "63687231"); FI 0; FI 999999999999997; FL [1; 22; 333]].
Definition ex_r2 : row := [FS (unhex "78"); FI (-5); FI 1000; FL []].
Definition ex_hist : list session :=
  [ {| s_append := false; s_calls := [ {| c_stream := false; c_chunks := [[ex_r1]] |};
                                       {| c_stream := true; c_chunks := [[]; [ex_r2; ex_r1]; []] |} ] |};
    {| s_append := true; s_calls := [ {| c_stream := false; c_chunks := [[ex_r2]] |} ] |} ].
Example C03_nonvacuous_history :
  run_hist Delim [] false ex_hist = (0, spec_file Delim [] ex_hist)
  /\ parse_file Delim [6; 1; 1; 2] (spec_file Delim [] ex_hist) = Some (rows_of_hist ex_hist)
  /\ List.length (rows_of_hist ex_hist) = 4%nat.
Proof. vm_compute. repeat split; reflexivity. Qed.
Example C03_fasta_fixed_empty_sequence :
  fasta_from_data_fixed 3 [([97], []); ([98], [65; 67; 71; 84]); ([99], [])]
  = Some [62; 97; 10; 62; 98; 10; 65; 67; 71; 10; 84; 10; 62; 99; 10].
Proof. exact fasta_fixed_empty_sequence. Qed.
Example C03_nonvacuous_fasta :
  fasta_from_data 3 [([97], unhex "41434754414347"); ([98; 98], unhex "414347")]
  = Some (unhex "3e610a4143470a5441430a470a3e62620a4143470a").
Proof. vm_compute. reflexivity. Qed.
Example C03_nonvacuous_table_ok : table_ok Delim [ex_r1; ex_r2] /\ hist_ok Delim ex_hist.
Proof.
  assert (S1 : Forall fld_small ex_r1) by (repeat constructor; unfold small_int; vm_compute; reflexivity).
  assert (S2 : Forall fld_small ex_r2) by (repeat constructor; unfold small_int; vm_compute; reflexivity).
  assert (T : forall rows, Forall (fun r => r = ex_r1 \/ r = ex_r2) rows -> table_ok Delim rows).
  { intros rows H. split.
    - exists 4%nat. split; [repeat constructor|]. eapply Forall_impl; [|exact H]. intros r [-> | ->]; reflexivity.
    - eapply Forall_impl; [|exact H]. intros r [-> | ->]; assumption. }
  split; [apply T; repeat (apply Forall_cons || apply Forall_nil); auto|].
  unfold hist_ok, ex_hist.
  repeat match goal with
  | |- Forall _ [] => apply Forall_nil
  | |- Forall _ (_ :: _) => apply Forall_cons
  | |- table_ok Delim _ => apply T; repeat (apply Forall_cons || apply Forall_nil); auto
  | _ => progress cbn [s_calls c_chunks]
  end.
Qed.

(* non-vacuity of the phase-3 hypotheses *)
(* a SAM-like row: typed cells, then a tags column containing TABs — and the same record without tags in both spellings *)
Definition ex_sam_schema : list Z := [6; 1; 0; 5].
Definition ex_sam_row : row := [FS (unhex "7231"); FI 99; FS (unhex "2a"); FS (unhex "4e4d3a693a3109585309413a2b")].
Example C03_nonvacuous_sam :
  row_ok no_float_value ex_sam_schema ex_sam_row
  /\ parse_raw Delim ex_sam_schema (serialise Delim [ex_sam_row; ex_sam_row]) = Some [ex_sam_row; ex_sam_row]
  /\ parse_line ex_sam_schema (unhex "7231093939092a") = Some [FS (unhex "7231"); FI 99; FS (unhex "2a"); FS []]
  /\ parse_line ex_sam_schema (unhex "7231093939092a09") = Some [FS (unhex "7231"); FI 99; FS (unhex "2a"); FS []].
Proof.
  split; [|vm_compute; repeat split; reflexivity].
  right. exists [6; 1; 0], [FS (unhex "7231"); FI 99; FS (unhex "2a")], (unhex "4e4d3a693a3109585309413a2b").
  repeat split; try reflexivity.
  - repeat constructor; cbn; intuition discriminate.
  - vm_compute. intuition discriminate.
Qed.
(* a VCF file with a two-line header, written in two pieces, read back 0-based *)
Definition ex_vcf_row1 : row := [FS [99; 104; 114; 49]; FI 0; FS [46]; FS [65]].
Definition ex_vcf_row2 : row := [FS [99]; FI 999999999999999; FS [114; 115; 49]; FS [84; 44; 71]].
Definition ex_vcf_hist : list session :=
  [ {| s_append := false; s_calls := [ {| c_stream := true; c_chunks := [[]; [ex_vcf_row1]] |};
                                       {| c_stream := false; c_chunks := [[ex_vcf_row2]] |} ] |} ].
Example C03_nonvacuous_vcf :
  let hls := [unhex "2323666f726d6174"; unhex "234348524f4d09504f53"] in
  Forall header_line_ok hls
  /\ Forall (vcf_row_ok no_float_value [6; 1; 0; 0]) (rows_of_hist ex_vcf_hist)
  /\ parse_raw Vcf [6; 1; 0; 0] (snd (run_hist Vcf (header_of hls) true ex_vcf_hist)) = Some [ex_vcf_row1; ex_vcf_row2].
Proof.
  cbv zeta. split; [|split]; [| |vm_compute; reflexivity].
  - repeat constructor; vm_compute; intuition discriminate.
  - assert (R : forall c s p a b, c <> 35 -> ~ In 9 (c :: s) -> ~ In 10 (c :: s) -> ~ In 9 a -> ~ In 10 a ->
                  ~ In 9 b -> ~ In 10 b ->
                  vcf_row_ok no_float_value [6; 1; 0; 0] [FS (c :: s); FI p; FS a; FS b]).
    { intros c s p a b Hc H1 H2 H3 H4 H5 H6. split; [discriminate|]. split.
      - constructor; [cbn; auto|]. constructor; [reflexivity|]. constructor; [cbn; auto|]. constructor; [cbn; auto|constructor].
      - exists c, s, [FI p; FS a; FS b]. split; [reflexivity|exact Hc]. }
    change (rows_of_hist ex_vcf_hist) with [ex_vcf_row1; ex_vcf_row2].
    constructor; [|constructor; [|constructor]]; apply R; cbn; intuition discriminate.
Qed.
(* FASTA with an empty sequence between two wrapped ones *)
Example C03_nonvacuous_fasta_readback :
  let rows := [[FS [97]; FS (unhex "41434754414347")]; [FS [98]; FS []]; [FS [99; 32; 100]; FS (unhex "414347")]] in
  Forall fasta_row_ok rows
  /\ parse_raw (Fasta 3) [] (serialise (Fasta 3) rows) = Some rows.
Proof.
  cbv zeta. split; [|vm_compute; reflexivity].
  repeat constructor; eexists; eexists; (split; [reflexivity|]); vm_compute; intuition discriminate.
Qed.
(* the float hypothesis is satisfiable: an exact printer/reader pair, and a table with a float column *)
Example C03_nonvacuous_floats :
  (forall n d, ratio_read (ratio_print n d) = Some (n, d))
  /\ (forall n d, ~ In 9 (ratio_print n d) /\ ~ In 10 (ratio_print n d))
  /\ let rows := [[FS [99]; FI 5; FF (ratio_print 1 2) 1 2]; [FS [100]; FI (-7); FF (ratio_print (-25) 1000) (-25) 1000]] in
     parse_raw_with ratio_read Delim [6; 1; 3] (serialise Delim rows) = Some rows.
Proof. split; [exact ratio_roundtrip|]. split; [exact ratio_no_sep|]. vm_compute. reflexivity. Qed.
(* SAM at /repo HEAD: the model writer on a table with and without tags equals the Spec, which has no trailing TAB *)
Example C03_nonvacuous_sam_writer :
  let r1 := [FS [114; 49]; FI 99; FS [42]; FS []] in
  let r2 := [FS [114; 50]; FI 0; FS []; FS [78; 77; 9; 88]] in
  snd (from_data Sam [r1; r2; r1]) = serialise Sam [r1; r2; r1]
  /\ serialise Sam [r1] = [114; 49; 9; 57; 57; 9; 42; 10]
  /\ table_ok Sam [r1; r2; r1].
Proof.
  cbv zeta. split; [vm_compute; reflexivity|]. split; [vm_compute; reflexivity|].
  split; [exists 4%nat; split; [repeat constructor|repeat constructor]|].
  repeat constructor; unfold small_int; vm_compute; reflexivity.
Qed.

(* ---- round 6: BIG tables (the SIZE of one write call).  A table of tens of thousands of rows is a small block of rows
   repeated (run-length form, Corr/C03T.v); the verdict is decided segment by segment and these theorems lift it to the
   expanded table, for every count (unbounded) ---- *)
From BNP Require Corr.C03T Proofs.C03_big.

(* a block written n times over = its canonical bytes n times over; every format, every n *)
Theorem C03_big_serialise_tile :
  forall (f : fmt) (blk : list row) (n : Z), serialise f (C03T.tile blk n) = C03T.tile (serialise f blk) n.
Proof. exact C03_big.serialise_tile. Qed.
Print Assumptions C03_big_serialise_tile.

(* cutting a big table at any block boundary (block-wise formatting, pieces) does not change the bytes *)
Theorem C03_big_split_at_block_boundary :
  forall (f : fmt) (blk : list row) (n m : Z), 0 <= n -> 0 <= m ->
    serialise f (C03T.tile blk (n + m)) = serialise f (C03T.tile blk n) ++ serialise f (C03T.tile blk m).
Proof. exact C03_big.serialise_tile_split. Qed.
Print Assumptions C03_big_split_at_block_boundary.

(* segment-wise equality of run-length forms implies equality of what they stand for *)
Theorem C03_big_rle_eqb_sound :
  forall x y : C03T.rle Z, C03T.rle_eqb Z.eqb x y = true -> C03T.expand x = C03T.expand y.
Proof. exact C03_big.rle_eqb_sound. Qed.
Print Assumptions C03_big_rle_eqb_sound.

(* the run-length Spec stands for the Spec of the expanded history: header exactly once ++ canonical bytes of all rows *)
Theorem C03_big_spec_rle_expand :
  forall (f : fmt) (hdr : list Z) (h : list C03T.bsession),
    C03T.expand (C03T.spec_rle f hdr h) = spec_file f hdr (C03T.full_hist h).
Proof. exact C03_big.spec_rle_expand. Qed.
Print Assumptions C03_big_spec_rle_expand.

(* a big case accepted by the verdict wrote, without raising, exactly the canonical file of the expanded history *)
Theorem C03_big_spec_ok_written :
  forall b : C03T.bcase, C03T.spec_ok_big b = true ->
    C03T.b_err b = 0 /\
    C03T.expand (C03T.b_written b) = spec_file (C03T.b_fmt b) (C03T.b_header b) (C03T.full_hist (C03T.b_hist b)).
Proof. exact C03_big.spec_ok_big_written. Qed.
Print Assumptions C03_big_spec_ok_written.

(* the Model's from_data (any format) on a table of any size equals the concatenation of from_data on its blocks *)
Theorem C03_big_from_data_blocks :
  forall (f : fmt) (a b : list row), a <> [] -> b <> [] -> table_ok f a -> table_ok f b -> table_ok f (a ++ b) ->
    from_data f (a ++ b) = (0, snd (from_data f a) ++ snd (from_data f b)).
Proof. exact C03_big.from_data_blocks. Qed.
Print Assumptions C03_big_from_data_blocks.

Theorem C03_big_from_data_tile :
  forall (f : fmt) (blk : list row) (n : Z), C03T.tile blk n <> [] -> table_ok f (C03T.tile blk n) ->
    from_data f (C03T.tile blk n) = (0, C03T.tile (serialise f blk) n).
Proof. exact C03_big.from_data_tile. Qed.
Print Assumptions C03_big_from_data_tile.

(* non-vacuity: a VCF table of 2 rows x 40000 + 1 row written in one call (80001 rows): accepted; the same observation
   with POS written +2 in the repeated block is rejected *)
Example C03_nonvacuous_big :
  let r1 := [FS [99]; FI 5; FS [46]; FS [65]; FS [84]; FS [46]; FS [46]; FS [46]] in
  let r2 := [FS [99; 104]; FI 98; FS [46]; FS [65]; FS [84]; FS [46]; FS [46]; FS [46]] in
  let hdr := [35; 35; 97; 10] in
  let l1 := [99; 9; 54; 9; 46; 9; 65; 9; 84; 9; 46; 9; 46; 9; 46; 10] in
  let l1' := [99; 9; 55; 9; 46; 9; 65; 9; 84; 9; 46; 9; 46; 9; 46; 10] in
  let l2 := [99; 104; 9; 57; 57; 9; 46; 9; 65; 9; 84; 9; 46; 9; 46; 9; 46; 10] in
  let l2' := [99; 104; 9; 49; 48; 48; 9; 46; 9; 65; 9; 84; 9; 46; 9; 46; 9; 46; 10] in
  let mk w := {| C03T.b_fmt := Vcf; C03T.b_schema := [6; 1; 0; 0; 0; 0; 0; 0]; C03T.b_header := hdr; C03T.b_gz := false;
                 C03T.b_hist := [ {| C03T.bs_append := false;
                                     C03T.bs_calls := [ {| C03T.bc_stream := false;
                                                           C03T.bc_chunks := [ [([r1; r2], 40000); ([r1], 1)] ] |} ] |} ];
                 C03T.b_err := 0; C03T.b_written := w; C03T.b_read_ok := true;
                 C03T.b_read := [([r1; r2], 40000); ([r1], 1)] |} in
  C03T.spec_ok (C03T.Big (mk [(hdr, 1); (l1 ++ l2, 40000); (l1, 1)])) = true
  /\ C03T.model_ok (C03T.Big (mk [(hdr, 1); (l1 ++ l2, 40000); (l1, 1)])) = true
  /\ C03T.spec_ok (C03T.Big (mk [(hdr, 1); (l1' ++ l2', 40000); (l1', 1)])) = false.
Proof. vm_compute. repeat split. Qed.

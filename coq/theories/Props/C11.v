(* Props/C11.v — the property theorems for C11 (streamed evaluation equals in-memory evaluation for every chunking).
   Only statements, `exact <lemma>` and Print Assumptions live here.  In every theorem [cs] is an arbitrary list of
   chunks — any number of chunks of any sizes — and the in-memory value is the Spec function of [concat cs]. *)
From Coq Require Import String ZArith List Bool Lia Sorting.Sorted.
From BNP Require Import Base.Prims Model.C11 Proofs.C11 Proofs.C11_rechunk Proofs.C11_groupby Proofs.C11_graph Proofs.C11_pipeline Proofs.C11_spec Corr.C11 Proofs.C11_link Proofs.C11_expr Proofs.C11_expr_spec Proofs.C11_stranded Proofs.C11_blocks Proofs.C11_windows Proofs.C11_link2 Gen.C11 Bridge.C11.
Import ListNotations.
Open Scope Z_scope.

(* T1 mean: the chunk-wise (sum, n) pairs added up are the (sum, n) of the whole data. *)
Theorem C11_mean_chunked : forall cs : list (list Z), stream_sum_n cs = spec_sum_n (concat cs).
Proof. exact mean_chunked. Qed.
Print Assumptions C11_mean_chunked.

(* T2 bincount: padded addition of per-chunk bincounts is the bincount of the whole data (non-negative values). *)
Theorem C11_bincount_chunked : forall cs : list (list Z), cs <> [] ->
  Forall (Forall (fun v => 0 <= v)) cs ->
  stream_bincount cs = Some (spec_bincount (concat cs)).
Proof. exact bincount_chunked. Qed.
Print Assumptions C11_bincount_chunked.

(* T3 histogram with explicit bins and range: first + sum(rest) is the histogram of the whole data. *)
Theorem C11_histogram_chunked : forall k lo hi (cs : list (list Z)), cs <> [] ->
  stream_hist k lo hi cs = Some (spec_hist k lo hi (concat cs)).
Proof. exact histogram_chunked. Qed.
Print Assumptions C11_histogram_chunked.

(* T4 k-mer counts: chunks are lists of whole sequences; the summed per-chunk counts are the counts of all sequences. *)
Theorem C11_kmer_count_chunked : forall k (cs : list (list (list Z))), cs <> [] ->
  stream_kmer_counts k cs = Some (spec_kmer_counts k (concat cs)).
Proof. exact kmer_count_chunked. Qed.
Print Assumptions C11_kmer_count_chunked.

(* T5 group-by: per-chunk grouping on change points (with or without the first-equals-last shortcut), joined over
   chunks, gives exactly the maximal runs of equal keys of the whole data — wherever the cuts fall (inside a
   group, right after a group, single-entry chunks, EMPTY chunks: since a68b397 a table without entries has no
   groups).  Needs only: equal keys contiguous. *)
Theorem C11_groupby_chunked : forall (fast : bool) (cs : list (list (Z * Z))),
  contiguous (map fst (concat cs)) -> stream_groupby fast cs = runs (concat cs).
Proof. exact (@groupby_chunked_any Z). Qed.
Print Assumptions C11_groupby_chunked.

(* sorted keys (the property's wording) are contiguous *)
Theorem C11_sorted_keys_contiguous : forall ks, Sorted Z.le ks -> contiguous ks.
Proof. exact sorted_contiguous. Qed.
Print Assumptions C11_sorted_keys_contiguous.

(* without the shortcut no order assumption is needed at all *)
Theorem C11_groupby_chunked_slow : forall cs : list (list (Z * Z)), stream_groupby false cs = runs (concat cs).
Proof. exact (@groupby_chunked_slow_any Z). Qed.
Print Assumptions C11_groupby_chunked_slow.

(* the shortcut on keys that are not contiguous is wrong (outside the property: keys 1,2,1) *)
Theorem C11_groupby_fast_unsorted_refuted :
  exists cs : list (list (Z * Z)), Forall (fun c => c <> []) cs /\ stream_groupby true cs <> runs (concat cs).
Proof. exact groupby_fast_refuted. Qed.
Print Assumptions C11_groupby_fast_unsorted_refuted.

(* T6 re-chunking.  Full statement for the repaired chunk_entries_pinned (`while`, notes/C11.fix-1.diff): every chunking,
   every n >= 1: order and content kept, every chunk but the last has exactly n entries, the last 1..n, none empty. *)
Theorem C11_rechunk_fixed : forall (n : nat) (cs : list (list Z)), (1 <= n)%nat ->
  exists out, chunk_entries_fixed n cs = Some out
    /\ rechunk_ok 1 (Z.of_nat n) (concat cs) out = true
    /\ Forall (fun c => c <> []) out.
Proof. exact rechunk_fixed. Qed.
Print Assumptions C11_rechunk_fixed.

(* the pinned chunk_entries_pinned (`if`): the full statement is false ... *)
Theorem C11_rechunk_refuted :
  exists (n : nat) (cs : list (list Z)), (1 <= n)%nat /\
    forall out, chunk_entries_pinned n cs = Some out -> rechunk_ok 1 (Z.of_nat n) (concat cs) out = false.
Proof. exact rechunk_pinned_refuted. Qed.
Print Assumptions C11_rechunk_refuted.

(* ... it holds exactly when no incoming chunk, added to the carried remainder, reaches 2n entries ... *)
Theorem C11_rechunk_partial : forall (n : nat) (cs : list (list Z)), (1 <= n)%nat ->
  no_double n 0 cs ->
  exists out, chunk_entries_pinned n cs = Some out /\ rechunk_ok 1 (Z.of_nat n) (concat cs) out = true.
Proof. exact rechunk_pinned_partial. Qed.
Print Assumptions C11_rechunk_partial.

(* ... and order/content are preserved unconditionally. *)
Theorem C11_rechunk_order : forall (n : nat) (cs : list (list Z)),
  exists out, chunk_entries_pinned n cs = Some out /\ concat out = concat cs.
Proof. exact rechunk_pinned_order. Qed.
Print Assumptions C11_rechunk_order.

(* chunk_lines: every chunk but the last has exactly n entries, order kept; the last may be empty (0..n). *)
Theorem C11_chunk_lines : forall (n : nat) (cs : list (list Z)), (1 <= n)%nat -> cs <> [] ->
  exists out, chunk_lines (Z.of_nat n) cs = Some out /\ rechunk_ok 0 (Z.of_nat n) (concat cs) out = true.
Proof. exact chunk_lines_ok. Qed.
Print Assumptions C11_chunk_lines.

(* T7 computation graph.  For every well-formed graph (arguments are created before their consumer) whose nodes all
   have a first buffer: building all nodes and then iterating the root never trips the buffer-index assertion, never
   runs out of fuel, and yields for buffer 0,1,..,m-1 exactly the denotation [val] — where m is the first buffer
   number at which some reachable stream is exhausted. *)
Theorem C11_graph_lockstep : forall (V : Type) (g : list (node V)) (root m : nat),
  wf g -> (root < length g)%nat ->
  (forall j, (j < length g)%nat -> val g j 0 <> None) ->
  (forall d, (d < m)%nat -> val g root d <> None) -> val g root m = None -> (m <= S (max_stream_len g))%nat ->
  exists vs, run_graph g root = ROk vs /\ map Some vs = map (val g root) (seq 0 m).
Proof. intros V g root m Hwf Hroot. exact (graph_lockstep_run g Hwf root Hroot m). Qed.
Print Assumptions C11_graph_lockstep.

(* the denotation is plain per-buffer application: a stream node's value is its i-th buffer, a computation node's
   value is its function applied to its arguments' values for the same buffer number *)
Theorem C11_graph_value_stream : forall (V : Type) (g : list (node V)) k bufs i,
  nth_error g k = Some (NStream bufs) -> val g k i = nth_error bufs i.
Proof. intros V g. exact (val_stream g). Qed.
Print Assumptions C11_graph_value_stream.

Theorem C11_graph_value_comp : forall (V : Type) (g : list (node V)), wf g -> forall k fn args i,
  nth_error g k = Some (NComp fn args) ->
  val g k i = match opt_all (map (fun a => val g a i) args) with Some vs => Some (fn vs) | None => None end.
Proof. intros V g Hwf. exact (val_comp g Hwf). Qed.
Print Assumptions C11_graph_value_comp.

(* the graphs the genomic pipelines build are well-formed *)
Theorem C11_pipeline_graphs_wf : forall p sizes a b, wf (fst (pipeline_graph p sizes a b)).
Proof. exact pipeline_graph_wf. Qed.
Print Assumptions C11_pipeline_graphs_wf.

(* T8 pipelines: the streamed per-chromosome pipelines (interval chunks -> group-by/join -> genome walk -> graph ->
   concatenate / reduce) give, for every chunking of both interval streams into non-empty chunks, the result of the
   one-chunk evaluation — for every pipeline, every genome, either mean reduction. *)
Theorem C11_pipeline_chunking_independent : forall mean_red p order sizes (csa csb : list (list (Z * iv))),
  csa <> [] -> csb <> [] -> Forall (fun c => c <> []) csa -> Forall (fun c => c <> []) csb ->
  run_pipeline_with mean_red p order sizes csa csb
  = run_pipeline_with mean_red p order sizes [concat csa] [concat csb].
Proof. exact pipeline_chunking_independent. Qed.
Print Assumptions C11_pipeline_chunking_independent.

(* mean over axis 0 of per-chromosome ragged values: with the pinned mean_reduction two chromosomes whose longest
   windows differ cannot be added (GErr = the library raises); the repaired reduction adds column-wise *)
Theorem C11_mean_axis0_refuted :
  exists a b, red_mean (GSN a) (GSN b) = GErr /\ red_mean_fixed (GSN a) (GSN b) = GSN (sn_padadd a b).
Proof. exists [(1, 1)], [(1, 1); (2, 1)]. split; reflexivity. Qed.
Print Assumptions C11_mean_axis0_refuted.

Theorem C11_mean_axis0_partial : forall a b, length a = length b ->
  red_mean (GSN a) (GSN b) = red_mean_fixed (GSN a) (GSN b).
Proof. exact red_mean_equal_lengths. Qed.
Print Assumptions C11_mean_axis0_partial.

(* T9 streamable without reduction: a row-local function (f [] = [], f (a ++ b) = f a ++ f b) mapped over the chunks
   and concatenated is the function of the whole data; for a per-row function the chunk sizes are kept too. *)
Theorem C11_streamable_map_chunked : forall (A B : Type) (f : list A -> list B),
  f [] = [] -> (forall a b, f (a ++ b) = f a ++ f b) ->
  forall cs, concat (stream_map f cs) = f (concat cs).
Proof. exact @streamable_map_chunked. Qed.
Print Assumptions C11_streamable_map_chunked.

Theorem C11_streamable_rows_chunked : forall (A B : Type) (g : A -> B) (cs : list (list A)),
  concat (stream_map (map g) cs) = map g (concat cs)
  /\ map (@length B) (stream_map (map g) cs) = map (@length A) cs.
Proof. exact @streamable_rows_chunked. Qed.
Print Assumptions C11_streamable_rows_chunked.

(* T10 genome walk: for data that visits the chromosomes in genome order (any may be absent), the walk over the
   maximal runs hands every chromosome exactly its own entries (empty for absent ones). *)
Theorem C11_genome_walk : forall (order : list Z) (d : list (Z * iv)), NoDup order -> ordered order d ->
  walk order (runs d) = map (fun nm => ivs_of nm d) order.
Proof. exact (@walk_runs iv). Qed.
Print Assumptions C11_genome_walk.

(* T11 END TO END: every modelled streamed pipeline (pileup, mask, pileup sum, histogram, (histogram,sum), values
   under windows, mean over axis 0 of those) — chunked interval streams -> group-by/join -> genome walk -> graph
   pull machine -> concatenate / reduce — returns the in-memory dense meaning of the concatenated data, for every
   genome, every chunking into non-empty chunks, data in genome order.  [pipeline_guard] is True for EVERY pipeline of the
   current code: pileup, mask, pileup sum, histogram, (histogram,sum), values, mean(axis=0) (since 669f02f) and — since the
   repair of the reductions of np.sum (notes/C11.fix-3.diff) — np.sum, sum(axis=0), sum(axis=-1) of the values (stated
   without any guard as C11_pipeline_sum_spec below).  Only the two HISTORY constructors PValuesSumPinned /
   PValuesSum0Pinned, which keep reductions_map[np.sum] = operator.add as it was before fix-3, carry a guard (single
   chromosome; windows on every chromosome with equal column counts) — each refuted without it. *)
Theorem C11_pipeline_spec : forall p order sizes (csa csb : list (list (Z * iv))),
  NoDup order -> length order = length sizes -> (0 < length sizes)%nat ->
  csa <> [] -> csb <> [] -> Forall (fun c => c <> []) csa -> Forall (fun c => c <> []) csb ->
  ordered order (concat csa) -> ordered order (concat csb) ->
  pipeline_guard p order sizes (concat csa) (concat csb) ->
  run_pipeline p order sizes csa csb = Some (spec_pipeline p order sizes (concat csa) (concat csb)).
Proof. exact pipeline_spec_current. Qed.
Print Assumptions C11_pipeline_spec.

(* history: the mean_reduction of the pinned commit (`+` on the column sums) needed equal column counts ... *)
Theorem C11_pipeline_spec_pinned : forall p order sizes (csa csb : list (list (Z * iv))),
  NoDup order -> length order = length sizes -> (0 < length sizes)%nat ->
  csa <> [] -> csb <> [] -> Forall (fun c => c <> []) csa -> Forall (fun c => c <> []) csb ->
  ordered order (concat csa) -> ordered order (concat csb) ->
  pipeline_guard_pinned p order sizes (concat csa) (concat csb) ->
  run_pipeline_with red_mean p order sizes csa csb
  = Some (spec_pipeline p order sizes (concat csa) (concat csb)).
Proof. exact pipeline_spec_pinned. Qed.
Print Assumptions C11_pipeline_spec_pinned.

(* ... and failed without it *)

Theorem C11_pipeline_mean_refuted :
  exists order sizes (csa csb : list (list (Z * iv))),
    NoDup order /\ length order = length sizes /\ ordered order (concat csa) /\ ordered order (concat csb)
    /\ run_pipeline_with red_mean PValuesMean0 order sizes csa csb = Some GErr
    /\ spec_pipeline PValuesMean0 order sizes (concat csa) (concat csb) <> GErr.
Proof. exact pipeline_mean_refuted. Qed.
Print Assumptions C11_pipeline_mean_refuted.

(* history: the reductions of np.sum before fix-3 (operator.add on the per-chromosome results) *)
Theorem C11_pipeline_sum_refuted :
  exists order sizes (csa csb : list (list (Z * iv))),
    NoDup order /\ length order = length sizes /\ ordered order (concat csa) /\ ordered order (concat csb)
    /\ run_pipeline PValuesSumPinned order sizes csa csb = Some (GL [4])
    /\ spec_pipeline PValuesSumPinned order sizes (concat csa) (concat csb) = GL [2; 2]
    /\ run_pipeline PValuesSum0Pinned [0; 1] [4; 4] [[(0, (0, 2)); (1, (1, 3))]] [[(0, (0, 2))]] = Some GErr
    /\ spec_pipeline PValuesSum0Pinned [0; 1] [4; 4] [(0, (0, 2)); (1, (1, 3))] [(0, (0, 2))] = GL [1; 1].
Proof. exact pipeline_sum_refuted. Qed.
Print Assumptions C11_pipeline_sum_refuted.

(* T11b the reductions of np.sum of the values under windows after fix-3 (axis=None: one sum per window, concatenated;
   axis=0: column sums added column by column, a chromosome without windows is neutral; axis=-1: concatenated), for
   every genome, every chunking, chromosomes without windows and windows of unequal lengths: NO guard *)
Theorem C11_pipeline_sum_spec : forall p order sizes (csa csb : list (list (Z * iv))),
  p = PValuesSum \/ p = PValuesSum0 \/ p = PValuesSum1 ->
  NoDup order -> length order = length sizes -> (0 < length sizes)%nat ->
  csa <> [] -> csb <> [] -> Forall (fun c => c <> []) csa -> Forall (fun c => c <> []) csb ->
  ordered order (concat csa) -> ordered order (concat csb) ->
  run_pipeline p order sizes csa csb = Some (spec_pipeline p order sizes (concat csa) (concat csb)).
Proof. exact pipeline_sum_spec. Qed.
Print Assumptions C11_pipeline_sum_spec.

(* the reductions themselves: per-window sums of consecutive buffers are concatenated; column sums are added with the
   missing columns of the shorter operand counting as empty; a buffer without rows is neutral *)
Theorem C11_sum_reductions_chunked : forall rowss : list (list (list Z)), rowss <> [] ->
  reduce1 red_total (map (fun rows => op_rowsums [GR rows]) rowss) = Some (GL (map sumZ (concat rowss)))
  /\ reduce1 red_rows (map (fun rows => op_rowsums [GR rows]) rowss) = Some (GL (map sumZ (concat rowss)))
  /\ (concat rowss <> [] ->
      reduce1 red_cols (map (fun rows => op_colsums_fixed [GR rows]) rowss) = Some (GL (map fst (spec_cols (concat rowss))))).
Proof. exact sum_reductions_chunked. Qed.
Print Assumptions C11_sum_reductions_chunked.

(* T12 link theorems: on every correspondence case, agreement with the model (model_ok) gives the property (spec_ok);
   the extra hypotheses are the case's well-formedness and those parts of spec_ok that compare two observations
   with each other (in-memory float / histogram edges / in-memory pipeline results). *)
Theorem C11_rechunk_link : forall r, rechunk_wellformed r = true -> rechunk_model_ok r = true -> rechunk_spec_ok r = true.
Proof. exact rechunk_link. Qed.
Print Assumptions C11_rechunk_link.

Theorem C11_flat_link : forall f, chunks_wellformed f = true ->
  Forall (Forall (fun v => 0 <= v)) (f_starts f) -> contiguous (map e_gid (f_data f)) ->
  flat_obs_only f = true -> flat_model_ok f = true -> flat_spec_ok f = true.
Proof. exact flat_link. Qed.
Print Assumptions C11_flat_link.

Theorem C11_gen_link : forall g, gen_wellformed g = true ->
  ordered (gen_order g) (concat (g_a g)) -> ordered (gen_order g) (concat (g_b g)) ->
  (forall p s m, In (p, s, m) (g_runs g) ->
     pipeline_guard p (gen_order g) (g_sizes g) (concat (g_a g)) (concat (g_b g))) ->
  gen_mem_ok g = true -> gen_model_ok g = true -> gen_spec_ok g = true.
Proof. exact gen_link. Qed.
Print Assumptions C11_gen_link.

(* T13 arithmetic on a streamed track.  Node.__array_ufunc__ creates one node per operation with the operands in the
   order they were written; [compile] is that construction.  For every expression, appended to any well-formed graph
   with a track node: every new node denotes a sub-expression and the result denotes the expression, i.e. buffer i of
   the node is the expression applied position by position to buffer i of the track — `c - x` and `x - c` alike. *)
Theorem C11_expr_compile : forall (track : nat) (tv : nat -> option (list Z)) e g nodes opd,
  graph_ok track tv g -> compile e track (length g) = (nodes, opd) ->
  graph_ok track tv (g ++ nodes) /\ new_nodes_ok tv g (g ++ nodes) /\ operand_ok tv (g ++ nodes) e opd.
Proof. exact compile_ok. Qed.
Print Assumptions C11_expr_compile.

(* end to end: every expression that really involves the track, every query (get_data, sum, histogram, values under
   windows), every genome, every chunking of the interval streams: streamed = in-memory *)
Theorem C11_expr_pipeline_spec : forall e q order sizes (csa csb : list (list (Z * iv))),
  NoDup order -> length order = length sizes -> (0 < length sizes)%nat ->
  csa <> [] -> csb <> [] -> Forall (fun c => c <> []) csa -> Forall (fun c => c <> []) csb ->
  ordered order (concat csa) -> ordered order (concat csb) ->
  (exists nodes t, compile e 5 12 = (nodes, ONode t)) ->
  run_expr e q order sizes csa csb = Some (spec_expr e q order sizes (concat csa) (concat csb)).
Proof. exact expr_pipeline_spec. Qed.
Print Assumptions C11_expr_pipeline_spec.

(* in particular a plain value on the LEFT of a non-commutative ufunc, and on the right *)
Theorem C11_expr_scalar_both_orders : forall (o : bop) (c : Z) q order sizes (csa csb : list (list (Z * iv))),
  NoDup order -> length order = length sizes -> (0 < length sizes)%nat ->
  csa <> [] -> csb <> [] -> Forall (fun c => c <> []) csa -> Forall (fun c => c <> []) csb ->
  ordered order (concat csa) -> ordered order (concat csb) ->
  run_expr (TBin o (TConst c) TTrack) q order sizes csa csb
    = Some (spec_expr (TBin o (TConst c) TTrack) q order sizes (concat csa) (concat csb))
  /\ run_expr (TBin o TTrack (TConst c)) q order sizes csa csb
    = Some (spec_expr (TBin o TTrack (TConst c)) q order sizes (concat csa) (concat csb)).
Proof. exact expr_scalar_both_orders. Qed.
Print Assumptions C11_expr_scalar_both_orders.

(* T14 values under STRANDED windows (a row is kept for strand '+' and reversed for every other strand symbol, in both
   worlds) and their mean over axis 0 *)
Theorem C11_stranded_spec : forall p order sizes (csa : list (list (Z * iv))) (csw : list (list (Z * swin))),
  NoDup order -> length order = length sizes -> (0 < length sizes)%nat ->
  csa <> [] -> Forall (fun c => c <> []) csa -> Forall (fun c => c <> []) csw ->
  ordered order (concat csa) -> ordered order (concat csw) ->
  run_stranded p order sizes csa csw = Some (spec_stranded p order sizes (concat csa) (concat csw)).
Proof. exact stranded_spec_current. Qed.
Print Assumptions C11_stranded_spec.

(* T15 no size threshold: count_encoded counts inputs of more than max_size values block by block; the blocks cover
   the input, so the count is the plain count for EVERY length — in particular for a chunk (or the whole table) of
   more than 10^6 k-mers that is not a multiple of 10^6 — and the streamed counts of run-length encoded reads are the
   per-letter totals for every chunking. *)
Theorem C11_count_blocks : forall M K (l : list Z), 0 < M -> count_encoded_flat M K l = count_vector K l.
Proof. exact count_encoded_flat_correct. Qed.
Print Assumptions C11_count_blocks.

Theorem C11_big_counts_chunked : forall M K (cs : list (list runs_t)), 0 < M -> cs <> [] ->
  Forall (fun xn : Z * Z => 0 <= snd xn) (concat (concat cs)) ->
  stream_big_counts M K cs = Some (spec_big_counts K cs).
Proof. exact big_counts_chunked. Qed.
Print Assumptions C11_big_counts_chunked.

(* T16 windows around streamed locations, in both keyword forms — get_windows(flank=f): [p - f, p + f + 1);
   get_windows(window_size=w): [p - w/2, p + w/2 + w mod 2), odd and even w — clipped to the chromosome; the windows,
   the values under them and their mean over axis 0: streamed = in-memory for every genome and chunking *)
Theorem C11_windows_spec : forall a q order sizes (cs : list (list (Z * iv))),
  NoDup order -> length order = length sizes -> (0 < length sizes)%nat ->
  cs <> [] -> Forall (fun c => c <> []) cs -> ordered order (concat cs) ->
  run_windows a q order sizes cs = Some (spec_windows a q order sizes (concat cs)).
Proof. exact windows_spec. Qed.
Print Assumptions C11_windows_spec.

Theorem C11_gen_extra_link : forall g, gen_wellformed g = true ->
  forallb (fun c => negb (len c =? 0)) (g_w g) = true ->
  ordered (gen_order g) (concat (g_a g)) -> ordered (gen_order g) (concat (g_b g)) -> ordered (gen_order g) (concat (g_w g)) ->
  (forall e q s m, In (e, q, s, m) (g_eruns g) -> exists nodes t, compile e 5 12 = (nodes, ONode t)) ->
  gen_extra_mem_ok g = true -> gen_extra_model_ok g = true -> gen_extra_spec_ok g = true.
Proof. exact gen_extra_link. Qed.
Print Assumptions C11_gen_extra_link.

(* Source tie: the loop conditions, slice bounds, counter updates, component-wise additions, change-point comparison,
   shortcut test, group bounds and buffer-index tests regenerated on this run from /repo (Gen/C11.v, written by
   translate/gen_c11.py from streams/chunk_entries.py, io/parser.py, streams/reductions.py, computation_graph.py and
   streams/groupby_func.py) are the ones the model — and the theorems above — are about.  The generator also checks
   the statement kinds (the emission loop of _chunk_entries must be a `while` inside the `for`). *)
Theorem C11_source_tie :
  (forall bs n : nat, gen_ce_loop_cond (Z.of_nat bs) (Z.of_nat n) = m_ce_cond bs n)
  /\
  (forall buf c : list Z, gen_ce_size_in (len buf) (len c) = len (buf ++ c))
  /\
  (forall (n : nat) (total : list Z), slice 0 (gen_ce_emit_stop (Z.of_nat n)) total = firstn n total)
  /\
  (forall (n : nat) (total : list Z), skipn (Z.to_nat (gen_ce_carry_start (Z.of_nat n))) total = skipn n total)
  /\
  (forall (n : nat) (total : list Z), gen_ce_size_after (len total) (Z.of_nat n) = len (skipn n total))
  /\
  (forall buf : list Z, gen_ce_tail_cond (len buf) = match buf with [] => false | _ => true end)
  /\
  (forall k r, gen_cl_loop_cond k r = m_cl_cond k r)
  /\
  (forall r n, gen_cl_take_stop r = r /\ gen_cl_rest_start r = r /\ gen_cl_reset n = n)
  /\
  (forall r k, gen_cl_after r k = m_cl_after r k)
  /\
  (forall c : list Z, gen_sum_and_n (sumZ c) (len c) = sum_and_n c)
  /\
  (forall a b : nat, gen_br_cond (Z.of_nat a) (Z.of_nat b) = m_br_cond a b)
  /\
  (forall a b, gen_br_then_stop a b = b /\ gen_br_else_stop a b = a)
  /\
  (forall x y l, add_prefix (x :: l) [y] = gen_br_add x y :: l)
  /\
  (forall r f, [gen_hr_total r f] = vadd [r] [f])
  /\
  (forall a0 a1 b0 b1, gen_mean_reduction a0 a1 b0 b1 = pair_add (a0, a1) (b0, b1))
  /\
  (forall x y, red_hist (GL [x]) (GL [y]) = GL [gen_add_hist_count x y])
  /\
  (forall (x y axis nrows : Z) (l1 l2 : list Z),
  (gen_hist_reduction = "_add_histograms"%string
   /\ gen_af_sum_func = "_buffer_sum"%string /\ gen_af_sum_red = "_sum_reduction(axis)"%string
   /\ gen_af_sum_axis = "kwargs.get('axis', args[1] if len(args) > 1 else None)"%string)
  /\ (gen_sumred_none = "_add_totals"%string /\ gen_sumred_axis0 = "_add_columns"%string
      /\ gen_sumred_rows = "_concatenate_rows"%string /\ gen_sumred_axis0_cond axis = (axis =? 0) || (axis =? -2))
  /\ (gen_at_scalar_cond 0 0 = true /\ red_total (GZ x) (GZ y) = GZ (gen_at_add x y)
      /\ gen_at_scalar_cond 1 1 = false /\ gen_at_scalar_cond 0 1 = false /\ gen_at_scalar_cond 1 0 = false
      /\ gen_at_else = "_concatenate_rows(a, b)"%string
      /\ red_total (GL l1) (GL l2) = red_rows (GL l1) (GL l2))
  /\ (gen_cr_first = "a"%string /\ gen_cr_second = "b"%string /\ red_rows (GL l1) (GL l2) = GL (l1 ++ l2))
  /\ (gen_bs_empty_cond axis nrows = ((axis =? 0) || (axis =? -2)) && (nrows =? 0)
      /\ op_colsums_fixed [GR []] = GZ gen_bs_empty_val
      /\ red_cols (GZ gen_bs_empty_val) (GL l1) = GL l1 /\ red_cols (GL l1) (GZ gen_bs_empty_val) = GL l1
      /\ red_cols (GL (x :: l1)) (GL (y :: l2)) = GL (gen_ac_add x y :: z_padadd l1 l2)
      /\ red_cols (GL (x :: l1)) (GL []) = GL (x :: l1) /\ red_cols (GL []) (GL (y :: l2)) = GL (y :: l2)))
  /\
  (forall idx i : nat, gen_sn_assert (Z.of_nat idx - 1) (Z.of_nat i) && gen_sn_advance (Z.of_nat idx - 1) (Z.of_nat i) = m_node_pull idx i /\ gen_sn_assert (Z.of_nat idx - 1) (Z.of_nat i) && negb (gen_sn_advance (Z.of_nat idx - 1) (Z.of_nat i)) = m_node_cached idx i /\ gen_sn_next (Z.of_nat idx - 1) = Z.of_nat (S idx) - 1)
  /\
  (forall idx i : nat, gen_cn_assert (Z.of_nat idx - 1) (Z.of_nat i) && gen_cn_cached (Z.of_nat idx - 1) (Z.of_nat i) = m_node_cached idx i /\ gen_cn_assert (Z.of_nat idx - 1) (Z.of_nat i) && negb (gen_cn_cached (Z.of_nat idx - 1) (Z.of_nat i)) = m_node_pull idx i /\ gen_cn_next (Z.of_nat idx - 1) = Z.of_nat (S idx) - 1)
  /\
  (forall prev next, [gen_gc_changed_encoded next prev] = neq_adjacent [prev; next] /\ [gen_gc_changed_string next prev] = neq_adjacent [prev; next] /\ [gen_gc_changed_plain next prev] = neq_adjacent [prev; next])
  /\
  (forall i, [gen_gc_index i] = map (Z.add 1) [i])
  /\
  (forall first last, gen_gb_fast_test last first = m_gb_fast_test first last)
  /\
  (forall data : list Z, skipn (Z.to_nat gen_gb_fast_start) data = skipn 0 data)
  /\
  (forall ch n, gen_gb_insert_pos = 0 /\ (gen_gb_insert_val :: ch) ++ [gen_gb_last_bound n] = (0 :: ch) ++ [n])
  /\
  (forall (keys : list Z) (data : list Z) s e, (nthZ keys (gen_gb_key_index s e), slice (gen_gb_slice_lo s e) (gen_gb_slice_hi s e) data) = (nthZ keys s, slice s e data))
  /\
  (gen_join_key_field = 0 /\ gen_join_payload_field = 1)
  /\
  (forall o c (x : list Z), gen_ufunc_operand_order = "as_written"%string /\ gen_track_ufunc_operand_order = "as_written"%string /\ apply_ufunc o (fill_args [OConst c; ONode 0%nat] [GL x]) = GL (map (bop_eval o c) x) /\ apply_ufunc o (fill_args [ONode 0%nat; OConst c] [GL x]) = GL (map (fun v => bop_eval o v c) x))
  /\
  (forall row, gen_stranded_forward_symbol = "+"%string /\ gen_stranded_forward_symbol_mem = "+"%string /\ orient 0 row = row /\ orient 1 row = rev row /\ orient 2 row = rev row)
  /\
  (forall (p q : Z * Z) (x y : list (Z * Z)) la lb, sn_padadd (p :: x) (q :: y) = (gen_ac_add (fst p) (fst q), gen_ac_add (snd p) (snd q)) :: sn_padadd x y /\ sn_padadd (p :: x) [] = p :: x /\ sn_padadd [] (q :: y) = q :: y /\ gen_ac_equal_cond la lb = (la =? lb) /\ gen_ac_swap_cond la lb = (la <? lb) /\ gen_ac_prefix_stop la lb = lb /\ gen_ac_tail_start la lb = lb)
  /\
  (forall fast (keys data : list Z), gen_gb_empty_test (len keys) = true -> groupby_chunk fast keys data = [])
  /\
  (forall f w p l r, (gen_win_l_f_str f, gen_win_r_f_str f) = m_win_flanks (WFlank f) /\ (gen_win_l_w_str w, gen_win_r_w_str w) = m_win_flanks (WSize w) /\ (gen_win_l_f_mem f, gen_win_r_f_mem f) = m_win_flanks (WFlank f) /\ (gen_win_l_w_mem w, gen_win_r_w_mem w) = m_win_flanks (WSize w) /\ gen_win_lo_str p l r = p - l /\ gen_win_hi_str p l r = p + r /\ gen_win_lo_mem p l r = p - l /\ gen_win_hi_mem p l r = p + r)
  /\
  (forall size (i : iv), (gen_clip_start (fst i) size, gen_clip_stop (snd i) size) = clip_iv size i)
  /\
  (forall n M i, gen_ceb_max = max_block /\ gen_ceb_cond n M = (n >? M) /\ gen_ceb_nblocks n M = m_nblocks n M /\ gen_ceb_lo i M = i * M /\ gen_ceb_hi i M = (i + 1) * M).
Proof.
  exact (conj b_ce_loop_cond (conj b_ce_size_in (conj b_ce_emit_stop (conj b_ce_carry_start (conj b_ce_size_after (conj b_ce_tail_cond (conj b_cl_loop_cond (conj b_cl_bounds (conj b_cl_after (conj b_sum_and_n (conj b_br_cond (conj b_br_stops (conj b_br_add (conj b_hr_total (conj b_mean_reduction (conj b_add_hist_count (conj b_sum_reduction (conj b_stream_node (conj b_computation_node (conj b_gc_changed (conj b_gc_index (conj b_gb_fast_test (conj b_gb_fast_start (conj b_gb_bounds (conj b_gb_group (conj b_join_fields (conj b_ufunc_operand_order (conj b_stranded_forward (conj b_add_columns (conj b_gb_empty_test (conj b_win_flanks (conj b_clip b_count_blocks)))))))))))))))))))))))))))))))).
Qed.
Print Assumptions C11_source_tie.

(* ---------- non-vacuity ---------- *)
(* a 7-entry data set with three groups, cut inside the first and the second group and into single entries *)
Example C11_nonvacuous_groupby :
  let cs := [[(1, 0); (1, 1)]; [(1, 2); (2, 3)]; [(2, 4)]; [(5, 5); (5, 6)]] in
  stream_groupby true cs = [(1, [0; 1; 2]); (2, [3; 4]); (5, [5; 6])]
  /\ stream_groupby true cs = runs (concat cs)
  /\ Forall (fun c => c <> []) cs.
Proof. vm_compute. repeat split; try reflexivity. repeat constructor; discriminate. Qed.

Example C11_nonvacuous_reductions :
  let cs := [[3; 0]; [7]; [1; 1; 4]] in
  stream_sum_n cs = (16, 6)
  /\ stream_bincount cs = Some [1; 2; 0; 1; 1; 0; 0; 1]
  /\ stream_hist 4 0 8 cs = Some [3; 1; 1; 1]
  /\ stream_kmer_counts 2 [[[0; 1; 2]]; [[1; 2]; [3]]] = Some [0;0;0;0; 1;0;0;0; 0;2;0;0; 0;0;0;0].
Proof. vm_compute. repeat split; reflexivity. Qed.

Example C11_nonvacuous_rechunk :
  chunk_entries_pinned 3 [[0; 1; 2; 3; 4; 5; 6; 7; 8; 9]] = Some [[0; 1; 2]; [3; 4; 5; 6; 7; 8; 9]]
  /\ chunk_entries_fixed 3 [[0; 1; 2; 3; 4; 5; 6; 7; 8; 9]] = Some [[0; 1; 2]; [3; 4; 5]; [6; 7; 8]; [9]]
  /\ chunk_lines 2 [[0; 1; 2]; [3]] = Some [[0; 1]; [2; 3]; []]
  /\ no_double 3 0 [[0; 1]; [2; 3]; [4; 5; 6]].
Proof. vm_compute. repeat split; try reflexivity; lia. Qed.

(* a two-chromosome genome: the streamed pileup sum through the pull machine is the in-memory sum, the graph meets
   the hypotheses of C11_graph_lockstep with m = 2 *)
Example C11_nonvacuous_graph :
  let sizes := [6; 4] in
  let csa := [[(0, (1, 4))]; [(0, (2, 6)); (1, (0, 3))]] in
  let g := fst (pipeline_graph PPileupSum sizes (per_chromosome [0; 1] csa) (per_chromosome [0; 1] csa)) in
  run_pipeline PPileupSum [0; 1] sizes csa csa = Some (GZ 10)
  /\ spec_pipeline PPileupSum [0; 1] sizes (concat csa) (concat csa) = GZ 10
  /\ run_graph g 7 = ROk [GZ 7; GZ 3]
  /\ val g 7 0 = Some (GZ 7) /\ val g 7 1 = Some (GZ 3) /\ val g 7 2 = None
  /\ (2 <= S (max_stream_len g))%nat.
Proof. vm_compute. repeat split; try reflexivity. lia. Qed.

(* k = 1 (possible since the window-of-one repair), a streamable function without reduction, and the hypotheses of
   C11_pipeline_spec: data in genome order with an absent chromosome, windows on every chromosome with equal column counts (the guard of sum(axis=0)); the last line is a mean(axis=0)
   over a genome with a chromosome without windows *)
Example C11_nonvacuous_phase3 :
  stream_kmer_counts 1 [[[0; 1; 1]]; [[3]; [1; 2]]] = Some [1; 3; 1; 1]
  /\ stream_map spec_revcomp [[[0; 1; 2; 3]; [0]]; [[1; 1; 2; 3; 0]]] = [[[0; 1; 2; 3]; [3]]; [[3; 0; 1; 2; 2]]]
  /\ ordered [0; 1; 2] [(0, (1, 4)); (0, (2, 6)); (2, (0, 3))]
  /\ pipeline_guard PValuesSum0Pinned [0; 1] [6; 4] [(0, (1, 4)); (1, (0, 3))] [(0, (1, 3)); (1, (1, 3))]
  /\ run_pipeline PValuesMean0 [0; 1; 2] [6; 5; 4] [[(0, (1, 4))]; [(0, (2, 6)); (2, (0, 3))]] [[(0, (1, 3)); (2, (1, 3))]]
     = Some (GSN [(2, 2); (3, 2)]).
Proof.
  split; [vm_compute; reflexivity|]. split; [vm_compute; reflexivity|].
  split; [exists [(0, (1, 4)); (0, (2, 6))], [(2, (0, 3))]; repeat split; [repeat constructor|];
          exists [], [(2, (0, 3))]; repeat split; [constructor|];
          exists [(2, (0, 3))], []; repeat split; repeat constructor|].
  split; [|vm_compute; reflexivity].
  exists 2%nat. unfold full_columns. cbn [all_rows combine map].
  constructor; [split; [vm_compute; discriminate|vm_compute; reflexivity]|].
  constructor; [split; [vm_compute; discriminate|vm_compute; reflexivity]|constructor].
Qed.

(* operand order matters and is kept: 10 - p versus p - 10 on a two-chromosome pileup; a '.' window is reversed *)
Example C11_nonvacuous_phase4 :
  let csa := [[(0, (1, 4))]; [(0, (2, 6)); (1, (0, 3))]] in
  run_expr (TBin BSub (TConst 10) TTrack) QSum [0; 1] [6; 4] csa csa = Some (GZ 90)
  /\ run_expr (TBin BSub TTrack (TConst 10)) QSum [0; 1] [6; 4] csa csa = Some (GZ (-90))
  /\ (exists nodes t, compile (TBin BSub (TConst 10) TTrack) 5 12 = (nodes, ONode t))
  /\ run_stranded SValues [0; 1] [6; 4] csa [[(0, ((0, 3), 2)); (1, ((1, 4), 0))]] = Some (GR [[2; 1; 0]; [1; 1; 0]])
  /\ spec_stranded SValues [0; 1] [6; 4] (concat csa) [(0, ((0, 3), 2)); (1, ((1, 4), 0))] = GR [[2; 1; 0]; [1; 1; 0]].
Proof. vm_compute. repeat split; try reflexivity. eexists; eexists; reflexivity. Qed.

(* keyword forms: an even window_size gives a window of exactly that width; a chunk longer than the block size *)
Example C11_nonvacuous_phase6 :
  m_win_flanks (WSize 4) = (2, 2) /\ m_win_flanks (WSize 5) = (2, 3) /\ m_win_flanks (WFlank 2) = (2, 3)
  /\ run_windows (WSize 4) WWindows [0; 1] [12; 9] [[(0, (6, 8))]; [(0, (10, 11)); (1, (1, 3))]]
     = Some (GT [GIv [(4, 8); (8, 12)]; GIv [(0, 3)]])
  /\ count_encoded_flat 3 2 [0; 1; 1; 0; 1; 1; 1; 0] = [3; 5]
  /\ m_nblocks 8 3 = 3.
Proof. vm_compute. repeat split; reflexivity. Qed.

(* Round 6 (fix-3): the genomes on which the old reductions failed (C11_pipeline_sum_refuted) now give the in-memory
   values: per-window sums listed; column sums with a chromosome without windows (last / first) and with a longest
   window that differs between chromosomes; the hypotheses of C11_pipeline_sum_spec hold for the first of them *)
Example C11_nonvacuous_round6 :
  run_pipeline PValuesSum [0; 1] [4; 4] [[(0, (0, 2)); (1, (1, 3))]] [[(0, (0, 2))]; [(1, (1, 3))]] = Some (GL [2; 2])
  /\ run_pipeline PValuesSum1 [0; 1] [4; 4] [[(0, (0, 2)); (1, (1, 3))]] [[(0, (0, 2))]; [(1, (1, 3))]] = Some (GL [2; 2])
  /\ run_pipeline PValuesSum0 [0; 1] [4; 4] [[(0, (0, 2)); (1, (1, 3))]] [[(0, (0, 2))]] = Some (GL [1; 1])
  /\ run_pipeline PValuesSum0 [0; 1] [4; 4] [[(0, (0, 2)); (1, (1, 3))]] [[(1, (0, 3))]] = Some (GL [0; 1; 1])
  /\ run_pipeline PValuesSum0 [0; 1] [4; 4] [[(0, (0, 2)); (1, (1, 3))]] [[(0, (0, 1))]; [(1, (1, 4))]] = Some (GL [2; 1; 0])
  /\ reduce1 red_cols [op_colsums_fixed [GR []]; op_colsums_fixed [GR [[1; 2; 3]; [1]]]; op_colsums_fixed [GR [[5; 5]]]]
     = Some (GL [7; 7; 3])
  /\ (NoDup [0; 1] /\ ordered [0; 1] (concat [[(0, (0, 2)); (1, (1, 3))]]) /\ ordered [0; 1] (concat [[(0, (0, 2))]; [(1, (1, 3))]])).
Proof.
  split; [vm_compute; reflexivity|]. split; [vm_compute; reflexivity|]. split; [vm_compute; reflexivity|].
  split; [vm_compute; reflexivity|]. split; [vm_compute; reflexivity|]. split; [vm_compute; reflexivity|].
  split; [repeat constructor; simpl; intuition lia|].
  split; exists [(0, (0, 2))], [(1, (1, 3))]; (repeat split; [repeat constructor|]);
    exists [(1, (1, 3))], []; repeat split; repeat constructor.
Qed.
